"""C07 — ilength inverts length on [0, L], is monotone, total and terminates.
Theorems: coq/Props/C07.v (over R for an abstract length function; structural
stall lemma for any carrier; binary64 witnesses).

Tie: the implementation's own length(0, .) values are recorded along every
ilength call (class-level wrappers around Line/QuadraticBezier/CubicBezier/Arc
.length) and the loop model (Model/Length.v: inv_arclength_seg /
inv_arclength_path, rep = false) is replayed on that table in PrimFloat INSIDE
Coq: same exit (return / stall-return / ValueError / MaxIts) and bit-identical t.

Implementation-level predicate: 0 <= t <= 1, |length(0,t) - s| <= max(s_tol,
4 ulp(L)) (8 ulp(L) through Path.length(0,T), which goes through T2t again),
non-decreasing over sorted s, ValueError outside [0,L], every call returns
within 20 s.
"""
import math, warnings, signal, json, time
import common
from common import coq_list

S_TOL = 1e-12
SCALES = [1e-3, 1.0, 1e3, 1e4, 1e5, 1e6]
STALL_REPEATS = 40


class Timeout(Exception):
    pass


class StallAbort(BaseException):
    """raised by the recorder when the bisection queried the same t STALL_REPEATS
    times in a row: by theorem C07_stall_refuted (the loop body is a function of
    (t_lower, t_upper) and of length(0,t) only) the call can only end in
    Exception('Maximum iterations') — we do not wait 10000 quadratures for it."""


def _alarm(sig, frm):
    raise Timeout()


def guarded(fn, secs=20):
    old = signal.signal(signal.SIGALRM, _alarm)
    signal.alarm(secs)
    try:
        return fn()
    finally:
        signal.alarm(0)
        signal.signal(signal.SIGALRM, old)


# ------------------------------------------------------------- recorder
class Rec:
    on = False
    calls = []          # (id(obj), t0, t1, value)
    last = None
    repeats = 0
    abort_slow = True


def install_recorder():
    from svgpathtools import Line, QuadraticBezier, CubicBezier, Arc
    for cls in (Line, QuadraticBezier, CubicBezier, Arc):
        if getattr(cls.length, '_c07', False):
            continue
        orig = cls.length

        def length(self, *a, _orig=orig, _slow=(cls in (CubicBezier, Arc)), **kw):
            v = _orig(self, *a, **kw)
            if Rec.on:
                t0 = a[0] if len(a) > 0 else kw.get('t0', 0)
                t1 = a[1] if len(a) > 1 else kw.get('t1', 1)
                Rec.calls.append((id(self), float(t0), float(t1), float(v)))
                key = (id(self), float(t0), float(t1))
                if key == Rec.last:
                    Rec.repeats += 1
                    if Rec.repeats >= STALL_REPEATS and _slow and Rec.abort_slow:
                        raise StallAbort()
                else:
                    Rec.last, Rec.repeats = key, 0
            return v
        length._c07 = True
        cls.length = length


# ------------------------------------------------------------- generator
def rnd_c(rng, sc=1.0):
    return complex(rng.uniform(-sc, sc), rng.uniform(-sc, sc))


def unit_segment(rng, kind, start=None):
    from svgpathtools import Line, QuadraticBezier, CubicBezier, Arc
    s = rnd_c(rng) if start is None else start
    if kind == 'line':
        return ('line', [s, s + rnd_c(rng) + 0.3])
    if kind == 'quad':
        return ('quad', [s, s + rnd_c(rng), s + rnd_c(rng) + 1])
    if kind == 'quad-probe':
        return ('quad', [0j, 1 + 1j, 2 + 0j])
    if kind == 'cubic':
        return ('cubic', [s, s + rnd_c(rng), s + rnd_c(rng), s + rnd_c(rng) + 1])
    rx = rng.uniform(0.3, 2); ry = rx * rng.choice([1, rng.uniform(0.2, 1), rng.uniform(1, 5)])
    e = s + rnd_c(rng) * min(rx, ry) + 0.05
    return ('arc', [s, complex(rx, ry), rng.choice([0.0, 30.0, 90.0, rng.uniform(-180, 180)]),
                    rng.random() < 0.5, rng.random() < 0.5, e])


def scale_seg(seg, S, off):
    kind, p = seg
    if kind == 'arc':
        s, r, rot, la, sw, e = p
        return (kind, [s * S + off, r * S, rot, la, sw, e * S + off])
    return (kind, [z * S + off for z in p])


def mk_seg(seg):
    from svgpathtools import Line, QuadraticBezier, CubicBezier, Arc
    kind, p = seg
    if kind == 'line':
        return Line(*p)
    if kind == 'quad':
        return QuadraticBezier(*p)
    if kind == 'cubic':
        return CubicBezier(*p)
    return Arc(p[0], p[1], p[2], p[3], p[4], p[5])


def mk_curve(desc):
    from svgpathtools import Path
    if desc['type'] == 'path':
        return Path(*[mk_seg(s) for s in desc['segs']])
    return mk_seg(desc['segs'][0])


def gen_curves(rng, per_scale):
    out = []
    kinds = ['line', 'quad', 'quad-probe', 'cubic', 'arc', 'path2', 'path3', 'path4', 'quad', 'cubic', 'arc', 'path3']
    for S in SCALES:
        # paths that contain EQUAL segments at different positions (Path.t2T / Path.index must
        # address the segment by position): a stroke drawn forth-back-forth, a closed curve of two
        # half arcs traced twice, the same cubic / quadratic passed twice around another segment
        off = rnd_c(rng) * S * rng.choice([0, 1])
        a, b = rnd_c(rng), rnd_c(rng) + 2
        r = rng.uniform(0.5, 2)
        h1 = ('arc', [a, complex(r, r), 0.0, False, True, a + 2 * r])
        h2 = ('arc', [a + 2 * r, complex(r, r), 0.0, False, True, a])
        cub = unit_segment(rng, 'cubic', start=a)
        qd = unit_segment(rng, 'quad', start=a)
        ln = ('line', [cub[1][-1], a])
        for segs in ([('line', [a, b]), ('line', [b, a]), ('line', [a, b])],
                     [h1, h2, h1, h2],
                     rng.choice([[cub, ln, cub], [qd, ('line', [qd[1][-1], a]), qd, ('line', [qd[1][-1], a])]])):
            out.append({'type': 'path', 'scale': S, 'repeated': True, 'segs': [scale_seg(sg, S, off) for sg in segs]})
        for kind in kinds[:per_scale]:
            off = rnd_c(rng) * S * rng.choice([0, 1, 10])
            if kind.startswith('path'):
                n = int(kind[4:])
                segs, cur = [], rnd_c(rng)
                for _ in range(n):
                    sg = unit_segment(rng, rng.choice(['line', 'quad', 'cubic', 'arc']), start=cur)
                    segs.append(sg)
                    cur = sg[1][-1]
                out.append({'type': 'path', 'scale': S, 'segs': [scale_seg(s, S, off) for s in segs]})
            else:
                sg = unit_segment(rng, kind)
                if kind == 'quad-probe':
                    off = 0
                out.append({'type': 'seg', 'scale': S, 'segs': [scale_seg(sg, S, off)]})
    return out


def desc_json(desc):
    segs = []
    for kind, p in desc['segs']:
        if kind == 'arc':
            segs.append({'kind': kind, 'start': common.chex(p[0]), 'radius': common.chex(p[1]), 'rotation': common.fhex(p[2]),
                         'large_arc': bool(p[3]), 'sweep': bool(p[4]), 'end': common.chex(p[5])})
        else:
            segs.append({'kind': kind, 'points': [common.chex(z) for z in p]})
    return {'type': desc['type'], 'scale': desc['scale'], 'segs': segs}


def desc_from_json(j):
    cx = lambda ab: complex(float.fromhex(ab[0]), float.fromhex(ab[1]))
    segs = []
    for s in j['segs']:
        if s['kind'] == 'arc':
            segs.append(('arc', [cx(s['start']), cx(s['radius']), float.fromhex(s['rotation']), s['large_arc'], s['sweep'], cx(s['end'])]))
        else:
            segs.append((s['kind'], [cx(p) for p in s['points']]))
    return {'type': j['type'], 'scale': j.get('scale', 1.0), 'segs': segs}


# ------------------------------------------------------------- one call
def call_ilength(desc, s, kw=None):
    """fresh curve, recorded call with the explicit keyword arguments kw (s_tol, maxits,
    error, min_depth).  Returns dict(outcome, t, tables ...)"""
    kw = kw or {}
    curve = mk_curve(desc)
    Rec.calls, Rec.last, Rec.repeats = [], None, 0
    # quadratics are fast: let the real code run into its own exception
    Rec.abort_slow = True
    res = {'s': s}
    t_begin = time.time()
    with warnings.catch_warnings(record=True) as wl:
        warnings.simplefilter('always')
        Rec.on = True
        try:
            t = guarded(lambda: curve.ilength(s, **kw), 20)
            res['outcome'] = 'ret'
            res['t'] = float(t)
        except StallAbort:
            res['outcome'] = 'maxits'
            res['aborted'] = True
        except Timeout:
            res['outcome'] = 'timeout'
            res['stalled'] = Rec.repeats >= 5
        except ValueError as e:
            res['outcome'] = 'valueerror'
            res['msg'] = str(e)
        except AssertionError:
            res['outcome'] = 'assert'
        except Exception as e:          # noqa
            res['outcome'] = 'maxits' if 'Maximum iterations' in str(e) else 'exception'
            res['msg'] = '%s: %s' % (type(e).__name__, str(e)[:200])
        finally:
            Rec.on = False
    if res['outcome'] == 'ret' and any('as close as a float' in str(w.message) for w in wl):
        res['outcome'] = 'stallret'
    res['secs'] = time.time() - t_begin
    # tables: per segment object, t1 -> value for calls with t0 == 0
    segs = list(curve) if desc['type'] == 'path' else [curve]
    tables = []
    for sg in segs:
        tb = {}
        for (i, t0, t1, v) in Rec.calls:
            if i == id(sg) and t0 == 0.0:
                tb.setdefault(t1, v)        # the first evaluation is the one the search / bisection used
        tables.append(tb)
    res['tables'] = tables
    res['curve'] = curve
    res['kw'] = kw
    # Path: which segment the code's search selects, the s it hands to it, and the last
    # (t, length(0,t)) the segment's bisection evaluated — the value the call returned through t2T
    if desc['type'] == 'path':
        lsum = 0.0
        for k, (sg, tb) in enumerate(zip(segs, tables)):
            lk = tb.get(1.0)
            if lk is None:
                break
            if lsum <= s <= lsum + lk:
                last = [(t1, v) for (i, t0, t1, v) in Rec.calls if i == id(sg) and t0 == 0.0 and t1 != 1.0]
                res['inner'] = {'k': k, 's_seg': min(s - lsum, lk), 'len_k': lk, 'queries': len(last),
                                'last': last[-1] if last else None, 'is_line': desc['segs'][k][0] == 'line'}
                break
            lsum += lk
    return res


def detect_variant():
    """which inv_arclength is installed?  Probes (not part of the judged cases):
       rep  — the stall exit fires (repair C07-ilength-stall-exit): the 1e5 quadratic
              witness returns instead of raising "Maximum iterations";
       prep — the Path branch clamps s - lsum to the segment length (repair
              C07-path-ilength-inner-range): the three-line boundary witness returns."""
    from svgpathtools import QuadraticBezier, Path, Line
    with warnings.catch_warnings():
        warnings.simplefilter('ignore')
        q = QuadraticBezier(0, 1e5 + 1e5j, 2e5)
        try:
            guarded(lambda: q.ilength(229558.7149392638 / 3), 20)
            rep_ = True
        except Exception:
            rep_ = False
        p = Path(Line(0, 0.1), Line(0.1, 0.1 + 0.2j), Line(0.1 + 0.2j, 1 + 0.2j))
        try:
            guarded(lambda: p.ilength(0.1 + 0.2), 20)
            prep_ = True
        except Exception:
            prep_ = False
    return rep_, prep_


REQUIRED = {'rep': ['C07_returns_partial', 'C07_stall_repaired_returns', 'C07_repaired_witness'],
            'prep': ['C07_path_total_partial', 'C07_path_total', 'C07_path_boundary_repaired_witness'],
            'always': ['C07_stall_refuted', 'C07_path_boundary_refuted', 'C07_result', 'C07_terminates', 'C07_ends',
                       'C07_range', 'C07_monotone', 'C07_path']}


def fl(x):
    """Coq PrimFloat literal of a Python float"""
    x = float(x)
    if x != x:
        return 'nan'
    if x == math.inf:
        return 'infinity'
    if x == -math.inf:
        return 'neg_infinity'
    h = abs(x).hex()
    return ('(PrimFloat.opp %s)' % h) if math.copysign(1, x) < 0 else h


OUT_CODE = {'ret': 0, 'stallret': 1, 'maxits': 2, 'valueerror': 3, 'assert': 4}

OKDEF = r'''
From Coq Require Import PrimFloat.
From SVP Require Import Base.FloatK Model.Length.
Open Scope float_scope.
(* which variant of the code is installed (detected by the harness's probes) *)
Definition REP : bool := @REP@.
Definition PREP : bool := @PREP@.
Definition table : Type := list (float * float).
Fixpoint lookup (tb : table) (t : float) : float :=
  match tb with
  | nil => nan
  | (k, v) :: r => if PrimFloat.eqb k t then v else lookup r t
  end.
(* (segments: (is_line, table of length(0,.), L_k), t2T bounds (start_k, end_k), path?, L, s,
    requested s_tol, requested maxits, observed exit code, observed t) *)
Definition casety : Type :=
  (list (bool * table * float) * list (float * float) * bool * float * float * float * nat * nat * float)%type.
Definition t2T (bounds : list (float * float)) (k : nat) (t : float) : float :=
  let ab := nth k bounds (nan, nan) in
  PrimFloat.add (PrimFloat.mul (PrimFloat.sub (snd ab) (fst ab)) t) (fst ab).
Definition run (c : casety) : ires (K:=float) :=
  let '(segs, bounds, is_path, L, s, tol, maxits, code, et) := c in
  if is_path then
    inv_arclength_path NumF REP PREP (t2T bounds)
      (map (fun x => (fst (fst x), lookup (snd (fst x)), snd x)) segs) L s tol maxits
  else match segs with
       | (il, tb, _) :: _ => inv_arclength_seg NumF REP il (lookup tb) L s tol maxits
       | nil => EAssert
       end.
Definition ok (c : casety) : nat :=
  let '(segs, bounds, is_path, L, s, tol, maxits, code, et) := c in
  match run c, code with
  | IRet t, 0%nat => if PrimFloat.eqb t et then 0%nat else 2%nat
  | IStall t, 1%nat => if PrimFloat.eqb t et then 0%nat else 2%nat
  | EMaxIts, 2%nat => 0%nat
  | EValueError, 3%nat => 0%nat
  | EAssert, 4%nat => 0%nat
  | _, _ => 1%nat
  end.
'''
HEADER = '''From Coq Require Import ZArith List Bool.
From SVP Require Import Base.Num Base.Cplx Base.CaseLib.
Import ListNotations.
Open Scope nat_scope.
'''


def case_term(desc, res, L):
    curve = res['curve']
    is_path = desc['type'] == 'path'
    segs = list(curve) if is_path else [curve]
    sterms = []
    for (kind, _), sg, tb in zip(desc['segs'], segs, res['tables']):
        Lk = tb.get(1.0, float('nan'))
        sterms.append('(%s, %s, %s)' % ('true' if kind == 'line' else 'false',
                                        coq_list(['(%s, %s)' % (fl(k), fl(v)) for k, v in tb.items()]), fl(Lk)))
    bounds = []
    if is_path:
        curve._calc_lengths()
        for k in range(len(curve)):
            a = sum(curve._lengths[:k])
            bounds.append('(%s, %s)' % (fl(a), fl(a + curve._lengths[k])))
    kw = res.get('kw') or {}
    if not is_path:
        L = res['tables'][0].get(1.0, L)           # curve_length as the call computed it
    return '(%s, %s, %s, %s, %s, %s, %d%%nat, %d%%nat, %s)' % (
        coq_list(sterms), coq_list(bounds), 'true' if is_path else 'false', fl(L), fl(res['s']),
        fl(kw.get('s_tol', S_TOL)), kw.get('maxits', 10000), OUT_CODE[res['outcome']], fl(res.get('t', 0.0)))


def classify(desc, res):
    kinds = '+'.join(k for k, _ in desc['segs']) if desc['type'] == 'path' else desc['segs'][0][0]
    return kinds


# ------------------------------------------------------------------- run
def run(rep, tier, seed, replay=None):
    rng = common.mkrng(seed, 'C07')
    quick = (tier == 'quick')
    install_recorder()
    import numpy as np
    np.seterr(all='ignore')
    with common.Scratch() as tmp:
        common.std_static(rep, 'C07', (), (), tmp)
        v_rep, v_prep = detect_variant()
        rep.cov['variant'] = {'stall_exit_repaired(rep)': v_rep, 'path_clamp_repaired(prep)': v_prep}
        need = REQUIRED['always'] + (REQUIRED['rep'] if v_rep else []) + (REQUIRED['prep'] if v_prep else [])
        missing = [t for t in need if t not in rep.cov.get('theorems', [])]
        rep.cov['required_theorems'] = need
        if missing:
            rep.violation('Props/C07.v lacks the theorems required for the installed variant: %s' % missing,
                          {'kind': 'theorem', 'missing': missing, 'variant': rep.cov['variant']},
                          found_input=False, key='props')
        okdef = OKDEF.replace('@REP@', 'true' if v_rep else 'false').replace('@PREP@', 'true' if v_prep else 'false')
        if replay:
            r = json.load(open(replay))['replay']
            curves = [desc_from_json(r['curve'])]
            forced_s = [float.fromhex(r['s'])] if 's' in r else None
            replay_kw = r.get('kwargs') or {}
        else:
            curves = []
            import glob, os
            for f in sorted(glob.glob(os.path.join(common.VERIF, 'corpus', 'C07', '*.json'))):     # corpus first
                r = json.load(open(f))['replay']
                d = desc_from_json(r['curve'])
                d['extra_s'] = [float.fromhex(x) for x in r.get('s_list', [])]
                curves.append(d)
            curves += gen_curves(rng, 12)
            if not quick:
                curves = curves + gen_curves(rng, 12) + gen_curves(rng, 12)
            forced_s = None
        nrand = 6 if quick else 16
        narg = 4 if quick else 10
        terms, meta = [], []
        evals, nontriv, dist = 0, 0, {}
        stalls, slowest = 0, 0.0
        for desc in curves:
            dname = '%s@%g' % (('path%d' % len(desc['segs']) + ('-repeated' if desc.get('repeated') else '')) if desc['type'] == 'path' else desc['segs'][0][0], desc['scale'])
            dist[dname] = dist.get(dname, 0) + 1
            try:
                with warnings.catch_warnings():
                    warnings.simplefilter('ignore')
                    c0 = mk_curve(desc)
                    L = float(c0.length())
            except Exception:
                continue
            if not (L > 0 and math.isfinite(L)):
                continue
            ulpL = math.ulp(L)
            atol = max(S_TOL, (8 if desc['type'] == 'path' else 4) * ulpL)
            # ---- the s values
            svals = [0.0, L]
            if desc['type'] == 'path':
                lens = [float(sg.length()) for sg in c0]
                acc = 0.0
                for i_, lk in enumerate(lens):
                    # a grid inside every segment (path-level monotonicity / inverse over all segments)
                    svals += [acc + lk * f_ for f_ in ((0.25, 0.5, 0.75) if desc.get('repeated') else (0.5,))]
                    acc += lk
                    if i_ < len(lens) - 1:
                        svals += [acc, math.nextafter(acc, math.inf), math.nextafter(acc, -math.inf)]
            svals += [rng.uniform(0, L) for _ in range(nrand)] + [L / 3] + desc.get('extra_s', [])
            if forced_s is not None:
                svals = forced_s
            svals = sorted(set(x for x in svals if 0 <= x <= L))
            outside = [] if forced_s is not None else [-1.0, -5e-324, math.nextafter(L, math.inf), L * 1.5 + 1]
            prev_t, prev_s = None, None
            calls = [(x, {}) for x in svals + outside]
            # explicit, non-default arguments (tighter AND looser s_tol, maxits, error, min_depth)
            if forced_s is None:
                for _ in range(narg):
                    kw = {}
                    kw['s_tol'] = rng.choice([1e-16, 1e-14, 1e-9, 1e-6, 1e-3 * L])
                    if rng.random() < 0.5:
                        kw['maxits'] = rng.choice([2000, 40, 12])
                    if rng.random() < 0.4:
                        kw['error'] = rng.choice([1e-9, 1e-6])
                    if rng.random() < 0.4:
                        kw['min_depth'] = rng.choice([3, 7])
                    calls.append((rng.uniform(0, L), kw))
            elif replay_kw:
                calls = [(x, replay_kw) for x in svals]
            for s, kw in calls:
                res = call_ilength(desc, s, kw)
                evals += 1
                slowest = max(slowest, res['secs'])
                inside = 0 <= s <= L
                req_tol = kw.get('s_tol', S_TOL)
                atol = max(req_tol, (8 if desc['type'] == 'path' else 4) * ulpL)
                rp = {'kind': 'ilength', 'curve': desc_json(desc), 's': common.fhex(s), 'L': common.fhex(L),
                      'repr': repr(res['curve'])[:600], 'outcome': res['outcome'], 'msg': res.get('msg'),
                      't': res.get('t'), 'scale': desc['scale'], 'kwargs': kw, 'how': './check C07 --replay <this file>'}
                o = res['outcome']
                if o == 'maxits' and kw.get('maxits', 10000) < 1100:
                    pass            # a requested iteration budget below 1075 halvings may legitimately run out (model tie judges it)
                elif not inside:
                    if o != 'valueerror':
                        rep.violation('C07: ilength(%r) with s outside [0, L=%r] did not raise ValueError (%s)' % (s, L, o),
                                      rp, key='ilength-outside-no-valueerror')
                else:
                    nontriv += 1 if 0 < s < L else 0
                    if o == 'maxits':
                        stalls += 1
                        rep.violation('C07: %s.ilength(%r) raises "Maximum iterations" (L=%r, scale %g)%s'
                                      % (classify(desc, res), s, L, desc['scale'],
                                         ' [aborted after %d identical iterations]' % STALL_REPEATS if res.get('aborted') else ''),
                                      rp, key='ilength-bisection-stall-maxits')
                    elif o == 'timeout':
                        rep.violation('C07: ilength(%r) did not return within 20 s (L=%r)' % (s, L), rp,
                                      key='ilength-bisection-stall-maxits' if res.get('stalled') else 'ilength-timeout')
                    elif o == 'valueerror':
                        rep.violation('C07: ilength(%r) raises ValueError although 0 <= s <= L=%r: %s' % (s, L, res.get('msg')), rp,
                                      key='ilength-path-inner-valueerror' if desc['type'] == 'path' else 'ilength-inside-valueerror')
                    elif o in ('assert', 'exception'):
                        rep.violation('C07: ilength(%r) raised %s' % (s, res.get('msg', 'AssertionError')), rp,
                                      key='ilength-' + o)
                    else:
                        t = res['t']
                        if not (0 <= t <= 1):
                            rep.violation('C07: ilength(%r) = %r is outside [0,1]' % (s, t), rp, key='ilength-t-out-of-range')
                        else:
                            with warnings.catch_warnings():
                                warnings.simplefilter('ignore')
                                try:
                                    lkw = {k_: kw[k_] for k_ in ('error', 'min_depth') if k_ in kw}
                                    # Path.length(T0, T1, error) measures its pieces with the DEFAULT error: with a
                                    # non-default error a path is judged on the segment level below instead
                                    back = None if (lkw and desc['type'] == 'path') else float(mk_curve(desc).length(0, t, **lkw))
                                except Exception as e:        # noqa  (C05's subject: T2t fall-off)
                                    back = None
                            if back is not None and abs(back - s) > atol:
                                rep.violation('C07: length(0, ilength(%r%s)) = %r differs from s by %.3g > max(requested s_tol %g, %d ulp(L)) = %.3g'
                                              % (s, ''.join(', %s=%r' % kv for kv in sorted(kw.items())), back, abs(back - s), req_tol,
                                                 8 if desc['type'] == 'path' else 4, atol), rp,
                                              key='ilength-inverse-tolerance' + ('-path' if desc['type'] == 'path' else ''))
                            # Path: the segment-level statement on the implementation's own numbers — the value
                            # length(0, t_seg) the selected segment's bisection stopped at vs the s handed to it
                            inn = res.get('inner')
                            if inn and not inn['is_line'] and inn['last'] and o in ('ret', 'stallret'):
                                serr = abs(inn['last'][1] - inn['s_seg'])
                                # 16 ulp(L): on a 1e5-sized path the implementation's own length(0,t) carries a
                                # few ulp(L) of quadrature noise (observed 4.9 ulp in the thorough tier: a first
                                # bound of 4 ulp(L) was a false alarm of this judge)
                                if serr > max(req_tol, 16 * ulpL):
                                    rep.violation('C07: Path.ilength(%r%s): segment %d stopped at length(0,t) = %r for s_seg = %r: off by %.3g > '
                                                  'max(requested s_tol %g, 16 ulp(L)) = %.3g'
                                                  % (s, ''.join(', %s=%r' % kv for kv in sorted(kw.items())), inn['k'], inn['last'][1],
                                                     inn['s_seg'], serr, req_tol, max(req_tol, 16 * ulpL)), rp,
                                                  key='ilength-path-segment-tolerance')
                            if s == 0 and t != 0:
                                rep.violation('C07: ilength(0) = %r' % t, rp, key='ilength-ends')
                            if s == L and t != 1:
                                rep.violation('C07: ilength(L) = %r' % t, rp, key='ilength-ends')
                            if not kw and prev_t is not None and t < prev_t - 1e-9:
                                rep.violation('C07: not monotone: ilength(%r) = %r > ilength(%r) = %r' % (prev_s, prev_t, s, t), rp,
                                              key='ilength-not-monotone')
                            if not kw:
                                prev_t, prev_s = t, s
                # ---- model tie
                if o in OUT_CODE:
                    try:
                        terms.append(case_term(desc, res, L))
                        meta.append((desc, s, L, res['outcome'], res.get('t')))
                    except Exception as e:      # noqa
                        rep.notes.append('case term failed: %r' % e)
        texts = []
        shard = 40
        for i in range(0, len(terms), shard):
            texts.append(HEADER + okdef + '\nDefinition the_cases : list casety :=\n [%s].\n' % ';\n  '.join(terms[i:i + shard]) +
                         'Eval vm_compute in (run_cases ok the_cases).\n')
        res = common.run_case_files(texts, tmp, prefix='cases_c07', timeout=900)
        agree = 0
        for k, (rc, out, dt) in enumerate(res):
            codes = common.parse_codes(out) if rc == 0 else None
            if codes is None:
                rep.violation('correspondence case file failed to evaluate', {'kind': 'cases', 'error': out[-1500:]},
                              found_input=False, key='cases-error')
                continue
            agree += min(shard, len(terms) - k * shard) - len(codes)
            for i, c in codes:
                desc, s, L, oc, t = meta[k * shard + i]
                rep.violation('C07: the loop model replayed in binary64 on the recorded length(0,.) table %s (implementation: %s, t=%r)'
                              % ('exits differently' if c == 1 else 'returns a different t', oc, t),
                              {'kind': 'ilength', 'curve': desc_json(desc), 's': common.fhex(s), 'L': common.fhex(L),
                               'outcome': oc, 't': t, 'model': 'exit' if c == 1 else 't',
                               'note': 'correspondence (bit-exact loop model) no longer holds on this call; the property '
                                       'itself is judged separately on every call (keys ilength-inverse-*)'},
                              found_input=False,
                              key='ilength-model-exit' if c == 1 else 'ilength-model-t')
        rep.cov['evaluations'] = evals
        rep.cov['traces_validated_against_impl'] = agree
        rep.cov['distinct_nontrivial'] = nontriv
        rep.cov['rule'] = ('one evaluation = one ilength call on a fresh curve (recorded); non-trivial = 0 < s < L; every call is replayed '
                           'by the PrimFloat loop model inside Coq on the recorded length(0,.) values (same exit, bit-identical t)')
        rep.cov['input_distribution'] = dist
        rep.cov['stalled_calls'] = stalls
        rep.cov['slowest_call_s'] = round(slowest, 2)
        rep.cov['samples'] = [{'curve': repr(mk_curve(m[0]))[:200], 's': m[1], 'L': m[2], 'outcome': m[3], 't': m[4]} for m in meta[2:5]]
    rep.assumptions += ['length(0,t) is a deterministic function of t (recorded table); scipy quad / libm are oracles',
                        'a bisection that queried the same t %d times in a row on a CubicBezier/Arc is aborted and counted as '
                        '"Maximum iterations" (justified by theorem C07_stall_refuted; quadratics run to the real exception)' % STALL_REPEATS,
                        'Path.t2T bounds (sum(_lengths[:k])) are taken from the implementation (C05)']
