"""C09 — reversed / split / cropped trace the same curve under the documented
parameter map.

Theorems: coq/Props/C09.v (models coq/Model/Crop.v, coq/Model/CropArc.v).
Ties:
  * translator: tools/py2v.py renders a constructor call as the tuple of its
    arguments, so group GenCrop translates Line.cropped/split/reversed,
    Quadratic/CubicBezier.reversed/split, Arc.reversed and Arc.cropped (only
    crop_bezier — symbolic t-branching + the radialrange oracle — is outside);
    GenAgree/Crop.v proves them equal to the hand models, and the hand models
    equal to compositions of the generated Line.point / bpoints / split_bezier
    (GenBezierSeg, GenBezierN);
  * correspondence, computed INSIDE Coq:
      - Bezier segments in exact rationals (NumQ): reversed control points
        (exact), split pieces, cropped control points for the recorded oracle
        answer t1_adj of radialrange, and the property itself on the observed
        control points (bern(cropped) u = bern(p)(t0 + u (t1-t0)) within 1e-9*size);
      - arcs in 120-bit bigfloats (NumB/NumTB): constructor arguments of
        cropped()/reversed(), the re-parameterisation hypothesis
        (delta' = (t1-t0) delta, theta' = theta + t0 delta mod 360) and the
        property on the re-built arcs within 1e-7*size;
      - Path.cropped / Path.reversed structure, exactly, on a symbolic segment
        type (which pieces, which are originals, crop parameters, exceptions), for
        the variant (ix, hw, tz) of Path.cropped the implementation runs (probes);
        length fractions of reversed() of a fresh path and of a path whose length
        cache was filled first = reversed list of the fractions;
  * the property statement evaluated on the implementation (floats), incl.
    Path.reversed() — fresh and with caches filled by length/point/T2t/cropped —
    against a FRESH Path of the reversed segments (point, T2t, length, crops).
"""
import math, warnings, json
from fractions import Fraction as Fr
import common
from common import qc, cq, bf, cbf, coq_list, coq_bool

GEN_GROUPS = ['GenCrop', 'GenBezierSeg', 'GenBezierN']
AGREE = ['Crop.v']

ULP1 = 2.0 ** -53


# ===================================================================== generators
def rnd_c(rng, sc):
    return complex(rng.uniform(-sc, sc), rng.uniform(-sc, sc))


def gen_points(rng, n):
    mode = rng.choice(['rand', 'rand', 'rand', 'int', 'half', 'collinear', 'tiny', 'huge', 'coincident'])
    if mode == 'rand':
        sc = 10 ** rng.uniform(-2, 4)
        return [rnd_c(rng, sc) for _ in range(n)], mode
    if mode == 'int':
        return [complex(rng.randint(-50, 50), rng.randint(-50, 50)) for _ in range(n)], mode
    if mode == 'half':
        return [complex(rng.randint(-99, 99) / 2, rng.randint(-99, 99) / 2) for _ in range(n)], mode
    if mode == 'collinear':
        a, d = rnd_c(rng, 100), rnd_c(rng, 10)
        return [a + d * rng.choice([0, 1, 2, 3, -1, 0.5, 2.5]) for _ in range(n)], mode
    if mode == 'tiny':
        return [rnd_c(rng, 1e-3) for _ in range(n)], mode
    if mode == 'huge':
        return [rnd_c(rng, 1e6) for _ in range(n)], mode
    p = rnd_c(rng, 100)
    pts = [p] * n
    pts = list(pts)
    pts[rng.randrange(n)] = rnd_c(rng, 100)
    return pts, mode


SCALAR_TYPES = ['pyint', 'npint', 'pyfloat', 'npfloat', 'npcomplex', 'mixed-int-float', 'mixed-int-complex',
                'mixed-npint-pyint']


def cast_pts(pts, ty):
    """the same control points as Python / numpy scalars of the given type(s).  The scalar TYPE
    must not matter: an all-integer control polygon is the same curve as its float copy."""
    import numpy as np
    if ty in (None, 'complex'):
        return list(pts)
    re = [p.real for p in pts]
    if ty == 'pyint': return [int(x) for x in re]
    if ty == 'npint': return [np.int64(int(x)) for x in re]
    if ty == 'pyfloat': return [float(x) for x in re]
    if ty == 'npfloat': return [np.float64(x) for x in re]
    if ty == 'npcomplex': return [np.complex128(p) for p in pts]
    if ty == 'mixed-int-float': return [int(x) for x in re[:-1]] + [float(re[-1])]
    if ty == 'mixed-int-complex': return [complex(pts[0])] + [int(x) for x in re[1:]]
    if ty == 'mixed-npint-pyint': return [np.int64(int(x)) if i % 2 else int(x) for i, x in enumerate(re)]
    raise ValueError(ty)


def gen_int_points(rng, n, uniform=False):
    """integer control points on the real axis, strictly increasing (the curve does not retrace
    itself); uniform = equally spaced (the curve is then linearly parameterised)"""
    x = rng.randint(-20, 20)
    d = rng.choice([1, 3, 5, 7, 9])
    out = []
    for _ in range(n):
        out.append(complex(x, 0))
        x += d if uniform else rng.randint(1, 9)
    return out


DYADICS = [0.5, 0.25, 0.75, 0.125, 0.375, 0.625, 0.875, 2.0 ** -10, 1 - 2.0 ** -10]


def gen_t(rng):
    r = rng.random()
    if r < 0.12: return 0.0
    if r < 0.24: return 1.0
    if r < 0.45: return rng.choice(DYADICS)
    if r < 0.55: return rng.choice([1 / 3, 2 / 3, 0.1, 0.9, ULP1, 1 - ULP1, 1e-9, 1 - 1e-9])
    return rng.random()


def gen_t01(rng):
    """0 <= t0 < t1 <= 1"""
    while True:
        a, b = gen_t(rng), gen_t(rng)
        if a != b:
            return (a, b) if a < b else (b, a)


def loop_cubic(rng):
    """a self-intersecting cubic (symmetric loop, then a random similarity) and
    the two parameters ta < tb of its double point"""
    while True:
        a = rng.uniform(0.6, 3.0)
        b = rng.uniform(0.5, 3.0)
        x = lambda t: 3 * (1 - t) ** 2 * t * (1 + a) - 3 * (1 - t) * t * t * a + t ** 3
        # x(1/2) = 1/2 by symmetry; a loop exists iff x exceeds 1/2 before t = 1/2
        if x(0.45) <= 0.5:
            continue
        lo, hi = 0.0, 0.45
        for _ in range(200):
            mid = (lo + hi) / 2
            if x(mid) < 0.5: lo = mid
            else: hi = mid
        ta = (lo + hi) / 2
        if not (0.05 < ta < 0.45):
            continue
        rot = complex(math.cos(rng.uniform(0, 6.3)), math.sin(rng.uniform(0, 6.3))) * 10 ** rng.uniform(-1, 2)
        sh = rnd_c(rng, 50)
        pts = [0j, complex(1 + a, b), complex(-a, b), 1 + 0j]
        return [p * rot + sh for p in pts], ta, 1 - ta


# ===================================================================== Bezier segments
OKDEF_BEZ = r'''
From SVP Require Import Model.Bezier Model.Crop.
Definition N := NumQ.
(* variant of crop_bezier's relocation the implementation runs (behavioural probe):
   false = t1_adj from the radialrange oracle (recorded, an input of the model),
   true  = t1_adj = (t1 - t0)/(1 - t0) computed by the code itself (no oracle) *)
Definition AN : bool := __AN__.
Definition u53 : Qc := two_pow_neg 53.
Definition e9 : Qc := Q2Qc (1 # 1000000000).
Definition e6 : Qc := Q2Qc (1 # 1000000).
(* case: control points, t0, t1, (oracle used, t1_adj), ts (split parameter),
         observed: reversed bpoints, split left/right, cropped bpoints; sample u's *)
Definition casety : Type :=
  (list (Cplx Qc) * Qc * Qc * (bool * Qc) * Qc
   * list (Cplx Qc) * list (Cplx Qc) * list (Cplx Qc) * list (Cplx Qc) * list Qc)%type.
Definition exact_eq (a b : Cplx Qc) : bool := ceqb N a b.
Definition m_split (p : list (Cplx Qc)) (t : Qc) : list (Cplx Qc) * list (Cplx Qc) :=
  match p with
  | [s; e] => let '((a, b), (c, d)) := line_split N s e t in ([a; b], [c; d])
  | _ => bez_split N p t
  end.
Definition m_crop (p : list (Cplx Qc)) (t0 t1 adj : Qc) : list (Cplx Qc) :=
  match p with
  | [s; e] => let '(a, b) := line_cropped N s e t0 t1 in [a; b]
  | _ => crop_bezier_v N AN p t0 t1 adj
  end.
Definition ok (c : casety) : nat :=
  let '(p, t0, t1, oracle, ts, o_rev, o_sl, o_sr, o_crop, us) := c in
  let '(used, adj) := oracle in
  let S := sum_abs1 p in
  let tol := (Q2Qc 256 * u53 * S)%Qc in
  let tolp := (e9 * S)%Qc in
  let sp := m_split p ts in
  first_fail
   [ (lclose exact_eq o_rev (bez_reversed p), 1);             (* reversed: control points reversed, exactly *)
     (lclose (cclose tol) o_sl (fst sp), 2);                  (* split(ts)[0] *)
     (lclose (cclose tol) o_sr (snd sp), 3);                  (* split(ts)[1] *)
     (lclose (cclose tol) o_crop (m_crop p t0 t1 adj), 4);    (* cropped(t0,t1), given the oracle's answer *)
     (* the asserts of crop_bezier hold (the implementation returned) *)
     (match p with [_; _] => true | _ => crop_bezier_pre_v N AN t0 t1 adj || negb used end, 5);
     (* the property on the observed control points, exact arithmetic *)
     (forallb (fun u => cclose tolp (bern N o_crop u) (bern N p (t0 + u * (t1 - t0))%Qc)) us, 6);
     (forallb (fun u => cclose tolp (bern N o_rev u) (bern N p (1 - u)%Qc)) us, 7);
     (forallb (fun u => cclose tolp (bern N o_sl u) (bern N p (u * ts)%Qc)
                        && cclose tolp (bern N o_sr u) (bern N p (ts + u * (1 - ts))%Qc)) us, 8);
     (* the oracle premise of C09_crop: t1_adj = (t1 - t0)/(1 - t0) *)
     (negb used || qclose e6 adj ((t1 - t0) / (1 - t0))%Qc, 9)
   ].
'''
BEZ_OBS = {1: 'reversed().bpoints() vs reversed control points', 2: 'split(t)[0] control points',
           3: 'split(t)[1] control points', 4: 'cropped(t0,t1) control points vs crop_bezier model (given t1_adj)',
           5: 'asserts of crop_bezier', 6: 'cropped(t0,t1).point(u) = point(t0+u(t1-t0)) (exact, observed control points)',
           7: 'reversed().point(u) = point(1-u) (exact, observed control points)',
           8: 'split pieces point(u*t), point(t+u(1-t)) (exact, observed control points)',
           9: 'oracle premise: radialrange relocates t1 to (t1-t0)/(1-t0)'}
US = [0.0, 1.0, 0.5, 0.25, 0.8125]


def observe_bez(pts, t0, t1, ts, sty=None):
    from svgpathtools import Line, QuadraticBezier, CubicBezier
    cls = {2: Line, 3: QuadraticBezier, 4: CubicBezier}[len(pts)]
    seg = cls(*cast_pts(pts, sty))
    o = {}
    rev = seg.reversed()
    if type(rev) is not cls:
        raise AssertionError('reversed() changed the class')
    o['rev'] = [complex(z) for z in rev.bpoints()]
    a, b = seg.split(ts)
    o['sl'] = [complex(z) for z in a.bpoints()]
    o['sr'] = [complex(z) for z in b.bpoints()]
    if len(pts) > 2:
        # bezier.split_bezier called directly on the (typed) control points must give the same polygons
        from svgpathtools.bezier import split_bezier
        l2, r2 = split_bezier(cast_pts(pts, sty), ts)
        if [complex(z) for z in l2] != o['sl'] or [complex(z) for z in r2] != o['sr']:
            o['sl'], o['sr'] = [complex(z) for z in l2], [complex(z) for z in r2]
    rec = []
    orig = cls.radialrange

    def wrapped(self, origin, *aa, **kk):
        r = orig(self, origin, *aa, **kk)
        rec.append(r)
        return r
    cls.radialrange = wrapped
    try:
        try:
            c = seg.cropped(t0, t1)
        except AssertionError as ex:
            if rec and t0 < t1:
                ex.t1_adj = float(rec[0][0][1])      # the relocation answered <= 0: crop_bezier's assert 0 < t1_adj
            raise
    finally:
        cls.radialrange = orig
    if type(c) is not cls:
        raise AssertionError('cropped() changed the class')
    o['crop'] = [complex(z) for z in c.bpoints()]
    o['used'] = bool(rec)
    o['adj'] = float(rec[0][0][1]) if rec else 0.0
    # the property on the implementation, in floats
    size = sum(abs(p.real) + abs(p.imag) for p in pts)
    worst = 0.0
    for u in US:
        worst = max(worst, abs(c.point(u) - seg.point(t0 + u * (t1 - t0))),
                    abs(rev.point(u) - seg.point(1 - u)),
                    abs(a.point(u) - seg.point(u * ts)), abs(b.point(u) - seg.point(ts + u * (1 - ts))))
    worst = max(worst, abs(a.end - seg.point(ts)), abs(b.start - seg.point(ts)),
                abs(c.start - seg.point(t0)), abs(c.end - seg.point(t1)))
    o['impl_err'] = worst
    o['size'] = size
    # cached-length interplay: reversed() of a segment whose length was computed
    return o


def bez_term(pts, t0, t1, ts, o):
    return '(%s, %s, %s, (%s, %s), %s, %s, %s, %s, %s, %s)' % (
        coq_list([cq(p) for p in pts]), qc(t0), qc(t1), coq_bool(o['used']), qc(o['adj']), qc(ts),
        coq_list([cq(p) for p in o['rev']]), coq_list([cq(p) for p in o['sl']]),
        coq_list([cq(p) for p in o['sr']]), coq_list([cq(p) for p in o['crop']]),
        coq_list([qc(u) for u in US]))


def bez_json(pts, t0, t1, ts, sty=None):
    names = {2: 'Line', 3: 'QuadraticBezier', 4: 'CubicBezier'}
    return {'points': [common.chex(p) for p in pts], 't0': common.fhex(t0), 't1': common.fhex(t1),
            'ts': common.fhex(ts), 'scalar_type': sty or 'complex',
            'python': '%s(%s).cropped(%r, %r) / .split(%r)' % (
                names[len(pts)], ', '.join(repr(p) for p in cast_pts(pts, sty)), t0, t1, ts)}


def detect_an():
    """does crop_bezier relocate t1 analytically (True) or with radialrange (False)?"""
    from svgpathtools import CubicBezier
    called = []
    orig = CubicBezier.radialrange

    def wrapped(self, *a, **k):
        called.append(1)
        return orig(self, *a, **k)
    CubicBezier.radialrange = wrapped
    try:
        CubicBezier(0j, 1j, 1 + 1j, 1 + 0j).cropped(0.25, 0.75)
    except Exception:
        pass
    finally:
        CubicBezier.radialrange = orig
    return not called


def run_bez(rep, rng, n, tmp, replay_case=None, an=False):
    todo = []
    if replay_case:
        todo = [replay_case]
    else:
        # corpus: dyadic, exactly representable cases
        todo.append(([0j, 4 + 0j], 0.25, 0.75, 0.5, 'corpus-line'))
        todo.append(([0j, 2 + 4j, 4 + 0j], 0.25, 0.75, 0.5, 'corpus-quad'))
        todo.append(([0j, 0 + 8j, 8 + 8j, 8 + 0j], 0.25, 0.75, 0.5, 'corpus-cubic'))
        todo.append(([0j, 0 + 8j, 8 + 8j, 8 + 0j], 0.0, 1.0, 0.0, 'corpus-cubic-full'))
        # reproducers of the relocation defects of the radialrange variant (KF-C09-1, KF-C09-2,
        # crop-bezier-relocation-inaccurate); exact with the analytic relocation
        todo.append(([0j, 2 + 0j, 1 + 0j], 0.25, 0.5, 0.5, 'corpus-relocation-wrong-branch'))
        todo.append(([0j, 3 + 3j, -2 + 3j, 1 + 0j], 0.06698729810778067, 0.9330127018922193, 0.5,
                     'corpus-relocation-asserts'))
        todo.append(([0j, 3 + 3j, -2 + 3j, 1 + 0j], 0.05, 0.9330127018922193, 0.5, 'corpus-relocation-wrong-branch'))
        todo.append(([0j, 6j, 10j, 12j], 0.1, 0.8, 0.5, 'corpus-relocation-inaccurate'))
        for i in range(n):
            k = rng.choice([2, 3, 3, 4, 4])
            pts, mode = gen_points(rng, k)
            if len(set(pts)) == 1:
                pts[0] = pts[0] + complex(1, -2)
            t0, t1 = gen_t01(rng)
            todo.append((pts, t0, t1, gen_t(rng), mode))
        # the scalar TYPE of the control points must not matter: Python ints, numpy int64 /
        # float64 / complex128 scalars, mixtures (same exact-rational expectations)
        for sty, cp in (('pyint', [0, 3, 10]), ('pyint', [0, 1, 5, 7]), ('pyint', [0, 4]), ('npint', [0, 3, 10]),
                        ('mixed-npint-pyint', [0, 1, 5, 7])):
            todo.append(([complex(x) for x in cp], 0.0, 0.75, 0.5, 'typed-' + sty, sty))
        for i in range(max(16, n // 5)):
            k = rng.choice([2, 3, 3, 4, 4])
            sty = SCALAR_TYPES[i % len(SCALAR_TYPES)]
            if sty == 'npcomplex':
                pts, _ = gen_points(rng, k)
                if len(set(pts)) == 1:
                    pts[0] = pts[0] + complex(1, -2)
                t0, t1 = gen_t01(rng)
            else:
                # straight-line Beziers with NON-uniform speed make the radialrange relocation of
                # crop_bezier inaccurate (~1e-7, key crop-bezier-relocation-inaccurate): interior crops
                # (the oracle branch) only on equally spaced control points, else t0 = 0 or t1 = 1
                uni = (i // len(SCALAR_TYPES)) % 2 == 0 and not an
                free = an          # analytic relocation: any interior crop of any straight-line Bezier
                pts = gen_int_points(rng, k, uniform=uni)
                if sty == 'mixed-int-complex':
                    pts[0] = complex(pts[0].real, rng.randint(1, 9))
                    uni = False
                t0, t1 = gen_t01(rng)
                if not uni and not free and 0.0 < t0 and t1 < 1.0:
                    if rng.random() < 0.5: t0 = 0.0
                    else: t1 = 1.0
            todo.append((pts, t0, t1, gen_t(rng), 'typed-' + sty, sty))
        for i in range(max(6, n // 12)):
            pts, ta, tb = loop_cubic(rng)
            r = rng.random()
            if r < 0.5:
                t0, t1 = rng.uniform(0.0, ta * 0.8) if rng.random() < 0.8 else ULP1, tb   # trimmed piece passes twice
            elif r < 0.8:
                t0, t1 = rng.uniform(0.0, ta * 0.8), ta
            else:
                t0, t1 = ta, tb
            todo.append((pts, t0, t1, rng.choice([ta, tb, 0.5]), 'loop'))
    cases, meta, modes = [], [], {}
    nontriv = set()
    found = {}
    for item in todo:
        pts, t0, t1, ts, mode = item[:5]
        sty = item[5] if len(item) > 5 else None
        modes[mode] = modes.get(mode, 0) + 1
        try:
            o = observe_bez(pts, t0, t1, ts, sty)
        except Exception as ex:
            adj = getattr(ex, 't1_adj', None)
            if adj is not None:
                key = 'crop-bezier-relocation-wrong-branch-asserts'
                what = ('crop_bezier: radialrange relocated t1 to t1_adj=%r <= 0 (the trimmed piece starts at / passes '
                        'again through point(t1)): AssertionError instead of the piece from t0 to t1' % adj)
            else:
                key = 'bezier-op-raises'
                what = 'reversed/split/cropped raised %s on a Bezier segment' % type(ex).__name__
            found.setdefault(key, [0, what, dict(bez_json(pts, t0, t1, ts, sty), kind='exception', error=repr(ex),
                                                 t1_adj=adj)])[0] += 1
            continue
        cases.append(bez_term(pts, t0, t1, ts, o))
        meta.append((pts, t0, t1, ts, mode, o, sty))
        if 0.0 < t0 and t1 < 1.0:
            nontriv.add((tuple(pts), t0, t1))
        if o['impl_err'] > 1e-9 * o['size']:
            exp_adj = (t1 - t0) / (1 - t0) if t0 != 1 else 0
            wrong_branch = o['used'] and abs(o['adj'] - exp_adj) > 1e-6
            inaccurate = o['used'] and not wrong_branch and abs(o['adj'] - exp_adj) > 1e-10
            key = ('crop-bezier-relocation-wrong-branch' if wrong_branch else
                   'crop-bezier-relocation-inaccurate' if inaccurate else 'bezier-crop-split-reversed-point-mismatch')
            what = ('crop_bezier relocated t1 with radialrange onto ANOTHER branch of a self-intersecting curve '
                    '(t1_adj=%r, expected %r): cropped(t0,t1) is not the piece from t0 to t1' % (o['adj'], exp_adj)
                    if wrong_branch else
                    'crop_bezier: the radialrange relocation of t1 is inaccurate (t1_adj=%r, exact %r; straight-line Bezier '
                    'with non-uniform speed): cropped(t0,t1) ends %.3g away from point(t1)' % (o['adj'], exp_adj, o['impl_err'])
                    if inaccurate else
                    'cropped/split/reversed point(u) differs from the documented parameter map by %.3g > 1e-9*size'
                    % o['impl_err'])
            found.setdefault(key, [0, what, dict(bez_json(pts, t0, t1, ts, sty), kind='property',
                                                 t1_adj=o['adj'], expected_t1_adj=exp_adj, error=o['impl_err'])])[0] += 1
    fails, errors = common.run_cases(tmp, '', 'casety', OKDEF_BEZ.replace('__AN__', coq_bool(an)), cases,
                                     shard=max(8, (len(cases) + 15) // 16), prefix='bez')
    for e in errors:
        rep.violation('correspondence case file (Bezier) failed to evaluate', {'kind': 'cases', 'error': e},
                      found_input=False, key='cases-error')
    for idx, code in fails:
        pts, t0, t1, ts, mode, o, sty = meta[idx]
        exp_adj = (t1 - t0) / (1 - t0) if t0 != 1 else 0
        if code in (6, 9) and o['used'] and abs(o['adj'] - exp_adj) > 1e-6:
            key = 'crop-bezier-relocation-wrong-branch'
            what = ('crop_bezier relocated t1 with radialrange onto ANOTHER branch of a self-intersecting curve '
                    '(t1_adj=%r, expected %r): cropped(t0,t1) is not the piece from t0 to t1' % (o['adj'], exp_adj))
        elif code == 6 and o['used'] and abs(o['adj'] - exp_adj) > 1e-10:
            key = 'crop-bezier-relocation-inaccurate'
            what = ('crop_bezier: the radialrange relocation of t1 is inaccurate (t1_adj=%r, exact %r): '
                    'cropped(t0,t1).point(u) is off by more than 1e-9*size' % (o['adj'], exp_adj))
        else:
            key = 'bez-corr-%d' % code
            what = 'C09 (Bezier, control points as %s scalars): %s fails' % (sty or 'complex', BEZ_OBS.get(code, code))
        found.setdefault(key, [0, what, dict(bez_json(pts, t0, t1, ts, sty), kind='correspondence',
                                             observation=BEZ_OBS.get(code, str(code)), t1_adj=o['adj'],
                                             expected_t1_adj=exp_adj, cropped=[str(z) for z in o['crop']])])[0] += 1
    for key, (cnt, what, rp) in sorted(found.items()):
        rp['cases_in_this_run'] = cnt
        rp['how'] = './check C09 --replay <this file>'
        rep.violation('%s  [%d case(s)]' % (what, cnt), rp, key=key)
    return len(cases), len(nontriv), modes, meta


# ===================================================================== arcs
OKDEF_ARC = r'''
From SVP Require Import Model.Arc Model.Crop Model.CropArc.
Definition N := NumB.
Definition T := NumTB.
Definition FX : bool := __FX__.
Definition bz (z : Z) : bf := lit N z.
Definition e7 : bf := div N (bz 1) (bz 10000000).
Definition e6 : bf := div N (bz 1) (bz 1000000).
Definition e12 : bf := div N (bz 1) (bz 1000000000000).
Definition cabs1 (z : bf * bf) : bf := add N (babs (fst z)) (babs (snd z)).
Definition rad (d : bf) : bf := div N (mul N d (pi_ T)) (bz 180).
(* Arc(...) as the model builds it.  When the radical is 0 (radii scaled to fit, or the
   radicand snapped) u2 = -u1 and det_uv is exactly 0 in binary64 and in R, but not under the
   directed rounding of the bigfloat instance: delta is then +-180 by theorem C04_delta_cases *)
Definition mk_arc (s r : bf * bf) (rot : bf) (la sw : bool) (e : bf * bf) : ArcP bf :=
  let A := arc_init_v N T FX s r rot la sw e in
  if bf_eqb (arc_radical_of N T FX s r rot e) (zero N) then
    mkArcP (a_start A) (a_radius A) (a_rotation A) (a_large A) (a_sweep A) (a_end A) (a_center A)
           (a_theta A) (if sw then bz 180 else bz (-180)) (a_phi A) (a_rot A)
  else A.
(* the isclose(radicand, 0) decision is within rounding of its threshold *)
Definition undecided (s r : bf * bf) (rot : bf) (e : bf * bf) : bool :=
  negb FX && bf_leb (babs (sub N (arc_radicand_of N T s r rot e) (atol8 N))) (mul N (atol8 N) (bf_of 1 (-13))).
(* case: constructor args; t0 t1; the object's stored radius;
   cropped object: (start, stored radius, rotation, large, sweep, end), (theta, delta, center);
   reversed object: the same; sample u's with observed cropped.point(u), reversed.point(u) *)
Definition args : Type := ((bf * bf) * (bf * bf) * bf * bool * bool * (bf * bf))%type.
Definition prm : Type := (bf * bf * (bf * bf))%type.
Definition casety : Type :=
  (args * bf * bf * (bf * bf) * (args * prm) * (args * prm) * list (bf * (bf * bf) * (bf * bf)))%type.
Definition ok (c : casety) : nat :=
  let '(a, t0, t1, o_rad, crop, rev, samples) := c in
  let '(start, radius, rot, large, sweep, end_) := a in
  let '(ca, cp) := crop in let '(ra, rp) := rev in
  let '(c_s, c_r, c_rot, c_la, c_sw, c_e) := ca in
  let '(c_theta, c_delta, c_center) := cp in
  let '(r_s, r_r, r_rot, r_la, r_sw, r_e) := ra in
  let '(r_theta, r_delta, r_center) := rp in
  let P := mk_arc start radius rot large sweep end_ in
  let size := cabs1 (a_radius P) in
  let tol := mul N e7 size in
  let '(m_s, m_r, m_rot, m_la, m_sw, m_e) := arc_cropped_args N T P t0 t1 in
  let D := mul N (a_delta P) (sub N t1 t0) in
  let border := bf_leb (babs (sub N (babs D) (bz 180))) e6 in
  (* the arcs the implementation built, re-built by the model from the observed arguments
     (the radius handed to the constructor is the object's stored radius) *)
  let Qm := mk_arc c_s o_rad c_rot c_la c_sw c_e in
  let Rm := mk_arc r_s o_rad r_rot r_la r_sw r_e in
  let '(v_s, v_r, v_rot, v_la, v_sw, v_e) := arc_reversed_args P in
  (* re-deriving centre and angles from two end points a chord apart amplifies their binary64
     rounding (2^-53 * size) by size/chord *)
  let chord := cabs1 (csub N c_s c_e) in
  let amp := div N (mul N (bf_of 1 (-46)) size) chord in
  let tolq := add N tol (mul N amp size) in
  let tola := add N e6 (mul N amp (bz 60)) in
  let tolc := add N e7 amp in
  if undecided start radius rot end_ || undecided c_s o_rad c_rot c_e || undecided r_s o_rad r_rot r_e then 90 else
  first_fail
   [ (bcclose (mul N e12 size) o_rad (a_radius P), 1);          (* stored radius of the object *)
     (bcclose tol c_s m_s && bcclose tol c_e m_e, 2);           (* cropped: start = point(t0), end = point(t1) *)
     (bf_eqb c_rot m_rot && Bool.eqb c_sw m_sw, 3);             (* rotation, sweep copied *)
     (border || Bool.eqb c_la m_la, 4);                         (* flag rule |delta (t1-t0)| <= 180 *)
     (bcclose tol r_s v_s && bcclose tol r_e v_e && bf_eqb r_rot v_rot
        && Bool.eqb r_la v_la && Bool.eqb r_sw v_sw, 5);        (* reversed: (end, radius, rotation, large, not sweep, start) *)
     (* hypothesis arc_param_of_points, sampled: the re-built arc has delta' = (t1-t0) delta,
        theta' = theta + t0 delta (mod 360) — on the model's re-run of _parameterize *)
     (bclose tola (a_delta Qm) D, 6);
     (let x := rad (a_theta Qm) in let y := rad (add N (a_theta P) (mul N t0 (a_delta P))) in
      bclose tolc (cos_ T x) (cos_ T y) && bclose tolc (sin_ T x) (sin_ T y), 7);
     (bclose e6 (a_delta Rm) (opp N (a_delta P)), 8);
     (* the property, on the model: cropped.point(u) = point(t0 + u (t1-t0)); reversed.point(u) = point(1-u) *)
     (forallb (fun s => let '(u, _, _) := s in
         bcclose tolq (arc_point N T Qm u) (arc_point N T P (add N t0 (mul N u (sub N t1 t0))))) samples, 9);
     (forallb (fun s => let '(u, _, _) := s in
         bcclose tol (arc_point N T Rm u) (arc_point N T P (sub N (bz 1) u))) samples, 10);
     (* ... and the implementation's own points agree with the model's *)
     (forallb (fun s => let '(u, o_c, _) := s in bcclose tolq o_c (arc_point N T Qm u)) samples, 11);
     (forallb (fun s => let '(u, _, o_r) := s in bcclose tol o_r (arc_point N T Rm u)) samples, 12);
     (* observed parameters of the cropped arc *)
     (bclose tola c_delta D && bcclose tolq c_center (a_center P), 13)
   ].
'''
ARC_OBS = {1: 'stored radius', 2: 'cropped(): start/end = point(t0)/point(t1)', 3: 'cropped(): rotation, sweep copied',
           4: 'cropped(): large_arc flag rule', 5: 'reversed(): constructor arguments',
           6: 're-parameterisation: delta\' = (t1-t0)*delta (model re-run on the observed arguments)',
           7: 're-parameterisation: theta\' = theta + t0*delta mod 360',
           8: 're-parameterisation of reversed(): delta\' = -delta',
           9: 'model: cropped.point(u) = point(t0+u(t1-t0)) within 1e-7*size',
           10: 'model: reversed.point(u) = point(1-u) within 1e-7*size',
           11: 'implementation cropped.point(u) vs model', 12: 'implementation reversed.point(u) vs model',
           13: 'observed delta/center of the cropped arc'}
ARC_US = [0.0, 1.0, 0.5, 0.3]


def detect_fx():
    from svgpathtools import Arc
    a = Arc(0j, complex(1.000000004, 1), 0, True, False, complex(2, 2e-6))   # radicand = 8e-9
    return not (abs(a.delta) == 180)


def gen_arc(rng, i):
    fam = rng.choice(['ample', 'ample', 'ample', 'int', 'circle', 'eccentric', 'scaled'])
    rot = rng.choice([0.0, 90.0, -90.0, 180.0, 30.0, rng.uniform(-360, 360), rng.uniform(-5, 5)])
    large, sweep = [(False, False), (False, True), (True, False), (True, True)][i % 4]
    if fam == 'int':
        s = complex(rng.randint(-20, 20), rng.randint(-20, 20))
        e = complex(rng.randint(-20, 20), rng.randint(-20, 20))
        r = complex(rng.randint(1, 15), rng.randint(1, 15))
    else:
        sc = 10 ** rng.uniform(-1, 3)
        s, e = rnd_c(rng, sc), rnd_c(rng, sc)
        d = abs(s - e) + 1e-3 * sc
        if fam == 'circle':
            rr = d * rng.uniform(0.51, 3)
            r = complex(rr, rr)
        elif fam == 'eccentric':
            r = complex(d * rng.uniform(0.6, 3), d * rng.uniform(0.6, 3) * 10 ** rng.uniform(-1.5, 1.5))
        elif fam == 'scaled':
            r = complex(d * rng.uniform(0.01, 0.4), d * rng.uniform(0.01, 0.4))     # radii too small: autoscale
        else:
            r = complex(d * rng.uniform(0.55, 4), d * rng.uniform(0.55, 4))
    if s == e:
        e = s + complex(1, 2)
    return (s, r, float(rot), large, sweep, e, fam)


def gen_arc_t(rng, delta):
    """t0 < t1 incl. 0, 1, dyadics and crops whose extent is near / exactly 180 degrees"""
    r = rng.random()
    if r < 0.2 and abs(delta) > 185:
        t0 = rng.choice([0.0, 0.125, rng.uniform(0, 1 - 180 / abs(delta))])
        ext = rng.choice([180.0, 180.0 + 1e-9, 179.9999, 180.0001, 180.003, 179.99, 180.01, 180.5])
        t1 = t0 + ext / abs(delta)
        if t1 <= 1.0:
            return t0, t1
    return gen_t01(rng)


def arc_json(a, t0, t1):
    s, r, rot, la, sw, e, fam = a
    return {'start': common.chex(s), 'radius': common.chex(r), 'rotation': common.fhex(rot), 'large_arc': bool(la),
            'sweep': bool(sw), 'end': common.chex(e), 't0': common.fhex(t0), 't1': common.fhex(t1),
            'python': 'Arc(%r, %r, %r, %r, %r, %r).cropped(%r, %r)' % (s, r, rot, la, sw, e, t0, t1)}


def objargs(q):
    return (complex(q.start), complex(q.radius), float(q.rotation), bool(q.large_arc), bool(q.sweep), complex(q.end))


def args_term(a):
    s, r, rot, la, sw, e = a
    return '(%s, %s, %s, %s, %s, %s)' % (cbf(s), cbf(r), bf(rot), coq_bool(la), coq_bool(sw), cbf(e))


def prm_term(q):
    return '(%s, %s, %s)' % (bf(float(q.theta)), bf(float(q.delta)), cbf(complex(q.center)))


def run_arc(rep, rng, n, tmp, fx, replay_case=None):
    from svgpathtools import Arc
    cases, meta, fams = [], [], {}
    found = {}
    nontriv = set()
    todo = []
    if replay_case:
        todo = [replay_case]
    else:
        W = (1 + 0j, 1 + 1j, 0.0, False, True, -1 + 0j, 'corpus-halfcircle')
        todo.append((W, 0.0, 0.5))
        todo.append((W, 0.25, 0.75))
        todo.append(((0j, 3 + 2j, 30.0, True, False, 4 + 1j, 'corpus-generic'), 0.125, 0.875))
        for i in range(n):
            a = gen_arc(rng, i)
            try:
                delta = Arc(*a[:6]).delta
            except Exception:
                continue
            t0, t1 = gen_arc_t(rng, delta)
            todo.append((a, t0, t1))
    for a, t0, t1 in todo:
        fam = a[6]
        fams[fam] = fams.get(fam, 0) + 1
        try:
            P = Arc(*a[:6])
            Q = P.cropped(t0, t1)
            R = P.reversed()
            A, B = P.split(t1 if 0 < t1 < 1 else 0.5)
        except Exception as ex:
            degenerate = False
            try:
                tsx = t1 if 0 < t1 < 1 else 0.5
                degenerate = (P.point(t0) == P.point(t1) or P.point(0) == P.point(tsx) or P.point(tsx) == P.point(1))
            except Exception:
                pass
            key = 'arc-cropped-degenerate-raises' if degenerate else 'arc-op-raises'
            found.setdefault(key, [0, 'Arc.cropped/reversed/split raised %s%s' % (
                type(ex).__name__, ' (the two end points of a piece round to the same complex number: Arc() asserts start != end)' if degenerate else ''),
                                   dict(arc_json(a, t0, t1), kind='exception', error=repr(ex))])[0] += 1
            continue
        size = abs(P.radius.real) + abs(P.radius.imag)
        samples = [(u, complex(Q.point(u)), complex(R.point(u))) for u in ARC_US]
        cases.append('(%s, %s, %s, %s, (%s, %s), (%s, %s), %s)' % (
            args_term(a[:6]), bf(t0), bf(t1), cbf(complex(P.radius)),
            args_term(objargs(Q)), prm_term(Q), args_term(objargs(R)), prm_term(R),
            coq_list(['(%s, %s, %s)' % (bf(u), cbf(c), cbf(r)) for u, c, r in samples])))
        meta.append((a, t0, t1, P, Q, R))
        if 0 < t0 and t1 < 1:
            nontriv.add((a[:6], t0, t1))
        # ---- the property on the implementation
        ts = t1 if 0 < t1 < 1 else 0.5
        errc = max(abs(Q.point(u) - P.point(t0 + u * (t1 - t0))) for u in ARC_US)
        errr = max(abs(R.point(u) - P.point(1 - u)) for u in ARC_US)
        errs = max(max(abs(A.point(u) - P.point(u * ts)), abs(B.point(u) - P.point(ts + u * (1 - ts)))) for u in ARC_US)
        ext = abs(P.delta * (t1 - t0))
        for err, op, which in ((errc, 'cropped', Q), (errr, 'reversed', R), (errs, 'split', None)):
            if err > 1e-7 * size:
                snapped = (which is not None and abs(which.delta) == 180 and (
                    abs((ext if op == 'cropped' else abs(P.delta)) - 180) > 1e-9)) or (
                    op == 'split' and ((abs(A.delta) == 180 and abs(abs(P.delta) * ts - 180) > 1e-9) or
                                       (abs(B.delta) == 180 and abs(abs(P.delta) * (1 - ts) - 180) > 1e-9)))
                psnapped = abs(P.delta) == 180
                tiny = (op == 'cropped' and ext < 1e-4 and abs(abs(Q.delta) - ext) > 1e-3) or (
                    op == 'split' and (abs(abs(A.delta) - abs(P.delta) * ts) > 1e-3
                                       or abs(abs(B.delta) - abs(P.delta) * (1 - ts)) > 1e-3)
                    and min(ts, 1 - ts) * abs(P.delta) < 1e-4)
                if tiny:
                    key = 'arc-cropped-tiny-extent-full-turn'
                    what = ('Arc.%s(): a piece of tiny angular extent (< 1e-4 deg) is re-parameterised with det_uv '
                            'rounded to 0: delta becomes 0 (sweep) or -360 (not sweep) — a point or a FULL ellipse '
                            'instead of the tiny arc; off by %.3g (size %.3g)' % (op, err, size))
                elif snapped and not fx:
                    key = 'arc-%s-isclose-snap' % op
                    what = ('Arc.%s(): the new Arc\'s _parameterize snaps its radicand (extent within ~1e-2 deg of 180) '
                            'to 0, the %s arc is a half ellipse about the chord midpoint: off by %.3g (size %.3g)'
                            % (op, op, err, size))
                elif psnapped and not fx:
                    key = 'arc-%s-of-snapped-arc' % op
                    what = ('Arc.%s() of an arc that itself sits in the np.isclose snap region (C04 snap-endpoint-error): '
                            'off by %.3g (size %.3g)' % (op, err, size))
                else:
                    key = 'arc-%s-point-mismatch' % op
                    what = 'Arc.%s(): point(u) differs from the documented parameter map by %.3g > 1e-7*size (%.3g)' % (
                        op, err, size)
                found.setdefault(key, [0, what, dict(arc_json(a, t0, t1), kind='property', op=op, error=err,
                                                     size=size, extent_deg=ext, delta=P.delta)])[0] += 1
    okdef = OKDEF_ARC.replace('__FX__', coq_bool(fx))
    fails, errors = common.run_cases(tmp, 'From SVP Require Import Base.BigF.\n', 'casety', okdef, cases,
                                     shard=max(4, (len(cases) + 15) // 16), prefix='arc', timeout=1500)
    for e in errors:
        rep.violation('correspondence case file (arcs) failed to evaluate', {'kind': 'cases', 'error': e},
                      found_input=False, key='cases-error')
    undecided = [i for i, c in fails if c == 90]
    for idx, code in fails:
        if code == 90:
            continue
        a, t0, t1, P, Q, R = meta[idx]
        size = abs(P.radius.real) + abs(P.radius.imag)
        ext = abs(P.delta * (t1 - t0))
        qs = abs(Q.delta) == 180 and abs(ext - 180) > 1e-9
        # was the arc itself snapped (positive radicand set to 0)?  then point(0)/point(1) miss start/end
        psnap = abs(P.delta) == 180 and (abs(P.point(0) - P.start) > 1e-9 * size or abs(P.point(1) - P.end) > 1e-9 * size)
        tiny = ext < 1e-4 and abs(abs(Q.delta) - ext) > 1e-3
        if tiny and code in (11, 13):
            key = 'arc-cropped-tiny-extent-full-turn'
        elif not fx and code in (6, 7, 9, 11, 13) and qs:
            key = 'arc-cropped-isclose-snap'
        elif not fx and psnap:
            key = 'arc-op-of-snapped-arc'
        else:
            key = 'arc-corr-%d' % code
        found.setdefault(key, [0, 'C09 (arcs): %s fails' % ARC_OBS.get(code, code),
                               dict(arc_json(a, t0, t1), kind='correspondence', observation=ARC_OBS.get(code, str(code)),
                                    delta=P.delta, extent_deg=ext, cropped_delta=Q.delta, size=size)])[0] += 1
    for key, (cnt, what, rp) in sorted(found.items()):
        rp['cases_in_this_run'] = cnt
        rp['how'] = './check C09 --replay <this file>'
        rep.violation('%s  [%d case(s)]' % (what, cnt), rp, key=key)
    rep.cov['arc_cases_undecided_isclose_threshold'] = len(undecided)
    return len(cases) - len(undecided), len(nontriv), fams


# ===================================================================== paths
OKDEF_PATH = r'''
From SVP Require Import Model.Crop.
Definition N := NumQ.
(* the variants of Path.cropped the implementation runs, detected by behavioural probes:
   IX = indices from T2t instead of self.index(seg); HW = hand-overs do not wrap around an
   end / past the other end; TZ = cropped(T0, 0) on a closed path is cropped(T0, 1) *)
Definition IX : bool := __IX__.
Definition HW : bool := __HW__.
Definition TZ : bool := __TZ__.
Inductive sym := SO (i : nat) | SC (i : nat) (a b : Qc).
Definition nthn (l : list nat) (i : nat) : nat := nth i l i.
(* == on the path's segments: equality classes computed from Python's == *)
Definition sym_eq (cls : list nat) (x y : sym) : bool :=
  match x, y with SO i, SO j => Nat.eqb (nthn cls i) (nthn cls j) | _, _ => false end.
(* seg.cropped(a, b): symbolic, except for the calls that raised on the implementation *)
Definition fail_t : Type := (nat * Qc * Qc * perr)%type.
Definition sym_crop (ident : list nat) (fails : list fail_t) (s : sym) (a b : Qc) : res sym :=
  match s with
  | SO i =>
      match find (fun f => let '(j, x, y, _) := f in
                           Nat.eqb (nthn ident i) j && Qc_eq_bool a x && Qc_eq_bool b y) fails with
      | Some (_, _, _, e) => Err e
      | None => Ok (SC i a b)
      end
  | _ => Err EAssert
  end.
Definition obs_t : Type := (bool * nat * Qc * Qc)%type.
Fixpoint lclose2 {A B} (cl : A -> B -> bool) (l1 : list A) (l2 : list B) : bool :=
  match l1, l2 with
  | [], [] => true
  | a :: r1, b :: r2 => cl a b && lclose2 cl r1 r2
  | _, _ => false
  end.
Definition perr_eqb (a b : perr) : bool :=
  match a, b with
  | EValue, EValue | EAssert, EAssert | EIndex, EIndex | EBug, EBug | EZeroDiv, EZeroDiv
  | ERuntime, ERuntime => true | _, _ => false end.
Definition obs_eq (ident : list nat) (p : piece sym Qc) (o : obs_t) : bool :=
  let '(oo, oi, oa, ob) := o in
  Bool.eqb (p_orig p) oo && Nat.eqb (nthn ident (p_idx p)) oi && Qc_eq_bool (p_a p) oa && Qc_eq_bool (p_b p) ob.
(* case: number of segments, == classes, identity classes, T0, T1, T2t(T0), T2t(T1),
         isclosed(), failing crop calls, observed result, observed reversed() order *)
(* ... and the length fractions (_lengths) of the path, of reversed() of a fresh path and of
   reversed() of a path whose length cache was filled first *)
Definition casety : Type :=
  (nat * list nat * list nat * Qc * Qc * res (Z * Qc) * res (Z * Qc) * res bool * list fail_t
   * res (list obs_t) * list nat * (list Qc * list Qc * list Qc))%type.
Definition e12 : Qc := Q2Qc (1 # 1000000000000).
Definition ok (c : casety) : nat :=
  let '(n, cls, ident, T0, T1, r0, r1, closed, fails, obs, o_rev, fracs) := c in
  let '(fr, rfr_fresh, rfr_warm) := fracs in
  let segs := map SO (seq 0 n) in
  let m := path_cropped_v N (sym_crop ident fails) (sym_eq cls) (np_atol N) (np_rtol N) IX HW TZ segs T0 T1 r0 r1 closed in
  first_fail
   [ (match m, obs with
      | Ok _, Ok _ => true
      | Err a, Err b => perr_eqb a b
      | _, _ => false end, 1);                                   (* returns / raises the same exception class *)
     (match m, obs with
      | Ok ps, Ok os => lclose2 (obs_eq ident) ps os
      | _, _ => true end, 2);                                    (* same pieces: original?, which segment, crop parameters *)
     (lclose Nat.eqb (path_reversed (fun i => i) (seq 0 n)) o_rev, 3);  (* reversed(): segment i is the reversed segment n-1-i *)
     (* C09_path_reversed_lengths: the segment lengths of reversed() are the reversed list
        (per-segment invariance): fresh object, and object reversed after its cache was filled *)
     (lclose (qclose e12) rfr_fresh (path_reversed (fun x => x) fr), 4);
     (lclose (qclose e12) rfr_warm (path_reversed (fun x => x) fr), 5)
   ].
'''
PATH_OBS = {4: 'length fractions of reversed() of a FRESH path = reversed list of the fractions',
            5: 'length fractions of reversed() of a path whose length cache was filled = reversed list of the fractions',
            1: 'Path.cropped returns / raises as the model', 2: 'Path.cropped pieces (originals, segment, crop parameters)',
            3: 'Path.reversed order'}
ERRMAP = {'AssertionError': 'EAssert', 'ValueError': 'EValue', 'IndexError': 'EIndex', 'BugException': 'EBug',
          'ZeroDivisionError': 'EZeroDiv', 'RuntimeError': 'ERuntime'}


def detect_crop_variants():
    """which of the three repairs of Path.cropped does the implementation carry?"""
    from svgpathtools import Path, Line
    ix = hw = tz = False
    try:
        tw = Path(Line(0, 1), Line(1, 1 + 1j), Line(1 + 1j, 1j), Line(1j, 0), Line(0, 1), Line(1, 0))
        ix = len(tw.cropped(2 / 15, 43 / 60)) == 5
    except Exception:
        pass
    try:
        st = Path(Line(0, 1), Line(1, 1 + 1j), Line(1 + 1j, 2 + 1j))
        hw = len(st.cropped(1 - 2.0 ** -22, 1.0)) == 1
    except Exception:
        pass
    try:
        sq = Path(Line(0, 1), Line(1, 1 + 1j), Line(1 + 1j, 1j), Line(1j, 0))
        r = sq.cropped(0.375, 0.0)
        # hw alone ends with the ORIGINAL last segment; tz re-runs cropped(T0, 1): a cropped copy
        tz = len(r) == 3 and r[-1] is not sq[3]
    except Exception:
        pass
    return ix, hw, tz


def make_seg(rng, a, b, kind):
    from svgpathtools import Line, QuadraticBezier, CubicBezier, Arc
    d = abs(b - a) or 1.0
    if kind == 'L' or a == b:
        return Line(a, b)
    if kind == 'Q':
        return QuadraticBezier(a, (a + b) / 2 + rnd_c(rng, d), b)
    if kind == 'C':
        return CubicBezier(a, a + rnd_c(rng, d), b + rnd_c(rng, d), b)
    return Arc(a, complex(d * rng.uniform(0.55, 2), d * rng.uniform(0.55, 2)), rng.choice([0.0, 30.0, rng.uniform(-90, 90)]),
               rng.random() < 0.5, rng.random() < 0.5, b)


def gen_path(rng, an=False):
    """(path, description, flags)"""
    from svgpathtools import Path, Line
    fam = rng.choice(['open', 'open', 'closed', 'closed', 'closed', 'lines', 'dup-equal', 'dup-same', 'single',
                      'discontinuous', 'grid', 'typed-real', 'typed-npcomplex'])
    if fam == 'typed-real':
        # a path along the real axis whose control points are Python ints / numpy int64 / float64
        # scalars or mixtures (strictly increasing: no retracing); the scalar type must not matter
        from svgpathtools import QuadraticBezier, CubicBezier
        sty = rng.choice(['pyint', 'pyint', 'npint', 'npfloat', 'pyfloat', 'mixed-npint-pyint', 'mixed-int-float'])
        nseg = rng.randint(1, 4)
        segs, x = [], complex(rng.randint(-9, 9), 0)
        for _ in range(nseg):
            k = rng.choice([2, 3, 4])
            cp = [x]
            d = rng.choice([1, 3, 5, 7, 9])          # equally spaced: see gen_int_points
            for _ in range(k - 1):
                cp.append(cp[-1] + (rng.randint(1, 9) if an else d))
            x = cp[-1]
            segs.append({2: Line, 3: QuadraticBezier, 4: CubicBezier}[k](*cast_pts(cp, sty)))
        # joints must compare equal whatever the scalar types are (3 == 3.0 == np.int64(3))
        return Path(*segs), fam + '-' + sty
    if fam == 'typed-npcomplex':
        import numpy as np
        nseg = rng.randint(2, 4)
        z = [rnd_c(rng, 50) for _ in range(nseg + 1)]
        if rng.random() < 0.5:
            z[-1] = z[0]
        segs = []
        for i in range(nseg):
            s0 = make_seg(rng, z[i], z[i + 1], rng.choice('LQC'))
            segs.append(type(s0)(*[np.complex128(q) for q in s0.bpoints()]))
        return Path(*segs), fam
    kinds = 'LLQCA' if fam not in ('lines', 'grid') else 'L'
    if fam == 'single':
        n = 1
    else:
        n = rng.randint(2, 6)
    if fam == 'grid':
        # axis-parallel unit steps: rational lengths, T of the joints are exact multiples of 1/n
        z = [0j]
        for _ in range(n):
            z.append(z[-1] + rng.choice([1, 1j, -1, -1j, 2, 2j]))
        segs = [Line(z[i], z[i + 1]) for i in range(n)]
        return Path(*segs), fam
    sc = 10 ** rng.uniform(-1, 3)
    z = [rnd_c(rng, sc) for _ in range(n + 1)]
    if fam in ('closed', 'dup-equal', 'dup-same'):
        z[-1] = z[0]
        if n == 1:
            n = 2
            z = [z[0], rnd_c(rng, sc), z[0]]
    segs = [make_seg(rng, z[i], z[i + 1], rng.choice(kinds)) for i in range(n)]
    if fam == 'discontinuous':
        k = rng.randrange(n)
        segs[k] = make_seg(rng, z[k] + rnd_c(rng, sc * 0.1) + 0.001, z[k + 1], 'L')
    if fam == 'dup-equal':
        # run round the closed path twice: every segment has an EQUAL (but distinct) twin
        from copy import copy
        twins = []
        for s in segs:
            t = type(s)(*[getattr(s, f) for f in ('start', 'radius', 'rotation', 'large_arc', 'sweep', 'end')]) \
                if type(s).__name__ == 'Arc' else type(s)(*s.bpoints())
            twins.append(t)
        segs = segs + twins
    if fam == 'dup-same':
        segs = segs + segs                       # the very same objects twice
    return Path(*segs), fam


def gen_T(rng, path, closed_ok):
    """(T0, T1, how)"""
    n = len(path)
    joints = []
    try:
        joints = [path.t2T(i, 1.0) for i in range(n - 1)]
    except Exception:
        pass

    def one():
        r = rng.random()
        if r < 0.12: return 0.0
        if r < 0.24: return 1.0
        if r < 0.34: return rng.choice(DYADICS)
        if r < 0.64 and joints:
            j = rng.choice(joints)
            k = rng.choice([0, 0, 1, -1, 2, -2, 4])
            if k:
                return min(1.0, max(0.0, j + k * math.ulp(j)))
            return min(1.0, max(0.0, j + rng.choice([0, 1e-10, -1e-10, 3e-7, -3e-7, 1e-12, -1e-12])))
        if r < 0.72: return rng.choice([1e-12, 1 - 1e-7, 1 - 2.0 ** -30, 2.0 ** -40, ULP1, 1 - ULP1])
        return rng.random()
    a, b = one(), one()
    r = rng.random()
    if r < 0.04:
        return a, a, 'equal'
    if r < 0.07:
        return rng.choice([-0.1, 1.5]), b, 'out-of-range'
    if r < 0.10:
        return 1.0, 0.0, 'one-zero'
    if a == b:
        b = (a + 0.37) % 1.0
    lo, hi = min(a, b), max(a, b)
    if rng.random() < (0.45 if closed_ok else 0.12):
        return hi, lo, 'wrap'
    return lo, hi, 'forward'


def res_term(r, inner):
    if r[0] == 'ok':
        return '(Ok %s)' % inner(r[1])
    return '(Err %s)' % ERRMAP.get(r[1], 'ERuntime')


def path_repr(path):
    return 'Path(%s)' % ', '.join(repr(s) for s in path)


def observe_path(path, T0, T1):
    """run path.cropped(T0, T1) with every seg.cropped call recorded"""
    from svgpathtools import Line, QuadraticBezier, CubicBezier, Arc
    import svgpathtools.path as sp
    n = len(path)
    ids = {}
    for i, s in enumerate(path):
        ids.setdefault(id(s), i)
    ident = [ids[id(s)] for s in path]
    cls = []
    for i, s in enumerate(path):
        k = i
        for j in range(i):
            if path[j] == s:
                k = j
                break
        cls.append(k)
    calls = []          # (ident idx of self, t0, t1, 'ok'/'err', id(result) / exception name)
    origs = {}

    def mk(c):
        orig = c.cropped
        origs[c] = orig

        def wrapped(self, t0, t1):
            if id(self) not in ids:
                return orig(self, t0, t1)
            try:
                r = orig(self, t0, t1)
            except Exception as ex:
                calls.append((ids[id(self)], float(t0), float(t1), 'err', type(ex).__name__))
                raise
            calls.append((ids[id(self)], float(t0), float(t1), 'ok', r))
            return r
        c.cropped = wrapped
    o = {'ident': ident, 'cls': cls}
    for T, nm in ((T0, 'r0'), (T1, 'r1')):
        try:
            k, t = path.T2t(T)
            o[nm] = ('ok', (int(k), float(t)))
        except Exception as ex:
            o[nm] = ('err', type(ex).__name__)
    try:
        o['closed'] = ('ok', bool(path.isclosed()))
    except Exception as ex:
        o['closed'] = ('err', type(ex).__name__)
    for c in (Line, QuadraticBezier, CubicBezier, Arc):
        mk(c)
    try:
        try:
            res = path.cropped(T0, T1)
            out = ('ok', res)
        except Exception as ex:
            out = ('err', type(ex).__name__, repr(ex))
    finally:
        for c, f in origs.items():
            c.cropped = f
    o['out'] = out
    o['fails'] = [(i, a, b, e) for (i, a, b, st, e) in calls if st == 'err']
    if out[0] == 'ok':
        pieces, unknown = [], 0
        for s in out[1]:
            if id(s) in ids:
                pieces.append((True, ids[id(s)], 0.0, 1.0))
                continue
            hit = [c for c in calls if c[3] == 'ok' and c[4] is s]
            if hit:
                pieces.append((False, hit[0][0], hit[0][1], hit[0][2]))
            else:
                unknown += 1
                pieces.append((False, 999, 0.0, 0.0))
        o['pieces'] = pieces
        o['unknown'] = unknown
    # reversed(): which original each reversed segment comes from
    rorig = {}
    rmap = {}

    def mkr(c):
        orig = c.reversed
        rorig[c] = orig

        def wrapped(self):
            r = orig(self)
            rmap[id(r)] = (ids.get(id(self), 998), r)
            return r
        c.reversed = wrapped
    for c in (Line, QuadraticBezier, CubicBezier, Arc):
        mkr(c)
    try:
        try:
            rp = path.reversed()
            o['rev'] = ('ok', rp, [rmap.get(id(s), (997, None))[0] for s in rp])
        except Exception as ex:
            o['rev'] = ('err', type(ex).__name__)
    finally:
        for c, f in rorig.items():
            c.reversed = f
    return o


def path_term(path, T0, T1, o, fracs=((), (), ())):
    n = len(path)
    r0 = res_term(o['r0'], lambda kt: '(%d%%Z, %s)' % (kt[0], qc(kt[1])))
    r1 = res_term(o['r1'], lambda kt: '(%d%%Z, %s)' % (kt[0], qc(kt[1])))
    closed = res_term(o['closed'], coq_bool)
    fails = coq_list(['(%d, %s, %s, %s)' % (i, qc(a), qc(b), ERRMAP.get(e, 'ERuntime')) for i, a, b, e in o['fails']])
    if o['out'][0] == 'ok':
        obs = '(Ok %s)' % coq_list(['(%s, %d, %s, %s)' % (coq_bool(og), i, qc(a), qc(b)) for og, i, a, b in o['pieces']])
    else:
        obs = '(Err %s)' % ERRMAP.get(o['out'][1], 'ERuntime')
    # reversed order, normalised through ident like the model side (indices are positions)
    orev = o['rev'][2] if o['rev'][0] == 'ok' else []
    same_objs = len(set(o['ident'])) != n
    if same_objs:
        # identical objects in several positions: positions cannot be told apart; compare modulo identity
        exp = list(reversed(range(n)))
        orev = [exp[k] if k < n and o['ident'][exp[k]] == j else j for k, j in enumerate(orev)]
    fr = '(%s, %s, %s)' % tuple(coq_list([qc(x) for x in f]) for f in fracs)
    return '(%d, %s, %s, %s, %s, %s, %s, %s, %s, %s, %s, %s)' % (
        n, coq_list([str(c) for c in o['cls']]), coq_list([str(c) for c in o['ident']]), qc(T0), qc(T1),
        r0, r1, closed, fails, obs, coq_list([str(j) for j in orev]), fr)


def path_size(path):
    m = 0.0
    for s in path:
        for z in (s.start, s.end):
            m = max(m, abs(z.real), abs(z.imag))
        if hasattr(s, 'radius'):
            m = max(m, abs(s.radius.real) + abs(s.center.real), abs(s.radius.imag) + abs(s.center.imag))
        else:
            for z in s.bpoints():
                m = max(m, abs(z.real), abs(z.imag))
    return m or 1.0


def isclose(a, b):
    return abs(a - b) <= 1e-8 + 1e-5 * abs(b)


def holds_path(path, T0, T1, how, o, fam, variants=(False, False, False)):
    """the property on the implementation; returns [(key, what, detail)]"""
    from svgpathtools import Arc
    out = []
    n = len(path)
    has_arc = any(isinstance(s, Arc) for s in path)
    size = path_size(path)
    tol = (1e-7 if has_arc else 1e-9) * size
    valid = 0 <= T0 <= 1 and 0 <= T1 <= 1 and T0 != T1 and not (T0 == 1 and T1 == 0)
    closed = o['closed'] == ('ok', True)
    cont = o['closed'][0] == 'ok'
    dup = len(set(o['cls'])) != n
    t2t_bad = False
    hand = []
    redirect = (T0 == 1 and 0 < T1 < 1 and closed)
    for nm, T, edge, used in (('r0', T0, 1.0, T0 != 0 and not redirect), ('r1', T1, 0.0, T1 != 1)):
        r = o[nm]
        if not used:
            continue
        if r[0] == 'err':
            if 0 <= T <= 1 and n > 0:
                t2t_bad = True
        else:
            k, t = r[1]
            if t > 1.0 or t < 0.0:
                t2t_bad = True
            # an np.isclose hand-over that moves the point (t != edge) or wraps the index
            # ((len-1)+1) % len = 0 resp. (0-1) % len = len-1
            if isclose(t, edge) and (t != edge or (nm == 'r0' and k == n - 1) or (nm == 'r1' and k == 0 and T != 0)
                                     or not cont):
                # (on a discontinuous path even an exact hand-over jumps across the gap)
                hand.append(nm)

    def arc_tiny():
        # a piece that is a crop of an Arc over a tiny extent, re-parameterised to a point / full turn
        from svgpathtools import Arc as _Arc
        try:
            for piece, (og, idx, a, b) in zip(o['out'][1], o.get('pieces', [])):
                src = path[idx] if idx < n else None
                if not og and isinstance(piece, _Arc) and isinstance(src, _Arc):
                    ext = abs(src.delta * (b - a))
                    if ext < 1e-4 and abs(abs(piece.delta) - ext) > 1e-3:
                        return True
        except Exception:
            pass
        return False

    def arc_degenerate():
        # a crop of an Arc whose two end points round to the same number: Arc() asserts start != end
        from svgpathtools import Arc as _Arc
        try:
            for i, a, b, e in o.get('fails', []):
                if i < n and isinstance(path[i], _Arc) and e == 'AssertionError' and path[i].point(a) == path[i].point(b):
                    return True
        except Exception:
            pass
        return False

    def classify(default):
        if arc_degenerate():
            return 'arc-cropped-degenerate-raises'
        if arc_tiny():
            return 'arc-cropped-tiny-extent-full-turn'
        if dup and not variants[0]:
            # did index() pick an earlier equal segment?
            for nm in ('r0', 'r1'):
                if o[nm][0] == 'ok':
                    k = o[nm][1][0]
                    if 0 <= k < n and o['cls'][k] != k:
                        return 'path-cropped-index-duplicate-segment'
        if t2t_bad:
            return 'path-cropped-via-T2t-defect'
        if T1 == 0 and T0 > 0 and closed and n > 1 and not variants[2]:
            return 'path-cropped-to-T1-zero-extra-loop'
        if hand:
            return 'path-cropped-isclose-handover'
        return default

    if o['out'][0] == 'err':
        exc = o['out'][1]
        expected = None
        if not valid:
            expected = 'AssertionError'
        elif T1 < T0 and not (T0 == 1 and 0 < T1 < 1 and closed):
            if not cont:
                expected = 'AssertionError'          # isclosed() asserts continuity
            elif not closed:
                expected = 'ValueError'
        if T0 == 1 and 0 < T1 < 1 and not cont:
            expected = 'AssertionError'
        if (variants[1] and T1 < T0 and o['r0'][0] == 'ok' and o['r1'][0] == 'ok'
                and o['r0'][1][0] == n - 1 and o['r0'][1][1] == 1.0 and o['r1'][1][0] == 0 and isclose(o['r1'][1][1], 0.0)
                and exc == 'AssertionError'):
            # repaired hand-over: a crop from the very end of the path to (within tolerance of) its
            # start is the empty piece seg.cropped(1, 1); Bezier segments assert t0 < t1
            expected = 'AssertionError'
        if exc != expected:
            out.append((classify('path-cropped-raises'),
                        'Path.cropped(%r, %r) raised %s on a %s path (expected %s)' % (
                            T0, T1, exc, 'closed' if closed else ('continuous' if cont else 'discontinuous'),
                            expected or 'a cropped path'),
                        {'exception': o['out'][2]}))
        return out
    if not valid:
        out.append(('path-cropped-accepts-invalid', 'Path.cropped(%r, %r) returned instead of raising' % (T0, T1), {}))
        return out
    res = o['out'][1]
    if o.get('unknown'):
        out.append(('path-cropped-unknown-piece', 'a piece of the result is neither an original nor a recorded crop', {}))
    try:
        p0, p1 = path.point(T0), path.point(T1)
    except Exception as ex:
        return out + [('path-cropped-via-T2t-defect', 'Path.point raised %s' % type(ex).__name__, {})]
    errs = {}
    errs['start'] = abs(res[0].start - p0)
    errs['end'] = abs(res[-1].end - p1)
    if cont:
        errs['joined'] = max([abs(res[i].end - res[i + 1].start) for i in range(len(res) - 1)] + [0.0])
    try:
        total = path.length()
        if T0 < T1:
            want = path.length(T0, T1)
        else:
            want = (path.length(T0, 1) if T0 < 1 else 0.0) + (path.length(0, T1) if T1 > 0 else 0.0)
        got = res.length()
        errs['length'] = abs(got - want)
        ltol = 1e-8 * max(1.0, total) if not has_arc else 1e-6 * max(1.0, total)
    except Exception as ex:
        errs['length'] = 0.0
        ltol = 1.0
        if not t2t_bad:
            out.append(('path-length-raises', 'Path.length raised %s' % type(ex).__name__, {}))
    bad = [k for k in ('start', 'end', 'joined') if errs.get(k, 0.0) > tol]
    if errs['length'] > ltol:
        bad.append('length')
    if bad:
        # whole-path / wrong-piece anomalies vs a mere snap of the end point
        gross = (('length' in bad and errs['length'] > 1e-4 * max(1.0, path.length())) or ('joined' in bad)
                 or (cont and max(errs.get('start', 0.0), errs.get('end', 0.0)) > 1e-4 * size))
        key = classify('path-cropped-wrong')
        if key == 'path-cropped-isclose-handover':
            key += '-wrong-pieces' if gross else '-snap'
        out.append((key, 'Path.cropped(%r, %r): %s off (%s; tol %.3g, length tol %.3g)' % (
            T0, T1, ', '.join(bad), ', '.join('%s=%.3g' % kv for kv in sorted(errs.items())), tol, ltol),
            {'errors': errs, 'pieces': [list(p) for p in o.get('pieces', [])]}))
    return out


def holds_reversed(path, o):
    from svgpathtools import Arc
    out = []
    if o['rev'][0] == 'err':
        return [('path-reversed-raises', 'Path.reversed() raised %s' % o['rev'][1], {})]
    rp = o['rev'][1]
    n = len(path)
    has_arc = any(isinstance(s, Arc) for s in path)
    size = path_size(path)
    tol = (1e-7 if has_arc else 1e-9) * size
    if len(rp) != n:
        return [('path-reversed-length-of-list', 'reversed() has %d segments instead of %d' % (len(rp), n), {})]
    err = 0.0
    for i in range(n):
        for u in (0.0, 1.0, 0.5, 0.3):
            err = max(err, abs(rp[i].point(u) - path[n - 1 - i].point(1 - u)))
    if err > tol:
        snapped = any(isinstance(s, Arc) and abs(s.delta) == 180 for s in list(path) + list(rp))
        out.append(('path-reversed-arc-snap' if snapped else 'path-reversed-points',
                    'Path.reversed(): segment points differ from point(1-u) of the mirrored segment by %.3g' % err, {}))
    try:
        a, b = path.length(), rp.length()
        if abs(a - b) > 1e-8 * max(1.0, a) * (100 if has_arc else 1):
            out.append(('path-reversed-length', 'Path.reversed().length() = %r differs from length() = %r' % (b, a), {}))
    except Exception as ex:
        out.append(('path-length-raises', 'length() raised %s' % type(ex).__name__, {}))
    return out


WARMERS = ['length', 'point', 'T2t', 'cropped', 'length-partial', 'length-error', 'point-then-length']


def warm(path, how, rng):
    """fill the length cache of [path] the way a user would"""
    try:
        if how == 'length':
            path.length()
        elif how == 'point':
            path.point(rng.uniform(0.05, 0.95))
        elif how == 'T2t':
            path.T2t(rng.uniform(0.05, 0.95))
        elif how == 'cropped':
            path.cropped(0.25, 0.75)
        elif how == 'length-partial':
            path.length(0.25, 0.5)
        elif how == 'length-error':
            path.length(error=1e-6, min_depth=3)
        else:
            path.point(0.5)
            path.length()
    except Exception:
        pass


def fractions_of(p):
    """the path's length fractions (_lengths); falls back to t2T differences"""
    try:
        p._calc_lengths()
        return [float(x) for x in p._lengths]
    except Exception:
        return [float(p.t2T(i, 1.0) - p.t2T(i, 0.0)) for i in range(len(p))]


def reversed_vs_fresh(path, rng):
    """Path.reversed() of a fresh Path and of a Path whose caches were filled first, compared
    with a FRESH Path built from the reversed segments: point(T), T2t, length, crops.
    Returns (violations, fractions, fractions of reversed fresh, fractions of reversed warmed)."""
    from svgpathtools import Path, Arc
    out = []
    segs = list(path)
    n = len(segs)
    has_arc = any(isinstance(s, Arc) for s in segs)
    size = path_size(path)
    tol = (1e-7 if has_arc else 1e-9) * size
    how = rng.choice(WARMERS)
    Ts = [rng.random() for _ in range(4)] + [k / 32.0 for k in (1, 5, 16, 27, 31)] + [0.0, 1.0]
    Ta, Tb = sorted([rng.uniform(0.02, 0.98), rng.uniform(0.02, 0.98)])
    if Tb - Ta < 1e-3:
        Ta, Tb = 0.125, 0.5
    fr = rfr = [[], []]
    try:
        ref = Path(*[s.reversed() for s in reversed(segs)])
        p_fresh = Path(*segs)
        p_warm = Path(*segs)
        warm(p_warm, how, rng)
        fr = fractions_of(Path(*segs))
        total = ref.length()
    except Exception as ex:
        return [('path-reversed-raises', 'building the reversed reference raised %r' % ex, {})], [], [], []
    rfr = []
    for label, p in (('fresh', p_fresh), ('cache filled by ' + how, p_warm)):
        key = 'path-reversed-vs-fresh-object' if label == 'fresh' else 'path-reversed-stale-cache'
        try:
            rp = p.reversed()
            bad = []
            for T in Ts:
                d = abs(rp.point(T) - ref.point(T))
                if d > tol:
                    bad.append('point(%r) off by %.3g' % (T, d))
                    break
                d2 = abs(rp.point(T) - p.point(1 - T))
                if d2 > max(tol, 1e-6 * size):
                    bad.append('point(%r) differs from point(1-T) of the original by %.3g' % (T, d2))
                    break
            for T in Ts[:6]:
                k1, t1 = rp.T2t(T)
                k2, t2 = ref.T2t(T)
                if k1 != k2 or abs(t1 - t2) > 1e-9:
                    bad.append('T2t(%r) = %r, a fresh path gives %r' % (T, (k1, t1), (k2, t2)))
                    break
            if abs(rp.length() - total) > 1e-10 * max(1.0, total):
                bad.append('length() = %r, fresh %r' % (rp.length(), total))
            la, lb = rp.length(Ta, Tb), ref.length(Ta, Tb)
            if abs(la - lb) > 1e-9 * max(1.0, total):
                bad.append('length(%r,%r) = %r, fresh %r' % (Ta, Tb, la, lb))
            try:
                ca, cb = rp.cropped(Ta, Tb), ref.cropped(Ta, Tb)
                if len(ca) != len(cb) or abs(ca.start - cb.start) > tol or abs(ca.end - cb.end) > tol:
                    bad.append('cropped(%r,%r) runs %r -> %r, fresh %r -> %r' % (Ta, Tb, ca.start, ca.end, cb.start, cb.end))
            except Exception:
                pass
            rfr.append(fractions_of(rp))
            if bad:
                out.append((key, 'Path.reversed() [%s] does not behave like a fresh Path of the reversed segments: %s'
                            % (label, '; '.join(bad)), {'history': label}))
        except Exception as ex:
            rfr.append([])
            out.append((key, 'Path.reversed() [%s] raised %s' % (label, type(ex).__name__), {'history': label}))
    return out, fr, rfr[0], rfr[1]



def corpus_paths():
    """the closed examples of Proofs/CropRefute.v, replayed on the implementation"""
    from svgpathtools import Path, Line
    sq = lambda: Path(Line(0, 1), Line(1, 1 + 1j), Line(1 + 1j, 1j), Line(1j, 0))
    st = lambda: Path(Line(0, 1), Line(1, 1 + 1j), Line(1 + 1j, 2 + 1j))
    tw = lambda: Path(Line(0, 1), Line(1, 1 + 1j), Line(1 + 1j, 1j), Line(1j, 0), Line(0, 1), Line(1, 0))
    return [(sq(), 0.125, 0.875, 'forward', 'corpus-square'), (sq(), 0.875, 0.125, 'wrap', 'corpus-square-wrap'),
            (st(), 5 / 6, 1 / 6, 'wrap', 'corpus-open-wrap'), (sq(), 1.0, 0.125, 'wrap', 'corpus-redirect'),
            (tw(), 2 / 15, 43 / 60, 'forward', 'corpus-twice'),
            (st(), 1 - 2.0 ** -22, 1.0, 'forward', 'corpus-handover-wraps'),
            (st(), 1 / 3 - 2.0 ** -40, 1 / 3 + 2.0 ** -40, 'forward', 'corpus-across-joint'),
            (st(), 0.0, 2.0 ** -40, 'forward', 'corpus-tiny-prefix'),
            (sq(), 0.875, 0.0, 'wrap', 'corpus-to-zero')]


def run_path(rep, rng, n, tmp, replay_case=None, variants=(False, False, False), an=False):
    import svgpathtools
    cases, meta, fams, hows = [], [], {}, {}
    found = {}
    nontriv = set()
    todo = []
    if replay_case:
        todo = [replay_case]
    else:
        todo = corpus_paths()
        for i in range(n):
            try:
                path, fam = gen_path(rng, an)
            except Exception:
                continue
            try:
                closed_ok = path.isclosed()
            except Exception:
                closed_ok = False
            for _ in range(2):
                T0, T1, how = gen_T(rng, path, closed_ok)
                todo.append((path, T0, T1, how, fam))
    for path, T0, T1, how, fam in todo:
        fams[fam] = fams.get(fam, 0) + 1
        hows[how] = hows.get(how, 0) + 1
        try:
            o = observe_path(path, T0, T1)
        except Exception as ex:
            found.setdefault('harness-observe', [0, 'could not observe Path.cropped: %r' % ex,
                                                 {'kind': 'exception', 'path': path_repr(path)}])[0] += 1
            continue
        if o['out'][0] == 'err' and o['out'][1] not in ERRMAP:
            found.setdefault('path-cropped-raises-other', [0, 'Path.cropped raised %s' % o['out'][1],
                                                           {'kind': 'exception', 'path': path_repr(path), 'T0': T0, 'T1': T1,
                                                            'error': o['out'][2]}])[0] += 1
            continue
        rv_viol, fr, rf1, rf2 = reversed_vs_fresh(path, rng)
        cases.append(path_term(path, T0, T1, o, (fr, rf1, rf2)))
        meta.append((path, T0, T1, how, fam, o))
        if o['out'][0] == 'ok' and len(o['pieces']) > 1:
            nontriv.add((path_repr(path), T0, T1))
        for key, what, detail in holds_path(path, T0, T1, how, o, fam, variants) + holds_reversed(path, o) + rv_viol:
            found.setdefault(key, [0, what, dict(detail, kind='property', path=path_repr(path), T0=T0, T1=T1,
                                                 T0_hex=common.fhex(T0), T1_hex=common.fhex(T1), family=fam,
                                                 T2t_T0=str(o['r0']), T2t_T1=str(o['r1']))])[0] += 1
    okdef_path = (OKDEF_PATH.replace('__IX__', coq_bool(variants[0])).replace('__HW__', coq_bool(variants[1]))
                  .replace('__TZ__', coq_bool(variants[2])))
    fails, errors = common.run_cases(tmp, '', 'casety', okdef_path, cases,
                                     shard=max(8, (len(cases) + 15) // 16), prefix='path')
    for e in errors:
        rep.violation('correspondence case file (paths) failed to evaluate', {'kind': 'cases', 'error': e},
                      found_input=False, key='cases-error')
    for idx, code in fails:
        path, T0, T1, how, fam, o = meta[idx]
        key = 'path-corr-%d' % code
        found.setdefault(key, [0, 'C09 (paths): %s — implementation and model disagree' % PATH_OBS.get(code, code),
                               {'kind': 'correspondence', 'path': path_repr(path), 'T0': T0, 'T1': T1,
                                'T0_hex': common.fhex(T0), 'T1_hex': common.fhex(T1),
                                'observed': str(o['out'][:2]) if o['out'][0] == 'err' else str(o.get('pieces')),
                                'T2t_T0': str(o['r0']), 'T2t_T1': str(o['r1']), 'closed': str(o['closed'])}])[0] += 1
    for key, (cnt, what, rp) in sorted(found.items()):
        rp['cases_in_this_run'] = cnt
        rp['how'] = './check C09 --replay <this file>'
        rep.violation('%s  [%d case(s)]' % (what, cnt), rp, key=key)
    return len(cases), len(nontriv), fams, hows, meta


# ===================================================================== driver
def run(rep, tier, seed, replay=None):
    warnings.simplefilter('ignore')
    rng = common.mkrng(seed, 'C09')
    with common.Scratch() as tmp:
        info = common.std_static(rep, 'C09', GEN_GROUPS, AGREE, tmp)
        # the methods themselves are expected to be outside the translator's subset
        expected_untranslated = {k: v for k, v in info['untranslated'].items() if k.startswith('gen_')}
        rep.cov['translator_expected_unsupported'] = sorted(expected_untranslated)
        nb, na, npth = (400, 160, 110) if tier == 'quick' else (4000, 1200, 900)
        if info['agree_failed']:
            nb, na, npth = nb * 3, na * 2, npth * 2
        fx = detect_fx()
        an = detect_an()
        rep.cov['crop_bezier_analytic_relocation'] = an
        rb = ra = rp = None
        if replay:
            r = json.load(open(replay))['replay']
            cx = lambda p: complex(float.fromhex(p[0]), float.fromhex(p[1]))
            if 'points' in r:
                rb = ([cx(p) for p in r['points']], float.fromhex(r['t0']), float.fromhex(r['t1']),
                      float.fromhex(r['ts']), 'replay',
                      None if r.get('scalar_type', 'complex') == 'complex' else r.get('scalar_type'))
            elif 'radius' in r:
                ra = ((cx(r['start']), cx(r['radius']), float.fromhex(r['rotation']), r['large_arc'], r['sweep'],
                       cx(r['end']), 'replay'), float.fromhex(r['t0']), float.fromhex(r['t1']))
            elif 'path' in r:
                from svgpathtools import Path, Line, QuadraticBezier, CubicBezier, Arc
                import numpy as np
                rp = (eval(r['path']), float.fromhex(r['T0_hex']), float.fromhex(r['T1_hex']), 'replay', 'replay')
        nbez = nbnt = narc = nant = npa = npnt = 0
        bmodes = afams = pfams = phows = {}
        if not replay or rb:
            nbez, nbnt, bmodes, bmeta = run_bez(rep, rng, nb, tmp, rb, an)
        if not replay or ra:
            narc, nant, afams = run_arc(rep, rng, na, tmp, fx, ra)
        if not replay or rp:
            variants = detect_crop_variants()
            rep.cov['path_cropped_variants_ix_hw_tz'] = list(variants)
            npa, npnt, pfams, phows, pmeta = run_path(rep, rng, npth, tmp, rp, variants, an)
        rep.cov['evaluations'] = nbez * 9 + narc * 13 + npa * 5
        rep.cov['traces_validated_against_impl'] = nbez + narc + npa
        rep.cov['distinct_nontrivial'] = nbnt + nant + npnt
        rep.cov['rule'] = ('Bezier: Line/Quadratic/Cubic from the pools %s (incl. self-intersecting cubics cropped at the '
                           'double point), 0<=t0<t1<=1 from {0,1,dyadics,thirds,1 ulp from the ends,uniform}; non-trivial = '
                           '0<t0 and t1<1 (the oracle branch of crop_bezier). Arcs: families %s, crops incl. extents at / next '
                           'to 180 degrees; non-trivial = interior crops. Paths: families %s, (T0,T1) kinds %s with T at '
                           '0, 1, dyadics, joints +- ulps / 1e-12 / 1e-10 / 3e-7; non-trivial = result with >= 2 pieces. '
                           'Every case compared inside Coq (NumQ exact rationals / 120-bit bigfloats / symbolic segments) '
                           'and the property evaluated on the implementation.') % (
                               sorted(bmodes), sorted(afams), sorted(pfams), sorted(phows))
        rep.cov['input_distribution'] = {'bezier': bmodes, 'arc': afams, 'path_family': pfams, 'path_T_kind': phows}
        rep.cov['arc_variant_fx'] = fx
        try:
            rep.cov['samples'] = [
                {'bezier': [str(p) for p in bmeta[4][0]], 't0': bmeta[4][1], 't1': bmeta[4][2],
                 't1_adj': bmeta[4][5]['adj'], 'cropped': [str(p) for p in bmeta[4][5]['crop']]},
                {'path': path_repr(pmeta[9][0]), 'T0': pmeta[9][1], 'T1': pmeta[9][2],
                 'pieces': str(pmeta[9][5].get('pieces', pmeta[9][5]['out'][:2]))}]
        except Exception:
            pass
        if info['agree_failed'] and not rep.violations:
            rep.violation('agreement lemma(s) %s no longer check: generated code differs from the model'
                          % info['agree_failed'],
                          {'kind': 'agreement', 'lemmas': info['agree_failed'], 'file': 'coq/GenAgree/Crop.v',
                           'messages': info.get('agree_msgs', {})}, found_input=False, key='agree')
    rep.assumptions += [
        'oracle: radialrange (bezier_radialrange / polyroots) relocates t1 on the trimmed piece; its answer is an input of '
        'the model and the premise t1_adj = (t1-t0)/(1-t0) of C09_crop is sampled (1e-6)',
        'oracle: Path.T2t / Path.isclosed answers are inputs of the Path.cropped model (C05 covers T2t)',
        'np.isclose modelled by |a-b| <= atol + rtol*|b| with the binary64 values of 1e-8, 1e-5, evaluated exactly',
        'bigfloat (120-bit, Interval library) evaluation of the arc model is accurate to ~1e-30 relative (unverified enclosure)',
        'binary64 rounding bound 256*2^-53*sum|P_i| for de Casteljau control points (t in [0,1])',
        'autoscale_radius=True (default) only; segment == is an equivalence on the generated paths (no NaN)']
