"""C13 — radialrange / closest_point_in_path / farthest_point_in_path return the
global extremes of the distance.  Theorems: coq/Props/C13.v.  Ties: translator
(Line.radialrange, GenAgree/Extrema.v) and a correspondence check computed
INSIDE Coq in 120-bit bigfloats against Model/Extrema.v: the np.roots output
(wrapped, handed over as data) goes through the model's filters, the
as-coded de-duplication loop and the first-occurrence min/max; the polynomial
handed to np.roots is compared with the model's r_squared_deriv (Base/Poly.v
operations).  Plus the property itself on the implementation: no sampled (257
points + golden-section refinement) point beats the returned extremes."""
import math, warnings, json
import common
from common import bf, cbf, coq_list
from harness.c08 import RootsTap, golden, rnd, gen_line, gen_quad, gen_cubic, make_seg, ser, deser, probe_polyroots_fixed

GEN_GROUPS = ['GenBoxes', 'GenExtrema']
AGREE = ['Extrema.v']

OKDEF = r'''
From SVP Require Import Model.Bezier Model.Extrema.
Definition N := NumB.
Definition T := NumTB.
Definition atol : bf := %(atol)s.
Definition rtol : bf := %(rtol)s.
Definition fixed : bool := %(fixed)s.     (* polyroots de-duplication variant of the tree under test (probed) *)
Definition rr : Type := ((bf * bf) * (bf * bf))%%type.
Definition dist (w z : Cplx bf) : bf := cabs T (csub N w z).
Definition bzero : bf := zero N.
Definition pad (n : nat) (l : list bf) : list bf := repeat bzero (n - length l) ++ l.
Fixpoint lcl (tol : bf) (a b : list bf) : bool :=
  match a, b with
  | [], [] => true
  | x :: r, y :: s => bclose tol x y && lcl tol r s
  | _, _ => false
  end.
Definition oeq_min (a b : option (bf * bf * nat)) : bool :=
  match a, b with
  | None, None => true
  | Some (d, t, i), Some (d', t', i') => bf_eqb d d' && bf_eqb t t' && Nat.eqb i i'
  | _, _ => false
  end.
Definition oeq_max (a b : bf * option (bf * nat)) : bool :=
  bf_eqb (fst a) (fst b) &&
  match snd a, snd b with
  | None, None => true
  | Some (t, i), Some (t', i') => bf_eqb t t' && Nat.eqb i i'
  | _, _ => false
  end.
Inductive rcase : Type :=
| RLine (s e z : Cplx bf) (tol : bf) (res : rr)
| RBez (pts : list (Cplx bf)) (z : Cplx bf) (roots : list (Cplx bf)) (dco : list bf) (ctol tol : bf) (res : rr)
| RPath (segs : list rr) (omin : option (bf * bf * nat)) (omax : bf * option (bf * nat)).
Definition bez_poly (pts : list (Cplx bf)) : list (Cplx bf) :=
  match pts with
  | [s; c; e] => quad_poly N s c e
  | [s; c1; c2; e] => cubic_poly N s c1 c2 e
  | _ => [] end.
Definition bez_point (pts : list (Cplx bf)) (t : bf) : Cplx bf :=
  match pts with
  | [s; c; e] => quad_point N s c e t
  | [s; c1; c2; e] => cubic_point N s c1 c2 e t
  | _ => c0 N end.
Definition ok (c : rcase) : nat :=
  match c with
  | RLine s e z tol res =>
      let m := line_radialrange N T s e z in
      let '((dmin, tmin), (dmax, tmax)) := res in
      first_fail
        [ (bclose tol dmin (fst (fst m)), 1);            (* d_min *)
          (bclose tol dmax (fst (snd m)), 2);            (* d_max *)
          (bclose tol dmin (dist (line_point N s e tmin) z), 3);   (* d_min is the distance at t_min *)
          (bclose tol dmax (dist (line_point N s e tmax) z), 4);
          (le01 N tmin && le01 N tmax, 5) ]
  | RBez pts z roots dco ctol tol res =>
      let m := bezier_radialrange N T fixed atol rtol (bez_point pts) z roots in
      let dm := r_squared_deriv N (bez_poly pts) z in
      let '((dmin, tmin), (dmax, tmax)) := res in
      first_fail
        [ (lcl ctol (pad (length dm) dco) dm, 6);         (* the polynomial handed to np.roots *)
          (bclose tol dmin (fst (fst m)), 1);
          (bclose tol dmax (fst (snd m)), 2);
          (bclose tol dmin (dist (bez_point pts tmin) z), 3);
          (bclose tol dmax (dist (bez_point pts tmax) z), 4);
          (le01 N tmin && le01 N tmax, 5) ]
  | RPath segs omin omax =>
      let m := path_radialrange N segs in
      first_fail [ (oeq_min omin (fst m), 7); (oeq_max omax (snd m), 8) ]
  end.
'''
OBS = {1: 'd_min vs model', 2: 'd_max vs model', 3: 'd_min is not the distance at t_min', 4: 'd_max is not the distance at t_max',
       5: 't_min / t_max outside [0,1]', 6: 'polynomial handed to np.roots vs r_squared_deriv (Base/Poly.v)',
       7: 'Path.radialrange minimum (value, t, index) vs strict-< fold', 8: 'Path.radialrange maximum (value, t, index) vs strict-> fold'}


# ------------------------------------------------------------ number types
# the same numeric value handed over as a builtin or as a numpy scalar must give the same answer
NUMTYPES = ['complex', 'np.complex128', 'float', 'np.float64', 'int', 'np.int64']


def admissible(v):
    v = complex(v)
    out = ['complex', 'np.complex128']
    if v.imag == 0:
        out += ['float', 'np.float64']
        if v.real == int(v.real) and abs(v.real) < 2 ** 52:
            out += ['int', 'np.int64']
    return out


def typed(v, ty):
    import numpy as np
    v = complex(v)
    return {'complex': lambda: v, 'np.complex128': lambda: np.complex128(v), 'float': lambda: float(v.real),
            'np.float64': lambda: np.float64(v.real), 'int': lambda: int(v.real),
            'np.int64': lambda: np.int64(int(v.real))}[ty]()


def pick_type(rng, v, numpy_bias=0.6):
    """a random admissible type; the most special admissible ones (int / float) and numpy scalars are favoured"""
    adm = admissible(v)
    pool = adm[-2:] if rng.random() < 0.7 else adm
    np_pool = [t for t in pool if t.startswith('np.')]
    if np_pool and rng.random() < numpy_bias:
        return rng.choice(np_pool)
    return rng.choice(pool)


def typed_seg(kind, data, ptypes):
    from svgpathtools import Line, QuadraticBezier, CubicBezier
    cls = {'line': Line, 'quad': QuadraticBezier, 'cubic': CubicBezier}[kind]
    return cls(*[typed(p, t) for p, t in zip(data, ptypes)])


def same_result(a, b, size):
    """two radialrange results (tuples of numbers / None) agree to rounding"""
    fa = [x for tup in a for x in tup]; fb = [x for tup in b for x in tup]
    if len(fa) != len(fb):
        return False
    for x, y in zip(fa, fb):
        if (x is None) != (y is None):
            return False
        if x is not None and abs(float(x) - float(y)) > 1e-9 * max(size, 1.0):
            return False
    return True


def gen_typed_case(rng):
    """small-integer Bezier whose end points lie on the real axis (so that they can be ints / floats / numpy
    ints / numpy floats) and a real or integer query point near the middle of the curve: the extremes are
    typically interior critical points"""
    ri = lambda lo, hi: float(rng.randint(lo, hi))
    kind = rng.choice(['quad', 'cubic', 'cubic', 'line'])
    a, b = complex(ri(-12, -1), 0), complex(ri(1, 12), 0)
    if kind == 'line':
        pts = [a, b + 1j * rng.choice([0, 0, ri(-5, 5)])]
    elif kind == 'quad':
        pts = [a, complex(ri(-6, 6), ri(2, 12) * rng.choice([1, -1])), b]
    else:
        pts = [a, complex(ri(-15, 15), ri(-12, 12)), complex(ri(-15, 15), ri(-12, 12)), b]
    zm = rng.choice(['int', 'int', 'real', 'complex-int'])
    if zm == 'int': z = complex(ri(-8, 8), 0)
    elif zm == 'real': z = complex(rng.uniform(-8, 8), 0)
    else: z = complex(ri(-8, 8), ri(-8, 8))
    return kind, pts, z, 'typed/%s/z-%s' % (kind, zm)


# -------------------------------------------------------------- generators
def unit(z):
    return z / abs(z) if z != 0 else 1 + 0j


def gen_query(rng, seg, kind):
    """query point classes of the property's quantifier"""
    mode = rng.choice(['far', 'near', 'on', 'curvature-centre', 'beyond-start', 'beyond-end', 'rand', 'bisector'])
    import numpy as np
    pts = seg.bpoints()
    size = max(1e-300, max(abs(p) for p in pts))
    ext = max(1e-12, max(abs(p - pts[0]) for p in pts))
    t0 = rng.choice([0.0, 1.0, 0.5, rng.uniform(0, 1), rng.uniform(0, 1)])
    p0 = complex(seg.point(t0))
    if mode == 'far':
        return p0 + ext * 10 ** rng.uniform(2, 6) * np.exp(1j * rng.uniform(0, 2 * math.pi)), mode
    if mode == 'on':
        return p0, mode
    try:
        d1 = complex(seg.derivative(t0))
    except Exception:
        d1 = 0j
    nrm = 1j * unit(d1)
    if mode == 'near':
        return p0 + nrm * ext * rng.choice([1, -1]) * 10 ** rng.uniform(-9, -1), mode
    if mode == 'curvature-centre' and kind != 'line':
        d2 = complex(seg.derivative(t0, 2))
        cr = d1.real * d2.imag - d1.imag * d2.real
        if abs(cr) > 1e-12 * max(1e-300, abs(d1)) ** 3:
            R = abs(d1) ** 3 / cr
            z = p0 + nrm * R
            if abs(z) < 1e6 * size:
                return z + nrm * rng.choice([0, 0, 1e-12, -1e-12, 1e-9, -1e-9]) * ext, mode
        return p0 + nrm * ext, 'near'
    if mode == 'beyond-start':
        return complex(seg.point(0)) - unit(complex(seg.derivative(0)) if pts[0] != pts[1] else pts[-1] - pts[0]) * ext * rng.uniform(0.1, 3), mode
    if mode == 'beyond-end':
        return complex(seg.point(1)) + unit(complex(seg.derivative(1)) if pts[-1] != pts[-2] else pts[-1] - pts[0]) * ext * rng.uniform(0.1, 3), mode
    if mode == 'bisector':      # equidistant from both ends: d0 == d1 ties
        m = (pts[0] + pts[-1]) / 2
        return m + 1j * (pts[-1] - pts[0]) * rng.choice([0, 0.5, -1, 2]), mode
    return rnd(rng, 2 * size), 'rand'


def curvature_centre(rng, seg):
    td = rng.uniform(0.05, 0.95)
    d1, d2 = complex(seg.derivative(td)), complex(seg.derivative(td, 2))
    cr = d1.real * d2.imag - d1.imag * d2.real
    if abs(cr) < 1e-9 or abs(d1) == 0:
        return complex(seg.point(td)) + 1j, 'near'
    nrm = 1j * d1 / abs(d1)
    z = complex(seg.point(td)) + nrm * abs(d1) ** 3 / cr
    if abs(z) > 1e4:
        return complex(seg.point(td)) + nrm, 'near'
    return z + rng.choice([0, 1e-12, -1e-12, 1e-10, -1e-10]) * nrm, 'curvature-centre'


def gen_on_path(rng):
    """a connected path with small-integer control points and a query point exactly ON it (distance exactly 0.0):
    the path start, an interior vertex, or an interior point of an axis-aligned Line at t = k/8; the segments
    after the one carrying the query point reach much farther away, so the farthest point is in a LATER segment"""
    ri = lambda lo, hi: float(rng.randint(lo, hi))
    n = rng.randint(3, 5)
    verts = [complex(ri(-8, 8), ri(-8, 8))]
    for k in range(n):
        far = 1 if k < n - 1 else rng.choice([20, 40])            # the last segment goes far away
        step = complex(ri(1, 6) * rng.choice([1, -1]), ri(1, 6) * rng.choice([1, -1])) * far
        verts.append(verts[-1] + step)
    segs = []
    for k in range(n):
        a, b = verts[k], verts[k + 1]
        kind = rng.choice(['line', 'line', 'quad', 'cubic'])
        if kind == 'line': segs.append(('line', [a, b]))
        elif kind == 'quad': segs.append(('quad', [a, a + complex(ri(-4, 4), ri(-4, 4)), b]))
        else: segs.append(('cubic', [a, a + complex(ri(-4, 4), ri(-4, 4)), b + complex(ri(-4, 4), ri(-4, 4)), b]))
    mode = rng.choice(['start', 'vertex', 'axis-line-interior'])
    if mode == 'start':
        z = verts[0]
    elif mode == 'vertex':
        z = verts[rng.randint(1, n - 2)]
    else:
        j = rng.randint(0, n - 2)
        a = verts[j]
        m, k8 = ri(1, 4) * rng.choice([1, -1]), rng.randint(1, 7)
        b = a + (8 * m if rng.random() < 0.5 else 8j * m)
        segs[j] = ('line', [a, b])
        if j + 1 < n:       # keep the path connected
            nxt = list(segs[j + 1][1]); nxt[0] = b; segs[j + 1] = (segs[j + 1][0], nxt)
        z = a + (b - a) * k8 / 8
    return segs, z, 'path-on/' + mode


def near_circular_cubic(rng):
    """the standard cubic approximation of a quarter circle, moved around; the
    centre is (nearly) equidistant from the whole curve"""
    k = 0.5522847498307936
    r = 10 ** rng.uniform(-1, 2)
    rot = complex(math.cos(a := rng.uniform(0, 2 * math.pi)), math.sin(a))
    c = rnd(rng, 50)
    pts = [c + r * rot * p for p in (1 + 0j, 1 + k * 1j, k + 1j, 1j)]
    return pts, c


def gen_seg(rng):
    kind = rng.choice(['line', 'quad', 'quad', 'cubic', 'cubic', 'cubic'])
    for _ in range(20):
        data, mode = {'line': gen_line, 'quad': gen_quad, 'cubic': gen_cubic}[kind](rng)
        if kind == 'line' and data[0] == data[1]:
            continue            # Line.radialrange divides by |end - start|^2
        return kind, data, mode
    return 'line', [0j, 1 + 1j], 'int'


# --------------------------------------------------------- implementation
def rr_term(res):
    (dmin, tmin), (dmax, tmax) = res
    return '((%s, %s), (%s, %s))' % (bf(float(dmin)), bf(float(tmin)), bf(float(dmax)), bf(float(tmax)))


def sampled_extremes(seg, z, n=257):
    f = lambda t: abs(complex(seg.point(t)) - z)
    ts = [i / (n - 1) for i in range(n)]
    vals = [f(t) for t in ts]
    out = []
    for sign in (1, -1):
        best, bt = min(sign * v for v in vals), None
        bt = ts[[sign * v for v in vals].index(best)]
        for i in range(n):
            v = sign * vals[i]
            if (i == 0 or v <= sign * vals[i - 1]) and (i == n - 1 or v <= sign * vals[i + 1]):
                t, fv = golden(f, ts[max(i - 1, 0)], ts[min(i + 1, n - 1)], sign)
                if sign * fv < best:
                    best, bt = sign * fv, t
        out.append((sign * best, bt))
    return out    # [(dmin, t), (dmax, t)]


def seg_property(seg, z, res, size):
    """C13 on the implementation for one segment; None or (what, detail, t_star)"""
    (dmin, tmin), (dmax, tmax) = res
    if not (0 <= tmin <= 1 and 0 <= tmax <= 1):
        return 't-outside', 't_min=%r t_max=%r' % (tmin, tmax), None
    for d, t, nm in ((dmin, tmin, 'min'), (dmax, tmax, 'max')):
        if abs(d - abs(complex(seg.point(t)) - z)) > 1e-9 * size:
            return 'd-not-distance', 'd_%s=%r but |point(%r)-z|=%r' % (nm, d, t, abs(complex(seg.point(t)) - z)), None
    (smin, stmin), (smax, stmax) = sampled_extremes(seg, z)
    if smin < dmin - 1e-7 * size:
        return 'not-global-min', 'd_min=%r at t=%r but |point(%r)-z|=%r' % (dmin, tmin, stmin, smin), stmin
    if smax > dmax + 1e-7 * size:
        return 'not-global-max', 'd_max=%r at t=%r but |point(%r)-z|=%r' % (dmax, tmax, stmax, smax), stmax
    return None


def excess(seg, z, res, tstar):
    d = abs(complex(seg.point(tstar)) - z)
    return max(res[0][0] - d, d - res[1][0])


def dedup_suspect(calls, tstar, atol, rtol):
    """was t* (the better point found by sampling) a real root in [0,1] of the polynomial handed to np.roots
    that passed the filters and was then removed by the pair-index / root-index confusion of the
    de-duplication loop, although no surviving root is close to it?"""
    if tstar is None:
        return False
    close = lambda a, b: abs(a - b) < atol + rtol * abs(b)
    for coeffs, roots in calls:
        rs = [r.real for r in roots if close(r.imag, 0)]
        rs = [r for r in rs if 0 <= r <= 1]
        dup, idx = set(), 0
        for i in range(len(rs)):
            for j in range(i + 1, len(rs)):
                if close(rs[i], rs[j]):
                    dup.add(idx)
                idx += 1
        kept = [r for k, r in enumerate(rs) if k not in dup]
        for k, r in enumerate(rs):
            if k in dup and abs(r - tstar) < 1e-5 and not any(close(r, q) or close(q, r) for q in kept):
                return True
    return False


def ill_conditioned(calls):
    """the polynomial handed to np.roots has a leading coefficient that is negligible next to the others
    (nearly degree-deficient curve): LAPACK then returns the finite roots with reduced accuracy"""
    for coeffs, roots in calls:
        cs = [abs(c) for c in coeffs]
        if len(cs) >= 2 and cs[0] != 0 and cs[0] <= 1e-10 * max(cs):
            return True
    return False


def observe_seg(kind, data, z, ztype='complex', ptypes=None):
    seg = typed_seg(kind, data, ptypes or ['complex'] * len(data))
    with RootsTap() as tap:
        res = seg.radialrange(typed(z, ztype))
    (dmin, tmin), (dmax, tmax) = res
    res = ((float(dmin), float(tmin)), (float(dmax), float(tmax)))
    size = max(1e-300, max(abs(p) for p in data), abs(z))
    tol = bf(1e-9 * size)
    if kind == 'line':
        term = 'RLine %s %s %s %s %s' % (cbf(data[0]), cbf(data[1]), cbf(z), tol, rr_term(res))
    else:
        coeffs, roots = tap.calls[0] if tap.calls else ([], [])
        dco = [float(c.real) for c in coeffs]
        ctol = bf(1e-9 * max([abs(c) for c in dco] + [1e-300]))
        term = 'RBez %s %s %s %s %s %s %s' % (coq_list([cbf(p) for p in data]), cbf(z),
                                             coq_list([cbf(r) for r in roots]), coq_list([bf(c) for c in dco]),
                                             ctol, tol, rr_term(res))
    return term, res, seg, size, list(tap.calls)


def path_terms(results, pres):
    (dmin, tmin, imin), (dmax, tmax, imax) = pres
    omin = 'None' if tmin is None else '(Some (%s, %s, %d%%nat))' % (bf(float(dmin)), bf(float(tmin)), imin)
    omax = '(%s, %s)' % (bf(float(dmax)), 'None' if tmax is None else '(Some (%s, %d%%nat))' % (bf(float(tmax)), imax))
    return 'RPath %s %s %s' % (coq_list([rr_term(r) for r in results]), omin, omax)


def run(rep, tier, seed, replay=None):
    warnings.simplefilter('ignore')
    import numpy as np
    np.seterr(all='ignore')
    from svgpathtools import Path, CubicBezier
    from svgpathtools.path import closest_point_in_path, farthest_point_in_path
    import svgpathtools.misctools as mt
    import inspect
    sig = inspect.signature(mt.isclose)
    atol, rtol = sig.parameters['atol'].default, sig.parameters['rtol'].default
    fixed = probe_polyroots_fixed()
    rep.cov['variant'] = {'polyroots_dedup': 'repaired (fixed=true)' if fixed else 'pinned (fixed=false)'}
    rng = common.mkrng(seed, 'C13')
    with common.Scratch() as tmp:
        info = common.std_static(rep, 'C13', GEN_GROUPS, AGREE, tmp)
        rep.cov['trusted_base'] = sorted(set(rep.cov['trusted_base']) | {
            'oracle: numpy.roots (output handed to the model as data; contract stated in the _partial theorems)',
            'Base/BigF.v: 120-bit bigfloat evaluation of the model (unverified enclosure)'})
        expected_untranslated = {'gen_bezier_real_minmax_4'}
        changed = bool(info['agree_failed']) or bool(set(info['untranslated']) - expected_untranslated)
        n = 600 if tier == 'quick' else 20000
        if changed: n *= 3
        todo = []        # ('seg', kind, data, z, mode) | ('path', [(kind, data)...], z, mode)
        cx = lambda h: complex(float.fromhex(h[0]), float.fromhex(h[1]))
        forced_types = None
        if replay:
            r = json.load(open(replay))['replay']
            c = r['case']
            if c['kind'] == 'path':
                todo.append(('path', [deser(s) for s in c['segments']], cx(r['z']), 'replay'))
                forced_types = (c.get('ztype', 'complex'), [s.get('ptypes') for s in c['segments']])
            else:
                k, d = deser(c); todo.append(('seg', k, d, cx(r['z']), 'replay'))
                forced_types = (c.get('ztype', 'complex'), [c.get('ptypes')])
        else:
            # hand-picked: a point segment queried at itself (the seed (0, None, None) of the max fold)
            todo.append(('path', [('cubic', [3 + 4j] * 4)], 3 + 4j, 'degenerate-point-path'))
            # hand-picked: query point = path start; the farthest point is in the last segment
            todo.append(('path', [('line', [0j, 4 + 0j]), ('line', [4 + 0j, 4 + 3j]), ('line', [4 + 3j, 40 + 30j])],
                         0j, 'corpus/on-start-farthest-later'))
            # hand-picked: centre of curvature of an S-shaped cubic; np.roots returns 5 sorted real roots with a
            # near-double root at positions (1,2)
            todo.append(('seg', 'cubic', [-6 + 9j, -2 - 19j, 6 + 15j, -14 - 9j],
                         -2.483402210701002 - 1.285286558422748j, 'corpus/curvature-centre'))
            for i in range(n):
                u = rng.random()
                if u < 0.10:
                    # small-integer cubic queried at the centre of curvature of a random point (clustered critical
                    # points: a double root of d/dt|B-z|^2 next to simple ones)
                    pts = [complex(rng.randint(-20, 20), rng.randint(-20, 20)) for _ in range(4)]
                    if len(set(pts)) < 4:
                        pts = [0j, 1 + 2j, 3 - 1j, 4 + 0j]
                    z, qm = curvature_centre(rng, CubicBezier(*pts))
                    todo.append(('seg', 'cubic', pts, complex(z), 'int-cubic/' + qm))
                elif u < 0.20:
                    pts, c = near_circular_cubic(rng)
                    z = c + rng.choice([0, 0, 1e-13, 1e-9, 1e-6]) * rnd(rng, 1)
                    todo.append(('seg', 'cubic', pts, z, 'near-circular/centre'))
                elif u < 0.27:
                    segs, z, qm = gen_on_path(rng)
                    todo.append(('path', segs, complex(z), qm))
                elif u < 0.37:
                    k, d, z, m = gen_typed_case(rng)
                    todo.append(('seg', k, d, z, m))
                elif u < 0.47:
                    segs = []
                    for _ in range(rng.randint(1, 5)):
                        k, d, _m = gen_seg(rng); segs.append((k, d))
                    if rng.random() < 0.3 and len(segs) > 1:
                        segs[rng.randrange(len(segs))] = segs[0]      # equal extremes in two segments: first index wins
                    k0, d0 = segs[rng.randrange(len(segs))]
                    z, qm = gen_query(rng, make_seg(k0, d0), k0)
                    todo.append(('path', segs, complex(z), 'path/' + qm))
                else:
                    k, d, m = gen_seg(rng)
                    z, qm = gen_query(rng, make_seg(k, d), k)
                    todo.append(('seg', k, d, complex(z), '%s/%s' % (k, qm)))
        cases, meta = [], []
        modes, nontrivial, vkeys = {}, set(), {}
        n_interior = 0
        trng = common.mkrng(seed, 'C13-types')      # separate stream: the typing does not perturb the case stream
        type_counts, n_cross = {}, 0

        def choose_types(item):
            """(type of the query point, [types of the control points per segment])"""
            segs_d = [(item[1], item[2])] if item[0] == 'seg' else item[1]
            z = item[3] if item[0] == 'seg' else item[2]
            if forced_types is not None:
                zt, pts = forced_types
                return zt, [pt or ['complex'] * len(d) for pt, (k, d) in zip(pts, segs_d)]
            if item[-1].startswith(('corpus', 'degenerate')):
                return 'complex', [['complex'] * len(d) for k, d in segs_d]
            return pick_type(trng, z), [[pick_type(trng, p, 0.5) for p in d] for k, d in segs_d]

        def cross_types(call, z, ztype, base, size, sercase, what):
            """the same query with the origin handed over as every other admissible number type"""
            cnt = 0
            for ty in admissible(z):
                if ty == ztype:
                    continue
                cnt += 1
                try:
                    other = call(typed(z, ty))
                    ok = same_result(base, other, size)
                except Exception as e:
                    other, ok = repr(e), False
                if not ok:
                    key = 'radialrange-origin-type-dependent'
                    vkeys[key] = vkeys.get(key, 0) + 1
                    rep.violation('C13: %s gives %r for the origin as %s but %r as %s (same value %r)'
                                  % (what, base, ztype, other, ty, z),
                                  {'kind': 'property', 'case': sercase, 'z': common.chex(z), 'types': [ztype, ty],
                                   'how': './check C13 --replay <this file>'}, key=key)
            return cnt

        for item in todo:
            mode = item[-1]
            modes[mode] = modes.get(mode, 0) + 1
            try:
                ztype, ptypes_all = choose_types(item)
                type_counts['origin:' + ztype] = type_counts.get('origin:' + ztype, 0) + 1
                for pts_t in ptypes_all:
                    for t in pts_t:
                        type_counts['point:' + t] = type_counts.get('point:' + t, 0) + 1
                if item[0] == 'seg':
                    _, kind, data, z, _m = item
                    term, res, seg, size, calls = observe_seg(kind, data, z, ztype, ptypes_all[0])
                    sercase = dict(ser(kind, data), ztype=ztype, ptypes=ptypes_all[0])
                    n_cross += cross_types(lambda zz: seg.radialrange(zz), z, ztype, res, size, sercase,
                                           '%s.radialrange' % kind)
                    meta.append(('seg', sercase, z, res, [seg], size, calls, mode))
                    cases.append(term)
                    if 0 < res[0][1] < 1 or 0 < res[1][1] < 1:
                        n_interior += 1
                else:
                    _, segs_d, z, _m = item
                    segs = [typed_seg(k, d, pt) for (k, d), pt in zip(segs_d, ptypes_all)]
                    path = Path(*segs)
                    zt = typed(z, ztype)
                    with RootsTap() as tap:
                        pres = path.radialrange(zt)
                    results = []
                    for s in segs:
                        (a, b), (c, d) = s.radialrange(zt)
                        results.append(((float(a), float(b)), (float(c), float(d))))
                    cl, fa = closest_point_in_path(zt, path), farthest_point_in_path(zt, path)
                    if tuple(cl) != tuple(pres[0]) or tuple(fa) != tuple(pres[1]):
                        rep.violation('closest/farthest_point_in_path differ from Path.radialrange',
                                      {'kind': 'property', 'case': {'kind': 'path', 'segments': [ser(k, d) for k, d in segs_d]},
                                       'z': common.chex(z)}, key='closest-farthest-not-radialrange')
                    size = max(1e-300, max(abs(p) for k, d in segs_d for p in d), abs(z))
                    sercase = {'kind': 'path', 'ztype': ztype,
                               'segments': [dict(ser(k, d), ptypes=pt) for (k, d), pt in zip(segs_d, ptypes_all)]}
                    n_cross += cross_types(lambda zz: path.radialrange(zz), z, ztype, pres, size, sercase, 'Path.radialrange')
                    n_cross += cross_types(lambda zz: (closest_point_in_path(zz, path), farthest_point_in_path(zz, path)),
                                           z, ztype, (cl, fa), size, sercase, 'closest/farthest_point_in_path')
                    meta.append(('path', sercase, z, pres, segs, size, list(tap.calls), mode))
                    cases.append(path_terms(results, pres))
                nontrivial.add(json.dumps([sercase, common.chex(z)], sort_keys=True))
            except Exception as e:
                rep.violation('implementation raised %s in radialrange' % type(e).__name__,
                              {'kind': 'exception', 'item': repr(item)[:600], 'error': repr(e)}, key='impl-exception')
        okdef = OKDEF % {'atol': bf(atol), 'rtol': bf(rtol), 'fixed': common.coq_bool(fixed)}
        fails, errors = common.run_cases(tmp, 'From SVP Require Import Base.BigF.\n', 'rcase', okdef, cases, shard=50)
        for e in errors:
            rep.violation('correspondence case file failed to evaluate', {'kind': 'cases', 'error': e},
                          found_input=False, key='cases-error')
        failed_idx = dict(fails)
        nprop = 0
        for i, (what, sercase, z, res, segs, size, calls, mode) in enumerate(meta):
            nprop += 1
            bad = None
            if what == 'seg':
                r = seg_property(segs[0], z, res, size)
                if r is not None:
                    w, detail, tstar = r
                    key = 'radialrange-%s-%s' % (w, sercase['kind'])
                    if w.startswith('not-global') and not fixed and dedup_suspect(calls, tstar, atol, rtol):
                        key = 'polyroots-dedup-drops-root'
                    elif w.startswith('not-global') and ill_conditioned(calls) and excess(segs[0], z, res, tstar) <= 1e-4 * size:
                        key = 'radialrange-np-roots-ill-conditioned'
                    bad = (key, 'C13: %s.radialrange: %s' % (sercase['kind'], detail))
            else:
                (dmin, tmin, imin), (dmax, tmax, imax) = res
                if tmax is None or tmin is None:
                    bad = ('farthest-none-on-degenerate-path',
                           'C13: Path.radialrange returned %r: no segment index / parameter for an extreme' % (res,))
                else:
                    per = [sampled_extremes(s, z) for s in segs]
                    gmin = min(p[0][0] for p in per); gmax = max(p[1][0] for p in per)
                    if not (0 <= imin < len(segs) and 0 <= imax < len(segs)):
                        bad = ('path-index-out-of-range', 'C13: Path.radialrange indices %r %r' % (imin, imax))
                    elif abs(dmin - abs(complex(segs[imin].point(tmin)) - z)) > 1e-9 * size or \
                            abs(dmax - abs(complex(segs[imax].point(tmax)) - z)) > 1e-9 * size:
                        bad = ('path-index-wrong', 'C13: Path.radialrange: the returned (d, t, index) triples are not '
                               'distances on the indexed segment: %r' % (res,))
                    elif gmin < dmin - 1e-7 * size or gmax > dmax + 1e-7 * size:
                        key = 'path-radialrange-not-global'
                        ts = [p[0][1] for p in per if p[0][0] < dmin - 1e-7 * size] + [p[1][1] for p in per if p[1][0] > dmax + 1e-7 * size]
                        if not fixed and any(dedup_suspect(calls, t, atol, rtol) for t in ts):
                            key = 'polyroots-dedup-drops-root'
                        elif ill_conditioned(calls) and max(dmin - gmin, gmax - dmax) <= 1e-4 * size:
                            key = 'radialrange-np-roots-ill-conditioned'
                        bad = (key, 'C13: Path.radialrange %r but sampling finds min %r max %r' % (res, gmin, gmax))
            if bad is None and i in failed_idx:
                bad = ('corr-%d' % failed_idx[i], 'C13: %s (no sampled point beats the returned extremes)' % OBS[failed_idx[i]])
            if bad is not None:
                key, msg = bad
                vkeys[key] = vkeys.get(key, 0) + 1
                rep.violation(msg, {'kind': 'property' if not key.startswith('corr') else 'correspondence',
                                    'case': sercase, 'z': common.chex(z), 'returned': repr(res), 'mode': mode,
                                    'np_roots': [[str(x) for x in c[1]] for c in calls][:3],
                                    'how': './check C13 --replay <this file>'}, key=key)
        rep.cov['violation_keys'] = vkeys
        rep.cov['evaluations'] = len(cases) + nprop + n_cross
        rep.cov['number_types'] = dict(type_counts, cross_type_reruns=n_cross)
        rep.cov['traces_validated_against_impl'] = len(cases)
        rep.cov['distinct_nontrivial'] = len(nontrivial)
        rep.cov['rule'] = ('Line/Quadratic/Cubic segments (pools of C08, plus near-circular cubics) and paths of 1-5 of them, query '
                           'point far / near / on the curve / at a centre of curvature / beyond either end / on the bisector of '
                           'the end points / random; non-trivial = distinct (input, z); every case: result vs Model/Extrema.v '
                           'in 120-bit bigfloats inside Coq (np.roots output as data, tol 1e-9*size; path fold exact incl. '
                           'indices) AND 257 samples + golden-section refinement never beat the returned extremes by 1e-7*size; '
                           '%d segment cases have an interior extremiser' % n_interior)
        rep.cov['input_distribution'] = modes
        rep.cov['samples'] = [{'case': m[1], 'z': str(m[2]), 'returned': repr(m[3])} for m in meta[1:4]]
        if info['agree_failed'] and not rep.violations:
            rep.violation('agreement lemma(s) %s no longer check: generated code differs from the model'
                          % info['agree_failed'],
                          {'kind': 'agreement', 'lemmas': info['agree_failed'], 'file': 'coq/GenAgree/Extrema.v',
                           'messages': info.get('agree_msgs', {})}, found_input=False, key='agree')
    rep.assumptions += ['np.roots is an oracle: its output is data of the correspondence check; C13_bezier_global_partial assumes '
                        'it lists every real root in [0,1] and that no two surviving roots are isclose',
                        'C03: point(t) = poly()(t)',
                        '120-bit bigfloat evaluation of the model (Base/BigF.v) is accurate far below 1e-9*size']
