#!/usr/bin/env python3
"""CLI: ./check Cxx [--tier quick|thorough] [--replay FILE] | --all | --coqchk"""
import sys, os, argparse, importlib, traceback, time, json
sys.path.insert(0, os.path.dirname(os.path.abspath(__file__)))
sys.path.insert(0, os.path.join(os.path.dirname(os.path.abspath(__file__)), 'lib'))
import common


def run_one(prop, tier, seed, replay=None):
    rep = common.Report(prop, tier, seed)
    log = []
    try:
        bad = common.hygiene()
        if bad:
            rep.violation('hygiene: forbidden vernacular in the development: %s' % bad[:5],
                          {'kind': 'hygiene', 'items': bad[:20]}, found_input=False, key='hygiene')
            return rep.finish()
        if not common.ensure_build(log):
            rep.violation('the static Coq development does not build (theorems unchecked)',
                          {'kind': 'build', 'log': log[-1][-3000:] if log else ''},
                          found_input=False, key='build')
            return rep.finish()
        mod = importlib.import_module('harness.' + prop.lower())
        mod.run(rep, tier, seed, replay)
    except Exception:
        tb = traceback.format_exc()
        rep.notes.append(tb)
        rep.violation('harness crashed: the property is not shown to hold by this run',
                      {'kind': 'harness-exception', 'traceback': tb[-3000:]},
                      found_input=False, key='harness-exception')
    return rep.finish()


def main():
    ap = argparse.ArgumentParser()
    ap.add_argument('prop', nargs='?')
    ap.add_argument('--tier', default=os.environ.get('VERIF_TIER', 'quick'))
    ap.add_argument('--replay')
    ap.add_argument('--all', action='store_true')
    a = ap.parse_args()
    seed = int(os.environ.get('VERIF_SEED', '0'))
    if a.tier not in ('quick', 'thorough'):
        a.tier = 'quick'
    if a.all:
        man = json.load(open(os.path.join(common.VERIF, 'MANIFEST.json')))
        rc = 0
        for c in man['checks']:
            t0 = time.time()
            r = run_one(c['property_id'], a.tier, seed)
            print('== %s exit=%d %.0fs' % (c['property_id'], r, time.time() - t0)); sys.stdout.flush()
            rc = rc or r
        sys.exit(rc)
    sys.exit(run_one(a.prop, a.tier, seed, a.replay))


if __name__ == '__main__':
    main()
