#!/usr/bin/env python3
"""py2v — fail-closed translator from the expression-level Python of
svgpathtools to Gallina definitions over the `Num` record (coq/Base/Num.v).

It is a small *symbolic executor*: values are either static (Python ints,
bools, tuples/lists whose shape is known at translation time) or symbolic
(real terms `R`, complex numbers `C` kept as a pair of real terms, booleans
`B`, symbolic integers `ZS`).  Control flow that depends only on static values
(len(p), range(n), factorials) is executed; control flow on symbolic values
becomes a Gallina `if`.  Everything outside the supported subset raises
`Unsupported` — the translator never guesses.

Arithmetic conventions (these are part of the trusted base, see DESIGN §7):
  * float*complex, complex/float are component-wise (CPython promotes the real
    to a complex with zero imaginary part; in exact arithmetic the results
    coincide);
  * multiplication/addition with the *literal* constants 0 and 1 coming from
    `1j`, integer literals or static evaluation is simplified away;
  * `sum()` is a left fold starting from the integer 0 (simplified away);
  * integer literals become `lit N z`, float literals the exact dyadic value.
"""
import ast, copy, math, inspect, textwrap, sys, os
from fractions import Fraction

COQ_KEYWORDS = {'end', 'in', 'at', 'as', 'fix', 'fun', 'if', 'let', 'match',
                'return', 'then', 'else', 'with', 'forall', 'exists', 'Type',
                'Set', 'Prop', 'where', 'using', 'for', 'cofix', 'struct'}


class Unsupported(Exception):
    def __init__(self, what, node=None):
        self.what = what
        self.node = node
        line = getattr(node, 'lineno', '?')
        super().__init__("unsupported: %s (line %s)" % (what, line))


# ----------------------------------------------------------------- values
class R:
    """symbolic real; s is a Coq term (atomic or parenthesised)"""
    def __init__(self, s): self.s = s
    def __repr__(self): return 'R(%s)' % self.s


class RZ(R):
    """symbolic real that is known to be one of two STATIC ints chosen by a symbolic condition
    (`0 if c else 1`): arithmetic sees the real term, truthiness / int contexts the Z term z"""
    def __init__(self, s, z): self.s, self.z = s, z


class C:
    """complex = pair of real-ish components (R or static int)"""
    def __init__(self, re, im): self.re, self.im = re, im
    def __repr__(self): return 'C(%r,%r)' % (self.re, self.im)


class B:
    def __init__(self, s): self.s = s


class ZS:
    """symbolic integer (Coq Z term)"""
    def __init__(self, s): self.s = s


class Raise:
    def __init__(self, exc): self.exc = exc


class Poly:
    """numpy.poly1d with statically known degree: list of coefficient values,
    highest degree first"""
    def __init__(self, cs): self.cs = list(cs)


class Obj:
    """instance of a segment class: attribute dict"""
    def __init__(self, cls, attrs): self.cls, self.attrs = cls, attrs


class Rendered:
    """already-rendered Coq term (result of a symbolic statement-level if)"""
    def __init__(self, s): self.s = s


def is_realish(v):
    return isinstance(v, (R, int, float, Fraction)) and not isinstance(v, bool)


class Ctx:
    def __init__(self, tr):
        self.tr = tr
        self.binds = []      # list of (name, term)
        self.used_T = False  # transcendental record needed


class Translator:
    def __init__(self, modules):
        """modules: dict name -> (source text). Functions/classes looked up
        across all of them."""
        self.funcs = {}    # name -> ast.FunctionDef (module level)
        self.classes = {}  # cls -> {meth: FunctionDef}
        self.counter = 0
        self.needs_T = False
        for name, src in modules.items():
            tree = ast.parse(src)
            for node in tree.body:
                if isinstance(node, ast.FunctionDef):
                    self.funcs[node.name] = node
                elif isinstance(node, ast.ClassDef):
                    d = self.classes.setdefault(node.name, {})
                    for n in node.body:
                        if isinstance(n, ast.FunctionDef):
                            d[n.name] = n

    # ------------------------------------------------------------ naming
    def fresh(self, base):
        base = ''.join(ch if ch.isalnum() or ch == '_' else '_' for ch in base)
        if base in COQ_KEYWORDS or not base or base[0].isdigit():
            base = base + '_'
        self.counter += 1
        return '%s_%d' % (base, self.counter)

    # ------------------------------------------------------ real arithmetic
    def lit(self, z):
        if isinstance(z, bool):
            raise Unsupported('bool used as number')
        if isinstance(z, int):
            if z == 0: return '(zero N)'
            if z == 1: return '(one N)'
            return '(lit N (%d))' % z if z < 0 else '(lit N %d)' % z
        if isinstance(z, float):
            if z != z or z in (float('inf'), float('-inf')):
                raise Unsupported('non-finite float literal')
            fr = Fraction(z)
            return self.lit_frac(fr)
        if isinstance(z, Fraction):
            return self.lit_frac(z)
        raise Unsupported('literal %r' % (z,))

    def lit_frac(self, fr):
        if fr.denominator == 1:
            return self.lit(int(fr.numerator))
        d = fr.denominator
        if d & (d - 1) == 0:
            e = d.bit_length() - 1
            return '(dyadic N (%d) (-%d))' % (fr.numerator, e)
        return '(div N %s %s)' % (self.lit(int(fr.numerator)), self.lit(int(d)))

    def rs(self, v):
        """Coq term of a real-ish value"""
        if isinstance(v, R): return v.s
        if is_realish(v): return self.lit(v)
        raise Unsupported('expected a real, got %r' % (v,))

    def radd(self, a, b):
        if isinstance(a, int) and isinstance(b, int): return a + b
        if isinstance(a, int) and a == 0: return b
        if isinstance(b, int) and b == 0: return a
        return R('(add N %s %s)' % (self.rs(a), self.rs(b)))

    def rsub(self, a, b):
        if isinstance(a, int) and isinstance(b, int): return a - b
        if isinstance(b, int) and b == 0: return a
        if isinstance(a, int) and a == 0: return self.rneg(b)
        return R('(sub N %s %s)' % (self.rs(a), self.rs(b)))

    def rneg(self, a):
        if isinstance(a, int): return -a
        if isinstance(a, (float, Fraction)): return -a
        return R('(opp N %s)' % self.rs(a))

    def rmul(self, a, b):
        if isinstance(a, int) and isinstance(b, int): return a * b
        for x, y in ((a, b), (b, a)):
            if isinstance(x, int) and x == 0: return 0
            if isinstance(x, int) and x == 1: return y
        return R('(mul N %s %s)' % (self.rs(a), self.rs(b)))

    def rdiv(self, a, b):
        if isinstance(b, int) and b == 1: return a
        if isinstance(a, int) and a == 0 and not isinstance(b, int): return 0
        return R('(div N %s %s)' % (self.rs(a), self.rs(b)))

    def rpow(self, a, n):
        if not isinstance(n, int) or n < 0:
            raise Unsupported('power with non-static or negative exponent')
        if isinstance(a, int): return a ** n
        if n == 0: return 1
        out = a
        for _ in range(n - 1):
            out = self.rmul(out, a)   # x*x*...: what ** means exactly; float pow is an oracle
        return out

    # --------------------------------------------------- generic arithmetic
    def to_c(self, v):
        if isinstance(v, C): return v
        if is_realish(v): return C(v, 0)
        raise Unsupported('expected a number, got %r' % (v,))

    def binop(self, op, a, b, node=None):
        if isinstance(a, bool): a = int(a)
        if isinstance(b, bool): b = int(b)
        # polynomial arithmetic
        if isinstance(a, Poly) or isinstance(b, Poly):
            return self.poly_binop(op, a, b, node)
        # static sequences
        if isinstance(op, ast.Add) and isinstance(a, (list, tuple)) and isinstance(b, (list, tuple)):
            return type(a)(list(a) + list(b)) if type(a) == type(b) else list(a) + list(b)
        if isinstance(op, ast.Mult) and isinstance(a, list) and isinstance(b, int):
            return a * b
        if isinstance(a, str) and isinstance(b, str) and isinstance(op, ast.Add):
            return a + b
        if isinstance(a, str) and isinstance(op, ast.Mod):
            return '<text>'        # "..." % values: only used for messages
        if isinstance(a, ZS) or isinstance(b, ZS):
            return self.z_binop(op, a, b, node)
        if isinstance(a, int) and isinstance(b, int):
            if isinstance(op, ast.Add): return a + b
            if isinstance(op, ast.Sub): return a - b
            if isinstance(op, ast.Mult): return a * b
            if isinstance(op, ast.FloorDiv): return a // b
            if isinstance(op, ast.Mod): return a % b
            if isinstance(op, ast.Pow) and b >= 0: return a ** b
            if isinstance(op, ast.Div): return R('(div N %s %s)' % (self.lit(a), self.lit(b)))
            raise Unsupported('static int op', node)
        if isinstance(a, C) or isinstance(b, C):
            return self.c_binop(op, a, b, node)
        if is_realish(a) and is_realish(b):
            if isinstance(op, ast.Add): return self.radd(a, b)
            if isinstance(op, ast.Sub): return self.rsub(a, b)
            if isinstance(op, ast.Mult): return self.rmul(a, b)
            if isinstance(op, ast.Div): return self.rdiv(a, b)
            if isinstance(op, ast.Pow): return self.rpow(a, b)
        raise Unsupported('binop %s on %r, %r' % (type(op).__name__, a, b), node)

    def z_binop(self, op, a, b, node):
        def zs(v):
            if isinstance(v, ZS): return v.s
            if isinstance(v, int): return '(%d)%%Z' % v
            raise Unsupported('int op with non-int', node)
        names = {ast.Add: 'Z.add', ast.Sub: 'Z.sub', ast.Mult: 'Z.mul',
                 ast.FloorDiv: 'Z.div', ast.Mod: 'Z.modulo'}
        for k, f in names.items():
            if isinstance(op, k):
                return ZS('(%s %s %s)' % (f, zs(a), zs(b)))
        raise Unsupported('symbolic int op', node)

    def c_binop(self, op, a, b, node):
        if isinstance(op, ast.Pow):
            if isinstance(b, int) and b >= 0:
                out = 1
                for _ in range(b):
                    out = self.binop(ast.Mult(), out, a)
                return out
            raise Unsupported('complex power', node)
        if isinstance(op, ast.Div):
            if is_realish(b):            # complex / real : component-wise
                a = self.to_c(a)
                return C(self.rdiv(a.re, b), self.rdiv(a.im, b))
            # x / complex : mathematical quotient a*conj(b)/|b|^2
            a = self.to_c(a)
            n2 = self.radd(self.rmul(b.re, b.re), self.rmul(b.im, b.im))
            n2 = self.bind_val('n2', n2)
            num = self.c_binop(ast.Mult(), a, C(b.re, self.rneg(b.im)), node)
            return C(self.rdiv(num.re, n2), self.rdiv(num.im, n2))
        if isinstance(op, ast.Mult):
            if is_realish(a):
                return C(self.rmul(a, b.re), self.rmul(a, b.im))
            if is_realish(b):
                return C(self.rmul(a.re, b), self.rmul(a.im, b))
            return C(self.rsub(self.rmul(a.re, b.re), self.rmul(a.im, b.im)),
                     self.radd(self.rmul(a.re, b.im), self.rmul(a.im, b.re)))
        a, b = self.to_c(a), self.to_c(b)
        if isinstance(op, ast.Add):
            return C(self.radd(a.re, b.re), self.radd(a.im, b.im))
        if isinstance(op, ast.Sub):
            return C(self.rsub(a.re, b.re), self.rsub(a.im, b.im))
        raise Unsupported('complex op %s' % type(op).__name__, node)

    # ----------------------------------------------------------- poly1d
    def poly_binop(self, op, a, b, node):
        def coeffs(v):
            return v.cs if isinstance(v, Poly) else [v]
        if isinstance(op, ast.Pow):
            if not (isinstance(a, Poly) and isinstance(b, int) and b >= 0):
                raise Unsupported('poly power', node)
            out = Poly([1])
            for _ in range(b):
                out = self.poly_binop(ast.Mult(), out, a, node)
            return out
        ca, cb = coeffs(a), coeffs(b)
        if isinstance(op, (ast.Add, ast.Sub)):
            n = max(len(ca), len(cb))
            ca = [0] * (n - len(ca)) + ca
            cb = [0] * (n - len(cb)) + cb
            return Poly([self.binop(op, x, y) for x, y in zip(ca, cb)])
        if isinstance(op, ast.Mult):
            n = len(ca) + len(cb) - 1
            out = [0] * n
            for i, x in enumerate(ca):
                for j, y in enumerate(cb):
                    out[i + j] = self.binop(ast.Add(), out[i + j], self.binop(ast.Mult(), x, y))
            return Poly(out)
        raise Unsupported('poly op', node)

    def poly_call(self, p, x):
        # numpy.polyval: y = 0; for c in p: y = y*x + c   (0*x + c0 simplified)
        y = 0
        for c in p.cs:
            y = self.binop(ast.Add(), self.binop(ast.Mult(), y, x), c)
        return y

    def poly_deriv(self, p):
        n = len(p.cs) - 1
        if n <= 0: return Poly([0])
        return Poly([self.binop(ast.Mult(), n - i, c) for i, c in enumerate(p.cs[:-1])])

    def poly_integ(self, p):
        n = len(p.cs)
        return Poly([self.binop(ast.Div(), c, n - i) for i, c in enumerate(p.cs)] + [0])

    # ------------------------------------------------------------ bindings
    def bind_val(self, base, v):
        """let-bind symbolic scalars so that terms stay small"""
        if isinstance(v, RZ):
            return v
        if isinstance(v, R):
            if v.s.startswith('('):     # compound term
                nm = self.fresh(base)
                self.ctx.binds.append((nm, v.s))
                return R(nm)
            return v
        if isinstance(v, C):
            return C(self.bind_val(base + '_re', v.re) if isinstance(v.re, R) else v.re,
                     self.bind_val(base + '_im', v.im) if isinstance(v.im, R) else v.im)
        if isinstance(v, B):
            if v.s.startswith('('):
                nm = self.fresh(base)
                self.ctx.binds.append((nm, v.s))
                return B(nm)
            return v
        if isinstance(v, tuple):
            return tuple(self.bind_val('%s%d' % (base, i), x) for i, x in enumerate(v))
        if isinstance(v, list):
            return [self.bind_val('%s%d' % (base, i), x) for i, x in enumerate(v)]
        if isinstance(v, Poly):
            return Poly([self.bind_val('%s_c%d' % (base, i), x) for i, x in enumerate(v.cs)])
        return v

    # ---------------------------------------------------------- comparisons
    def compare(self, op, a, b, node):
        if isinstance(a, bool): a = int(a)
        if isinstance(b, bool): b = int(b)
        if isinstance(a, (int, str, type(None))) and isinstance(b, (int, str, type(None))) \
                and not isinstance(op, (ast.In, ast.NotIn)):
            tbl = {ast.Eq: lambda: a == b, ast.NotEq: lambda: a != b,
                   ast.Lt: lambda: a < b, ast.LtE: lambda: a <= b,
                   ast.Gt: lambda: a > b, ast.GtE: lambda: a >= b,
                   ast.Is: lambda: a is b, ast.IsNot: lambda: a is not b}
            return tbl[type(op)]()
        if isinstance(op, (ast.Eq, ast.NotEq)) and ((a is None) != (b is None)):
            return isinstance(op, ast.NotEq)          # None == <anything else> is False
        if isinstance(op, (ast.Is, ast.IsNot)):
            if b is None or a is None:
                res = (a is None) == (b is None)
                return res if isinstance(op, ast.Is) else not res
        if (isinstance(a, B) or isinstance(b, B)) and isinstance(op, (ast.Eq, ast.NotEq)):
            def bs(v):
                if isinstance(v, B): return v.s
                if isinstance(v, int) and v in (0, 1): return 'true' if v else 'false'
                raise Unsupported('bool compared with a non-bool', node)
            e = B('(Bool.eqb %s %s)' % (bs(a), bs(b)))
            return e if isinstance(op, ast.Eq) else self.bool_not(e)
        if isinstance(a, ZS) or isinstance(b, ZS):
            def zs(v):
                if isinstance(v, ZS): return v.s
                if isinstance(v, int): return '(%d)%%Z' % v
                raise Unsupported('int compare', node)
            tbl = {ast.Eq: '(Z.eqb %s %s)', ast.NotEq: '(negb (Z.eqb %s %s))',
                   ast.Lt: '(Z.ltb %s %s)', ast.LtE: '(Z.leb %s %s)',
                   ast.Gt: '(Z.gtb %s %s)', ast.GtE: '(Z.geb %s %s)'}
            if type(op) not in tbl: raise Unsupported('int compare', node)
            return B(tbl[type(op)] % (zs(a), zs(b)))
        if isinstance(a, C) or isinstance(b, C):
            a, b = self.to_c(a), self.to_c(b)
            e = self.bool_and(self.compare(ast.Eq(), a.re, b.re, node),
                              self.compare(ast.Eq(), a.im, b.im, node))
            if isinstance(op, ast.Eq): return e
            if isinstance(op, ast.NotEq): return self.bool_not(e)
            raise Unsupported('ordering of complex', node)
        if is_realish(a) and is_realish(b):
            tbl = {ast.Eq: '(eqb N %s %s)', ast.NotEq: '(negb (eqb N %s %s))',
                   ast.Lt: '(ltb N %s %s)', ast.LtE: '(leb N %s %s)'}
            if isinstance(op, ast.Gt): return B('(ltb N %s %s)' % (self.rs(b), self.rs(a)))
            if isinstance(op, ast.GtE): return B('(leb N %s %s)' % (self.rs(b), self.rs(a)))
            if type(op) in tbl: return B(tbl[type(op)] % (self.rs(a), self.rs(b)))
        if isinstance(a, Obj) and isinstance(b, Obj) and isinstance(op, (ast.Eq, ast.NotEq)):
            if a.cls != b.cls:
                return isinstance(op, ast.NotEq)
            fs = [f_ for f_ in self.CTORS.get(a.cls, ()) if f_ != 'autoscale_radius']
            return self.compare(op, [a.attrs[f_] for f_ in fs], [b.attrs[f_] for f_ in fs], node)
        if isinstance(a, (tuple, list)) and isinstance(b, (tuple, list)) and isinstance(op, (ast.Eq, ast.NotEq)):
            if len(a) != len(b):
                return isinstance(op, ast.NotEq)
            e = True
            for x, y in zip(a, b):
                e = self.bool_and(e, self.compare(ast.Eq(), x, y, node))
            return e if isinstance(op, ast.Eq) else self.bool_not(e)
        raise Unsupported('compare %s on %r, %r' % (type(op).__name__, a, b), node)

    def bool_and(self, a, b):
        if isinstance(a, bool): return b if a else False
        if isinstance(b, bool): return a if b else False
        return B('(andb %s %s)' % (a.s, b.s))

    def bool_or(self, a, b):
        if isinstance(a, bool): return True if a else b
        if isinstance(b, bool): return True if b else a
        return B('(orb %s %s)' % (a.s, b.s))

    def bool_not(self, a):
        if isinstance(a, bool): return not a
        return B('(negb %s)' % a.s)

    def truth(self, v, node=None):
        """Python truthiness -> static bool or B"""
        if isinstance(v, (bool, B)): return v
        if v is None: return False
        if isinstance(v, int): return v != 0
        if isinstance(v, (list, tuple, str)): return len(v) > 0
        if isinstance(v, RZ): return B('(negb (Z.eqb %s 0%%Z))' % v.z)
        if isinstance(v, R): return B('(negb (eqb N %s (zero N)))' % v.s)
        if isinstance(v, ZS): return B('(negb (Z.eqb %s 0%%Z))' % v.s)
        raise Unsupported('truthiness of %r' % (v,), node)

    # ------------------------------------------------------------ expressions
    def ev(self, e, env):
        m = getattr(self, 'ev_' + type(e).__name__, None)
        if m is None:
            raise Unsupported('expression ' + type(e).__name__, e)
        return m(e, env)

    def ev_Constant(self, e, env):
        v = e.value
        if isinstance(v, complex):
            re = int(v.real) if v.real == int(v.real) else v.real
            im = int(v.imag) if v.imag == int(v.imag) else v.imag
            return C(re, im)
        if isinstance(v, float) and v == int(v) and abs(v) < 2 ** 53:
            return int(v)    # 1.0, 0.0, 2.0 ... : same value; int/float distinction dropped
        if isinstance(v, (int, float, bool, str)) or v is None:
            return v
        raise Unsupported('constant %r' % (v,), e)

    def ev_Name(self, e, env):
        if e.id in env: return env[e.id]
        if e.id in ('True', 'False', 'None'):
            return {'True': True, 'False': False, 'None': None}[e.id]
        if e.id == 'pi':
            self.needs_T = True
            return R('(pi_ T)')
        if e.id in self.consts:
            return self.consts[e.id]
        raise Unsupported('free name ' + e.id, e)

    def ev_Attribute(self, e, env):
        v = self.ev(e.value, env) if not (isinstance(e.value, ast.Name) and e.value.id in ('np', 'numpy', 'math')) else None
        if v is None and isinstance(e.value, ast.Name) and e.value.id in ('np', 'numpy', 'math'):
            if e.attr == 'pi':
                self.needs_T = True
                return R('(pi_ T)')
            if e.attr == 'inf':
                raise Unsupported('inf', e)
            raise Unsupported('module attribute ' + e.attr, e)
        if isinstance(v, Obj):
            if e.attr in v.attrs: return v.attrs[e.attr]
            raise Unsupported('attribute %s of %s' % (e.attr, v.cls), e)
        if e.attr == 'real':
            if isinstance(v, C): return v.re
            if is_realish(v): return v
        if e.attr == 'imag':
            if isinstance(v, C): return v.im
            if is_realish(v): return 0
        if e.attr in ('coeffs', 'coefficients', 'c') and isinstance(v, Poly):
            return list(v.cs)
        raise Unsupported('attribute ' + e.attr, e)

    def ev_Tuple(self, e, env): return tuple(self.ev(x, env) for x in e.elts)
    def ev_List(self, e, env): return [self.ev(x, env) for x in e.elts]

    def ev_Subscript(self, e, env):
        v = self.ev(e.value, env)
        sl = e.slice
        if isinstance(v, Obj):
            v = self.call_method(v, 'bpoints', [], e)
        if isinstance(v, Poly):
            idx = self.ev(sl, env)
            if isinstance(idx, int):     # poly1d[k] = coefficient of x**k
                n = len(v.cs) - 1
                return v.cs[n - idx] if 0 <= idx <= n else 0
            raise Unsupported('poly subscript', e)
        if isinstance(v, dict):
            k = self.ev(sl, env)
            if isinstance(k, str) and k in v:
                return v[k]
            raise Unsupported('dict subscript', e)
        if not isinstance(v, (tuple, list)):
            raise Unsupported('subscript of %r' % (v,), e)
        if isinstance(sl, ast.Slice):
            lo = self.ev(sl.lower, env) if sl.lower else None
            hi = self.ev(sl.upper, env) if sl.upper else None
            st = self.ev(sl.step, env) if sl.step else None
            for x in (lo, hi, st):
                if not (x is None or isinstance(x, int)): raise Unsupported('symbolic slice', e)
            return v[lo:hi:st]
        idx = self.ev(sl, env)
        if not isinstance(idx, int) or isinstance(idx, bool):
            raise Unsupported('symbolic index', e)
        return v[idx]

    def ev_UnaryOp(self, e, env):
        v = self.ev(e.operand, env)
        if isinstance(e.op, ast.USub):
            if isinstance(v, C): return C(self.rneg(v.re), self.rneg(v.im))
            if isinstance(v, Poly): return Poly([self.binop(ast.Sub(), 0, c) for c in v.cs])
            if isinstance(v, ZS): return ZS('(Z.opp %s)' % v.s)
            return self.rneg(v)
        if isinstance(e.op, ast.UAdd): return v
        if isinstance(e.op, ast.Not): return self.bool_not(self.truth(v, e))
        raise Unsupported('unary op', e)

    def ev_BinOp(self, e, env):
        return self.binop(e.op, self.ev(e.left, env), self.ev(e.right, env), e)

    def ev_Compare(self, e, env):
        left = self.ev(e.left, env)
        out = True
        for op, rhs in zip(e.ops, e.comparators):
            right = self.ev(rhs, env)
            if isinstance(op, (ast.In, ast.NotIn)):
                if isinstance(right, (str, tuple, list, set)) and isinstance(left, (str, int, type(None))):
                    if left is None and isinstance(right, str):
                        raise Unsupported("'None in str' raises TypeError", e)
                    r = left in right
                    r = r if isinstance(op, ast.In) else not r
                else:
                    raise Unsupported('symbolic membership', e)
            else:
                r = self.compare(op, left, right, e)
            out = self.bool_and(out, r)
            left = right
        return out

    def ev_BoolOp(self, e, env):
        vals = [self.truth(self.ev(v, env), e) for v in e.values]
        out = vals[0]
        for v in vals[1:]:
            out = self.bool_and(out, v) if isinstance(e.op, ast.And) else self.bool_or(out, v)
        return out

    def ev_Lambda(self, e, env):
        # a lambda is a nested one-expression function closing over env
        fn = ast.FunctionDef(name='<lambda>', args=e.args, body=[ast.Return(value=e.body)], decorator_list=[], returns=None)
        ast.copy_location(fn, e); ast.fix_missing_locations(fn)
        self._lambda_env = getattr(self, '_lambda_env', {})
        self._lambda_env[id(fn)] = env
        return fn

    def ev_JoinedStr(self, e, env):
        return '<text>'          # f-string: only used for messages

    def ev_IfExp(self, e, env):
        c = self.truth(self.ev(e.test, env), e)
        if isinstance(c, bool):
            return self.ev(e.body if c else e.orelse, env)
        a, b = self.ev(e.body, env), self.ev(e.orelse, env)
        return self.merge(c, a, b, e)

    def merge(self, c, a, b, node=None):
        """value-level if-then-else on a symbolic condition"""
        if isinstance(a, int) and isinstance(b, int) and not isinstance(a, bool) and not isinstance(b, bool):
            return RZ('(if %s then %s else %s)' % (c.s, self.rs(a), self.rs(b)),
                      '(if %s then (%d)%%Z else (%d)%%Z)' % (c.s, a, b))
        if is_realish(a) and is_realish(b):
            return R('(if %s then %s else %s)' % (c.s, self.rs(a), self.rs(b)))
        if isinstance(a, (C,)) or isinstance(b, (C,)):
            a, b = self.to_c(a), self.to_c(b)
            return C(self.merge(c, a.re, b.re), self.merge(c, a.im, b.im))
        if isinstance(a, (bool, B)) and isinstance(b, (bool, B)):
            sa = a.s if isinstance(a, B) else ('true' if a else 'false')
            sb = b.s if isinstance(b, B) else ('true' if b else 'false')
            return B('(if %s then %s else %s)' % (c.s, sa, sb))
        if isinstance(a, (tuple, list)) and isinstance(b, (tuple, list)) and len(a) == len(b):
            return type(a)(self.merge(c, x, y, node) for x, y in zip(a, b))
        raise Unsupported('cannot merge branches %r / %r' % (a, b), node)

    def comprehension(self, e, env):
        if len(e.generators) != 1:
            raise Unsupported('nested comprehension', e)
        g = e.generators[0]
        it = self.ev(g.iter, env)
        if isinstance(it, Obj): it = self.call_method(it, 'bpoints', [], e)
        if isinstance(it, Poly): it = list(it.cs)
        if not isinstance(it, (list, tuple, range)):
            raise Unsupported('comprehension over non-static iterable', e)
        out = []
        for x in it:
            env2 = dict(env)
            self.assign(g.target, x, env2)
            ok = True
            for cond in g.ifs:
                c = self.truth(self.ev(cond, env2), e)
                if not isinstance(c, bool): raise Unsupported('symbolic filter', e)
                ok = ok and c
            if ok:
                out.append(self.ev(e.elt, env2))
        return out

    def ev_ListComp(self, e, env): return self.comprehension(e, env)
    def ev_GeneratorExp(self, e, env): return self.comprehension(e, env)

    # ---------------------------------------------------------------- calls
    def need_T(self):
        self.needs_T = True

    def ev_Call(self, e, env):
        f = e.func
        if e.keywords and not (isinstance(f, ast.Name) and (f.id in self.funcs or f.id in env or f.id in self.CTORS)) \
                and not isinstance(f, ast.Attribute):
            raise Unsupported('keyword arguments', e)
        kw = {k.arg: self.ev(k.value, env) for k in e.keywords}
        if isinstance(f, ast.Attribute):
            # module functions np.xxx / math.xxx
            if isinstance(f.value, ast.Name) and f.value.id in ('np', 'numpy', 'math'):
                saved = self.isclose_cmp
                if f.attr == 'isclose':
                    self.isclose_cmp = 'leb'       # numpy: |a-b| <= atol + rtol*|b| ; misctools.isclose: <
                try:
                    return self.builtin(f.attr, [self.ev(a, env) for a in e.args], kw, e)
                finally:
                    self.isclose_cmp = saved
            recv = self.ev(f.value, env)
            args = [self.ev(a, env) for a in e.args]
            if isinstance(recv, str):
                return '<text>'        # str.format(...) etc.: only used for messages
            if f.attr == 'conjugate' and not args and (isinstance(recv, C) or is_realish(recv)):
                c = self.to_c(recv)
                return C(c.re, self.rneg(c.im))
            if isinstance(recv, list):
                if f.attr == 'append' and len(args) == 1:
                    recv.append(args[0]); return None
                if f.attr == 'reverse' and not args:
                    recv.reverse(); return None
                raise Unsupported('list method ' + f.attr, e)
            if isinstance(recv, Poly):
                if f.attr == 'deriv' and not args: return self.poly_deriv(recv)
                if f.attr == 'integ' and not args: return self.poly_integ(recv)
                raise Unsupported('poly method ' + f.attr, e)
            if isinstance(recv, Obj):
                return self.call_method(recv, f.attr, args, e, kw, tail=(getattr(self, 'tail_call', None) is e))
            raise Unsupported('method call ' + f.attr, e)
        if isinstance(f, ast.Name) and f.id in self.CTORS:
            return self.construct(f.id, e, env)
        if isinstance(f, ast.Name) and f.id == 'isinstance' and len(e.args) == 2:
            return self.static_isinstance(self.ev(e.args[0], env), e.args[1], e)
        if isinstance(f, ast.Name):
            args = self.ev_args(e.args, env, e)
            if f.id in env and isinstance(env[f.id], ast.FunctionDef):
                return self.inline(env[f.id], args, kw, dict(env), e)
            if f.id in env and isinstance(env[f.id], Poly) and len(args) == 1:
                return self.poly_call(env[f.id], args[0])
            if f.id in self.funcs and f.id not in self.no_inline:
                return self.inline(self.funcs[f.id], args, kw, {}, e, tail=(getattr(self, 'tail_call', None) is e))
            return self.builtin(f.id, args, kw, e)
        if isinstance(f, ast.Call) or isinstance(f, ast.Subscript):
            fv = self.ev(f, env)
            args = [self.ev(a, env) for a in e.args]
            if isinstance(fv, Poly) and len(args) == 1:
                return self.poly_call(fv, args[0])
        raise Unsupported('call', e)

    def ev_args(self, argnodes, env, node):
        """positional arguments; `*seq` of statically known length is expanded"""
        out = []
        for a in argnodes:
            if isinstance(a, ast.Starred):
                v = self.ev(a.value, env)
                if isinstance(v, Obj): v = self.call_method(v, 'bpoints', [], node)
                if not isinstance(v, (list, tuple)):
                    raise Unsupported('starred argument of non-static length', node)
                out.extend(v)
            else:
                out.append(self.ev(a, env))
        return out

    def ev_Dict(self, e, env):
        keys = [self.ev(k, env) if k is not None else None for k in e.keys]
        if not all(isinstance(k, (str, int)) for k in keys):
            raise Unsupported('dict with non-static keys', e)
        return {k: self.ev(v, env) for k, v in zip(keys, e.values)}

    no_inline = set()
    consts = {}

    # constructors of the segment classes build an Obj (no side effects are modelled:
    # Arc() derives centre/theta/delta in _parameterize, which is NOT run here — an
    # Arc Obj only carries its constructor arguments)
    CTORS = {'Line': ('start', 'end'),
             'QuadraticBezier': ('start', 'control', 'end'),
             'CubicBezier': ('start', 'control1', 'control2', 'end'),
             'Arc': ('start', 'radius', 'rotation', 'large_arc', 'sweep', 'end', 'autoscale_radius')}

    def construct(self, cls, e, env):
        fields = self.CTORS[cls]
        args = []
        for a in e.args:
            if isinstance(a, ast.Starred):
                v = self.ev(a.value, env)
                if isinstance(v, Obj): v = self.call_method(v, 'bpoints', [], e)
                if not isinstance(v, (list, tuple)):
                    raise Unsupported('starred argument of non-static length', e)
                args.extend(v)
            else:
                args.append(self.ev(a, env))
        attrs = dict(zip(fields, args))
        if len(args) > len(fields):
            raise Unsupported('too many constructor arguments', e)
        for k in e.keywords:
            if k.arg not in fields or k.arg in attrs:
                raise Unsupported('constructor keyword ' + str(k.arg), e)
            attrs[k.arg] = self.ev(k.value, env)
        if cls == 'Arc':
            attrs.setdefault('autoscale_radius', True)
            for fl in ('large_arc', 'sweep'):       # Arc.__init__ stores bool(flag)
                if fl in attrs:
                    attrs[fl] = self.truth(attrs[fl], e)
        missing = [f_ for f_ in fields if f_ not in attrs]
        if missing:
            raise Unsupported('constructor arguments missing: %s' % missing, e)
        return Obj(cls, attrs)

    def static_isinstance(self, v, clsnode, node):
        names = [n.id for n in clsnode.elts] if isinstance(clsnode, ast.Tuple) else [clsnode.id] \
            if isinstance(clsnode, ast.Name) else None
        if names is None: raise Unsupported('isinstance class expression', node)
        for nm in names:
            if nm == 'poly1d':
                if isinstance(v, Poly): return True
            elif nm in ('Line', 'QuadraticBezier', 'CubicBezier', 'Arc', 'Path'):
                if isinstance(v, Obj) and v.cls == nm: return True
            elif nm == 'int':
                if isinstance(v, int) and not isinstance(v, bool): return True
                if isinstance(v, ZS): return True
            elif nm == 'str':
                if isinstance(v, str): return True
            else:
                raise Unsupported('isinstance against ' + nm, node)
        return False

    def builtin(self, name, args, kw, node):
        a = args
        if name == 'len' and len(a) == 1:
            v = a[0]
            if isinstance(v, Obj): return len(self.call_method(v, 'bpoints', [], node))
            if isinstance(v, (list, tuple, str)): return len(v)
        if name == 'range' and all(isinstance(x, int) for x in a): return list(range(*a))
        if name in ('fac', 'factorial') and isinstance(a[0], int): return math.factorial(a[0])
        if name == 'abs' and len(a) == 1:
            v = a[0]
            if isinstance(v, int): return abs(v)
            if isinstance(v, R): return R('(nabs N %s)' % v.s)
            if isinstance(v, C):
                self.need_T()
                n2 = self.radd(self.rmul(v.re, v.re), self.rmul(v.im, v.im))
                return R('(hypot_ T %s %s)' % (self.rs(v.re), self.rs(v.im)))
        if name in ('min', 'max'):
            vals = list(a[0]) if len(a) == 1 and isinstance(a[0], (list, tuple)) else list(a)
            if not vals: raise Unsupported('min/max of empty', node)
            if 'key' in kw: raise Unsupported('min/max with key', node)
            out = vals[0]
            for v in vals[1:]:
                if isinstance(out, int) and isinstance(v, int):
                    out = min(out, v) if name == 'min' else max(out, v)
                else:
                    out = R('(%s N %s %s)' % ('nmin' if name == 'min' else 'nmax', self.rs(out), self.rs(v)))
            return out
        if name == 'sum' and len(a) == 1 and isinstance(a[0], (list, tuple)):
            out = 0
            for v in a[0]:
                out = self.binop(ast.Add(), out, v)
            return out
        if name in ('any', 'all') and len(a) == 1 and isinstance(a[0], (list, tuple)):
            out = (name == 'all')
            for v in a[0]:
                tv = self.truth(v, node)
                out = self.bool_and(out, tv) if name == 'all' else self.bool_or(out, tv)
            return out
        if name == 'hypot' and len(a) == 2 and is_realish(a[0]) and is_realish(a[1]):
            self.need_T()        # math.hypot / np.hypot: the Euclidean norm (what abs(complex) is)
            return R('(hypot_ T %s %s)' % (self.rs(a[0]), self.rs(a[1])))
        if name == 'enumerate' and len(a) in (1, 2) and isinstance(a[0], (list, tuple)) and (len(a) == 1 or isinstance(a[1], int)):
            k0 = a[1] if len(a) == 2 else 0
            return [(k0 + i, v) for i, v in enumerate(a[0])]
        if name == 'zip' and a and all(isinstance(v, (list, tuple)) for v in a):
            return [tuple(t) for t in zip(*a)]
        if name == 'reversed' and len(a) == 1 and isinstance(a[0], (list, tuple)):
            return list(a[0])[::-1]
        if name == 'float' and len(a) == 1 and is_realish(a[0]): return a[0]
        if name == 'int' and len(a) == 1 and isinstance(a[0], (int, bool)): return int(a[0])
        if name == 'bool' and len(a) == 1: return self.truth(a[0], node)
        if name == 'complex' and len(a) == 2 and is_realish(a[0]) and is_realish(a[1]):
            return C(a[0], a[1])
        if name == 'poly1d' and len(a) == 1 and isinstance(a[0], (list, tuple)): return Poly(a[0])
        if name == 'poly1d' and len(a) == 1 and isinstance(a[0], Poly): return a[0]
        if name in ('list', 'tuple') and len(a) == 1 and isinstance(a[0], (list, tuple)):
            return list(a[0]) if name == 'list' else tuple(a[0])
        if name == 'real' and len(a) == 1:
            v = a[0]
            if isinstance(v, Poly): return Poly([self.to_c(c).re for c in v.cs])
            return self.to_c(v).re
        if name == 'imag' and len(a) == 1:
            v = a[0]
            if isinstance(v, Poly): return Poly([self.to_c(c).im for c in v.cs])
            return self.to_c(v).im
        if name == 'isinstance':
            raise Unsupported('isinstance', node)
        if name in ('sqrt', 'cos', 'sin', 'tan', 'acos', 'arccos', 'asin', 'arcsin',
                    'atan', 'arctan', 'log', 'radians', 'degrees') and len(a) == 1 and is_realish(a[0]):
            self.need_T()
            canon = {'arccos': 'acos', 'arcsin': 'asin', 'arctan': 'atan', 'log': 'ln'}.get(name, name)
            return R('(%s_ T %s)' % (canon, self.rs(a[0])))
        if name == 'exp' and len(a) == 1 and isinstance(a[0], C) and isinstance(a[0].re, int) and a[0].re == 0:
            self.need_T()       # exp(1j*x) = cos x + i sin x
            x = self.rs(a[0].im)
            return C(R('(cos_ T %s)' % x), R('(sin_ T %s)' % x))
        if name == 'isclose' and len(a) == 2 and is_realish(a[0]) and is_realish(a[1]):
            rtol = kw.get('rtol', 1e-05); atol = kw.get('atol', 1e-08)
            # misctools.isclose / np.isclose on finite reals: |a-b| < / <= atol + rtol*|b|
            d = R('(nabs N %s)' % self.rs(self.rsub(a[0], a[1])))
            if isinstance(a[1], (int, float)) and not isinstance(a[1], bool):
                bound = atol + rtol * abs(float(a[1]))     # a static second argument: the bound as the floats compute it
            else:
                bound = self.radd(atol, self.rmul(rtol, R('(nabs N %s)' % self.rs(a[1]))))
            return B('(%s N %s %s)' % (self.isclose_cmp, d.s, self.rs(bound)))
        if name == 'clip' and len(a) == 3 and all(is_realish(x) for x in a):
            return R('(nmin N (nmax N %s %s) %s)' % (self.rs(a[0]), self.rs(a[1]), self.rs(a[2])))
        raise Unsupported('call to %s' % name, node)

    isclose_cmp = 'ltb'   # misctools.isclose uses <

    def call_method(self, obj, name, args, node, kw=None, tail=False):
        kw = kw or {}
        meths = self.classes.get(obj.cls, {})
        if name not in meths:
            raise Unsupported('method %s.%s' % (obj.cls, name), node)
        return self.inline(meths[name], [obj] + list(args), kw, {}, node, tail=tail)

    def inline(self, fn, args, kw, closure_env, node, tail=False):
        env = dict(closure_env)
        params = fn.args.args
        defaults = fn.args.defaults
        nd = len(params) - len(defaults)
        if len(args) > len(params):
            raise Unsupported('too many arguments', node)
        for i, p in enumerate(params):
            if i < len(args):
                env[p.arg] = args[i]
            elif p.arg in kw:
                env[p.arg] = kw[p.arg]
            elif i >= nd:
                env[p.arg] = self.ev(defaults[i - nd], {})
            else:
                raise Unsupported('missing argument ' + p.arg, node)
        for p, d in zip(fn.args.kwonlyargs, fn.args.kw_defaults):      # def f(x, *, m=2)
            if p.arg in kw:
                env[p.arg] = kw[p.arg]
            elif d is not None:
                env[p.arg] = self.ev(d, {})
            else:
                raise Unsupported('missing keyword-only argument ' + p.arg, node)
        r = self.run(fn.body, env)
        if tail:
            return r          # `return f(...)`: the callee's result IS the caller's result
        if isinstance(r, Rendered):
            raise Unsupported('symbolic branching inside inlined call to ' + fn.name, node)
        if isinstance(r, Raise):
            raise Unsupported('inlined call raises', node)
        return r

    # ------------------------------------------------------------ statements
    def assign(self, target, val, env):
        if isinstance(target, ast.Name):
            env[target.id] = self.bind_val(target.id, val)
        elif isinstance(target, (ast.Tuple, ast.List)):
            if isinstance(val, Obj): val = self.call_method(val, 'bpoints', [], target)
            stars = [i for i, t in enumerate(target.elts) if isinstance(t, ast.Starred)]
            if isinstance(val, (tuple, list)) and len(stars) == 1 and len(val) >= len(target.elts) - 1:
                i0 = stars[0]; nrest = len(val) - (len(target.elts) - 1)      # a, *rest, z = seq
                vals = list(val[:i0]) + [list(val[i0:i0 + nrest])] + list(val[i0 + nrest:])
                for t, v in zip(target.elts, vals):
                    self.assign(t.value if isinstance(t, ast.Starred) else t, v, env)
                return
            if not isinstance(val, (tuple, list)) or len(val) != len(target.elts):
                raise Unsupported('unpacking', target)
            for t, v in zip(target.elts, val):
                self.assign(t, v, env)
        elif isinstance(target, ast.Subscript):
            cont = self.ev(target.value, env)
            idx = self.ev(target.slice, env)
            if isinstance(cont, list) and isinstance(idx, int):
                cont[idx] = self.bind_val('e', val)
            else:
                raise Unsupported('subscript assignment', target)
        elif isinstance(target, ast.Attribute):
            obj = self.ev(target.value, env)
            if not isinstance(obj, Obj):
                raise Unsupported('attribute assignment on a non-object', target)
            obj.attrs[target.attr] = self.bind_val(target.attr, val)
        else:
            raise Unsupported('assignment target', target)

    class _Fall: pass
    FALL = _Fall()

    def run(self, stmts, env):
        """execute statements; returns the returned value, FALL when control
        falls off the end, Raise, or Rendered for a symbolic if"""
        stmts = list(stmts)
        i = 0
        while i < len(stmts):
            s = stmts[i]; i += 1
            if isinstance(s, ast.Expr):
                if isinstance(s.value, ast.Constant) and isinstance(s.value.value, str):
                    continue      # docstring
                self.ev(s.value, env)   # evaluated for effects (list.append)
                continue
            if isinstance(s, ast.Pass):
                continue
            if isinstance(s, ast.Assert):
                self.asserts.append(ast.unparse(s.test))
                continue
            if isinstance(s, ast.FunctionDef):
                env[s.name] = s
                continue
            if isinstance(s, ast.Assign):
                v = self.ev(s.value, env)
                for t in s.targets:
                    self.assign(t, v, env)
                continue
            if isinstance(s, ast.AugAssign):
                cur = self.ev(s.target, env)
                v = self.binop(s.op, cur, self.ev(s.value, env), s)
                self.assign(s.target, v, env)
                continue
            if isinstance(s, ast.Return):
                if isinstance(s.value, ast.Call):
                    self.tail_call = s.value
                try:
                    return self.ev(s.value, env) if s.value is not None else None
                finally:
                    self.tail_call = None
            if isinstance(s, ast.Raise):
                nm = ast.unparse(s.exc.func) if isinstance(s.exc, ast.Call) else ast.unparse(s.exc)
                return Raise(nm)
            if isinstance(s, ast.Try):
                # only the "arc support block" idiom:  try: p.large_arc ... except: pass
                txt = ast.unparse(s)
                if 'large_arc' in txt and len(s.handlers) == 1 and \
                        all(isinstance(b, ast.Pass) for b in s.handlers[0].body):
                    self.notes.append('arc support block skipped (argument is a control-point tuple)')
                    continue
                raise Unsupported('try statement', s)
            if isinstance(s, ast.While):
                # only loops whose test is STATIC at every iteration (len(...) of a static list, counters):
                # unrolled; a symbolic test is outside the subset
                if s.orelse:
                    raise Unsupported('while/else', s)
                c = self.truth(self.ev(s.test, env), s)
                if not isinstance(c, bool):
                    raise Unsupported('while with a symbolic condition', s)
                self.while_fuel = getattr(self, 'while_fuel', 0) + 1
                if self.while_fuel > 4000:
                    raise Unsupported('while loop does not terminate statically', s)
                if c:
                    self.loop_id = getattr(self, 'loop_id', 0) + 1
                    lid = self.loop_id
                    stmts = self.mark_breaks(s.body, lid) + [s, ('endloop', lid)] + stmts[i:]
                    i = 0
                continue
            if isinstance(s, ast.For):
                it = self.ev(s.iter, env)
                if isinstance(it, Obj): it = self.call_method(it, 'bpoints', [], s)
                if not isinstance(it, (list, tuple)):
                    raise Unsupported('for over non-static iterable', s)
                # unrolled; `break` jumps to the matching end-of-loop marker (skipping the
                # remaining iterations and the else clause), normal completion runs the else clause
                self.loop_id = getattr(self, 'loop_id', 0) + 1
                lid = self.loop_id
                new = []
                for x in it:
                    new.append(('bind', s.target, x))
                    new.extend(self.mark_breaks(s.body, lid))
                new.extend(s.orelse)
                new.append(('endloop', lid))
                stmts = new + stmts[i:]
                i = 0
                continue
            if isinstance(s, tuple) and s[0] == 'bind':
                self.assign(s[1], s[2], env)
                continue
            if isinstance(s, tuple) and s[0] == 'endloop':
                continue
            if isinstance(s, tuple) and s[0] == 'break':
                k = i
                while k < len(stmts) and not (isinstance(stmts[k], tuple) and stmts[k][0] == 'endloop' and stmts[k][1] == s[1]):
                    k += 1
                if k == len(stmts):
                    raise Unsupported('break without enclosing unrolled loop')
                i = k + 1
                continue
            if isinstance(s, ast.Break):
                raise Unsupported('break outside a for loop', s)
            if isinstance(s, ast.If):
                c = self.truth(self.ev(s.test, env), s)
                if isinstance(c, bool):
                    stmts = list(s.body if c else s.orelse) + stmts[i:]
                    i = 0
                    continue
                if self.try_merge_if(c, s, env):
                    continue          # both branches fell through: their effects are merged into env
                rest = stmts[i:]
                outs = []
                for branch in (s.body, s.orelse):
                    saved = self.ctx.binds
                    self.ctx.binds = []
                    env2 = self.copy_env(env)
                    r = self.run(list(branch) + rest, env2)
                    outs.append((self.ctx.binds, r))
                    self.ctx.binds = saved
                (b1, r1), (b2, r2) = outs
                return Rendered('(if %s\n then %s\n else %s)' % (
                    c.s, self.render_with(b1, r1), self.render_with(b2, r2)))
            raise Unsupported('statement ' + type(s).__name__, s)
        return self.FALL

    def mark_breaks(self, body, lid):
        """copy of a loop body in which every `break` belonging to THIS loop is replaced by a marker"""
        out = []
        for st in body:
            if isinstance(st, ast.Break):
                out.append(('break', lid))
            elif isinstance(st, ast.If):
                st2 = copy.copy(st)
                st2.body = self.mark_breaks(st.body, lid)
                st2.orelse = self.mark_breaks(st.orelse, lid)
                out.append(st2)
            elif isinstance(st, (ast.For, ast.While)):
                out.append(st)          # an inner loop owns its own breaks
            else:
                out.append(st)
        return out

    def copy_env(self, env, memo=None):
        """copy of env in which every mutable container (list, Obj) is copied, aliasing preserved;
        memo (if given) receives id(original) -> (original, copy)"""
        memo = {} if memo is None else memo
        def cp(v):
            if isinstance(v, list):
                if id(v) in memo: return memo[id(v)][1]
                c = []
                memo[id(v)] = (v, c)
                c.extend(cp(x) for x in v)
                return c
            if isinstance(v, Obj):
                if id(v) in memo: return memo[id(v)][1]
                c = Obj(v.cls, {})
                memo[id(v)] = (v, c)
                for k, x in v.attrs.items():
                    c.attrs[k] = cp(x)
                return c
            if isinstance(v, tuple):
                return tuple(cp(x) for x in v)
            if isinstance(v, dict):
                return {k: cp(x) for k, x in v.items()}
            return v
        return {k: cp(v) for k, v in env.items()}

    # ---------------------------------------------------- merging the two arms of a symbolic if
    class MergeFail(Exception):
        pass

    def try_merge_if(self, c, s, env):
        """symbolic `if c: body else: orelse` whose arms both fall through (no return / raise inside):
        run the arms separately on copies of env, hoist their let-bindings (pure terms with fresh
        names; Gallina is total) and merge every variable / container cell that differs into the
        conditional VALUE `if c then v1 else v2`.  Returns False (with every effect undone) when the
        arms cannot be merged — the caller then falls back to duplicating the continuation."""
        binds_obj = self.ctx.binds
        nb = len(binds_obj)
        saved = (list(self.asserts), list(self.notes))
        try:
            outs = []
            for branch in (s.body, s.orelse):
                memo = {}
                env2 = self.copy_env(env, memo)
                try:
                    r = self.run(list(branch), env2)
                except Unsupported:
                    raise self.MergeFail()
                if r is not self.FALL:
                    raise self.MergeFail()
                outs.append((env2, memo))
            (e1, m1), (e2, m2) = outs
            rev1 = {id(cpy): orig for orig, cpy in m1.values()}
            rev2 = {id(cpy): orig for orig, cpy in m2.values()}
            fresh = {}

            def mv(a, b):
                if a is b: return a
                amut, bmut = isinstance(a, (list, Obj)), isinstance(b, (list, Obj))
                if amut or bmut:
                    if not (amut and bmut) or type(a) is not type(b): raise self.MergeFail()
                    oa, ob = rev1.get(id(a)), rev2.get(id(b))
                    if oa is not None or ob is not None:
                        if oa is not ob: raise self.MergeFail()
                        return oa            # the same pre-existing container: merged in place below
                    key = (id(a), id(b))
                    if key in fresh: return fresh[key]
                    if isinstance(a, list):
                        if len(a) != len(b): raise self.MergeFail()
                        out = []
                        fresh[key] = out
                        out.extend(mv(x, y) for x, y in zip(a, b))
                        return out
                    if a.cls != b.cls or set(a.attrs) != set(b.attrs): raise self.MergeFail()
                    out = Obj(a.cls, {})
                    fresh[key] = out
                    for k in a.attrs:
                        out.attrs[k] = mv(a.attrs[k], b.attrs[k])
                    return out
                if isinstance(a, tuple) and isinstance(b, tuple):
                    if len(a) != len(b): raise self.MergeFail()
                    return tuple(mv(x, y) for x, y in zip(a, b))
                if isinstance(a, dict) and isinstance(b, dict):
                    if set(a) != set(b): raise self.MergeFail()
                    return {k: mv(a[k], b[k]) for k in a}
                if isinstance(a, bool) or isinstance(b, bool) or isinstance(a, B) or isinstance(b, B):
                    def bs(v):
                        if isinstance(v, bool): return 'true' if v else 'false'
                        if isinstance(v, B): return v.s
                        raise self.MergeFail()
                    x, y = bs(a), bs(b)
                    if x == y: return a
                    return self.bind_val('phi', B('(if %s then %s else %s)' % (c.s, x, y)))
                if isinstance(a, C) or isinstance(b, C):
                    if not ((isinstance(a, C) or is_realish(a)) and (isinstance(b, C) or is_realish(b))):
                        raise self.MergeFail()
                    a2, b2 = self.to_c(a), self.to_c(b)
                    return C(mv(a2.re, b2.re), mv(a2.im, b2.im))
                if is_realish(a) and is_realish(b):
                    if not isinstance(a, R) and not isinstance(b, R):
                        if type(a) is type(b) and a == b: return a
                        # two different STATIC ints (flags 0 / 1, angles 0 / 180): the merged value keeps
                        # both views — the real term for arithmetic and comparisons, the Z term for
                        # truthiness (RZ).  Other static numbers: duplicate the continuation instead.
                        if isinstance(a, int) and isinstance(b, int):
                            return self.merge(c, a, b)
                        raise self.MergeFail()
                    x, y = self.rs(a), self.rs(b)
                    if x == y: return a
                    return self.bind_val('phi', R('(if %s then %s else %s)' % (c.s, x, y)))
                if isinstance(a, ZS) or isinstance(b, ZS):
                    def zs(v):
                        if isinstance(v, ZS): return v.s
                        if isinstance(v, int): return '(%d)%%Z' % v
                        raise self.MergeFail()
                    x, y = zs(a), zs(b)
                    if x == y: return a
                    return ZS('(if %s then %s else %s)' % (c.s, x, y))
                if isinstance(a, Poly) and isinstance(b, Poly):
                    if len(a.cs) != len(b.cs): raise self.MergeFail()
                    return Poly([mv(x, y) for x, y in zip(a.cs, b.cs)])
                if type(a) is type(b) and isinstance(a, (str, type(None), ast.AST)) and (a is b or a == b):
                    return a
                raise self.MergeFail()

            # contents of the containers that existed before the if, merged in place
            new_contents = []
            for oid, (orig, c1) in m1.items():
                if oid not in m2: raise self.MergeFail()
                c2 = m2[oid][1]
                if isinstance(orig, list):
                    if len(c1) != len(c2): raise self.MergeFail()
                    new_contents.append((orig, [mv(x, y) for x, y in zip(c1, c2)]))
                else:
                    if set(c1.attrs) != set(c2.attrs): raise self.MergeFail()
                    new_contents.append((orig, {k: mv(c1.attrs[k], c2.attrs[k]) for k in c1.attrs}))
            new_env = {}
            for k in e1:
                if k in e2:
                    new_env[k] = mv(e1[k], e2[k])
            # commit
            for orig, cont in new_contents:
                if isinstance(orig, list): orig[:] = cont
                else:
                    orig.attrs.clear(); orig.attrs.update(cont)
            for k in list(env):
                if k not in new_env: del env[k]
            env.update(new_env)
            return True
        except self.MergeFail:
            self.ctx.binds = binds_obj      # a nested continuation-duplication may have been interrupted
            del self.ctx.binds[nb:]
            self.asserts[:] = saved[0]
            self.notes[:] = saved[1]
            return False

    # ------------------------------------------------------------- rendering
    def render_val(self, v, ty):
        """render a value at the declared return type"""
        if isinstance(v, Rendered): return v.s
        if isinstance(ty, tuple) and ty[0] == 'opt':
            if isinstance(v, Raise): return 'None'
            return '(Some %s)' % self.render_val(v, ty[1])
        if isinstance(v, Raise) or v is self.FALL:
            raise Unsupported('function may raise / fall through but return type is not optional')
        if ty == 'R':
            return self.rs(v)
        if ty == 'C':
            c = self.to_c(v)
            return '(%s, %s)' % (self.rs(c.re), self.rs(c.im))
        if ty == 'B':
            if isinstance(v, bool): return 'true' if v else 'false'
            if isinstance(v, B): return v.s
        if ty == 'Z':
            if isinstance(v, int): return '(%d)%%Z' % v
            if isinstance(v, ZS): return v.s
        if isinstance(ty, tuple) and ty[0] == 'obj':
            if not (isinstance(v, Obj) and v.cls == ty[1]):
                raise Unsupported('expected a %s object, got %r' % (ty[1], v))
            fs = [(f_, t_) for f_, t_ in ty[2] if f_ in self.CTORS[ty[1]] and not (isinstance(t_, tuple) and t_[0] == 'static')]
            return '(' + ', '.join(self.render_val(v.attrs[f_], t_) for f_, t_ in fs) + ')'
        if isinstance(v, Obj) and isinstance(ty, tuple) and ty[0] == 'list' and v.cls in ('Line', 'QuadraticBezier', 'CubicBezier'):
            v = [v.attrs[f_] for f_ in self.CTORS[v.cls]]
        if isinstance(v, Obj) and isinstance(ty, tuple) and ty[0] == 'tuple' and v.cls == 'Arc':
            v = [v.attrs[f_] for f_ in self.CTORS['Arc'][:len(ty[1])]]
        if isinstance(ty, tuple) and ty[0] == 'list':
            if isinstance(v, Poly): v = v.cs
            if isinstance(v, (list, tuple)):
                return '[' + '; '.join(self.render_val(x, ty[1]) for x in v) + ']'
        if isinstance(ty, tuple) and ty[0] == 'tuple':
            if isinstance(v, (list, tuple)) and len(v) == len(ty[1]):
                return '(' + ', '.join(self.render_val(x, t) for x, t in zip(v, ty[1])) + ')'
        raise Unsupported('cannot render %r at type %r' % (v, ty))

    def render_with(self, binds, v):
        body = self.render_val(v, self.ret_ty)
        for nm, term in reversed(binds):
            body = 'let %s := %s in\n %s' % (nm, term, body)
        return body

    # ------------------------------------------------------------- top level
    def coq_type(self, ty):
        if ty == 'R': return 'K'
        if ty == 'C': return '(Cplx K)'
        if ty == 'B': return 'bool'
        if ty == 'Z': return 'Z'
        if isinstance(ty, tuple) and ty[0] == 'list': return '(list %s)' % self.coq_type(ty[1])
        if isinstance(ty, tuple) and ty[0] == 'opt': return '(option %s)' % self.coq_type(ty[1])
        if isinstance(ty, tuple) and ty[0] == 'tuple':
            return '(' + ' * '.join(self.coq_type(t) for t in ty[1]) + ')'
        if isinstance(ty, tuple) and ty[0] == 'obj':     # a constructed segment = the tuple of its constructor arguments
            fs = [t_ for f_, t_ in ty[2] if f_ in self.CTORS[ty[1]] and not (isinstance(t_, tuple) and t_[0] == 'static')]
            return '(' + ' * '.join(self.coq_type(t) for t in fs) + ')'
        raise Unsupported('type %r' % (ty,))

    def mk_param(self, name, ty, params):
        """declare Coq parameters for a Python parameter of type ty; returns
        the translator value"""
        cname = name + '_' if name in COQ_KEYWORDS else name
        if ty == 'R':
            params.append('(%s : K)' % cname); return R(cname)
        if ty == 'C':
            params.append('(%s : Cplx K)' % cname)
            return C(R('(fst %s)' % cname), R('(snd %s)' % cname))
        if ty == 'Z':
            params.append('(%s : Z)' % cname); return ZS(cname)
        if ty == 'B':
            params.append('(%s : bool)' % cname); return B(cname)
        if isinstance(ty, tuple) and ty[0] == 'static':
            return ty[1]
        if isinstance(ty, tuple) and ty[0] in ('tuple', 'list'):
            # ('tuple', elemty, n): n parameters name0..name{n-1}
            vals = [self.mk_param('%s%d' % (name, i), ty[1], params) for i in range(ty[2])]
            return tuple(vals) if ty[0] == 'tuple' else vals
        if isinstance(ty, tuple) and ty[0] == 'obj':
            cls, fields = ty[1], ty[2]
            attrs = {}
            for fname, fty in fields:
                # fields of `self` keep their names; fields of any other object parameter are
                # prefixed with the parameter's name (two objects of one class must not collide)
                pname = fname if name == 'self' else '%s_%s' % (name, fname)
                attrs[fname] = self.mk_param(pname, fty, params)
            if cls in ('QuadraticBezier', 'CubicBezier') and '_length_info' not in attrs:
                # a segment whose length has not been cached (caches are property C16's subject)
                attrs['_length_info'] = {'length': None, 'bpoints': None, 'error': None, 'min_depth': None}
            return Obj(cls, attrs)
        raise Unsupported('parameter type %r' % (ty,))

    def translate(self, coqname, fn, sig, ret):
        """fn: FunctionDef; sig: list of (pyname, ty) for each python
        parameter; ret: return type. Returns Coq source of one Definition."""
        self.ctx = Ctx(self)
        self.needs_T = False
        self.asserts = []
        self.notes = []
        self.counter = 0
        self.while_fuel = 0
        params = []
        env = {}
        for pyname, ty in sig:
            env[pyname] = self.mk_param(pyname, ty, params)
        allp = fn.args.args
        nd = len(allp) - len(fn.args.defaults)
        for i, p in enumerate(allp):
            if p.arg not in env:
                if i >= nd:
                    env[p.arg] = self.ev(fn.args.defaults[i - nd], {})
                elif isinstance(ret, tuple) and ret[0] == 'post' and len(ret) > 3:
                    pass          # a slice need not mention every parameter of the function
                else:
                    raise Unsupported('parameter %s has no declared type' % p.arg, fn)
        body_stmts = list(fn.body)
        if isinstance(ret, tuple) and ret[0] == 'post':
            # ('post', python expression, type): the function returns None; its RESULT is the given
            # expression over the final state (attributes assigned through self)
            if len(ret) > 3:
                # a SLICE of the function body: the statements from the first one whose source starts
                # with ret[3]['from'] (default: the beginning) up to, excluding, the next one whose
                # source starts with ret[3]['to'] (default: the end); the live variables at the cut are
                # declared as parameters in sig.  Cutting is the translator's (trusted); each slice is
                # then a definition of its own with its own agreement lemma.
                frm, to = ret[3].get('from'), ret[3].get('to')
                srcs = [ast.unparse(st) for st in body_stmts]
                i0 = 0
                if frm is not None:
                    hits = [i for i, t in enumerate(srcs) if t.startswith(frm)]
                    if len(hits) != 1: raise Unsupported('slice start %r matches %d statements' % (frm, len(hits)), fn)
                    i0 = hits[0]
                i1 = len(body_stmts)
                if to is not None:
                    hits = [i for i, t in enumerate(srcs) if i > i0 and t.startswith(to)]
                    if len(hits) != 1: raise Unsupported('slice end %r matches %d statements' % (to, len(hits)), fn)
                    i1 = hits[0]
                body_stmts = body_stmts[i0:i1]
            body_stmts.append(ast.Return(value=ast.parse(ret[1], mode='eval').body))
            ret = ret[2]
        scope = ast.Module(body=body_stmts, type_ignores=[])
        has_raise = any(isinstance(n, ast.Raise) for n in ast.walk(scope))
        for n in ast.walk(scope):    # raises in directly called module functions (tail calls are inlined with their raises)
            if isinstance(n, ast.Call) and isinstance(n.func, ast.Name) and n.func.id in self.funcs:
                if any(isinstance(m, ast.Raise) for m in ast.walk(self.funcs[n.func.id])):
                    has_raise = True
        self.ret_ty = ('opt', ret) if has_raise and not (isinstance(ret, tuple) and ret[0] == 'opt') else ret
        r = self.run(body_stmts, env)
        body = self.render_with(self.ctx.binds, r)
        head = 'Definition %s {K : Type} (N : Num K)%s %s : %s :=\n %s.' % (
            coqname, ' (T : NumT K)' if self.needs_T else '', ' '.join(params),
            self.coq_type(self.ret_ty), body)
        cm = ''
        if self.asserts:
            cm += '(* preconditions asserted by the code: %s *)\n' % '; '.join(self.asserts).replace('*)', '* )')
        for n in self.notes:
            cm += '(* note: %s *)\n' % n
        return cm + head


def find_fn(tr, qual):
    if '.' in qual:
        cls, m = qual.split('.')
        return tr.classes[cls][m]
    return tr.funcs[qual]
