#!/usr/bin/env python3
"""Evaluate a seeded change against the checks.

  tools/run_seeded.py <dir-with-patch.diff,demo.py,meta.json> [--props C05,C16] [--keep] [--inplace]

Steps (all in a scratch git worktree of /repo unless --inplace):
  1. demo.py on the clean tree must exit 0;
  2. apply patch.diff (git apply, 3-way fallback); the test suite must give the
     baseline result; demo.py must now exit 1;
  3. run ./check <prop> --tier quick with VERIF_REPO=<worktree> for every
     requested property (default: the property of meta.json) and record exit
     code, violation keys and wall time;
  4. with --keep copy the directory to /verif/seeded/<name>/ and write the result
     into its meta.json.
--inplace applies the patch to /repo itself (git -C /repo apply) and undoes it
afterwards (git -C /repo checkout -- .): only when nothing else is using /repo.
"""
import sys, os, json, subprocess, shutil, argparse, time, re

VERIF = os.path.dirname(os.path.dirname(os.path.abspath(__file__)))
PY = '/venv/bin/python'


def sh(cmd, cwd=None, env=None, timeout=3600):
    p = subprocess.run(cmd, cwd=cwd, env=env, stdout=subprocess.PIPE, stderr=subprocess.STDOUT, text=True, timeout=timeout)
    return p.returncode, p.stdout


def run_tests(tree):
    rc, out = sh([PY, '-m', 'pytest', '-q', '-p', 'no:cacheprovider', '--timeout=900', 'test'], cwd=tree, timeout=1800)
    m = re.search(r'(\d+) failed, (\d+) passed', out) or re.search(r'(\d+) passed', out)
    tail = out.strip().splitlines()[-1] if out.strip() else ''
    failed = re.findall(r'FAILED (\S+)', out)
    return tail, failed


def run_demo(tree, demo):
    env = dict(os.environ, PYTHONPATH=tree, PYTHONDONTWRITEBYTECODE='1')
    rc, out = sh([PY, demo], cwd=tree, env=env, timeout=900)
    return rc, out[-1500:]


def main():
    ap = argparse.ArgumentParser()
    ap.add_argument('dir')
    ap.add_argument('--props')
    ap.add_argument('--keep', action='store_true')
    ap.add_argument('--inplace', action='store_true')
    ap.add_argument('--tier', default='quick')
    a = ap.parse_args()
    d = os.path.abspath(a.dir)
    name = os.path.basename(d.rstrip('/'))
    meta = json.load(open(os.path.join(d, 'meta.json')))
    props = a.props.split(',') if a.props else [meta['property']]
    patch = os.path.join(d, 'patch.diff')
    demo = os.path.join(d, 'demo.py')
    res = {'name': name, 'props': {}, 'ran_at': time.strftime('%Y-%m-%d %H:%M:%S')}
    if a.inplace:
        tree = '/repo'
    else:
        tree = '/tmp/seedrun_%s_%d' % (name, os.getpid())
        rc, out = sh(['git', '-C', '/repo', 'worktree', 'add', '--detach', tree, 'HEAD'])
        if rc != 0:
            print(out); sys.exit(2)
    try:
        rc0, out0 = run_demo(tree, demo)
        res['demo_clean_exit'] = rc0
        rc, out = sh(['git', '-C', tree, 'apply', patch])
        if rc != 0:
            rc, out = sh(['git', '-C', tree, 'apply', '-3', patch])
        res['patch_applies'] = (rc == 0)
        if rc != 0:
            res['apply_error'] = out[-800:]
        else:
            tail, failed = run_tests(tree)
            res['tests'] = tail
            res['tests_failed'] = failed
            res['tests_baseline_ok'] = set(failed) <= {'test/test_groups.py::TestGroups::test_group_transform'}
            rc1, out1 = run_demo(tree, demo)
            res['demo_mutated_exit'] = rc1
            res['demo_mutated_out'] = out1[-600:]
            for p in props:
                evd = tree + '_ev' if not a.inplace else '/tmp/seedrun_ev_%d' % os.getpid()
                os.makedirs(evd, exist_ok=True)
                env = dict(os.environ, VERIF_REPO=tree, VERIF_EVIDENCE_DIR=evd)
                t0 = time.time()
                rc, out = sh([os.path.join(VERIF, 'check'), p, '--tier', a.tier], cwd=VERIF, env=env, timeout=3600)
                ev = {}
                try:
                    ev = json.load(open(os.path.join(evd, p + '.json')))
                except Exception:
                    pass
                shutil.rmtree(evd, ignore_errors=True)
                res['props'][p] = {'exit': rc, 'wall_s': round(time.time() - t0, 1),
                                   'violation_lines': [l for l in out.splitlines() if l.startswith('VIOLATION')][:6],
                                   'violation_keys': ev.get('violation_keys'),
                                   'detected': rc == 1 and any(l.startswith('VIOLATION') for l in out.splitlines())}
    finally:
        if a.inplace:
            sh(['git', '-C', '/repo', 'checkout', '--', '.'])
        else:
            sh(['git', '-C', '/repo', 'worktree', 'remove', '--force', tree])
            shutil.rmtree(tree, ignore_errors=True)
    print(json.dumps(res, indent=1))
    if a.keep:
        dst = os.path.join(os.environ.get('VERIF_SEEDED_OUT') or os.path.join(VERIF, 'seeded'), name)
        os.makedirs(dst, exist_ok=True)
        for f in ('patch.diff', 'demo.py'):
            if os.path.abspath(os.path.join(d, f)) != os.path.abspath(os.path.join(dst, f)):
                shutil.copy(os.path.join(d, f), os.path.join(dst, f))
        meta['verification'] = res
        json.dump(meta, open(os.path.join(dst, 'meta.json'), 'w'), indent=1)
    # after evaluating against a mutated tree the evidence files describe the mutated run:
    # the caller re-runs the checks on the unchanged tree before committing evidence.


if __name__ == '__main__':
    main()
