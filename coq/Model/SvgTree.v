(* Model/SvgTree.v — SVG tree flattening (properties C17): shape conversion and
   nested transforms.

   Two artefacts, written independently of each other:

   (i) REFERENCE, from the text of SVG 1.1:
       [titem_spec]   §7.6  the matrix of one transform definition
       [tlist_spec]   §7.6  a transform list = the product of its items, in order
       [flatten_ref]  §7.5  structural recursion, CTM_child = CTM_parent · own
       [shape_spec]   §9    the path a basic shape is equivalent to
                            (rect: rx/ry defaulting and clamping §9.2; circle
                            and ellipse as two half-ellipse arcs starting at
                            (cx-rx, cy); line; polyline; polygon with closing)

   (ii) IMPLEMENTATION MODELS, line by line from /repo/svgpathtools:
       [impl_item], [parse_transform]     parser.py  _parse_transform_substr /
                                          parse_transform (left fold of dot)
       [ellipse2pathd] ... [rect2pathd]   svg_to_paths.py converters, emitting
                                          abstract d-string commands [cmd]
       [interp]                           the part of Path._parse_path that those
                                          commands reach (M, L, A, a, z)
       [flatten_stack]                    document.py flattened_paths: the explicit
                                          stack of (group, transform), pop from the
                                          end, the per-kind iteration over the
                                          CONVERSIONS dict, stack.extend(children)
       [from_group]                       flattened_paths_from_group (route,
                                          desired groups, ignored paths)
       [apply_tf]                         path.py transform: control points of
                                          Bezier segments mapped; the Arc branch
                                          raises (TypeError on numpy 2.x)
       [doc_paths]                        Document.paths() end to end
       [svg2paths_model]                  svg_to_paths.svg2paths (per-kind
                                          harvesting, transforms ignored)
       [sax_events], [sax_loop], [sax_flatten]
                                          svg_io_sax.SaxDocument.sax_parse (value /
                                          matrix stack; child.dot(parent)) and
                                          flatten_all_paths (result of transform
                                          discarded)

   Trigonometry of an angle enters as DATA: a rotate item carries (cos, sin), a
   skew item carries tan, so that everything runs in exact rationals (NumQ);
   over R they are instantiated with the real functions.

   Everything is generic in the carrier K; matrices are full 3x3 (numpy
   arrays of shape (3,3) in the code). *)
From Coq Require Import ZArith List Bool.
From SVP Require Import Base.Num.
Import ListNotations.
Set Implicit Arguments.

(* ------------------------------------------------------------------ *)
(* kinds of elements; the two orders in which the code iterates them    *)

Inductive kind := KPath | KCircle | KEllipse | KLine | KPolyline | KPolygon | KRect.

Definition kind_eqb (a b : kind) : bool :=
  match a, b with
  | KPath, KPath | KCircle, KCircle | KEllipse, KEllipse | KLine, KLine
  | KPolyline, KPolyline | KPolygon, KPolygon | KRect, KRect => true
  | _, _ => false
  end.

(* document.py CONVERSIONS = {'path','circle','ellipse','line','polyline','polygon','rect'}
   (dict iteration order = insertion order) *)
Definition kinds_document : list kind :=
  [KPath; KCircle; KEllipse; KLine; KPolyline; KPolygon; KRect].
(* svg2paths: path, polyline, polygon, line, ellipse, circle, rect *)
Definition kinds_svg2paths : list kind :=
  [KPath; KPolyline; KPolygon; KLine; KEllipse; KCircle; KRect].

(* names of transform definitions, as _parse_transform_substr distinguishes them *)
Inductive tname := NMatrix | NTranslate | NScale | NRotate | NSkewX | NSkewY | NUnknown.

(* Which variant of the code is modelled.  Every flag is one place where the
   pinned code departs from the specification; false = the pinned code
   (commit 12ec128), true = the repaired behaviour.  The correspondence check
   determines on every run, by probing the implementation with the witness of
   the corresponding `_refuted` Example, which variant /repo is, and
   instantiates the model with it. *)
Record cfg := mkCfg {
  f_rect_attr : bool;     (* rect2pathd reads rx/ry from the attributes of an Element too *)
  f_rect_clamp : bool;    (* rect2pathd clamps rx/ry to half the width/height *)
  f_line_default : bool;  (* svg2paths: missing x1/y1/x2/y2 of a line default to 0 *)
  f_group_empty : bool;   (* paths_from_group: a childless group Element is a group *)
  f_sax_line : bool;      (* line2pathd accepts the attribute dict of SaxDocument *)
  f_sax_order : bool;     (* SaxDocument multiplies parent.dot(child) *)
  f_sax_keep : bool;      (* SaxDocument.flatten_all_paths keeps the transformed path *)
  f_arc_tf : bool         (* transform() of an Arc returns (the image arc) instead of raising *)
}.
Definition pinned : cfg := mkCfg false false false false false false false false.
Definition repaired : cfg := mkCfg true true true true true true true true.

Section SvgTree.
  Context {K : Type} (N : Num K).

  Local Notation "0" := (zero N).
  Local Notation "1" := (one N).
  Local Infix "+" := (add N).
  Local Infix "-" := (sub N).
  Local Infix "*" := (mul N).
  Local Notation "- x" := (opp N x).

  Definition pt : Type := (K * K)%type.
  Definition pt_eqb (p q : pt) : bool := eqb N (fst p) (fst q) && eqb N (snd p) (snd q).

  (* ---------------------------------------------------------------- *)
  (* 3x3 matrices                                                      *)
  Record mat := mkMat { m11 : K; m12 : K; m13 : K;
                        m21 : K; m22 : K; m23 : K;
                        m31 : K; m32 : K; m33 : K }.

  Definition mI : mat := mkMat 1 0 0 0 1 0 0 0 1.        (* np.identity(3) *)

  (* A.dot(B) *)
  Definition mmul (A B : mat) : mat :=
    mkMat (m11 A * m11 B + m12 A * m21 B + m13 A * m31 B)
          (m11 A * m12 B + m12 A * m22 B + m13 A * m32 B)
          (m11 A * m13 B + m12 A * m23 B + m13 A * m33 B)
          (m21 A * m11 B + m22 A * m21 B + m23 A * m31 B)
          (m21 A * m12 B + m22 A * m22 B + m23 A * m32 B)
          (m21 A * m13 B + m22 A * m23 B + m23 A * m33 B)
          (m31 A * m11 B + m32 A * m21 B + m33 A * m31 B)
          (m31 A * m12 B + m32 A * m22 B + m33 A * m32 B)
          (m31 A * m13 B + m32 A * m23 B + m33 A * m33 B).

  Definition mat_eqb (A B : mat) : bool :=
    eqb N (m11 A) (m11 B) && eqb N (m12 A) (m12 B) && eqb N (m13 A) (m13 B) &&
    eqb N (m21 A) (m21 B) && eqb N (m22 A) (m22 B) && eqb N (m23 A) (m23 B) &&
    eqb N (m31 A) (m31 B) && eqb N (m32 A) (m32 B) && eqb N (m33 A) (m33 B).

  (* the affine matrix SVG writes matrix(a b c d e f) *)
  Definition aff (a b c d e f : K) : mat := mkMat a c e b d f 0 0 1.

  (* to_complex(tf.dot(to_point(p))) *)
  Definition pt_apply (M : mat) (p : pt) : pt :=
    (m11 M * fst p + m12 M * snd p + m13 M * 1,
     m21 M * fst p + m22 M * snd p + m23 M * 1).

  (* ---------------------------------------------------------------- *)
  (* transform items                                                   *)
  Inductive titem :=
  | TMatrix (a b c d e f : K)
  | TTranslate (x : K) (oy : option K)
  | TScale (x : K) (oy : option K)
  | TRotate (c s : K) (oc : option (K * K))   (* cos, sin of the angle; centre *)
  | TSkewX (t : K)                            (* tan of the angle *)
  | TSkewY (t : K).

  Definition odef (d : K) (o : option K) : K := match o with Some v => v | None => d end.

  (* (i) SVG 1.1 §7.6 *)
  Definition titem_spec (t : titem) : mat :=
    match t with
    | TMatrix a b c d e f => aff a b c d e f
    | TTranslate x oy => aff 1 0 0 1 x (odef 0 oy)
    | TScale x oy => aff x 0 0 (odef x oy) 0 0
    | TRotate c s None => aff c s (- s) c 0 0
    | TRotate c s (Some (cx, cy)) =>
        (* translate(cx,cy) rotate(a) translate(-cx,-cy), multiplied out *)
        aff c s (- s) c (cx - c * cx + s * cy) (cy - s * cx - c * cy)
    | TSkewX t => aff 1 0 t 1 0 0
    | TSkewY t => aff 1 t 0 1 0 0
    end.

  (* a transform list: "the net effect is as if each transform had been
     specified separately in the order provided" = nested = product in order *)
  Fixpoint tlist_spec (l : list titem) : mat :=
    match l with
    | [] => mI
    | t :: r => mmul (titem_spec t) (tlist_spec r)
    end.

  (* (ii) parser.py.  A raw item is what `substr.split('(')` and
     `map(float, ...)` give: the name, the list of values, and - data - the
     trigonometric values of values[0] degrees: (cos, sin, tan). *)
  Record traw := mkRaw { r_name : tname; r_vals : list K; r_cos : K; r_sin : K; r_tan : K }.

  Definition set13_23 (x y : K) : mat := mkMat 1 0 x 0 1 y 0 0 1.

  Definition impl_item (r : traw) : mat :=
    match r_name r, r_vals r with
    | NMatrix, [a; b; c; d; e; f] =>
        (* transform[0:2, 0:3] = [values[0:6:2], values[1:6:2]] *)
        mkMat a c e b d f 0 0 1
    | NTranslate, [x] => mkMat 1 0 x 0 1 0 0 0 1
    | NTranslate, [x; y] => mkMat 1 0 x 0 1 y 0 0 1
    | NScale, [x] => mkMat x 0 0 0 x 0 0 0 1
    | NScale, [x; y] => mkMat x 0 0 0 y 0 0 0 1
    | NRotate, [_] =>
        (* offset = (0, 0): tf_offset.dot(tf_rotate).dot(tf_offset_neg) *)
        mmul (mmul (set13_23 0 0) (mkMat (r_cos r) (- r_sin r) 0 (r_sin r) (r_cos r) 0 0 0 1))
             (set13_23 (- 0) (- 0))
    | NRotate, [_; cx; cy] =>
        mmul (mmul (set13_23 cx cy) (mkMat (r_cos r) (- r_sin r) 0 (r_sin r) (r_cos r) 0 0 0 1))
             (set13_23 (- cx) (- cy))
    | NSkewX, [_] => mkMat 1 (r_tan r) 0 0 1 0 0 0 1
    | NSkewY, [_] => mkMat 1 0 0 (r_tan r) 1 0 0 0 1
    | _, _ => mI        (* wrong number of values, or unknown name: warning + identity *)
    end.

  (* total_transform = total_transform.dot(item), from the identity *)
  Definition parse_transform (l : list traw) : mat :=
    fold_left (fun acc r => mmul acc (impl_item r)) l mI.

  (* how a (legal) item is written in the attribute; the angle value itself
     is irrelevant to the model (its trigonometry is data) *)
  Definition of_titem (t : titem) : traw :=
    match t with
    | TMatrix a b c d e f => mkRaw NMatrix [a; b; c; d; e; f] 0 0 0
    | TTranslate x None => mkRaw NTranslate [x] 0 0 0
    | TTranslate x (Some y) => mkRaw NTranslate [x; y] 0 0 0
    | TScale x None => mkRaw NScale [x] 0 0 0
    | TScale x (Some y) => mkRaw NScale [x; y] 0 0 0
    | TRotate c s None => mkRaw NRotate [0] c s 0
    | TRotate c s (Some (cx, cy)) => mkRaw NRotate [0; cx; cy] c s 0
    | TSkewX t => mkRaw NSkewX [0] 0 0 t
    | TSkewY t => mkRaw NSkewY [0] 0 0 t
    end.

  Definition parse_tf (l : list titem) : mat := parse_transform (map of_titem l).

  (* ---------------------------------------------------------------- *)
  (* segments, abstract d-string commands and their interpretation     *)
  Inductive seg :=
  | SgLine (a b : pt)
  | SgQuad (a c b : pt)
  | SgCubic (a c1 c2 b : pt)
  | SgArc (a : pt) (rx ry rot : K) (large sweep : bool) (b : pt).

  Inductive cmd :=
  | CM (p : pt)                                     (* M x y *)
  | CL (p : pt)                                     (* L x y *)
  | CA (rx ry rot : K) (large sweep : bool) (p : pt) (* A ... absolute *)
  | Ca (rx ry rot : K) (large sweep : bool) (d : pt) (* a ... relative *)
  | CZ.                                             (* z *)

  Definition padd (p q : pt) : pt := (fst p + fst q, snd p + snd q).

  (* zero radius arcs are replaced by lines (path.py, command 'A') *)
  Definition arc_or_line (cur : pt) (rx ry rot : K) (large sweep : bool) (e : pt) : seg :=
    if eqb N rx 0 || eqb N ry 0 then SgLine cur e else SgArc cur rx ry rot large sweep e.

  (* state: current_pos, start_pos, segments (in order) *)
  Fixpoint interp_from (cur start : pt) (l : list cmd) : list seg :=
    match l with
    | [] => []
    | CM p :: r => interp_from p p r
    | CL p :: r => SgLine cur p :: interp_from p start r
    | CA rx ry rot la sw p :: r => arc_or_line cur rx ry rot la sw p :: interp_from p start r
    | Ca rx ry rot la sw d :: r =>
        let p := padd d cur in      (* end += current_pos *)
        arc_or_line cur rx ry rot la sw p :: interp_from p start r
    | CZ :: r =>
        if pt_eqb cur start then interp_from start start r
        else SgLine cur start :: interp_from start start r
    end.
  Definition interp (l : list cmd) : list seg := interp_from (0, 0) (0, 0) l.

  (* ---------------------------------------------------------------- *)
  (* attributes of a shape element (absent attribute = None)           *)
  Record attrs := mkAttrs {
    a_id : nat;                       (* identity of the element (its `id`) *)
    a_d : list seg;                   (* path: the parsed d (C02's business) *)
    a_cx : option K; a_cy : option K; a_r : option K;
    a_rx : option K; a_ry : option K;
    a_x : option K; a_y : option K; a_w : option K; a_h : option K;
    a_x1 : option K; a_y1 : option K; a_x2 : option K; a_y2 : option K;
    a_pts : list pt }.

  Inductive node :=
  | Group (tf : list titem) (kids : list node)
  | Shape (k : kind) (a : attrs) (tf : list titem).

  Definition out : Type := (kind * attrs * mat)%type.

  (* ---------------------------------------------------------------- *)
  (* (i) reference: §7.5 nesting                                       *)
  Fixpoint flatten_ref (n : node) (M : mat) : list out :=
    match n with
    | Shape k a tf => [(k, a, mmul M (tlist_spec tf))]
    | Group tf kids =>
        let M' := mmul M (tlist_spec tf) in
        flat_map (fun c => flatten_ref c M') kids
    end.

  (* (i) reference: §9 basic shapes.  None = the element is not rendered
     (or in error): zero/negative size, missing required attribute. *)
  Definition two : K := 1 + 1.
  Definition half (x : K) : K := div N x two.

  Fixpoint lines_from (p : pt) (l : list pt) : list seg :=
    match l with
    | [] => []
    | q :: r => SgLine p q :: lines_from q r
    end.
  Fixpoint last_pt (p : pt) (l : list pt) : pt :=
    match l with [] => p | q :: r => last_pt q r end.

  Definition pos (x : K) : bool := ltb N 0 x.
  Definition nonneg (x : K) : bool := leb N 0 x.

  (* §9.2: effective corner radii *)
  Definition rect_radii (w h : K) (orx ory : option K) : K * K :=
    let clamp (r : K * K) : K * K :=
      (if ltb N (half w) (fst r) then half w else fst r,
       if ltb N (half h) (snd r) then half h else snd r) in
    match orx, ory with
    | None, None => (0, 0)
    | Some rx, None => clamp (rx, rx)
    | None, Some ry => clamp (ry, ry)
    | Some rx, Some ry => clamp (rx, ry)
    end.

  Definition rect_spec (x y w h rx ry : K) : list seg :=
    if eqb N rx 0 || eqb N ry 0 then
      [SgLine (x, y) (x + w, y); SgLine (x + w, y) (x + w, y + h);
       SgLine (x + w, y + h) (x, y + h); SgLine (x, y + h) (x, y)]
    else
      [SgLine (x + rx, y) (x + w - rx, y);
       SgArc (x + w - rx, y) rx ry 0 false true (x + w, y + ry);
       SgLine (x + w, y + ry) (x + w, y + h - ry);
       SgArc (x + w, y + h - ry) rx ry 0 false true (x + w - rx, y + h);
       SgLine (x + w - rx, y + h) (x + rx, y + h);
       SgArc (x + rx, y + h) rx ry 0 false true (x, y + h - ry);
       SgLine (x, y + h - ry) (x, y + ry);
       SgArc (x, y + ry) rx ry 0 false true (x + rx, y)].

  (* the full ellipse, as two half arcs from the left-most point (the
     decomposition the converter uses; SVG 1.1 leaves it open) *)
  Definition ellipse_spec (cx cy rx ry : K) : list seg :=
    [SgArc (cx - rx, cy) rx ry 0 true false (cx + rx, cy);
     SgArc (cx + rx, cy) rx ry 0 true false (cx - rx, cy)].

  Definition shape_spec (k : kind) (a : attrs) : option (list seg) :=
    match k with
    | KPath => Some (a_d a)
    | KLine => Some [SgLine (odef 0 (a_x1 a), odef 0 (a_y1 a)) (odef 0 (a_x2 a), odef 0 (a_y2 a))]
    | KPolyline => match a_pts a with
                   | [] => None
                   | p :: r => Some (lines_from p r)
                   end
    | KPolygon => match a_pts a with
                  | [] => None
                  | p :: r => Some (lines_from p r ++ [SgLine (last_pt p r) p])
                  end
    | KCircle => match a_r a with
                 | Some r => if pos r then Some (ellipse_spec (odef 0 (a_cx a)) (odef 0 (a_cy a)) r r)
                             else None
                 | None => None
                 end
    | KEllipse => match a_rx a, a_ry a with
                  | Some rx, Some ry =>
                      if pos rx && pos ry
                      then Some (ellipse_spec (odef 0 (a_cx a)) (odef 0 (a_cy a)) rx ry)
                      else None
                  | _, _ => None
                  end
    | KRect => match a_w a, a_h a with
               | Some w, Some h =>
                   if pos w && pos h &&
                      nonneg (odef 0 (a_rx a)) && nonneg (odef 0 (a_ry a)) then
                     let '(rx, ry) := rect_radii w h (a_rx a) (a_ry a) in
                     Some (rect_spec (odef 0 (a_x a)) (odef 0 (a_y a)) w h rx ry)
                   else None
               | _, _ => None
               end
    end.

  (* ---------------------------------------------------------------- *)
  (* (ii) svg_to_paths.py converters -> abstract commands.             *)
  (* None = the converter raises.                                      *)

  Definition ellipse2pathd (a : attrs) : option (list cmd) :=
    let cx := odef 0 (a_cx a) in
    let cy := odef 0 (a_cy a) in
    let radii := match a_r a with
                 | Some r => Some (r, r)
                 | None => match a_rx a, a_ry a with
                           | Some rx, Some ry => Some (rx, ry)
                           | _, _ => None          (* float(None): TypeError *)
                           end
                 end in
    match radii with
    | None => None
    | Some (rx, ry) =>
        Some [CM (cx - rx, cy);
              Ca rx ry 0 true false (lit N 2 * rx, 0);
              Ca rx ry 0 true false (lit N (-2) * rx, 0);
              CZ]
    end.

  Definition polyline2pathd (a : attrs) (is_polygon : bool) : option (list cmd) :=
    match a_pts a with
    | [] => None                                   (* points[0]: IndexError *)
    | p0 :: r =>
        let closed := pt_eqb p0 (last_pt p0 r) in
        let pts := if is_polygon && closed then r ++ [p0] else r in
        Some (CM p0 :: map CL pts ++ (if is_polygon || closed then [CZ] else []))
    end.

  (* [has_rx]: the value of `'rx' in rect or 'ry' in rect`.  When rect is a
     dict (svg2paths, SaxDocument) this tests the keys; when it is an
     xml.etree Element (Document) `in` iterates over the CHILDREN of the
     element, so it is False whatever the attributes are. *)
  Definition rect_has_rx (c : cfg) (via_dict : bool) (a : attrs) : bool :=
    if via_dict || f_rect_attr c then
      match a_rx a, a_ry a with None, None => false | _, _ => true end
    else false.

  Definition rect2pathd (c : cfg) (via_dict : bool) (a : attrs) : list cmd :=
    let x := odef 0 (a_x a) in let y := odef 0 (a_y a) in
    let w := odef 0 (a_w a) in let h := odef 0 (a_h a) in
    if rect_has_rx c via_dict a then
      (* rx = ry or 0. when rx is None (a present value is a non-empty string:
         truthy), and symmetrically *)
      let rx := match a_rx a with Some v => v | None => odef 0 (a_ry a) end in
      let ry := match a_ry a with Some v => v | None => rx end in
      (* repaired: rx, ry = min(rx, w / 2), min(ry, h / 2) *)
      let rx := if f_rect_clamp c then (if ltb N (half w) rx then half w else rx) else rx in
      let ry := if f_rect_clamp c then (if ltb N (half h) ry then half h else ry) else ry in
      [CM (x + rx, y);
       CL (x + w - rx, y);
       CA rx ry 0 false true (x + w, y + ry);
       CL (x + w, y + h - ry);
       CA rx ry 0 false true (x + w - rx, y + h);
       CL (x + rx, y + h);
       CA rx ry 0 false true (x, y + h - ry);
       CL (x, y + ry);
       CA rx ry 0 false true (x + rx, y);
       CZ]
    else
      [CM (x, y); CL (x + w, y); CL (x + w, y + h); CL (x, y + h); CZ].

  (* the three ways a line element is converted *)
  Inductive route := RDocument | RSvg2paths | RSax.

  Definition line2pathd (c : cfg) (rt : route) (a : attrs) : option (list cmd) :=
    let with_defaults :=
      Some [CM (odef 0 (a_x1 a), odef 0 (a_y1 a)); CL (odef 0 (a_x2 a), odef 0 (a_y2 a))] in
    match rt with
    | RDocument => with_defaults   (* l.attrib.get('x1', '0') ... on an Element *)
    | RSvg2paths =>           (* inline: l['x1'] ... : KeyError when absent; repaired: l.get('x1', '0') *)
        if f_line_default c then with_defaults else
        match a_x1 a, a_y1 a, a_x2 a, a_y2 a with
        | Some x1, Some y1, Some x2, Some y2 => Some [CM (x1, y1); CL (x2, y2)]
        | _, _, _, _ => None
        end
    | RSax =>                 (* line2pathd(values): dict has no .attrib: AttributeError;
                                 repaired: l.get('x1', '0') works for dicts and Elements *)
        if f_sax_line c then with_defaults else None
    end.

  Definition via_dict (rt : route) : bool :=
    match rt with RDocument => false | _ => true end.

  (* converter followed by parse_path *)
  Definition convert (c : cfg) (rt : route) (k : kind) (a : attrs) : option (list seg) :=
    match k with
    | KPath => Some (a_d a)
    | KCircle | KEllipse => option_map interp (ellipse2pathd a)
    | KLine => option_map interp (line2pathd c rt a)
    | KPolyline => option_map interp (polyline2pathd a false)
    | KPolygon => option_map interp (polyline2pathd a true)
    | KRect => Some (interp (rect2pathd c (via_dict rt) a))
    end.

  (* ---------------------------------------------------------------- *)
  (* (ii) path.py transform(curve, tf)                                  *)
  Definition seg_affine (M : mat) (s : seg) : seg :=
    match s with
    | SgLine a b => SgLine (pt_apply M a) (pt_apply M b)
    | SgQuad a c b => SgQuad (pt_apply M a) (pt_apply M c) (pt_apply M b)
    | SgCubic a c1 c2 b => SgCubic (pt_apply M a) (pt_apply M c1) (pt_apply M c2) (pt_apply M b)
    | SgArc a rx ry rot la sw b => SgArc (pt_apply M a) rx ry rot la sw (pt_apply M b)
        (* only the end points are meaningful for an arc; see [apply_tf] *)
    end.
  Definition is_arc (s : seg) : bool := match s with SgArc _ _ _ _ _ _ _ => true | _ => false end.

  (* identity: the curve is returned as is; otherwise every segment is
     transformed.  Pinned: the Arc branch raises TypeError (np.degrees of an
     object array, numpy 2.x) -> None.  Repaired (f_arc_tf): the Arc branch
     returns the image arc; its end points are the images of the end points,
     its radii / rotation / flags are property C10's business (the model leaves
     them as they were; the comparisons look at the end points only, and the
     harness checks the returned arc point-wise against the reference ellipse) *)
  Definition apply_tf (c : cfg) (M : mat) (l : list seg) : option (list seg) :=
    if mat_eqb M mI then Some l
    else if existsb is_arc l && negb (f_arc_tf c) then None
    else Some (map (seg_affine M) l).

  (* ---------------------------------------------------------------- *)
  (* (ii) document.py flattened_paths: explicit stack                   *)

  (* positions identify elements (the code uses object identity) *)
  Definition position := list nat.

  Section Filtered.
    (* group_filter / path_filter as predicates on positions *)
    Variable gfilter : position -> bool.
    Variable pfilter : position -> bool.

    (* for key in path_conversions: for path_elem in filter(path_filter,
       group.iterfind('svg:'+key)) *)
    Fixpoint shapes_kind (key : kind) (M : mat) (p : position) (i : nat) (kids : list node) : list out :=
      match kids with
      | [] => []
      | Shape k a tf :: r =>
          (if kind_eqb k key && pfilter (p ++ [i])
           then [(k, a, mmul M (parse_tf tf))] else [])
          ++ shapes_kind key M p (S i) r
      | Group _ _ :: r => shapes_kind key M p (S i) r
      end.
    Definition shapes_of (M : mat) (p : position) (kids : list node) : list out :=
      flat_map (fun key => shapes_kind key M p O kids) kinds_document.

    (* get_relevant_children *)
    Fixpoint child_groups (M : mat) (p : position) (i : nat) (kids : list node)
      : list (node * position * mat) :=
      match kids with
      | [] => []
      | Group tf ks :: r =>
          (if gfilter (p ++ [i]) then [(Group tf ks, p ++ [i], mmul M (parse_tf tf))] else [])
          ++ child_groups M p (S i) r
      | Shape _ _ _ :: r => child_groups M p (S i) r
      end.

    Definition kids_of (n : node) : list node :=
      match n with Group _ ks => ks | Shape _ _ _ => [] end.
    Definition tf_of (n : node) : list titem :=
      match n with Group tf _ => tf | Shape _ _ tf => tf end.

    (* the stack is a Python list used from its END: the head of the Coq list
       is the top.  stack.extend(children) leaves the LAST child on top. *)
    Fixpoint stack_loop (fuel : nat) (stack : list (node * position * mat)) (acc : list out)
      : list out :=
      match fuel with
      | O => acc
      | S f =>
          match stack with
          | [] => acc
          | (top, p, M) :: rest =>
              stack_loop f (rev (child_groups M p O (kids_of top)) ++ rest)
                         (acc ++ shapes_of M p (kids_of top))
          end
      end.

    Fixpoint nsize (n : node) : nat :=
      match n with
      | Shape _ _ _ => 1
      | Group _ kids => S (fold_right (fun c s => nsize c + s)%nat O kids)
      end.

    Definition flatten_stack_f (root : node) : list out :=
      if gfilter [] then
        stack_loop (nsize root) [(root, [], mmul mI (parse_tf (tf_of root)))] []
      else [].
  End Filtered.

  Definition flatten_stack (root : node) : list out :=
    flatten_stack_f (fun _ => true) (fun _ => true) root.

  (* flattened_paths_from_group(group, root, recursive=True): [target] is the
     position of the group.  desired groups = the groups on the route from
     the root, the target and everything below it; ignored paths = the
     shapes that are direct children of the groups on the route. *)
  Fixpoint is_prefix (p q : position) : bool :=
    match p, q with
    | [], _ => true
    | i :: p', j :: q' => Nat.eqb i j && is_prefix p' q'
    | _ :: _, [] => false
    end.
  Definition strict_prefix (p q : position) : bool :=
    is_prefix p q && negb (is_prefix q p).
  Fixpoint parent_of (p : position) : position :=
    match p with
    | [] => []
    | [_] => []
    | i :: r => i :: parent_of r
    end.
  Definition from_group (root : node) (target : position) : list out :=
    flatten_stack_f (fun p => is_prefix p target || is_prefix target p)
                    (fun p => negb (strict_prefix (parent_of p) target)) root.

  (* Document.paths(): convert, parse, transform; an exception anywhere
     aborts the call *)
  Fixpoint mapM {A B} (f : A -> option B) (l : list A) : option (list B) :=
    match l with
    | [] => Some []
    | x :: r => match f x, mapM f r with
                | Some y, Some ys => Some (y :: ys)
                | _, _ => None
                end
    end.

  Definition result : Type := (nat * list seg * mat)%type.   (* id, segments, path.transform *)

  Definition doc_entry (c : cfg) (o : out) : option result :=
    let '(k, a, M) := o in
    match convert c RDocument k a with
    | None => None
    | Some segs => match apply_tf c M segs with
                   | None => None
                   | Some s' => Some (a_id a, s', M)
                   end
    end.
  Definition doc_paths (c : cfg) (root : node) : option (list result) :=
    mapM (doc_entry c) (flatten_stack root).
  (* Document.paths_from_group(group) with an Element: the first test is
     `all(isinstance(s, str) for s in group)`, which iterates over the CHILDREN
     of the element; for a group without children it is vacuously true, the
     element is taken for an empty list of names, get_group([]) returns the
     root, and the whole document is flattened. *)
  Fixpoint node_at (n : node) (t : position) : option node :=
    match t with
    | [] => Some n
    | i :: r => match n with
                | Group _ kids => match nth_error kids i with
                                  | Some c => node_at c r
                                  | None => None
                                  end
                | Shape _ _ _ => None
                end
    end.
  Definition paths_from_group (c : cfg) (root : node) (target : position) : list out :=
    if f_group_empty c then from_group root target
    else match node_at root target with
         | Some (Group _ []) => from_group root []
         | _ => from_group root target
         end.
  Definition doc_paths_from_group (c : cfg) (root : node) (target : position)
    : option (list result) :=
    mapM (doc_entry c) (paths_from_group c root target).

  (* recursive=False: desired groups = the route and the group itself *)
  Definition from_group_nr (root : node) (target : position) : list out :=
    flatten_stack_f (fun p => is_prefix p target)
                    (fun p => negb (strict_prefix (parent_of p) target)) root.
  Definition paths_from_group_nr (c : cfg) (root : node) (target : position) : list out :=
    if f_group_empty c then from_group_nr root target
    else match node_at root target with
         | Some (Group _ []) => from_group_nr root []
         | _ => from_group_nr root target
         end.
  Definition doc_paths_from_group_nr (c : cfg) (root : node) (target : position)
    : option (list result) :=
    mapM (doc_entry c) (paths_from_group_nr c root target).

  (* reference for paths_from_group: walk down to the group, multiplying the
     transforms of its strict ancestors, then flatten it *)
  Fixpoint subtree_at (n : node) (t : position) (M0 : mat) : option (node * mat) :=
    match t with
    | [] => Some (n, M0)
    | i :: r =>
        match n with
        | Group tf kids =>
            match nth_error kids i with
            | Some c => subtree_at c r (mmul M0 (tlist_spec tf))
            | None => None
            end
        | Shape _ _ _ => None
        end
    end.
  Definition ref_from_group (root : node) (target : position) : option (list out) :=
    match subtree_at root target mI with
    | Some (g, M) => Some (flatten_ref g M)
    | None => None
    end.

  (* recursive=False: only the shapes that are children of the group itself *)
  Definition direct_ref (n : node) (M : mat) : list out :=
    match n with
    | Group tf kids =>
        flat_map (fun ch => match ch with
                            | Shape k a t => [(k, a, mmul (mmul M (tlist_spec tf)) (tlist_spec t))]
                            | Group _ _ => []
                            end) kids
    | Shape _ _ _ => flatten_ref n M
    end.
  Definition ref_from_group_nr (root : node) (target : position) : option (list out) :=
    match subtree_at root target mI with
    | Some (g, M) => Some (direct_ref g M)
    | None => None
    end.

  (* SaxDocument.generate_dom: the six numbers written into transform="matrix( ... )":
     matrix[0][0], [1][0], [0][1], [1][1], [0][2], [1][2] *)
  Definition sax_dom_matrix (M : mat) : list K := [m11 M; m21 M; m12 M; m22 M; m13 M; m23 M].

  (* the reference for a whole document: the shape's path, mapped by the CTM *)
  Definition ref_entry (o : out) : nat * option (list seg) * mat :=
    let '(k, a, M) := o in (a_id a, shape_spec k a, M).
  Definition ref_paths (root : node) : list (nat * option (list seg) * mat) :=
    map ref_entry (flatten_ref root mI).

  (* ---------------------------------------------------------------- *)
  (* (ii) svg2paths: doc.getElementsByTagName(kind), kind by kind, in   *)
  (* document order; transforms are not looked at                       *)
  Fixpoint preorder (n : node) : list (kind * attrs) :=
    match n with
    | Shape k a _ => [(k, a)]
    | Group _ kids => flat_map preorder kids
    end.
  Definition harvest (root : node) : list (kind * attrs) :=
    flat_map (fun key => filter (fun ka => kind_eqb (fst ka) key) (preorder root)) kinds_svg2paths.
  Definition svg2paths_model (c : cfg) (root : node) : option (list (nat * list seg)) :=
    mapM (fun ka => option_map (fun s => (a_id (snd ka), s)) (convert c RSvg2paths (fst ka) (snd ka)))
         (harvest root).

  (* ---------------------------------------------------------------- *)
  (* (ii) SaxDocument.sax_parse: iterparse events, stack of matrices    *)
  Inductive event :=
  | EStartG (tf : list titem)                     (* start of svg / g *)
  | EStartS (k : kind) (a : attrs) (tf : list titem)
  | EEnd.

  Fixpoint sax_events (n : node) : list event :=
    match n with
    | Shape k a tf => [EStartS k a tf; EEnd]
    | Group tf kids => EStartG tf :: flat_map sax_events kids ++ [EEnd]
    end.

  (* "if 'transform' in attrs": an absent attribute leaves matrix as it is
     (None stays None); a present one gives  transform_matrix.dot(matrix) *)
  Definition odefm (m : option mat) : mat := match m with Some M => M | None => mI end.
  Definition sax_matrix (c : cfg) (m : option mat) (tf : list titem) : option mat :=
    match tf with
    | [] => m
    | _ => if f_sax_order c
           then Some (mmul (odefm m) (parse_tf tf))      (* repaired: matrix.dot(transform_matrix) *)
           else Some (mmul (parse_tf tf) (odefm m))      (* pinned: transform_matrix.dot(matrix) *)
    end.

  Definition saxout : Type := (kind * attrs * option mat)%type.

  Fixpoint sax_loop (c : cfg) (evs : list event) (stack : list (option mat)) (matrix : option mat)
           (tree : list saxout) : list saxout :=
    match evs with
    | [] => tree
    | EStartG tf :: r => sax_loop c r (matrix :: stack) (sax_matrix c matrix tf) tree
    | EStartS k a tf :: r =>
        let m := sax_matrix c matrix tf in
        sax_loop c r (matrix :: stack) m (tree ++ [(k, a, m)])
    | EEnd :: r =>
        match stack with
        | v :: st => sax_loop c r st v tree
        | [] => tree                         (* stack.pop() on an empty list: not reachable *)
        end
    end.
  Definition sax_tree (c : cfg) (root : node) : list saxout :=
    sax_loop c (sax_events root) [] None [].

  (* the same as a structural recursion (Proofs/SvgTree.v: sax_loop_rec) *)
  Fixpoint sax_rec (c : cfg) (n : node) (m : option mat) : list saxout :=
    match n with
    | Shape k a tf => [(k, a, sax_matrix c m tf)]
    | Group tf kids => let m' := sax_matrix c m tf in flat_map (fun ch => sax_rec c ch m') kids
    end.

  (* sax_parse converts every element while parsing: a converter that raises
     aborts the constructor *)
  Definition sax_parse (c : cfg) (root : node) : option (list (nat * list seg * option mat)) :=
    mapM (fun o : saxout => let '(k, a, m) := o in
             option_map (fun s => (a_id a, s, m)) (convert c RSax k a))
         (sax_tree c root).

  (* flatten_all_paths: transform(parsed_path, matrix) is evaluated and its
     RESULT IS DISCARDED; the untransformed path is returned.  The call still
     raises when transform raises. *)
  Definition sax_flat_entry (c : cfg) (e : nat * list seg * option mat) : option (nat * list seg) :=
    let '(i, s, m) := e in
    match m with
    | None => Some (i, s)
    | Some M => match apply_tf c M s with
                | Some s' => Some (i, if f_sax_keep c then s' else s)   (* pinned: result discarded *)
                | None => None
                end
    end.
  Definition sax_flatten (c : cfg) (root : node) : option (list (nat * list seg)) :=
    match sax_parse c root with
    | None => None
    | Some l => mapM (sax_flat_entry c) l
    end.

End SvgTree.

Arguments mI {K} N.
Arguments Group {K} tf kids.
Arguments Shape {K} k a tf.
