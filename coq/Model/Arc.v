(* Model/Arc.v — hand-written model of svgpathtools.path.Arc (path.py):
   __init__ / _parameterize (lines 1475-1620), point, derivative, centeriso,
   icenteriso, u1transform, as_cubic_curves, as_quad_curves.
   It mirrors what the code DOES, statement by statement (Python source lines
   are quoted in the comments), over an arbitrary carrier (N : Num K) with the
   transcendental operations (T : NumT K).  autoscale_radius is the default
   (True); with False the code raises instead of scaling. *)
From Coq Require Import ZArith List Bool.
From SVP Require Import Base.Num Base.Cplx.
Import ListNotations.
Set Implicit Arguments.

(* the object after __init__: the six constructor arguments (radius already
   replaced by the stored, possibly scaled one) and the derived attributes *)
Record ArcP (K : Type) := mkArcP {
  a_start : Cplx K; a_radius : Cplx K; a_rotation : K; a_large : bool; a_sweep : bool;
  a_end : Cplx K; a_center : Cplx K; a_theta : K; a_delta : K; a_phi : K; a_rot : Cplx K }.

Section Arc.
  Context {K : Type} (N : Num K) (T : NumT K).
  Declare Scope arcK_scope.
  Local Notation "x + y" := (add N x y) : arcK_scope.
  Local Notation "x - y" := (sub N x y) : arcK_scope.
  Local Notation "x * y" := (mul N x y) : arcK_scope.
  Local Notation "x / y" := (div N x y) : arcK_scope.
  Local Notation "- x" := (opp N x) : arcK_scope.
  Local Notation k0 := (zero N).
  Local Notation k1 := (one N).
  Local Notation "x <? y" := (ltb N x y) : arcK_scope.
  Local Notation "x <=? y" := (leb N x y) : arcK_scope.
  Local Open Scope arcK_scope.

  (* ---- numpy helpers ---- *)
  (* binary64 value of the literal 1e-8 = 3022314549036573 * 2^-78 *)
  Definition atol8 : K := dyadic N 3022314549036573%Z (Zneg 78).
  (* np.isclose(x, 0):  |x - 0| <= atol + rtol*|0|  with atol = 1e-8 *)
  Definition isclose0 (x : K) : bool := nabs N x <=? atol8.
  (* np.clip(x, -1, 1) = minimum(maximum(x, -1), 1) *)
  Definition clip1 (x : K) : K := nmin N (nmax N x (- k1)) k1.
  Definition two : K := lit N 2%Z.
  Definition d180 : K := lit N 180%Z.
  Definition d360 : K := lit N 360%Z.

  (* ---- __init__ ---- *)
  (* self.radius = abs(radius.real) + 1j*abs(radius.imag) *)
  Definition abs_radius (r : Cplx K) : Cplx K := (nabs N (re r), nabs N (im r)).
  (* self.phi = radians(self.rotation) ; self.rot_matrix = exp(1j*self.phi) *)
  Definition arc_phi (rotation : K) : K := radians_ T rotation.
  Definition arc_rotm (phi : K) : Cplx K := (cos_ T phi, sin_ T phi).

  (* ---- _parameterize ---- *)
  (* zp1 = (1/self.rot_matrix)*(self.start - self.end)/2 *)
  Definition arc_zp1 (rotm start end_ : Cplx K) : Cplx K :=
    cdivr N (cmul N (cdiv N (c1 N) rotm) (csub N start end_)) two.
  (* radius_check = (x1p_sqd/rx_sqd) + (y1p_sqd/ry_sqd) *)
  Definition arc_rc (r zp1 : Cplx K) : K :=
    let rx := re r in let ry := im r in
    let x1p := re zp1 in let y1p := im zp1 in
    ((x1p * x1p) / (rx * rx)) + ((y1p * y1p) / (ry * ry)).
  (* if radius_check > 1: rx *= sqrt(radius_check); ry *= sqrt(radius_check);
     self.radius = rx + 1j*ry *)
  Definition arc_scaled_radius (r : Cplx K) (rc : K) : Cplx K :=
    if k1 <? rc then (re r * sqrt_ T rc, im r * sqrt_ T rc) else r.
  (* tmp = rx_sqd*y1p_sqd + ry_sqd*x1p_sqd
     radicand = (rx_sqd*ry_sqd - tmp) / tmp *)
  Definition arc_radicand (r zp1 : Cplx K) : K :=
    let rx := re r in let ry := im r in
    let x1p := re zp1 in let y1p := im zp1 in
    let rx_sqd := rx * rx in let ry_sqd := ry * ry in
    let tmp := (rx_sqd * (y1p * y1p)) + (ry_sqd * (x1p * x1p)) in
    ((rx_sqd * ry_sqd) - tmp) / tmp.
  (* radical = 0 if np.isclose(radicand, 0) else sqrt(radicand)          (fx = false: pinned code)
     radical = 0 if (scaled or radicand <= 0) else sqrt(radicand)        (fx = true: repaired code,
        where scaled records that the `if radius_check > 1` branch enlarged the radii) *)
  Definition arc_radical (fx scaled : bool) (radicand : K) : K :=
    if fx then (if scaled || (radicand <=? k0) then k0 else sqrt_ T radicand)
    else (if isclose0 radicand then k0 else sqrt_ T radicand).
  (* if self.large_arc == self.sweep: cp = -radical*(rx*y1p/ry - 1j*ry*x1p/rx)
     else:                            cp =  radical*(rx*y1p/ry - 1j*ry*x1p/rx) *)
  Definition arc_cp (large sweep : bool) (radical : K) (r zp1 : Cplx K) : Cplx K :=
    let rx := re r in let ry := im r in
    let x1p := re zp1 in let y1p := im zp1 in
    let w : Cplx K := ((rx * y1p) / ry, - ((ry * x1p) / rx)) in
    if Bool.eqb large sweep then cscale N (- radical) w else cscale N radical w.
  (* self.center = exp(1j*self.phi)*cp + (self.start + self.end)/2 *)
  Definition arc_center (rotm cp start end_ : Cplx K) : Cplx K :=
    cadd N (cmul N rotm cp) (cdivr N (cadd N start end_) two).
  (* u1 = (x1p - cp.real)/rx + 1j*(y1p - cp.imag)/ry
     u2 = (-x1p - cp.real)/rx + 1j*(-y1p - cp.imag)/ry
     u1 = np.clip(u1.real, -1, 1) + 1j*np.clip(u1.imag, -1, 1)   (same for u2) *)
  Definition arc_u1_raw (r zp1 cp : Cplx K) : Cplx K :=
    ((re zp1 - re cp) / re r, (im zp1 - im cp) / im r).
  Definition arc_u2_raw (r zp1 cp : Cplx K) : Cplx K :=
    (((- re zp1) - re cp) / re r, ((- im zp1) - im cp) / im r).
  Definition cclip (u : Cplx K) : Cplx K := (clip1 (re u), clip1 (im u)).
  (* if u1.imag > 0: theta = degrees(acos(u1.real))
     elif u1.imag < 0: theta = -degrees(acos(u1.real))
     else: theta = 0 if u1.real > 0 else 180 *)
  Definition arc_theta (u1 : Cplx K) : K :=
    if k0 <? im u1 then degrees_ T (acos_ T (re u1))
    else if im u1 <? k0 then - degrees_ T (acos_ T (re u1))
    else if k0 <? re u1 then k0 else d180.
  (* det_uv = u1.real*u2.imag - u1.imag*u2.real
     acosand = u1.real*u2.real + u1.imag*u2.imag
     acosand = np.clip(acosand.real, -1, 1) + np.clip(acosand.imag, -1, 1)
        (acosand is real: its .imag is 0, so this is clip(acosand) + clip(0))
     if det_uv > 0: delta = degrees(acos(acosand))
     elif det_uv < 0: delta = -degrees(acos(acosand))
     else: delta = 0 if u1.real*u2.real + u1.imag*u2.imag > 0 else 180 *)
  Definition arc_det (u1 u2 : Cplx K) : K := (re u1 * im u2) - (im u1 * re u2).
  Definition arc_dot (u1 u2 : Cplx K) : K := (re u1 * re u2) + (im u1 * im u2).
  Definition arc_delta0 (u1 u2 : Cplx K) : K :=
    let det_uv := arc_det u1 u2 in
    let acosand := clip1 (arc_dot u1 u2) + clip1 k0 in
    if k0 <? det_uv then degrees_ T (acos_ T acosand)
    else if det_uv <? k0 then - degrees_ T (acos_ T acosand)
    else if k0 <? arc_dot u1 u2 then k0 else d180.
  (* if not self.sweep and self.delta >= 0: self.delta -= 360
     elif self.large_arc and self.delta <= 0: self.delta += 360 *)
  Definition arc_adjust (large sweep : bool) (delta0 : K) : K :=
    if negb sweep && (k0 <=? delta0) then delta0 - d360
    else if large && (delta0 <=? k0) then delta0 + d360
    else delta0.

  (* the intermediate values, exposed for the theorems and the checks *)
  Definition arc_rotm_of (rotation : K) : Cplx K := arc_rotm (arc_phi rotation).
  Definition arc_zp1_of (start : Cplx K) (rotation : K) (end_ : Cplx K) : Cplx K :=
    arc_zp1 (arc_rotm_of rotation) start end_.
  Definition arc_rc_of (start radius : Cplx K) (rotation : K) (end_ : Cplx K) : K :=
    arc_rc (abs_radius radius) (arc_zp1_of start rotation end_).
  Definition arc_radius_of (start radius : Cplx K) (rotation : K) (end_ : Cplx K) : Cplx K :=
    arc_scaled_radius (abs_radius radius) (arc_rc_of start radius rotation end_).
  Definition arc_radicand_of (start radius : Cplx K) (rotation : K) (end_ : Cplx K) : K :=
    arc_radicand (arc_radius_of start radius rotation end_) (arc_zp1_of start rotation end_).
  Definition arc_radical_of (fx : bool) (start radius : Cplx K) (rotation : K) (end_ : Cplx K) : K :=
    arc_radical fx (k1 <? arc_rc_of start radius rotation end_) (arc_radicand_of start radius rotation end_).
  Definition arc_cp_of (fx : bool) (start radius : Cplx K) (rotation : K) (large sweep : bool) (end_ : Cplx K) :=
    arc_cp large sweep (arc_radical_of fx start radius rotation end_)
           (arc_radius_of start radius rotation end_) (arc_zp1_of start rotation end_).
  Definition arc_u1_of (fx : bool) (start radius : Cplx K) (rotation : K) (large sweep : bool) (end_ : Cplx K) :=
    cclip (arc_u1_raw (arc_radius_of start radius rotation end_) (arc_zp1_of start rotation end_)
                      (arc_cp_of fx start radius rotation large sweep end_)).
  Definition arc_u2_of (fx : bool) (start radius : Cplx K) (rotation : K) (large sweep : bool) (end_ : Cplx K) :=
    cclip (arc_u2_raw (arc_radius_of start radius rotation end_) (arc_zp1_of start rotation end_)
                      (arc_cp_of fx start radius rotation large sweep end_)).

  (* Arc(start, radius, rotation, large_arc, sweep, end); fx selects the variant of the
     radical rule (false = pinned code with the np.isclose snap) *)
  Definition arc_init_v (fx : bool) (start radius : Cplx K) (rotation : K) (large sweep : bool)
             (end_ : Cplx K) : ArcP K :=
    let phi := arc_phi rotation in
    let rotm := arc_rotm phi in
    let u1 := arc_u1_of fx start radius rotation large sweep end_ in
    let u2 := arc_u2_of fx start radius rotation large sweep end_ in
    mkArcP start (arc_radius_of start radius rotation end_) rotation large sweep end_
           (arc_center rotm (arc_cp_of fx start radius rotation large sweep end_) start end_)
           (arc_theta u1) (arc_adjust large sweep (arc_delta0 u1 u2)) phi rotm.

  (* the pinned code (np.isclose snap); kept under the original name and signature for the
     models of other properties that construct arcs *)
  Definition arc_init (start radius : Cplx K) (rotation : K) (large sweep : bool)
             (end_ : Cplx K) : ArcP K := arc_init_v false start radius rotation large sweep end_.

  (* the preconditions asserted by __init__ *)
  Definition arc_admissible (start radius : Cplx K) (end_ : Cplx K) : bool :=
    negb (ceqb N start end_) && negb (eqb N (re radius) k0) && negb (eqb N (im radius) k0).

  (* ---- point(t) ----
     angle = (self.theta + t*self.delta)*pi/180
     x = rx*cosphi*cos(angle) - ry*sinphi*sin(angle) + self.center.real
     y = rx*sinphi*cos(angle) + ry*cosphi*sin(angle) + self.center.imag *)
  Definition arc_point (P : ArcP K) (t : K) : Cplx K :=
    let angle := ((a_theta P + (t * a_delta P)) * pi_ T) / d180 in
    let cosphi := re (a_rot P) in let sinphi := im (a_rot P) in
    let rx := re (a_radius P) in let ry := im (a_radius P) in
    ((((rx * cosphi) * cos_ T angle) - ((ry * sinphi) * sin_ T angle)) + re (a_center P),
     (((rx * sinphi) * cos_ T angle) + ((ry * cosphi) * sin_ T angle)) + im (a_center P)).

  (* x ** n for a Python int n (numpy float64 power) *)
  Definition zpow (x : K) (n : Z) : K :=
    match n with
    | Z0 => k1
    | Zpos p => npow N x (Pos.to_nat p)
    | Zneg p => inv N (npow N x (Pos.to_nat p))
    end.

  (* ---- derivative(t, n) ----
     angle = radians(self.theta + t*self.delta); phi = radians(self.rotation)
     k = (self.delta*pi/180)**n
     if n % 4 == 0 and n > 0:  return rx*cos(phi)*cos(angle) - ry*sin(phi)*sin(angle) + 1j*(...)
        (dfx = false, pinned code: NO factor k in this branch)
                               return k*(rx*cos(phi)*cos(angle) - ... + 1j*(...))
        (dfx = true, repaired code)
     elif n % 4 == 1: return k*(-rx*cos(phi)*sin(angle) - ry*sin(phi)*cos(angle) + 1j*(...))
     elif n % 4 == 2: ...  elif n % 4 == 3: ...  else: raise ValueError
     Python's % with a positive modulus is Z.modulo; None = raises. *)
  Definition arc_deriv (dfx : bool) (P : ArcP K) (t : K) (n : Z) : option (Cplx K) :=
    let angle := radians_ T (a_theta P + (t * a_delta P)) in
    let phi := radians_ T (a_rotation P) in
    let rx := re (a_radius P) in let ry := im (a_radius P) in
    let k := zpow (((a_delta P) * pi_ T) / d180) n in
    let cp := cos_ T phi in let sp := sin_ T phi in
    let ca := cos_ T angle in let sa := sin_ T angle in
    if Z.eqb (Z.modulo n 4%Z) 0%Z && Z.gtb n 0%Z then
      (if dfx then Some (k * (((rx * cp) * ca) - ((ry * sp) * sa)), k * (((rx * sp) * ca) + ((ry * cp) * sa)))
       else Some (((rx * cp) * ca) - ((ry * sp) * sa), ((rx * sp) * ca) + ((ry * cp) * sa)))
    else if Z.eqb (Z.modulo n 4%Z) 1%Z then
      Some (k * ((((- rx) * cp) * sa) - ((ry * sp) * ca)),
            k * ((((- rx) * sp) * sa) + ((ry * cp) * ca)))
    else if Z.eqb (Z.modulo n 4%Z) 2%Z then
      Some (k * ((((- rx) * cp) * ca) + ((ry * sp) * sa)),
            k * ((((- rx) * sp) * ca) - ((ry * cp) * sa)))
    else if Z.eqb (Z.modulo n 4%Z) 3%Z then
      Some (k * (((rx * cp) * sa) + ((ry * sp) * ca)),
            k * (((rx * sp) * sa) - ((ry * cp) * ca)))
    else None.

  (* ---- centeriso / icenteriso / u1transform ----
     centeriso(z) = (1/self.rot_matrix)*(z - self.center)
     icenteriso(zeta) = self.rot_matrix*zeta + self.center
     u1transform(z): zeta = centeriso(z); x/self.radius.real + 1j*y/self.radius.imag *)
  Definition arc_centeriso (P : ArcP K) (z : Cplx K) : Cplx K :=
    cmul N (cdiv N (c1 N) (a_rot P)) (csub N z (a_center P)).
  Definition arc_icenteriso (P : ArcP K) (zeta : Cplx K) : Cplx K :=
    cadd N (cmul N (a_rot P) zeta) (a_center P).
  Definition arc_u1transform (P : ArcP K) (z : Cplx K) : Cplx K :=
    let zeta := arc_centeriso P z in
    (re zeta / re (a_radius P), im zeta / im (a_radius P)).

  (* ---- as_cubic_curves(curves) ----  a generator; one list element per
     `yield CubicBezier(p_start, p_c1, p_c2, p_end)`.  [i] is the loop index,
     [todo] the number of iterations left (i + todo = curves). *)
  Definition cubic4 : Type := (Cplx K * Cplx K * Cplx K * Cplx K)%type.
  Definition quad3 : Type := (Cplx K * Cplx K * Cplx K)%type.

  Section Approx.
    Variable P : ArcP K.
    Variable curves : nat.
    (* slice_t = radians(self.delta) / float(curves) *)
    Definition slice_t : K := radians_ T (a_delta P) / lit N (Z.of_nat curves).
    Definition rot_theta : K := radians_ T (a_rotation P).

    Fixpoint cubic_loop (todo i : nat) (p_start : Cplx K) (current_t : K) : list cubic4 :=
      match todo with
      | O => []
      | S todo' =>
        let rx := re (a_radius P) in let ry := im (a_radius P) in
        let x0 := re (a_center P) in let y0 := im (a_center P) in
        let cos_theta := cos_ T rot_theta in let sin_theta := sin_ T rot_theta in
        let next_t := current_t + slice_t in
        (* alpha = sin(slice_t) * (sqrt(4 + 3 * pow(tan((slice_t) / 2.0), 2)) - 1) / 3.0 *)
        let tn := tan_ T (slice_t / two) in
        let alpha := (sin_ T slice_t * (sqrt_ T (lit N 4%Z + (lit N 3%Z * (tn * tn))) - k1)) / lit N 3%Z in
        let cos_start_t := cos_ T current_t in let sin_start_t := sin_ T current_t in
        let ePrimen1x := (((- rx) * cos_theta) * sin_start_t) - ((ry * sin_theta) * cos_start_t) in
        let ePrimen1y := (((- rx) * sin_theta) * sin_start_t) + ((ry * cos_theta) * cos_start_t) in
        let cos_end_t := cos_ T next_t in let sin_end_t := sin_ T next_t in
        let p2En2x := (x0 + ((rx * cos_end_t) * cos_theta)) - ((ry * sin_end_t) * sin_theta) in
        let p2En2y := (y0 + ((rx * cos_end_t) * sin_theta)) + ((ry * sin_end_t) * cos_theta) in
        (* p_end = p2En2x + p2En2y*1j ; if i == curves - 1: p_end = self.end *)
        let p_end : Cplx K := if Nat.eqb i (Nat.sub curves 1%nat) then a_end P else (p2En2x, p2En2y) in
        let ePrimen2x := (((- rx) * cos_theta) * sin_end_t) - ((ry * sin_theta) * cos_end_t) in
        let ePrimen2y := (((- rx) * sin_theta) * sin_end_t) + ((ry * cos_theta) * cos_end_t) in
        let p_c1 : Cplx K := (re p_start + (alpha * ePrimen1x), im p_start + (alpha * ePrimen1y)) in
        let p_c2 : Cplx K := (re p_end - (alpha * ePrimen2x), im p_end - (alpha * ePrimen2y)) in
        (p_start, p_c1, p_c2, p_end) :: cubic_loop todo' (S i) p_end next_t
      end.
    Definition arc_as_cubic_curves : list cubic4 :=
      cubic_loop curves O (a_start P) (radians_ T (a_theta P)).

    Fixpoint quad_loop (todo i : nat) (p_start : Cplx K) (current_t : K) : list quad3 :=
      match todo with
      | O => []
      | S todo' =>
        let a := re (a_radius P) in let b := im (a_radius P) in
        let cx := re (a_center P) in let cy := im (a_center P) in
        let cos_theta := cos_ T rot_theta in let sin_theta := sin_ T rot_theta in
        let next_t := current_t + slice_t in
        let mid_t := (next_t + current_t) / two in
        let cos_end_t := cos_ T next_t in let sin_end_t := sin_ T next_t in
        let p2En2x := (cx + ((a * cos_end_t) * cos_theta)) - ((b * sin_end_t) * sin_theta) in
        let p2En2y := (cy + ((a * cos_end_t) * sin_theta)) + ((b * sin_end_t) * cos_theta) in
        let p_end : Cplx K := if Nat.eqb i (Nat.sub curves 1%nat) then a_end P else (p2En2x, p2En2y) in
        let cos_mid_t := cos_ T mid_t in let sin_mid_t := sin_ T mid_t in
        (* alpha = (4.0 - cos(slice_t)) / 3.0 *)
        let alpha := (lit N 4%Z - cos_ T slice_t) / lit N 3%Z in
        let px := cx + (alpha * (((a * cos_mid_t) * cos_theta) - ((b * sin_mid_t) * sin_theta))) in
        let py := cy + (alpha * (((a * cos_mid_t) * sin_theta) + ((b * sin_mid_t) * cos_theta))) in
        (p_start, (px, py), p_end) :: quad_loop todo' (S i) p_end next_t
      end.
    Definition arc_as_quad_curves : list quad3 :=
      quad_loop curves O (a_start P) (radians_ T (a_theta P)).
  End Approx.
End Arc.

Definition cubic_start {K} (c : cubic4 (K:=K)) : Cplx K := let '(s, _, _, _) := c in s.
Definition cubic_end {K} (c : cubic4 (K:=K)) : Cplx K := let '(_, _, _, e) := c in e.
Definition quad_start {K} (c : quad3 (K:=K)) : Cplx K := let '(s, _, _) := c in s.
Definition quad_end {K} (c : quad3 (K:=K)) : Cplx K := let '(_, _, e) := c in e.
