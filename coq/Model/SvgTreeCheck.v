(* Model/SvgTreeCheck.v — executable comparisons used by the generated case
   files of C17 (tools/harness/c17.py) and by the witnesses in Props/C17.v.
   Everything here is computed inside Coq on exact rationals (NumQ): the
   model's value on a generated tree, the reference's value, and their
   comparison with the implementation's observations up to a rounding bound
   [tol] (the trigonometry of the angles is evaluated in binary64 by the
   implementation and supplied to the model as exact rational data). *)
From Coq Require Import ZArith QArith Qcanon List Bool.
From SVP Require Import Base.Num Base.CaseLib Model.SvgTree.
Import ListNotations.

Definition N := NumQ.
Notation qpt := (@pt Qc).
Notation qseg := (@seg Qc).
Notation qmat := (@mat Qc).
Notation qnode := (@node Qc).

Definition ptclose (tol : Qc) (p q : qpt) : bool :=
  qclose tol (fst p) (fst q) && qclose tol (snd p) (snd q).

(* [full]: compare radii / rotation / flags of arcs too (otherwise only the
   end points: the image of an arc under a general matrix is C10's business) *)
Definition seg_close (tol : Qc) (full : bool) (s t : qseg) : bool :=
  match s, t with
  | SgLine a b, SgLine a' b' => ptclose tol a a' && ptclose tol b b'
  | SgQuad a c b, SgQuad a' c' b' => ptclose tol a a' && ptclose tol c c' && ptclose tol b b'
  | SgCubic a c d b, SgCubic a' c' d' b' =>
      ptclose tol a a' && ptclose tol c c' && ptclose tol d d' && ptclose tol b b'
  | SgArc a rx ry rot la sw b, SgArc a' rx' ry' rot' la' sw' b' =>
      ptclose tol a a' && ptclose tol b b' &&
      (if full then qclose tol rx rx' && qclose tol ry ry' && qclose tol rot rot'
                    && Bool.eqb la la' && Bool.eqb sw sw'
       else true)
  | _, _ => false
  end.

(* zero-length lines carry no geometry *)
Definition degenerate (s : qseg) : bool :=
  match s with SgLine a b => pt_eqb N a b | _ => false end.
Definition strip (l : list qseg) : list qseg := filter (fun s => negb (degenerate s)) l.
Definition segs_close (tol : Qc) (full : bool) (a b : list qseg) : bool :=
  lclose (seg_close tol full) (strip a) (strip b).

Definition mat_close (tol : Qc) (A B : qmat) : bool :=
  qclose tol (m11 A) (m11 B) && qclose tol (m12 A) (m12 B) && qclose tol (m13 A) (m13 B) &&
  qclose tol (m21 A) (m21 B) && qclose tol (m22 A) (m22 B) && qclose tol (m23 A) (m23 B) &&
  qclose tol (m31 A) (m31 B) && qclose tol (m32 A) (m32 B) && qclose tol (m33 A) (m33 B).

Definition is_identity (M : qmat) : bool := mat_eqb N M (mI N).

(* observations *)
Definition obs_entry : Type := (nat * list qseg * qmat)%type.       (* id, segments, path.transform *)
Definition obs_plain : Type := (nat * list qseg)%type.

Fixpoint find_obs {A} (i : nat) (l : list (nat * A)) : option A :=
  match l with
  | [] => None
  | (j, x) :: r => if Nat.eqb i j then Some x else find_obs i r
  end.

(* ---------------- Document.paths() / paths_from_group ---------------- *)
(* arcs under a non-identity matrix: end points only (their radii / rotation are C10's) *)
Definition entry_close (tol : Qc) (m o : obs_entry) : bool :=
  let '(i, s, M) := m in let '(j, t, M') := o in
  Nat.eqb i j && segs_close tol (is_identity M) s t && mat_close tol M M'.

(* tie: the model of the implementation predicts the observation, in order *)
Definition tie_entries (tol : Qc) (model obs : option (list obs_entry)) : bool :=
  match model, obs with
  | None, None => true
  | Some l, Some l' => lclose (entry_close tol) l l'
  | _, _ => false
  end.

(* property: every element of the reference is returned with the reference's
   geometry and matrix; nothing else is returned.  Result: bit i set = the
   i-th element of the reference list fails. *)
Definition ref_elem_ok (tol : Qc) (obs : list obs_entry) (r : nat * option (list qseg) * qmat) : bool :=
  let '(i, spec, M) := r in
  match spec with
  | None => true
  | Some sp =>
      match find_obs i (map (fun o : obs_entry => (fst (fst o), (snd (fst o), snd o))) obs) with
      | Some (t, M') =>
          segs_close tol (is_identity M) (map (seg_affine N M) sp) t && mat_close tol M M'
      | None => false
      end
  end.

Fixpoint mask_from (w : nat) (l : list bool) : nat :=
  match l with
  | [] => O
  | b :: r => ((if b then O else w) + mask_from (w + w) r)%nat
  end.
Definition mask (l : list bool) : nat := mask_from 1 l.

Definition count_rendered (l : list (nat * option (list qseg) * qmat)) : nat :=
  length (filter (fun r => match snd (fst r) with Some _ => true | None => false end) l).

(* code = tie failure (1) + 2 * (count mismatch) + 4 * mask of failing reference elements *)
Definition code (tie : bool) (count_ok : bool) (m : nat) : nat :=
  ((if tie then 0 else 1) + (if count_ok then 0 else 2) + 4 * m)%nat.

(* [tree]: the document as the SVG grammar reads it (reference); [itree]: the
   same document with the `points` attributes as the implementation's own
   tokeniser (the COORD_PAIR_TMPLT regular expression, an oracle of the model)
   returns them — the tree the implementation model is run on *)
Definition check_document (c : cfg) (tol : Qc) (tree itree : qnode) (obs : option (list obs_entry)) : nat :=
  let tie := tie_entries tol (doc_paths N c itree) obs in
  let refl := ref_paths N tree in
  match obs with
  | None => code tie false (mask (map (fun _ => false) refl))
  | Some o =>
      code tie (Nat.eqb (length o) (count_rendered refl)) (mask (map (ref_elem_ok tol o) refl))
  end.

Definition check_from_group (c : cfg) (recursive : bool) (tol : Qc) (tree itree : qnode) (target : position)
           (obs : option (list obs_entry)) : nat :=
  let tie := tie_entries tol (if recursive then doc_paths_from_group N c itree target
                              else doc_paths_from_group_nr N c itree target) obs in
  match (if recursive then ref_from_group N tree target else ref_from_group_nr N tree target) with
  | None => code tie true 0
  | Some outs =>
      let refl := map (ref_entry N) outs in
      match obs with
      | None => code tie false (mask (map (fun _ => false) refl))
      | Some o =>
          code tie (Nat.eqb (length o) (count_rendered refl)) (mask (map (ref_elem_ok tol o) refl))
      end
  end.

(* ---------------- svg2paths (transforms ignored by design) ---------------- *)
Definition plain_close (tol : Qc) (m o : obs_plain) : bool :=
  Nat.eqb (fst m) (fst o) && segs_close tol true (snd m) (snd o).
Definition tie_plain (tol : Qc) (model obs : option (list obs_plain)) : bool :=
  match model, obs with
  | None, None => true
  | Some l, Some l' => lclose (plain_close tol) l l'
  | _, _ => false
  end.
(* the same with arcs compared fully only for the ids [fullf] accepts *)
Definition tie_plain_f (tol : Qc) (fullf : nat -> bool) (model obs : option (list obs_plain)) : bool :=
  match model, obs with
  | None, None => true
  | Some l, Some l' =>
      lclose (fun m o : obs_plain => Nat.eqb (fst m) (fst o)
                                     && segs_close tol (fullf (fst m)) (snd m) (snd o)) l l'
  | _, _ => false
  end.

Definition plain_elem_ok (tol : Qc) (obs : list obs_plain) (ka : kind * @attrs Qc) : bool :=
  match shape_spec N (fst ka) (snd ka) with
  | None => true
  | Some sp => match find_obs (a_id (snd ka)) obs with
               | Some t => segs_close tol true sp t
               | None => false
               end
  end.
Definition count_plain (l : list (kind * @attrs Qc)) : nat :=
  length (filter (fun ka => match shape_spec N (fst ka) (snd ka) with Some _ => true | None => false end) l).

Definition check_svg2paths (c : cfg) (tol : Qc) (tree itree : qnode) (obs : option (list obs_plain)) : nat :=
  let tie := tie_plain tol (svg2paths_model N c itree) obs in
  let refl := preorder tree in
  match obs with
  | None => code tie false (mask (map (fun _ => false) refl))
  | Some o => code tie (Nat.eqb (length o) (count_plain refl)) (mask (map (plain_elem_ok tol o) refl))
  end.

(* ---------------- SaxDocument ---------------- *)
Definition omat_close (tol : Qc) (a b : option qmat) : bool :=
  match a, b with
  | None, None => true
  | Some A, Some B => mat_close tol A B
  | _, _ => false
  end.
Definition sax_entry_close (tol : Qc) (m o : nat * list qseg * option qmat) : bool :=
  let '(i, s, M) := m in let '(j, t, M') := o in
  Nat.eqb i j && segs_close tol true s t && omat_close tol M M'.

(* obs_parse: the tree built by the constructor (id, parsed d, matrix);
   obs_flat: flatten_all_paths().  want_mat = false: ties (1, 2) + 4 * mask of
   the reference elements whose geometry is not returned; want_mat = true:
   4 * mask of the elements whose recorded matrix is not the reference's *)
Definition check_sax (c : cfg) (want_mat : bool) (tol : Qc) (tree itree : qnode)
           (obs_parse : option (list (nat * list qseg * option qmat)))
           (obs_flat : option (list obs_plain)) : nat :=
  let tie1 := match sax_parse N c itree, obs_parse with
              | None, None => true
              | Some l, Some l' => lclose (sax_entry_close tol) l l'
              | _, _ => false
              end in
  (* arcs of an element under a non-identity matrix: end points only *)
  let fullf (i : nat) : bool :=
      match sax_parse N c itree with
      | Some l => match find_obs i (map (fun e : nat * list qseg * option qmat => (fst (fst e), snd e)) l) with
                  | Some (Some M) => is_identity M
                  | _ => true
                  end
      | None => true
      end in
  let tie2 := tie_plain_f tol fullf (sax_flatten N c itree) obs_flat in
  let refl := ref_paths N tree in
  (* property: flatten_all_paths returns the reference geometry, and the
     matrices recorded by the constructor are the reference's *)
  let geo_ok (o : list obs_plain) (r : nat * option (list qseg) * qmat) : bool :=
      let '(i, spec, M) := r in
      match spec with
      | None => true
      | Some sp => match find_obs i o with
                   | Some t => segs_close tol (is_identity M) (map (seg_affine N M) sp) t
                   | None => false
                   end
      end in
  let mat_ok (o : list (nat * list qseg * option qmat)) (r : nat * option (list qseg) * qmat) : bool :=
      let '(i, spec, M) := r in
      match spec with
      | None => true
      | Some _ =>
          match find_obs i (map (fun e : nat * list qseg * option qmat => (fst (fst e), snd e)) o) with
          | Some (Some M') => mat_close tol M M'
          | Some None => mat_close tol M (mI N)
          | None => false
          end
      end in
  let m_geo := match obs_flat with
               | None => mask (map (fun _ => false) refl)
               | Some o => mask (map (geo_ok o) refl)
               end in
  let m_mat := match obs_parse with
               | None => mask (map (fun _ => false) refl)
               | Some o => mask (map (mat_ok o) refl)
               end in
  if want_mat then (4 * m_mat)%nat
  else ((if tie1 then 0 else 1) + (if tie2 then 0 else 2) + 4 * m_geo)%nat.

(* one case of the harness: which route, and what was observed *)
Inductive obs :=
| ODocument (o : option (list obs_entry))
| OGroup (target : position) (o : option (list obs_entry))
| OGroupNR (target : position) (o : option (list obs_entry))    (* recursive=False *)
| OSvg2paths (o : option (list obs_plain))
| OSax (p : option (list (nat * list qseg * option qmat))) (f : option (list obs_plain))
| OSaxMat (p : option (list (nat * list qseg * option qmat))).

(* [c]: the variant of the code the harness detected (Model/SvgTree.v cfg) *)
Definition check_case (c : cfg) (x : Qc * qnode * qnode * obs) : nat :=
  let '(tol, tree, itree, o) := x in
  match o with
  | ODocument x => check_document c tol tree itree x
  | OGroup t x => check_from_group c true tol tree itree t x
  | OGroupNR t x => check_from_group c false tol tree itree t x
  | OSvg2paths x => check_svg2paths c tol tree itree x
  | OSax p f => check_sax c false tol tree itree p f
  | OSaxMat p => check_sax c true tol tree itree p None
  end.

(* SaxDocument load -> save (generate_dom) -> reload, used by the C18 harness:
   [recorded] the matrix SaxDocument holds for a path, [written] the numbers
   found in transform="matrix( ... )" of the saved file (None: no attribute,
   which generate_dom does for the identity), [reloaded] the matrix after
   reading the saved file again.  1: written numbers differ from the model of
   generate_dom; 2: the written transform does not mean the recorded matrix
   (SVG 1.1 7.6); 4: the reloaded matrix differs *)
Definition check_sax_dom (tol : Qc) (x : option qmat * option (list Qc) * option qmat) : nat :=
  let '(recorded, written, reloaded) := x in
  let M := odefm N recorded in
  let model := if is_identity M then None else Some (sax_dom_matrix M) in
  let b1 := match model, written with
            | None, None => true
            | Some l, Some l' => lclose (qclose tol) l l'
            | _, _ => false
            end in
  let b2 := match written with
            | None => mat_close tol M (mI N)
            | Some [a; b; c; d; e; f] => mat_close tol (titem_spec N (TMatrix a b c d e f)) M
            | Some _ => false
            end in
  let b3 := mat_close tol (odefm N reloaded) M in
  ((if b1 then 0 else 1) + (if b2 then 0 else 2) + (if b3 then 0 else 4))%nat.

(* constructors the harness writes *)
Definition mk_attrs := @mkAttrs Qc.
Definition mat6 (a b c d e f : Qc) : qmat := aff N a b c d e f.
