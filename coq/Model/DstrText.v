(* Model/DstrText.v — the characters Path.d returns:

     parts.append('M {},{}'.format(x, y))  ...  'A {},{} {} {:d},{:d} {},{}'
     s = ' '.join(parts);  return s if not rel else s.lower()

   over the command list of Model/Dstr.v.  Number formatting ('{}'.format of a
   float = repr) is an ORACLE  fmtT : K -> text;  reading a numeral back
   (float(text)) is an oracle  unfmt : text -> K.  Their contract — the text is
   a numeral of the language of FLOAT_RE and  unfmt (fmtT x) = x  — is asked, in
   Proofs/DstrText.v, of the numbers actually written, and sampled by the
   harness on every number the implementation writes. *)
From Coq Require Import Ascii String List Bool.
From SVP Require Import Base.Num Base.Cplx Model.Parse Model.Lexer Model.Dstr.
Import ListNotations.
Local Open Scope char_scope.

Section Text.
  Context {K : Type} (N : Num K).
  Variable fmtT : K -> list ascii.
  Variable unfmt : list ascii -> K.
  Notation pt := (Cplx K).

  (* letter of a command, in the case Path.d writes it (lower case when rel) *)
  Definition letter (c : cmdletter) (up : bool) : ascii :=
    match c, up with
    | cM, true => "M" | cM, false => "m" | cZ, true => "Z" | cZ, false => "z"
    | cL, true => "L" | cL, false => "l" | cH, true => "H" | cH, false => "h"
    | cV, true => "V" | cV, false => "v" | cC, true => "C" | cC, false => "c"
    | cS, true => "S" | cS, false => "s" | cQ, true => "Q" | cQ, false => "q"
    | cT, true => "T" | cT, false => "t" | cA, true => "A" | cA, false => "a"
    end.
  (* '{},{}'.format(z.real, z.imag) *)
  Definition pt_text (z : pt) : list ascii := fmtT (re z) ++ "," :: fmtT (im z).
  (* '{:d}'.format(int(flag)) *)
  Definition flag_text (b : bool) : list ascii := [if b then "1" else "0"].

  Definition part_text (c : command K) : list ascii :=
    match c with
    | MoveTo ab [p] => letter cM ab :: " " :: pt_text p
    | LineTo ab [p] => letter cL ab :: " " :: pt_text p
    | HTo ab [x] => letter cH ab :: " " :: fmtT x
    | VTo ab [y] => letter cV ab :: " " :: fmtT y
    | CurveTo ab [(c1, c2, e)] =>
        letter cC ab :: " " :: pt_text c1 ++ " " :: pt_text c2 ++ " " :: pt_text e
    | SmoothTo ab [(c2, e)] => letter cS ab :: " " :: pt_text c2 ++ " " :: pt_text e
    | QuadTo ab [(c, e)] => letter cQ ab :: " " :: pt_text c ++ " " :: pt_text e
    | TTo ab [e] => letter cT ab :: " " :: pt_text e
    | ArcTo ab [a] =>
        letter cA ab :: " " :: pt_text (aa_r a) ++ " " :: fmtT (aa_rot a) ++ " " ::
        flag_text (aa_large a) ++ "," :: flag_text (aa_sweep a) ++ " " :: pt_text (aa_end a)
    | Close up => [letter cZ up]
    | _ => []
    end.

  (* ' '.join(parts) *)
  Fixpoint join_sp (parts : list (list ascii)) : list ascii :=
    match parts with
    | [] => []
    | [x] => x
    | x :: r => x ++ " " :: join_sp r
    end.

  Definition cmds_text (prog : list (command K)) : list ascii := join_sp (map part_text prog).

  Definition d_text (zfix sfix mfix useST closeZ rel : bool) (p : list (seg K)) : list ascii :=
    cmds_text (d_cmds N zfix sfix mfix useST closeZ rel p).

  (* Path._tokenize_path followed by float() on the numerals *)
  Definition tokK (t : ltok) : list (tok K) :=
    match t with
    | LCmd a => match cmd_of_ascii a with Some (c, up) => [TCmd c up] | None => [] end
    | LNum text => [TNum (unfmt text)]
    end.
  Definition lexK (s : list ascii) : list (tok K) := flat_map tokK (tokenize s).

  (* parse_path(p.d(...)) on the characters *)
  Definition roundtrip_text (none_ok coinc_ok zfix sfix mfix useST closeZ rel : bool) (p : list (seg K))
    : result (list (seg K)) :=
    impl_parse N none_ok coinc_ok (lexK (d_text zfix sfix mfix useST closeZ rel p)) (c0 N).
End Text.
