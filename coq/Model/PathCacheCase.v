(* Model/PathCacheCase.v — comparison, computed inside Coq, of what the
   implementation was observed to do along a history with what the model
   (Model/PathCache.v, instance Ex of Model/PathCacheExec.v) predicts.
   Used by the generated case files of tools/harness/c16.py. *)
From Coq Require Import ZArith QArith Qcanon List Bool.
From SVP Require Import Base.Num Base.Cplx Base.CaseLib Model.Bezier Model.PathCache Model.PathCacheExec.
Import ListNotations.
Import Ex.

Definition exn_eqb (a b : exn) : bool :=
  match a, b with
  | IndexError, IndexError | ValueError, ValueError | RuntimeError, RuntimeError
  | BugException, BugException | AssertionError, AssertionError => true
  | _, _ => false
  end.

(* what the harness saw *)
Inductive oval :=
| OOk                                   (* a mutation returned normally *)
| OSeg (d : SD)                         (* pop returned this segment *)
| OErr (e : exn)
| OOther                                (* an exception class the model does not know *)
| ONat (n : nat)
| OBool (b : bool)
| OPt (o : option P)
| ONum (q : Qc)
| OIdxT (k : Z) (t : Qc)
| OPoint (z : P)
| OHash (closed : bool)                 (* hash(p) == hash((tuple(segments), closed)) *)
| OD (closed : bool)                    (* d-string ends with Z *)
| OBbox.

Definition u46 : Qc := two_pow_neg 46.
Definition num_close (a b : Qc) : bool := qclose (u46 * qmax (Q2Qc 1) (qabs b))%Qc a b.
Definition opt_P_eqb (a b : option P) : bool :=
  match a, b with
  | None, None => true
  | Some x, Some y => P_eqb x y
  | _, _ => false
  end.
(* pay of a Bezier segment: the flattened inner control points *)
Definition model_point (d : SD) (t : Qc) : option P :=
  match skind d, spay d with
  | KLine, [] => Some (line_point NumQ (sstart d) (send d) t)
  | KQuad, [cx; cy] => Some (quad_point NumQ (sstart d) (cx, cy) (send d) t)
  | KCubic, [ax; ay; bx; by_] => Some (cubic_point NumQ (sstart d) (ax, ay) (bx, by_) (send d) t)
  | _, _ => None                         (* arcs are not evaluated here *)
  end.
Definition pt_close (a b : P) : bool :=
  let tol := (two_pow_neg 40 * qmax (Q2Qc 1) (cabs1 b))%Qc in cclose tol a b.

Definition match_out (m : Out) (o : oval) : bool :=
  match m, o with
  | OutR ROk, OOk => true
  | OutR (RSeg d), OSeg d' => sd_eqb d d'
  | OutR (RErr e), OErr e' => exn_eqb e e'
  | OutV (VNat n), ONat n' => Nat.eqb n n'
  | OutV (VBool b), OBool b' => Bool.eqb b b'
  | OutV (VPt a), OPt b => opt_P_eqb a b
  | OutV (VNum v), ONum q => num_close v q
  | OutV (VIdxT k t), OIdxT k' t' => Z.eqb k k' && num_close t t'
  | OutV (VSegT d t), OPoint z =>
      match model_point d t with Some w => pt_close w z | None => true end
  | OutV (VHash _ c), OHash c' => Bool.eqb c c'
  | OutV (VD c _), OD c' => Bool.eqb c c'
  | OutV (VBbox _), OBbox => true
  | OutV (VErr e), OErr e' => exn_eqb e e'
  | _, _ => false
  end.

(* observed private cache of a segment object *)
Inductive ocache :=
| ONoC
| OCubic (key : SD) (t : Tol) (v : Qc)   (* _length_info: bpoints, error, min_depth, length *)
| OArc (key_current : bool) (v : Qc)     (* segment_length_hash == hash(self), segment_length *)
| OCacheOther.                           (* a cache whose structure the model does not know *)
Definition match_cache (g : Seg) (o : ocache) : bool :=
  match scache g, o with
  | None, ONoC => true
  | Some c, OCubic k t v => sd_eqb (ckey c) k && tol_eqb (ctol c) t && Qc_eq_bool (cval c) v
  | Some c, OArc cur v => Bool.eqb (sd_eqb (ckey c) (sd g)) cur && Qc_eq_bool (cval c) v
  | _, _ => false
  end.

(* observed final state: segments (data, cache), _start, _end, _length *)
Definition ostate : Type := (list (SD * ocache) * option P * option P * option Qc)%type.

Fixpoint match_segs (l : list Seg) (o : list (SD * ocache)) : nat :=
  match l, o with
  | [], [] => 0
  | g :: r, (d, c) :: r' =>
      if negb (sd_eqb (sd g) d) then 1 else if negb (match_cache g c) then 5 else match_segs r r'
  | _, _ => 1
  end.
Definition match_state (s : St) (o : ostate) : nat :=
  let '(os, a, b, L) := o in
  match match_segs (segs s) os with
  | O =>
      if negb (opt_P_eqb (pstart s) a) then 2
      else if negb (opt_P_eqb (pend s) b) then 3
      else match plength s, L with
           | None, None => 0
           | Some v, Some q => if num_close v q then 0 else 4
           | _, _ => 4
           end
  | c => c
  end.

(* run the model along the events, comparing each outcome; code 100+i = the
   i-th event's outcome differs, 1..5 = final state differs, 6 = lengths *)
Fixpoint check_from (fx : fixes) (tb : Table) (s : St) (evs : list Ev) (obs : list oval) (i : nat) (fin : ostate) : nat :=
  match evs, obs with
  | [], [] => match_state s fin
  | e :: r, o :: r' =>
      let '(s', m) := step_ev fx tb s e in
      if match_out m o then check_from fx tb s' r r' (S i) fin else 100 + i
  | _, _ => 6
  end.
Definition casety : Type := (list SD * list Ev * list oval * ostate)%type.
Definition check_case (fx : fixes) (tb : Table) (c : casety) : nat :=
  let '(init, evs, obs, fin) := c in
  check_from fx tb (fresh (map (@fresh_seg P Pay Tol Qc) init)) evs obs 0 fin.

(* ---------------------------------------------------------------------
   segment-level histories: control points reassigned, length(error=,
   min_depth=), reversed() continuing with the copy (SRev) or with the
   original (SRevKeep).  A single segment's answer is exactly one measured
   table entry, so the comparison is exact. *)
Inductive sop :=
| SStart (z : P) | SC1 (z : P) | SEnd (z : P)
| SLength (t : Tol)
| SRev | SRevKeep.
Definition ex_rev_data (d : SD) : SD :=
  mkSD (skind d) (send d) (sstart d)
       (match spay d with [a; b; c; e] => [c; e; a; b] | l => l end).
Definition with_c1 (g : Seg) (z : P) : Seg :=
  mkSeg (mkSD (skind (sd g)) (sstart (sd g)) (send (sd g))
              (match spay (sd g) with _ :: _ :: r => fst z :: snd z :: r | l => l end))
        (scache g).
Definition ex_truthy (v : Qc) : bool := negb (Qc_eq_bool v q0).     (* `if self._length_info['length']:` *)
Definition ex_seg_length (fx : fixes) (tb : Table) : Seg -> Tol -> Seg * Qc :=
  seg_length fx P_eqb Pay_eqb (tol_reuse fx) tol_eqb (lookup tb).
Definition ex_reversed (fx : fixes) : Seg -> Seg * Seg := seg_reversed fx P_eqb Pay_eqb ex_rev_data ex_truthy.
Fixpoint seg_check (fx : fixes) (tb : Table) (g : Seg) (ops : list sop) (obs : list Qc) (i : nat) : nat :=
  match ops with
  | [] => match obs with [] => 0 | _ => 6 end
  | SLength t :: r =>
      match obs with
      | o :: obs' => let '(g', v) := ex_seg_length fx tb g t in
                     if Qc_eq_bool v o then seg_check fx tb g' r obs' (S i) else 100 + i
      | [] => 6
      end
  | SStart z :: r => seg_check fx tb (with_start g z) r obs (S i)
  | SC1 z :: r => seg_check fx tb (with_c1 g z) r obs (S i)
  | SEnd z :: r => seg_check fx tb (with_end g z) r obs (S i)
  | SRev :: r => seg_check fx tb (snd (ex_reversed fx g)) r obs (S i)
  | SRevKeep :: r => seg_check fx tb (fst (ex_reversed fx g)) r obs (S i)
  end.
Definition segcasety : Type := (SD * list sop * list Qc)%type.
Definition check_seg_case (fx : fixes) (tb : Table) (c : segcasety) : nat :=
  let '(d, ops, obs) := c in seg_check fx tb (fresh_seg d) ops obs 0.
