(* Model/Length.v — hand-written models of the arc-length code of
   svgpathtools/path.py:

     Line.length, QuadraticBezier.length (closed form + the three `isnan`
     fallback formulas), segment_length (the recursive chord rule used by
     CubicBezier.length / Arc.length when scipy is unavailable), Path.length,
     inv_arclength (Line / Path / bisection branches, all exits),

   and the mathematical SPECIFICATION of arc length over R,
     arclen dx dy t0 t1 = RInt (fun t => sqrt (dx t ^ 2 + dy t ^ 2)) t0 t1.

   The numeric models are parameterised by (N : Num K) (T : NumT K) and are the
   terms both the theorems (at NumR / NumTR) and the correspondence check (at
   NumB / NumTB, NumF) are about.  scipy.integrate.quad is NOT modelled: it is
   an oracle (contract: returns RInt within epsabs / 1.5e-8 relative), judged
   case by case against the bracket of Proofs/LengthBracket.v. *)
From Coq Require Import ZArith List Bool Reals.
From Coquelicot Require Import Coquelicot.
From SVP Require Import Base.Num Base.Cplx Model.Bezier.
Import ListNotations.
Set Implicit Arguments.

Section Length.
  Context {K : Type} (N : Num K) (T : NumT K).
  Local Notation "x + y" := (add N x y).
  Local Notation "x - y" := (sub N x y).
  Local Notation "x * y" := (mul N x y).
  Local Notation "x / y" := (div N x y).
  Local Notation "# z" := (lit N z) (at level 1, format "# z").

  (* abs(complex) *)
  Definition cabs (z : Cplx K) : K := hypot_ T (re z) (im z).

  (* ---------------- Line.length ---------------- *)
  (* abs(self.end - self.start)*(t1-t0) *)
  Definition line_length (s e : Cplx K) (t0 t1 : K) : K :=
    cabs (csub N e s) * (t1 - t0).

  (* ---------------- QuadraticBezier.length ---------------- *)
  Definition quad_a (s c e : Cplx K) : Cplx K :=
    cadd N (csub N s (cscale N #2 c)) e.                 (* start - 2*control + end *)
  Definition quad_b (s c e : Cplx K) : Cplx K :=
    cscale N #2 (csub N c s).                            (* 2*(control - start) *)
  Definition sq (x : K) : K := x * x.                    (* x ** 2 *)

  Definition quad_c2 (a : Cplx K) : K := #4 * (sq (re a) + sq (im a)).
  Definition quad_c1 (a b : Cplx K) : K := #4 * (re a * re b + im a * im b).
  Definition quad_c0 (b : Cplx K) : K := sq (re b) + sq (im b).
  Definition quad_beta (a b : Cplx K) : K := quad_c1 a b / (#2 * quad_c2 a).
  Definition quad_gamma (a b : Cplx K) : K :=
    quad_c0 b / quad_c2 a - sq (quad_beta a b).
  Definition quad_dq (a b : Cplx K) (t : K) : K :=         (* |B'(t)| *)
    sqrt_ T (quad_c2 a * sq t + quad_c1 a b * t + quad_c0 b).
  Definition quad_logarand (a b : Cplx K) (t0 t1 : K) : K :=
    (sqrt_ T (quad_c2 a) * (t1 + quad_beta a b) + quad_dq a b t1) /
    (sqrt_ T (quad_c2 a) * (t0 + quad_beta a b) + quad_dq a b t0).
  (* the closed form, after `s /= 2` *)
  Definition quad_closed (a b : Cplx K) (t0 t1 : K) : K :=
    ((t1 + quad_beta a b) * quad_dq a b t1 - (t0 + quad_beta a b) * quad_dq a b t0
     + quad_gamma a b * sqrt_ T (quad_c2 a) * ln_ T (quad_logarand a b t0 t1)) / #2.
  (* the `if isnan(s):` block *)
  Definition quad_tstar (a b : Cplx K) : K := cabs b / (#2 * cabs a).
  Definition quad_fb_below (a b : Cplx K) (t0 t1 : K) : K :=     (* t1 < tstar *)
    cabs a * (sq t0 - sq t1) - cabs b * (t0 - t1).
  Definition quad_fb_above (a b : Cplx K) (t0 t1 : K) : K :=     (* tstar < t0 *)
    cabs a * (sq t1 - sq t0) - cabs b * (t1 - t0).
  Definition quad_fb_across (a b : Cplx K) (t0 t1 : K) : K :=    (* t0 <= tstar <= t1 *)
    cabs a * (sq t1 + sq t0) - cabs b * (t1 + t0) + sq (cabs b) / (#2 * cabs a).
  Definition quad_collinear (a b : Cplx K) (t0 t1 : K) : K :=
    let tstar := quad_tstar a b in
    if ltb N t1 tstar then quad_fb_below a b t0 t1
    else if ltb N tstar t0 then quad_fb_above a b t0 t1
    else quad_fb_across a b t0 t1.
  (* 1e-12 as the exact binary64 value *)
  Definition eps12 : K := dyadic N 4951760157141521 (-92).
  (* 1e-6 as the exact binary64 value *)
  Definition eps6 : K := dyadic N 4722366482869645 (-72).
  (* nearly straight branch of the repaired code:
     abs(b)*(t1 - t0) + a_dot_b/abs(b)*(t1**2 - t0**2) *)
  Definition quad_near_linear (a b : Cplx K) (t0 t1 : K) : K :=
    cabs b * (t1 - t0) + (re a * re b + im a * im b) / cabs b * (sq t1 - sq t0).
  (* the whole method.  [isbad] is the test that sends the closed form to the
     fallback formulas: isnan in the code as it was, `not isfinite` after the
     repair C06-quad-length-collinear-nonfinite (both constantly false over an
     exact field).  [nl] = true: the repaired code has the branch
     `elif abs(a) < 1e-6*abs(b)` (C06-quad-length-near-linear).
     The `t0 == 1 and t1 == 0` cache is C16's subject. *)
  Definition quad_length (nl : bool) (isbad : K -> bool) (s c e : Cplx K) (t0 t1 : K) : K :=
    let a := quad_a s c e in
    let b := quad_b s c e in
    if ltb N (cabs a) eps12 then cabs b * (t1 - t0)
    else if nl && ltb N (cabs a) (eps6 * cabs b) then quad_near_linear a b t0 t1
    else let r := quad_closed a b t0 t1 in
         if isbad r then quad_collinear a b t0 t1 else r.

  (* ---------------- segment_length ---------------- *)
  (* Recursive chord rule over an abstract point function.  [fuel] bounds the
     recursion depth (CPython's recursion limit); None = exhausted
     (RecursionError). *)
  Section SegLen.
    Variable point : K -> Cplx K.
    Variable error : K.
    Variable min_depth : nat.
    Fixpoint segment_length (fuel : nat) (start end_ : K) (sp ep : Cplx K)
             (depth : nat) : option K :=
      match fuel with
      | O => None
      | S f =>
        let mid := (start + end_) / #2 in
        let mp := point mid in
        let length := cabs (csub N ep sp) in
        let first_half := cabs (csub N mp sp) in
        let second_half := cabs (csub N ep mp) in
        let length2 := first_half + second_half in
        if ltb N error (length2 - length) || Nat.ltb depth min_depth then
          match segment_length f start mid sp mp (S depth),
                segment_length f mid end_ mp ep (S depth) with
          | Some x, Some y => Some (x + y)
          | _, _ => None
          end
        else Some length2
      end.
    (* CubicBezier.length / Arc.length without scipy *)
    Definition seg_length_noquad (fuel : nat) (t0 t1 : K) : option K :=
      segment_length fuel t0 t1 (point t0) (point t1) 0.
  End SegLen.

  (* ---------------- Path.length ---------------- *)
  (* [seglen i t0 t1] is segment i's length(t0, t1).  _calc_lengths:
     self._length = sum(lengths). *)
  Definition path_length_full (lens : list K) : K := nsum N lens.
  (* the T0,T1 branch; (i0,t0) = T2t(T0), (i1,t1) = T2t(T1) are inputs (C05) *)
  Definition path_length_sub (seglen : nat -> K -> K -> K) (nseg : nat)
             (T0 T1 : K) (i0 : nat) (t0 : K) (i1 : nat) (t1 : K) : K :=
    if Nat.eqb nseg 1 then seglen 0%nat T0 T1
    else if Nat.eqb i0 i1 then seglen i0 t0 t1
    else seglen i0 t0 (one N)
         + nsum N (map (fun i => seglen i (zero N) (one N)) (seq (S i0) (i1 - S i0)))
         + seglen i1 (zero N) t1.

  (* ---------------- the Arc curve (Arc.point / Arc.derivative n=1) ----------
     in terms of the derived parameters; angles theta, delta in degrees *)
  Definition arc_angle (theta delta t : K) : K := (theta + t * delta) * pi_ T / #180.
  Definition arc_pt (rx ry cosphi sinphi : K) (center : Cplx K) (theta delta t : K) : Cplx K :=
    let an := arc_angle theta delta t in
    (rx * cosphi * cos_ T an - ry * sinphi * sin_ T an + re center,
     rx * sinphi * cos_ T an + ry * cosphi * sin_ T an + im center).
  Definition arc_d1 (rx ry cosphi sinphi theta delta t : K) : Cplx K :=
    let an := arc_angle theta delta t in
    let k := delta * pi_ T / #180 in
    (k * (opp N rx * cosphi * sin_ T an - ry * sinphi * cos_ T an),
     k * (opp N rx * sinphi * sin_ T an + ry * cosphi * cos_ T an)).

  (* ---------------- the rigorous bracket (judge of the correspondence check) --
     Not a model of svgpathtools code: [chord sum, control-polygon sum] of the
     2^k-fold de Casteljau subdivision of a Bezier piece, and for arcs
     [chord sum, sum of sqrt(h * int speed^2)] over a partition.
     Proofs/LengthBracket.v shows both enclose the arc length (over R). *)
  Fixpoint ctrl_len (p : list (Cplx K)) : K :=
    match p with
    | a :: (b :: _) as q => cabs (csub N b a) + ctrl_len q
    | _ => zero N
    end.
  Definition chord_len (p : list (Cplx K)) : K :=
    cabs (csub N (last p (c0 N)) (hd (c0 N) p)).
  Definition half : K := one N / #2.
  Fixpoint bez_bracket (k : nat) (p : list (Cplx K)) : K * K :=
    match k with
    | O => (chord_len p, ctrl_len p)
    | S k' =>
      let lr := split_bezier N p half in
      let b1 := bez_bracket k' (fst lr) in
      let b2 := bez_bracket k' (snd lr) in
      (fst b1 + fst b2, snd b1 + snd b2)
    end.
  (* control points of the piece [t0, t1] (t1 <> 0) *)
  Definition bez_crop (p : list (Cplx K)) (t0 t1 : K) : list (Cplx K) :=
    snd (split_bezier N (fst (split_bezier N p t1)) (t0 / t1)).

  (* arcs: G with G' = speed^2 (rho = cosphi^2 + sinphi^2 is kept, the inputs
     are the implementation's floats) *)
  Definition arc_G (rx ry cosphi sinphi theta delta t : K) : K :=
    let k := delta * pi_ T / #180 in
    let an := arc_angle theta delta t in
    let rho := cosphi * cosphi + sinphi * sinphi in
    k * k * rho * (rx * rx + ry * ry) / #2 * t
    + k * rho * (ry * ry - rx * rx) / #4 * (#2 * sin_ T an * cos_ T an).
  Fixpoint part_bracket (pt : K -> Cplx K) (G : K -> K) (a : K) (ps : list K) : K * K :=
    match ps with
    | [] => (zero N, zero N)
    | p :: r =>
      let b := part_bracket pt G p r in
      (cabs (csub N (pt p) (pt a)) + fst b,
       sqrt_ T ((p - a) * (G p - G a)) + snd b)
    end.
  (* the same bracket on pre-evaluated samples (t, point t, G t): lets the
     correspondence check share each cos/sin evaluation *)
  Definition sample : Type := (K * Cplx K * K)%type.
  Fixpoint part_bracket_v (a : sample) (ps : list sample) : K * K :=
    match ps with
    | [] => (zero N, zero N)
    | p :: r =>
      let b := part_bracket_v p r in
      (cabs (csub N (snd (fst p)) (snd (fst a))) + fst b,
       sqrt_ T ((fst (fst p) - fst (fst a)) * (snd p - snd a)) + snd b)
    end.
  Definition arc_sample (rx ry cosphi sinphi : K) (center : Cplx K) (theta delta t : K) : sample :=
    let k := delta * pi_ T / #180 in
    let an := arc_angle theta delta t in
    let c := cos_ T an in
    let s := sin_ T an in
    let rho := cosphi * cosphi + sinphi * sinphi in
    (t,
     (rx * cosphi * c - ry * sinphi * s + re center,
      rx * sinphi * c + ry * cosphi * s + im center),
     k * k * rho * (rx * rx + ry * ry) / #2 * t
     + k * rho * (ry * ry - rx * rx) / #4 * (#2 * s * c)).
  Fixpoint sorted_b (a : K) (ps : list K) : bool :=
    match ps with
    | [] => true
    | p :: r => leb N a p && sorted_b p r
    end.

  (* ---------------- inv_arclength ---------------- *)
  Inductive ires :=
  | IRet (t : K)            (* plain return (early returns, Line, Path, tolerance met) *)
  | IStall (t : K)          (* `t_upper == t_lower` exit: returns t with a warning *)
  | EValueError             (* s outside [0, L] *)
  | EAssert                 (* assert curve_length > 0 *)
  | EMaxIts.                (* Exception("Maximum iterations reached ...") *)

  Section Inv.
    Variable rep : bool.      (* false: the code as it is.  true: repaired exit test *)
    Variable s s_tol : K.

    (* while iteration < maxits: ... ; fuel = maxits - iteration.
       rep = false: the exit test `t_upper == t_lower` after the re-assignment;
       rep = true (repair C07-ilength-stall-exit): `t == t_lower or t == t_upper`
       before it, and no test after it *)
    Fixpoint bisect (len : K -> K) (fuel : nat) (lo hi : K) : ires :=
      match fuel with
      | O => EMaxIts
      | S f =>
        let t := (lo + hi) / #2 in
        let st := len t in
        if ltb N (nabs N (st - s)) s_tol then IRet t
        else if rep && (eqb N t lo || eqb N t hi) then IStall t
        else
          let lo' := if ltb N st s then t else lo in
          let hi' := if ltb N st s then hi else t in
          if negb rep && eqb N hi' lo'
          then IStall t
          else bisect len f lo' hi'
      end.
  End Inv.

  Definition inv_arclength_seg (rep is_line : bool) (len : K -> K) (L : K)
             (s s_tol : K) (maxits : nat) : ires :=
    if negb (ltb N (zero N) L) then EAssert
    else if negb (leb N (zero N) s && leb N s L) then EValueError
    else if eqb N s (zero N) then IRet (zero N)
    else if eqb N s L then IRet (one N)
    else if is_line then IRet (s / L)
    else bisect rep s s_tol len maxits (zero N) (one N).

  (* Path branch.  A segment is (is_line, len, L_k); [t2T k t] is Path.t2T.
     prep = true (repair C07-path-ilength-inner-range): the segment is called
     with min(s - lsum, len_k) *)
  Definition pseg : Type := (bool * (K -> K) * K)%type.
  Fixpoint path_search (rep prep : bool) (t2T : nat -> K -> K) (segs : list pseg) (k : nat)
           (lsum s s_tol : K) (maxits : nat) : ires :=
    match segs with
    | [] => IRet (one N)
    | (is_line, len, Lk) :: r =>
      if leb N lsum s && leb N s (lsum + Lk) then
        let s' := if prep then nmin N (s - lsum) Lk else s - lsum in
        match inv_arclength_seg rep is_line len Lk s' s_tol maxits with
        | IRet t => IRet (t2T k t)
        | IStall t => IStall (t2T k t)
        | e => e
        end
      else path_search rep prep t2T r (S k) (lsum + Lk) s s_tol maxits
    end.
  Definition inv_arclength_path (rep prep : bool) (t2T : nat -> K -> K) (segs : list pseg)
             (L : K) (s s_tol : K) (maxits : nat) : ires :=
    if negb (ltb N (zero N) L) then EAssert
    else if negb (leb N (zero N) s && leb N s L) then EValueError
    else if eqb N s (zero N) then IRet (zero N)
    else if eqb N s L then IRet (one N)
    else path_search rep prep t2T segs 0 (zero N) s s_tol maxits.
End Length.

Arguments IRet {K} _. Arguments IStall {K} _.
Arguments EValueError {K}. Arguments EAssert {K}. Arguments EMaxIts {K}.

(* ---------------- specification: arc length over R ---------------- *)
Definition speed (dx dy : R -> R) (t : R) : R := sqrt (dx t ^ 2 + dy t ^ 2).
Definition arclen (dx dy : R -> R) (t0 t1 : R) : R := RInt (speed dx dy) t0 t1.
(* a C1 plane curve: coordinates, their derivatives, continuity of the latter *)
Record C1curve := mkC1 {
  gx : R -> R; gy : R -> R; gdx : R -> R; gdy : R -> R;
  gx_d : forall t, is_derive gx t (gdx t);
  gy_d : forall t, is_derive gy t (gdy t);
  gdx_c : forall t, continuous gdx t;
  gdy_c : forall t, continuous gdy t
}.
Definition curve_len (g : C1curve) := arclen (gdx g) (gdy g).
Definition chord (g : C1curve) (t0 t1 : R) : R :=
  sqrt ((gx g t1 - gx g t0) ^ 2 + (gy g t1 - gy g t0) ^ 2).
