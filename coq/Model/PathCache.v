(* Model/PathCache.v — state-machine model of svgpathtools.path.Path seen as a
   collections.abc.MutableSequence with its caches (_length, _lengths, _start,
   _end, _closed), and of the segment-level length caches
   (CubicBezier._length_info, Arc.segment_length_hash).  Property C16.

   The model mirrors what /repo/svgpathtools/path.py DOES (pinned tree),
   including what it gets wrong:
     * Path.__setitem__ on a slice that empties the path mutates, resets
       _length and then raises IndexError in `self._segments[0]`, leaving
       _start/_end as they were;
     * the start/end setters do not reset _length/_lengths;
     * _calc_lengths(error, min_depth) returns early whenever _length is set,
       whatever tolerance it was computed with;
     * CubicBezier.length reuses a cached value when
       cached.error >= error and cached.min_depth >= min_depth  ([tol_reuse]);
     * Arc.length reuses the cached value whenever hash(self) is unchanged;
     * Path.__eq__ ignores _closed, Path.__hash__ includes it.
   The mix-ins append / extend / pop / reverse / remove are expressed through
   insert / __getitem__ / __setitem__ / __delitem__ / __len__ exactly as
   CPython's Lib/_collections_abc.py (3.12) does.

   REPAIRS.  Each defect that has a candidate repair is controlled by one
   boolean of the record [fixes] (false = the pinned code, true = the repaired
   code).  The harness probes the implementation and instantiates the flags,
   so the same model follows the code before and after each `fix:` commit.

   Segment length is UNINTERPRETED: [len_of d t] is "what a fresh segment with
   control data d answers to length(error, min_depth) = t".  Numbers live in an
   abstract carrier V with the operations the code applies to them
   (sum from 0, +, -, /, ==, >=). *)
From Coq Require Import ZArith List Bool.
Import ListNotations.
Open Scope Z_scope.

Inductive kind := KLine | KQuad | KCubic | KArc.
Definition kind_eqb (a b : kind) : bool :=
  match a, b with
  | KLine, KLine | KQuad, KQuad | KCubic, KCubic | KArc, KArc => true
  | _, _ => false
  end.

Inductive exn := IndexError | ValueError | RuntimeError | BugException | AssertionError.

(* one flag per repaired behaviour; false = pinned code *)
Record fixes := mkFx {
  fx_setter : bool;   (* start/end setters reset _length *)
  fx_calc : bool;     (* _calc_lengths remembers the tolerance it computed with *)
  fx_cubic : bool;    (* CubicBezier reuse test: cached.error <= error (used by the instances' tol_reuse) *)
  fx_arc : bool;      (* Arc length cache keyed by (hash, error, min_depth) *)
  fx_hash : bool;     (* Path.__hash__ no longer depends on _closed *)
  fx_slice : bool;    (* __setitem__ handles the emptied path like __delitem__ *)
  fx_rev : bool }.    (* reversed() copies the cache entry only when it is current, as a new dict *)
Definition fx_pinned : fixes := mkFx false false false false false false false.
Definition fx_all : fixes := mkFx true true true true true true true.

Section Model.
  Context {pt pay tol V : Type}.
  Variable fx : fixes.
  (* Python `==` on points (complex) and on the remaining constructor
     arguments; `not z` (None is handled by option, z == 0 by pt_falsy) *)
  Variable pt_eqb : pt -> pt -> bool.
  Variable pt_falsy : pt -> bool.
  Variable pay_eqb : pay -> pay -> bool.
  (* CubicBezier.length: `_length_info['error'] >= error and
     _length_info['min_depth'] >= min_depth`; first argument = cached *)
  Variable tol_reuse : tol -> tol -> bool.
  (* `==` on (error, min_depth) pairs: only the repaired code compares them *)
  Variable tol_eqb : tol -> tol -> bool.
  (* (LENGTH_ERROR, LENGTH_MIN_DEPTH): what point / T2t pass to _calc_lengths *)
  Variable t_def : tol.

  (* control data of a segment: class, start, end, everything else
     (control points; radius, rotation, flags) *)
  Record sdata := mkSD { skind : kind; sstart : pt; send : pt; spay : pay }.
  Variable len_of : sdata -> tol -> V.
  Variables vzero vone : V.
  Variables vadd vsub vdiv : V -> V -> V.
  Variables v_eqb v_geb : V -> V -> bool.

  Definition sdata_eqb (a b : sdata) : bool :=
    kind_eqb (skind a) (skind b) && pt_eqb (sstart a) (sstart b)
    && pt_eqb (send a) (send b) && pay_eqb (spay a) (spay b).

  (* one filled length cache: the key it was stored under (bpoints for a
     cubic, the hashed tuple for an arc), the tolerance, the value *)
  Record centry := mkCE { ckey : sdata; ctol : tol; cval : V }.
  (* a segment OBJECT: control data + its private cache *)
  Record seg := mkSeg { sd : sdata; scache : option centry }.

  Definition fresh_seg (d : sdata) : seg := mkSeg d None.
  Definition clear_cache (g : seg) : seg := fresh_seg (sd g).
  Definition with_start (g : seg) (z : pt) : seg :=
    mkSeg (mkSD (skind (sd g)) z (send (sd g)) (spay (sd g))) (scache g).
  Definition with_end (g : seg) (z : pt) : seg :=
    mkSeg (mkSD (skind (sd g)) (sstart (sd g)) z (spay (sd g))) (scache g).

  (* seg.length(error=, min_depth=) with t0 = 0, t1 = 1: the only form Path
     calls from _calc_lengths.  Returns the (possibly updated) object. *)
  Definition compute (g : seg) (t : tol) : seg * V :=
    let v := len_of (sd g) t in (mkSeg (sd g) (Some (mkCE (sd g) t v)), v).
  Definition seg_length (g : seg) (t : tol) : seg * V :=
    match skind (sd g) with
    | KLine => (g, len_of (sd g) t)          (* closed form, no cache *)
    | KQuad => (g, len_of (sd g) t)          (* cache only consulted for t0 == 1 and t1 == 0 *)
    | KCubic =>
        match scache g with
        | Some c => if sdata_eqb (ckey c) (sd g) && tol_reuse (ctol c) t
                    then (g, cval c) else compute g t
        | None => compute g t
        end
    | KArc =>
        match scache g with
        | Some c => if sdata_eqb (ckey c) (sd g) && (negb (fx_arc fx) || tol_eqb (ctol c) t)
                    then (g, cval c) else compute g t
        | None => compute g t
        end
    end.

  (* ------------------------------------------------------------- Path *)
  Record state := mkSt {
    segs : list seg;            (* _segments *)
    plength : option V;         (* _length *)
    plengths : list V;          (* _lengths (only read after _calc_lengths) *)
    ptol : option tol;          (* _length_tol: what _length was computed with (only read by the repaired code) *)
    pstart : option pt;         (* _start *)
    pend : option pt;           (* _end *)
    pclosed : bool }.           (* _closed *)

  Definition first_start (l : list seg) : option pt := option_map (fun g => sstart (sd g)) (hd_error l).
  Definition last_error {A} (l : list A) : option A :=
    match l with [] => None | a :: r => Some (last r a) end.
  Definition last_end (l : list seg) : option pt := option_map (fun g => send (sd g)) (last_error l).

  (* Path of the segments l; parse_path additionally sets _closed *)
  Definition fresh (l : list seg) : state := mkSt l None [] None (first_start l) (last_end l) false.
  Definition fresh_closed (l : list seg) (c : bool) : state :=
    mkSt l None [] None (first_start l) (last_end l) c.

  Inductive result :=
  | ROk
  | RSeg (d : sdata)          (* pop returns the segment *)
  | RErr (e : exn).

  (* ----- Python list index / slice arithmetic (step 1 slices only) *)
  Definition norm_index (n : nat) (i : Z) : option nat :=
    let j := if i <? 0 then i + Z.of_nat n else i in
    if (0 <=? j) && (j <? Z.of_nat n) then Some (Z.to_nat j) else None.
  Definition clamp (n : nat) (i : Z) : nat :=        (* slice.indices / list.insert *)
    let j := if i <? 0 then i + Z.of_nat n else i in
    if j <? 0 then O else if Z.of_nat n <? j then n else Z.to_nat j.
  Definition slice_bounds (n : nat) (a b : option Z) : nat * nat :=
    let lo := match a with None => O | Some i => clamp n i end in
    let hi := match b with None => n | Some i => clamp n i end in
    (lo, Nat.max lo hi).
  Fixpoint set_nth {A} (k : nat) (x : A) (l : list A) : list A :=
    match l, k with
    | [], _ => []
    | _ :: r, O => x :: r
    | a :: r, S k' => a :: set_nth k' x r
    end.
  Fixpoint del_nth {A} (k : nat) (l : list A) : list A :=
    match l, k with
    | [], _ => []
    | _ :: r, O => r
    | a :: r, S k' => a :: del_nth k' r
    end.
  Definition splice {A} (lo hi : nat) (ins l : list A) : list A :=
    firstn lo l ++ ins ++ skipn hi l.

  (* the tail of __setitem__ and insert:
        self._length = None
        self._start = self._segments[0].start      # IndexError when empty
        self._end = self._segments[-1].end                                   *)
  Definition after_set (s : state) (l : list seg) : state * result :=
    match first_start l with
    | None => if fx_slice fx
              then (mkSt l None (plengths s) (ptol s) None None (pclosed s), ROk)    (* repaired: as __delitem__ *)
              else (mkSt l None (plengths s) (ptol s) (pstart s) (pend s) (pclosed s), RErr IndexError)
    | Some z => (mkSt l None (plengths s) (ptol s) (Some z) (last_end l) (pclosed s), ROk)
    end.
  (* the tail of __delitem__ *)
  Definition after_del (s : state) (l : list seg) : state :=
    mkSt l None (plengths s) (ptol s) (first_start l) (last_end l) (pclosed s).

  Definition setitem (s : state) (i : Z) (g : seg) : state * result :=
    match norm_index (length (segs s)) i with
    | None => (s, RErr IndexError)                       (* list assignment index out of range *)
    | Some k => after_set s (set_nth k g (segs s))
    end.
  Definition setslice (s : state) (a b : option Z) (gs : list seg) : state * result :=
    let '(lo, hi) := slice_bounds (length (segs s)) a b in
    after_set s (splice lo hi gs (segs s)).
  Definition delitem (s : state) (i : Z) : state * result :=
    match norm_index (length (segs s)) i with
    | None => (s, RErr IndexError)
    | Some k => (after_del s (del_nth k (segs s)), ROk)
    end.
  Definition delslice (s : state) (a b : option Z) : state * result :=
    let '(lo, hi) := slice_bounds (length (segs s)) a b in
    (after_del s (splice lo hi [] (segs s)), ROk).
  Definition insert (s : state) (i : Z) (g : seg) : state * result :=
    let k := clamp (length (segs s)) i in
    after_set s (splice k k [g] (segs s)).
  (* MutableSequence.append: self.insert(len(self), value) *)
  Definition append (s : state) (g : seg) : state * result :=
    insert s (Z.of_nat (length (segs s))) g.
  (* MutableSequence.extend: for v in values: self.append(v)   (values is not self) *)
  Fixpoint extend (s : state) (gs : list seg) : state * result :=
    match gs with
    | [] => (s, ROk)
    | g :: r => match append s g with
                | (s', ROk) => extend s' r
                | (s', e) => (s', e)
                end
    end.
  (* MutableSequence.pop: v = self[index]; del self[index]; return v *)
  Definition pop (s : state) (i : Z) : state * result :=
    match norm_index (length (segs s)) i with
    | None => (s, RErr IndexError)
    | Some k => match nth_error (segs s) k with
                | None => (s, RErr IndexError)
                | Some g => match delitem s i with
                            | (s', ROk) => (s', RSeg (sd g))
                            | r => r
                            end
                end
    end.
  (* MutableSequence.reverse:
       n = len(self)
       for i in range(n//2): self[i], self[n-i-1] = self[n-i-1], self[i]      *)
  Definition swap_step (n : nat) (acc : state * result) (i : nat) : state * result :=
    match acc with
    | (s, ROk) =>
        match nth_error (segs s) (n - i - 1), nth_error (segs s) i with
        | Some b, Some a =>
            match setitem s (Z.of_nat i) b with
            | (s1, ROk) => setitem s1 (Z.of_nat (n - i - 1)) a
            | r => r
            end
        | _, _ => (s, RErr IndexError)
        end
    | r => r
    end.
  Definition reverse (s : state) : state * result :=
    let n := length (segs s) in
    fold_left (swap_step n) (seq 0 (Nat.div n 2)) (s, ROk).
  (* Sequence.index + MutableSequence.remove: del self[self.index(value)] *)
  Fixpoint index_of (d : sdata) (l : list seg) (k : nat) : option nat :=
    match l with
    | [] => None
    | g :: r => if sdata_eqb (sd g) d then Some k else index_of d r (S k)
    end.
  Definition remove (s : state) (g : seg) : state * result :=
    match index_of (sd g) (segs s) O with
    | None => (s, RErr ValueError)
    | Some k => delitem s (Z.of_nat k)
    end.
  (* start.setter:  self._start = pt ; if len(self._segments)>0: self._segments[0].start = pt *)
  (* repaired: ... ; self._length = None   inside the `if` *)
  Definition setter_length (s : state) : option V :=
    match segs s with
    | [] => plength s
    | _ => if fx_setter fx then None else plength s
    end.
  Definition set_start (s : state) (z : pt) : state * result :=
    (mkSt (match segs s with [] => [] | g :: r => with_start g z :: r end)
          (setter_length s) (plengths s) (ptol s) (Some z) (pend s) (pclosed s), ROk).
  Fixpoint map_last {A} (f : A -> A) (l : list A) : list A :=
    match l with
    | [] => []
    | [a] => [f a]
    | a :: r => a :: map_last f r
    end.
  Definition set_end (s : state) (z : pt) : state * result :=
    (mkSt (map_last (fun g => with_end g z) (segs s))
          (setter_length s) (plengths s) (ptol s) (pstart s) (Some z) (pclosed s), ROk).

  Inductive op :=
  | SetItem (i : Z) (g : seg)
  | SetSlice (a b : option Z) (gs : list seg)
  | Insert (i : Z) (g : seg)
  | Append (g : seg)
  | Extend (gs : list seg)
  | DelItem (i : Z)
  | DelSlice (a b : option Z)
  | Pop (i : Z)
  | Reverse
  | Remove (g : seg)
  | SetStart (z : pt)
  | SetEnd (z : pt).

  Definition step (s : state) (o : op) : state * result :=
    match o with
    | SetItem i g => setitem s i g
    | SetSlice a b gs => setslice s a b gs
    | Insert i g => insert s i g
    | Append g => append s g
    | Extend gs => extend s gs
    | DelItem i => delitem s i
    | DelSlice a b => delslice s a b
    | Pop i => pop s i
    | Reverse => reverse s
    | Remove g => remove s g
    | SetStart z => set_start s z
    | SetEnd z => set_end s z
    end.

  (* ---------------------------------------------------------- queries *)
  Definition vsum (l : list V) : V := fold_left vadd l vzero.     (* sum(lengths) *)
  Definition fractions (vals : list V) : list V :=
    let total := vsum vals in
    if v_eqb total vzero then vals else map (fun v => vdiv v total) vals.

  Definition fill_lengths (t : tol) (s : state) : state :=
    let r := map (fun g => seg_length g t) (segs s) in
    let vals := map snd r in
    mkSt (map fst r) (Some (vsum vals)) (fractions vals) (Some t) (pstart s) (pend s) (pclosed s).
  Definition tol_is (o : option tol) (t : tol) : bool :=
    match o with Some t' => tol_eqb t' t | None => false end.
  (* pinned:    if self._length is not None: return
     repaired:  if self._length is not None and self._length_tol == (error, min_depth): return *)
  Definition calc_lengths (t : tol) (s : state) : state :=
    match plength s with
    | Some _ => if fx_calc fx && negb (tol_is (ptol s) t) then fill_lengths t s else s
    | None => fill_lengths t s
    end.

  Inductive value :=
  | VNat (n : nat)
  | VBool (b : bool)
  | VPt (o : option pt)
  | VNum (v : V)
  | VSegT (d : sdata) (t : V)          (* "segment with data d, evaluated at t" *)
  | VIdxT (k : Z) (t : V)              (* T2t's (seg_idx, t) *)
  | VHash (l : list sdata) (c : bool)  (* hash of this tuple *)
  | VD (closed : bool) (l : list sdata)(* d-string rendered from these segments, with/without Z *)
  | VBbox (l : list sdata)
  | VErr (e : exn).

  Definition is_falsy (o : option pt) : bool :=
    match o with None => true | Some z => pt_falsy z end.
  (* start property: if not self._start and len(self._segments)>0: self._start = self._segments[0].start *)
  Definition start_prop (s : state) : state * option pt :=
    if is_falsy (pstart s) then
      match first_start (segs s) with
      | Some z => (mkSt (segs s) (plength s) (plengths s) (ptol s) (Some z) (pend s) (pclosed s), Some z)
      | None => (s, pstart s)
      end
    else (s, pstart s).
  Definition end_prop (s : state) : state * option pt :=
    if is_falsy (pend s) then
      match last_end (segs s) with
      | Some z => (mkSt (segs s) (plength s) (plengths s) (ptol s) (pstart s) (Some z) (pclosed s), Some z)
      | None => (s, pend s)
      end
    else (s, pend s).

  (* Path._last_nonzero_length_index:
       for idx in reversed(range(len(self._lengths))):
           if self._lengths[idx] > 0: return idx
       return len(self._lengths) - 1                                          *)
  Fixpoint last_nonzero_from (fr : list V) (i : Z) (acc : option Z) : option Z :=
    match fr with
    | [] => acc
    | f :: r => last_nonzero_from r (i + 1) (if negb (v_geb vzero f) then Some i else acc)
    end.
  Definition last_nonzero_index (fr : list V) : Z :=
    match last_nonzero_from fr 0 None with
    | Some i => i
    | None => Z.of_nat (length fr) - 1
    end.
  (* Path.point, after the shortcuts; when the loop falls through:
       if 0 <= pos <= 1: return self._segments[self._last_nonzero_length_index()].point(1.0)
       raise RuntimeError                                                      *)
  Fixpoint point_loop (all : list sdata) (allfr : list V) (sds : list sdata) (fr : list V) (acc pos : V) : value :=
    match sds with
    | [] =>
        if v_geb pos vzero && v_geb vone pos then
          match norm_index (length all) (last_nonzero_index allfr) with
          | Some k => match nth_error all k with Some d => VSegT d vone | None => VErr IndexError end
          | None => VErr IndexError
          end
        else VErr RuntimeError
    | d :: r =>
        match fr with
        | [] => VErr IndexError
        | f :: fr' =>
            let e := vadd acc f in
            if v_geb e pos then VSegT d (vdiv (vsub pos acc) (vsub e acc))
            else point_loop all allfr r fr' e pos
        end
    end.
  (* Path.T2t, after the shortcuts:   t = min((T - T0)/seg_length, 1.0);  when the loop falls
     through:  assert 0 <= T <= 1;  return self._last_nonzero_length_index(), 1 *)
  Definition vmin1 (x : V) : V := if v_geb vone x then x else vone.     (* min(x, 1.0) *)
  Fixpoint t2t_loop (allfr : list V) (fr : list V) (idx : Z) (T0 T : V) : value :=
    match fr with
    | [] => if v_geb T vzero && v_geb vone T then VIdxT (last_nonzero_index allfr) vone
            else VErr AssertionError
    | f :: r =>
        let T1 := vadd T0 f in
        if v_geb T1 T then VIdxT idx (vmin1 (vdiv (vsub T T0) f)) else t2t_loop allfr r (idx + 1) T1 T
    end.
  Definition sds (s : state) : list sdata := map sd (segs s).
  Fixpoint iscontinuous (l : list sdata) : bool :=
    match l with
    | a :: ((b :: _) as r) => pt_eqb (send a) (sstart b) && iscontinuous r
    | _ => true
    end.
  Definition opt_pt_eqb (a b : option pt) : bool :=
    match a, b with
    | None, None => true
    | Some x, Some y => pt_eqb x y
    | _, _ => false
    end.
  Fixpoint sds_eqb (l1 l2 : list sdata) : bool :=
    match l1, l2 with
    | [], [] => true
    | a :: r1, b :: r2 => sdata_eqb a b && sds_eqb r1 r2
    | _, _ => false
    end.

  Inductive query :=
  | QLen
  | QStart
  | QEnd
  | QLength (t : tol)            (* length(error=, min_depth=) with T0 = 0, T1 = 1 *)
  | QPoint (pos : V)
  | QT2t (T : V)
  | QEq (other : list sdata)     (* self == Path of other *)
  | QHash
  | QD (use_closed_attrib : bool)
  | QBbox.

  Definition obs (s : state) (q : query) : state * value :=
    match q with
    | QLen => (s, VNat (length (segs s)))
    | QStart => let '(s', o) := start_prop s in (s', VPt o)
    | QEnd => let '(s', o) := end_prop s in (s', VPt o)
    | QLength t => let s' := calc_lengths t s in
                   (s', match plength s' with Some v => VNum v | None => VErr RuntimeError end)
    | QPoint pos =>
        match sds s with
        | [] => (s, VErr ValueError)
        | d0 :: _ =>
            if v_eqb pos vzero then (s, VSegT d0 pos)
            else if v_eqb pos vone then (s, VSegT (last (sds s) d0) pos)
            else let s' := calc_lengths t_def s in
                 (s', point_loop (sds s') (plengths s') (sds s') (plengths s') vzero pos)
        end
    | QT2t T =>
        if v_eqb T vone then (s, VIdxT (Z.of_nat (length (segs s)) - 1) vone)
        else if v_eqb T vzero then (s, VIdxT 0 vzero)
        else let s' := calc_lengths t_def s in (s', t2t_loop (plengths s') (plengths s') 0 vzero T)
    | QEq other => (s, VBool (sds_eqb (sds s) other))
    | QHash => (s, VHash (sds s) (if fx_hash fx then false else pclosed s))
    | QD uca =>
        match segs s with
        | [] => (s, VD false [])
        | _ =>
            if uca then
              if iscontinuous (sds s) then
                let '(s1, a) := start_prop s in
                let '(s2, b) := end_prop s1 in
                (s2, VD (opt_pt_eqb a b) (sds s))
              else (s, VD false (sds s))
            else (s, VD false (sds s))
        end
    | QBbox => match segs s with [] => (s, VErr ValueError) | _ => (s, VBbox (sds s)) end
    end.

  (* --------------------------------------------------------- histories *)
  Inductive event := EOp (o : op) | EQ (q : query).
  Inductive outcome := OutR (r : result) | OutV (v : value).
  Definition step_ev (s : state) (e : event) : state * outcome :=
    match e with
    | EOp o => let '(s', r) := step s o in (s', OutR r)
    | EQ q => let '(s', v) := obs s q in (s', OutV v)
    end.
  Definition run (s : state) (evs : list event) : state :=
    fold_left (fun s e => fst (step_ev s e)) evs s.
  Fixpoint trace (s : state) (evs : list event) : list outcome :=
    match evs with
    | [] => []
    | e :: r => let '(s', o) := step_ev s e in o :: trace s' r
    end.

  (* what the property compares with: a newly built Path of fresh segments
     carrying the current control data *)
  Definition fresh_of (s : state) : state := fresh (map clear_cache (segs s)).
  (* ... and a newly built Path of the very same segment objects *)
  Definition fresh_same (s : state) : state := fresh (segs s).
End Model.

(* ------------------------------------------------------------------------
   CubicBezier.reversed():
       new_cub = CubicBezier(self.end, self.control2, self.control1, self.start)
       if self._length_info['length']:
           new_cub._length_info = self._length_info          # the SAME dict
           new_cub._length_info['bpoints'] = (reversed bpoints)
   Returns (the original object as it is after the call, the new object).
   Both carry the one shared entry, re-keyed to the reversed control data;
   what later calls write into the shared dict is not followed further. *)
Section Reversed.
  Context {pt pay tol V : Type}.
  Variable fx : fixes.
  Variable pt_eqb : pt -> pt -> bool.
  Variable pay_eqb : pay -> pay -> bool.
  Variable rev_data : @sdata pt pay -> @sdata pt pay.
  Variable v_truthy : V -> bool.
  (* repaired:  if self._length_info['length'] and self._length_info['bpoints'] == self.bpoints():
                    new._length_info = dict(self._length_info); new._length_info['bpoints'] = new.bpoints()
     the original keeps its own dict untouched *)
  Definition seg_reversed (g : @seg pt pay tol V) : @seg pt pay tol V * @seg pt pay tol V :=
    match scache g with
    | Some c =>
        if v_truthy (cval c) then
          let c' := mkCE (rev_data (sd g)) (ctol c) (cval c) in
          if fx_rev fx then
            if sdata_eqb pt_eqb pay_eqb (ckey c) (sd g)
            then (g, mkSeg (rev_data (sd g)) (Some c'))
            else (g, fresh_seg (rev_data (sd g)))
          else (mkSeg (sd g) (Some c'), mkSeg (rev_data (sd g)) (Some c'))
        else (g, fresh_seg (rev_data (sd g)))
    | None => (g, fresh_seg (rev_data (sd g)))
    end.
End Reversed.
