(* Model/Extrema.v — hand-written models (as coded, including the bugs) of
     bezier.py   bezier_real_minmax, bezier_bounding_box
     polytools.py polyroots (realroots=True), polyroots01
     path.py     Line.bbox, Arc.bbox, Path.bbox,
                 Line.radialrange, bezier_radialrange, Path.radialrange,
                 closest_point_in_path, farthest_point_in_path
   np.roots is an ORACLE: every function that reaches it takes the oracle's
   output (a list of complex numbers) as an argument; the model contains the
   filtering / de-duplication / min / max logic that the code applies to it.
   Two variant flags select between the pinned source and its repairs:
     fixed  = false : polyroots' de-duplication AS PINNED (index of a close PAIR
                      used as index of a ROOT);
              true  : the repaired loop (drop the LATER root of a close pair) =
                      BezierN.dedup_fixed of property C19;
     stable = false : bezier_real_minmax closed form (tau -+ sqrt(delta))/denom;
              true  : the cancellation-free form q = tau + sign(tau) sqrt(delta),
                      r1 = q/denom, r2 = (a0 - a1)/q.
   The harnesses detect the variant of the tree under test by probing it.
   Properties C08 and C13. *)
From Coq Require Import ZArith List Bool.
From SVP Require Import Base.Num Base.Cplx Base.Poly.
From SVP Require Model.BezierN.     (* dedup_fixed: the index-correct de-duplication of property C19 *)
Import ListNotations.
Set Implicit Arguments.

Section Extrema.
  Context {K : Type} (N : Num K).
  Local Notation "x + y" := (add N x y).
  Local Notation "x - y" := (sub N x y).
  Local Notation "x * y" := (mul N x y).
  Local Notation "x / y" := (div N x y).
  Local Notation "- x" := (opp N x).
  Local Notation "# z" := (lit N z) (at level 1, format "# z").
  Local Notation "0" := (zero N).
  Local Notation "1" := (one N).

  (* ---------- Python min()/max() on a non-empty list: the FIRST extremal
     element is returned (the running value is replaced only on a strict
     improvement) ---------- *)
  Definition lmin (l : list K) : K :=
    match l with [] => 0 | x :: r => fold_left (nmin N) r x end.
  Definition lmax (l : list K) : K :=
    match l with [] => 0 | x :: r => fold_left (nmax N) r x end.
  (* min(l, key=itemgetter(0)) / max(l, key=itemgetter(0)) on (d, t) pairs *)
  Definition kmin_step (m y : K * K) : K * K := if ltb N (fst y) (fst m) then y else m.
  Definition kmax_step (m y : K * K) : K * K := if ltb N (fst m) (fst y) then y else m.
  Definition kmin (l : list (K * K)) : K * K :=
    match l with [] => (0, 0) | x :: r => fold_left kmin_step r x end.
  Definition kmax (l : list (K * K)) : K * K :=
    match l with [] => (0, 0) | x :: r => fold_left kmax_step r x end.

  Definition lt01 (r : K) : bool := ltb N 0 r && ltb N r 1.     (* 0 < r < 1 *)
  Definition le01 (r : K) : bool := leb N 0 r && leb N r 1.     (* 0 <= r <= 1 *)

  (* ================= Line.bbox ================= *)
  Definition line_bbox (s e : Cplx K) : K * K * K * K :=
    (nmin N (re s) (re e), nmax N (re s) (re e), nmin N (im s) (im e), nmax N (im s) (im e)).

  (* ================= polytools.polyroots, realroots=True =================
     atol, rtol: the defaults 1e-8, 1e-5 of misctools.isclose (binary64
     values; parameters here so that each instance supplies them exactly) *)
  Section Roots.
    Variables (atol rtol : K).
    (* misctools.isclose(a, b) = abs(a - b) < atol + rtol*abs(b) *)
    Definition isclose (a b : K) : bool := ltb N (nabs N (a - b)) (atol + rtol * nabs N b).

    (* itertools.combinations(l, 2), in order *)
    Fixpoint pairs (l : list K) : list (K * K) :=
      match l with [] => [] | x :: r => map (pair x) r ++ pairs r end.
    (* duplicates = [idx for idx, (r1, r2) in enumerate(pairs) if isclose(r1, r2)]
       — idx is the index of the PAIR *)
    Fixpoint dup_idx (i : nat) (ps : list (K * K)) : list nat :=
      match ps with
      | [] => []
      | (a, b) :: r => if isclose a b then i :: dup_idx (S i) r else dup_idx (S i) r
      end.
    (* [r for idx, r in enumerate(roots) if idx not in duplicates]
       — the same number is used as the index of a ROOT (as coded) *)
    Fixpoint drop_idx (i : nat) (dups : list nat) (l : list K) : list K :=
      match l with
      | [] => []
      | x :: r => if existsb (Nat.eqb i) dups then drop_idx (S i) dups r
                  else x :: drop_idx (S i) dups r
      end.
    Definition dedup_coded (l : list K) : list K := drop_idx O (dup_idx O (pairs l)) l.
    (* repaired:  for (i1, r1), (i2, r2) in combinations(enumerate(roots), 2):
                      if isclose(r1, r2): duplicates.add(i2)
       i.e. root j is dropped when some EARLIER root i < j (dropped or not) is
       isclose to it: exactly BezierN.dedup_fixed *)
    Definition dedup (fixed : bool) (l : list K) : list K :=
      if fixed then BezierN.dedup_fixed N rtol atol l else dedup_coded l.

    (* roots = np.roots(p)  [oracle output, argument]
       roots = [r.real for r in roots if isclose(r.imag, 0)]
       roots = [r for r in roots if condition(r)]; then the dedup loop *)
    Definition real_roots (roots : list (Cplx K)) : list K :=
      map (@re K) (filter (fun r => isclose (im r) 0) roots).
    Definition polyroots_real (fixed : bool) (cond : K -> bool) (roots : list (Cplx K)) : list K :=
      dedup fixed (filter cond (real_roots roots)).
    Definition polyroots01 (fixed : bool) (roots : list (Cplx K)) : list K := polyroots_real fixed le01 roots.
    Definition polyroots_open01 (fixed : bool) (roots : list (Cplx K)) : list K := polyroots_real fixed lt01 roots.
  End Roots.

  (* ================= bezier.bezier_real_minmax (4 real control values) ========= *)
  (* bezier_point(a, t) for len(a) = 4 *)
  Definition bpoint4 (a0 a1 a2 a3 t : K) : K :=
    a0 + t * (#3 * (a1 - a0) + t * ((#3 * (a0 + a2) - #6 * a1) + t * ((- a0 + #3 * (a1 - a2)) + a3))).
  Definition brm_denom (a0 a1 a2 a3 : K) : K := ((a0 - #3 * a1) + #3 * a2) - a3.
  Definition brm_delta (a0 a1 a2 a3 : K) : K :=
    ((a1 * a1 - (a0 + a1) * a2) + a2 * a2) + (a0 - a1) * a3.
  Definition brm_tau (a0 a1 a2 : K) : K := (a0 - #2 * a1) + a2.
End Extrema.

Section ExtremaT.
  Context {K : Type} (N : Num K) (T : NumT K).
  Local Notation "x + y" := (add N x y).
  Local Notation "x - y" := (sub N x y).
  Local Notation "x * y" := (mul N x y).
  Local Notation "x / y" := (div N x y).
  Local Notation "- x" := (opp N x).
  Local Notation "# z" := (lit N z) (at level 1, format "# z").
  Local Notation "0" := (zero N).
  Local Notation "1" := (one N).

  Definition brm_r1 (a0 a1 a2 a3 : K) : K :=
    (brm_tau N a0 a1 a2 + sqrt_ T (brm_delta N a0 a1 a2 a3)) / brm_denom N a0 a1 a2 a3.
  Definition brm_r2 (a0 a1 a2 a3 : K) : K :=
    (brm_tau N a0 a1 a2 - sqrt_ T (brm_delta N a0 a1 a2 a3)) / brm_denom N a0 a1 a2 a3.

  (* repaired closed form:  q = tau + sqdelta if tau >= 0 else tau - sqdelta
                            if q != 0: r1 = q/denom; r2 = (a[0] - a[1])/q   else: r1 = r2 = 0 *)
  Definition brm_q (a0 a1 a2 a3 : K) : K :=
    if leb N 0 (brm_tau N a0 a1 a2) then brm_tau N a0 a1 a2 + sqrt_ T (brm_delta N a0 a1 a2 a3)
    else brm_tau N a0 a1 a2 - sqrt_ T (brm_delta N a0 a1 a2 a3).
  Definition brm_roots (stable : bool) (a0 a1 a2 a3 : K) : K * K :=
    if stable then
      (if neqb N (brm_q a0 a1 a2 a3) 0
       then (brm_q a0 a1 a2 a3 / brm_denom N a0 a1 a2 a3, (a0 - a1) / brm_q a0 a1 a2 a3)
       else (0, 0))
    else (brm_r1 a0 a1 a2 a3, brm_r2 a0 a1 a2 a3).
  (* the list local_extremizers of the cubic closed form (denom != 0) *)
  Definition brm_closed_cands (stable : bool) (a0 a1 a2 a3 : K) : list K :=
    [0; 1] ++
    (if leb N 0 (brm_delta N a0 a1 a2 a3) then
       (if lt01 N (fst (brm_roots stable a0 a1 a2 a3)) then [fst (brm_roots stable a0 a1 a2 a3)] else []) ++
       (if lt01 N (snd (brm_roots stable a0 a1 a2 a3)) then [snd (brm_roots stable a0 a1 a2 a3)] else [])
     else []).
  (* denom = 0: local_extremizers += polyroots01(derivative coefficients) *)
  Definition brm_cands (stable fixed : bool) (atol rtol : K) (a0 a1 a2 a3 : K) (roots : list (Cplx K)) : list K :=
    if neqb N (brm_denom N a0 a1 a2 a3) 0 then brm_closed_cands stable a0 a1 a2 a3
    else [0; 1] ++ polyroots01 N atol rtol fixed roots.
  Definition bezier_real_minmax4 (stable fixed : bool) (atol rtol : K) (a0 a1 a2 a3 : K)
             (roots : list (Cplx K)) : K * K :=
    let ext := map (bpoint4 N a0 a1 a2 a3) (brm_cands stable fixed atol rtol a0 a1 a2 a3 roots) in
    (lmin N ext, lmax N ext).

  (* bezier_bounding_box, len(bez) = 4; rx / ry = np.roots output for the
     derivative of the x- / y-polynomial (consulted only when denom = 0) *)
  Definition cubic_bbox (stable fixed : bool) (atol rtol : K) (p0 p1 p2 p3 : Cplx K)
             (rx ry : list (Cplx K)) : K * K * K * K :=
    let '(xmin, xmax) := bezier_real_minmax4 stable fixed atol rtol (re p0) (re p1) (re p2) (re p3) rx in
    let '(ymin, ymax) := bezier_real_minmax4 stable fixed atol rtol (im p0) (im p1) (im p2) (im p3) ry in
    (xmin, xmax, ymin, ymax).

  (* bezier_bounding_box, other lengths: x, y = real/imag coefficient lists of
     bezier2polynomial (numpy order), extremizers [0,1] + polyroots(dx, 0<r<1),
     extrema evaluated by poly1d.__call__ (Horner) *)
  Definition poly_minmax (fixed : bool) (atol rtol : K) (p : list K) (roots : list (Cplx K)) : K * K :=
    let ext := map (peval N p) ([0; 1] ++ polyroots_open01 N atol rtol fixed roots) in
    (lmin N ext, lmax N ext).
  Definition poly_bbox (fixed : bool) (atol rtol : K) (px py : list K) (rx ry : list (Cplx K)) : K * K * K * K :=
    let '(xmin, xmax) := poly_minmax fixed atol rtol px rx in
    let '(ymin, ymax) := poly_minmax fixed atol rtol py ry in
    (xmin, xmax, ymin, ymax).
  (* QuadraticBezier.bbox: bezier2polynomial for 3 control points *)
  Definition quad_coeffs (a0 a1 a2 : K) : list K := [(a0 - #2 * a1) + a2; #2 * (a1 - a0); a0].
  Definition quad_bbox (fixed : bool) (atol rtol : K) (p0 p1 p2 : Cplx K) (rx ry : list (Cplx K)) : K * K * K * K :=
    poly_bbox fixed atol rtol (quad_coeffs (re p0) (re p1) (re p2)) (quad_coeffs (im p0) (im p1) (im p2)) rx ry.

  (* ================= Arc.bbox =================
     the Arc's derived parameters (theta, delta in degrees, phi in radians,
     center) are inputs: they are property C04's subject *)
  Record arcp := mkArcp { a_start : Cplx K; a_end : Cplx K; a_rx : K; a_ry : K;
                          a_phi : K; a_theta : K; a_delta : K; a_center : Cplx K }.
  (* Arc.point: cosphi, sinphi = rot_matrix = exp(1j*phi) *)
  Definition arc_angle (A : arcp) (t : K) : K := ((a_theta A + t * a_delta A) * pi_ T) / #180.
  Definition arc_xy (A : arcp) (ang : K) : Cplx K :=
    let cosphi := cos_ T (a_phi A) in let sinphi := sin_ T (a_phi A) in
    (((a_rx A * cosphi) * cos_ T ang - (a_ry A * sinphi) * sin_ T ang) + re (a_center A),
     ((a_rx A * sinphi) * cos_ T ang + (a_ry A * cosphi) * sin_ T ang) + im (a_center A)).
  Definition arc_point (A : arcp) (t : K) : Cplx K := arc_xy A (arc_angle A t).

  Definition arc_atans (A : arcp) : K * K :=
    if eqb N (cos_ T (a_phi A)) 0 then (pi_ T / #2, 0)
    else if eqb N (sin_ T (a_phi A)) 0 then (0, pi_ T / #2)
    else (atan_ T ((- (a_ry A / a_rx A)) * tan_ T (a_phi A)),
          atan_ T ((a_ry A / a_rx A) / tan_ T (a_phi A))).
  Definition angle_inv (A : arcp) (ang : K) (k : Z) : K :=
    (((ang + pi_ T * #k) * (#360 / (#2 * pi_ T))) - a_theta A) / a_delta A.
  Definition arc_ks : list Z := [-4; -3; -2; -1; 0; 1; 2; 3; 4]%Z.     (* range(-4, 5) *)
  (* the t-values whose point is appended to xtrema / ytrema *)
  Definition arc_ts (A : arcp) (ang : K) : list K :=
    filter (le01 N) (map (angle_inv A ang) arc_ks).
  Definition arc_bbox (A : arcp) : K * K * K * K :=
    let '(atan_x, atan_y) := arc_atans A in
    let xtrema := [re (a_start A); re (a_end A)] ++ map (fun t => re (arc_point A t)) (arc_ts A atan_x) in
    let ytrema := [im (a_start A); im (a_end A)] ++ map (fun t => im (arc_point A t)) (arc_ts A atan_y) in
    (lmin N xtrema, lmax N xtrema, lmin N ytrema, lmax N ytrema).

  (* ================= Path.bbox ================= *)
  Definition path_bbox (bbs : list (K * K * K * K)) : K * K * K * K :=
    (lmin N (map (fun b => fst (fst (fst b))) bbs), lmax N (map (fun b => snd (fst (fst b))) bbs),
     lmin N (map (fun b => snd (fst b)) bbs), lmax N (map (fun b => snd b) bbs)).

  (* ================= Line.radialrange ================= *)
  Definition cabs (z : Cplx K) : K := hypot_ T (re z) (im z).
  Definition line_pt (s e : Cplx K) (t : K) : Cplx K :=       (* Line.point: start + (end-start)*t *)
    ((re s + (re e - re s) * t), (im s + (im e - im s) * t)).
  Definition line_radialrange (s e z : Cplx K) : (K * K) * (K * K) :=
    let dx := re e - re s in let dy := im e - im s in
    let t := (dx * (re z - re s) + dy * (im z - im s)) / (dx * dx + dy * dy) in
    let d0 := cabs (csub N s z) in let d1 := cabs (csub N e z) in
    if lt01 N t then
      let dt := cabs (csub N (line_pt s e t) z) in
      if ltb N d0 d1 then ((dt, t), (d1, 1)) else ((dt, t), (d0, 0))
    else
      if ltb N d0 d1 then ((d0, 0), (d1, 1)) else ((d1, 1), (d0, 0)).

  (* ================= bezier_radialrange =================
     poly: seg.poly() coefficients (complex, numpy order); point: seg.point *)
  Fixpoint shift_const (p : list (Cplx K)) (z : Cplx K) : list (Cplx K) :=   (* poly1d - scalar *)
    match p with
    | [] => []
    | [c] => [csub N c z]
    | c :: q => c :: shift_const q z
    end.
  Definition r_squared (p : list (Cplx K)) (z : Cplx K) : list K :=
    let sp := shift_const p z in
    let X := map (@re K) sp in let Y := map (@im K) sp in
    padd N (pmul N X X) (pmul N Y Y).
  Definition r_squared_deriv (p : list (Cplx K)) (z : Cplx K) : list K := pderiv N (r_squared p z).
  (* roots: np.roots(r_squared.deriv()) *)
  Definition radial_cands (fixed : bool) (atol rtol : K) (roots : list (Cplx K)) : list K :=
    [0; 1] ++ polyroots01 N atol rtol fixed roots.
  Definition bezier_radialrange (fixed : bool) (atol rtol : K) (point : K -> Cplx K) (z : Cplx K)
             (roots : list (Cplx K)) : (K * K) * (K * K) :=
    let extrema := map (fun t => (cabs (csub N (point t) z), t)) (radial_cands fixed atol rtol roots) in
    (kmin N extrema, kmax N extrema).

  (* ================= Path.radialrange =================
     global_min = (inf, None, None) is [None]; global_max = (0, None, None) is
     [(0, None)].  segs: the per-segment results in path order. *)
  Definition gmin_t := option (K * K * nat).
  Definition gmax_t := (K * option (K * nat))%type.
  Definition prr_step (st : gmin_t * gmax_t) (ir : nat * ((K * K) * (K * K))) : gmin_t * gmax_t :=
    let '(gmin, gmax) := st in
    let '(i, ((dmin, tmin), (dmax, tmax))) := ir in
    ((match gmin with
      | None => Some (dmin, tmin, i)                       (* anything < inf *)
      | Some (d, _, _) => if ltb N dmin d then Some (dmin, tmin, i) else gmin
      end),
     (if ltb N (fst gmax) dmax then (dmax, Some (tmax, i)) else gmax)).
  Fixpoint enum_from {A} (i : nat) (l : list A) : list (nat * A) :=
    match l with [] => [] | x :: r => (i, x) :: enum_from (S i) r end.
  Definition path_radialrange (segs : list ((K * K) * (K * K))) : gmin_t * gmax_t :=
    fold_left prr_step (enum_from O segs) (None, (0, None)).
  Definition closest_point_in_path (segs : list ((K * K) * (K * K))) : gmin_t :=
    fst (path_radialrange segs).
  Definition farthest_point_in_path (segs : list ((K * K) * (K * K))) : gmax_t :=
    snd (path_radialrange segs).
End ExtremaT.
