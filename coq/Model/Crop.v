(* Model/Crop.v — hand-written models of the "same curve, other parameter"
   operations of svgpathtools/path.py (property C09):

     crop_bezier(seg, t0, t1)                         path.py 577-596
     Line.reversed / cropped / split                  path.py 707, 801, 806
     QuadraticBezier / CubicBezier .reversed/.split/.cropped
     (Arc.reversed / split / cropped: Model/CropArc.v)
     Path.reversed                                    path.py 2531
     Path.cropped                                     path.py 3031-3090

   The models mirror what the code DOES.  Oracles are explicit inputs:
     * crop_bezier relocates t1 on the trimmed piece with
       `trimmed_seg.radialrange(pt1)[0][1]` (a numeric minimiser, C13):
       its answer [t1adj] is an input of the model;
     * Path.cropped asks Path.T2t for (index, t) of T0 and T1 (C05): the two
       answers [r0], [r1] are inputs (path_cropped_T2t plugs in a T2t function,
       e.g. Model/PathIdx.v's), and isclosed() (which can raise AssertionError)
       is the input [closed].
   Exceptions are values of [res] (Err EAssert = AssertionError,
   Err EValue = ValueError, Err EIndex = IndexError; EBug / EZeroDiv / ERuntime
   can only come in through the T2t answers). *)
From Coq Require Import ZArith List Bool Arith.
From SVP Require Import Base.Num Base.Cplx Model.Bezier.
Import ListNotations.
Set Implicit Arguments.

(* outcomes: a value or the class of the exception raised.  (Self-contained
   on purpose: Model/PathIdx.v has types of the same shape for C05.) *)
Inductive perr := EValue | EAssert | EIndex | EBug | EZeroDiv | ERuntime.
Inductive res (A : Type) := Ok (a : A) | Err (e : perr).
Arguments Ok {A} _. Arguments Err {A} _.

Definition rbind {A B} (r : res A) (f : A -> res B) : res B :=
  match r with Ok a => f a | Err e => Err e end.

(* ================================================================== *)
(* Bezier segments: control polygons (bpoints()), any degree           *)
(* ================================================================== *)
Section CropBezier.
  Context {K : Type} (N : Num K).

  (* QuadraticBezier.split / CubicBezier.split:
       bpoints1, bpoints2 = split_bezier(self.bpoints(), t)
       return Cls(bpoints1...), Cls(bpoints2...) *)
  Definition bez_split (p : list (Cplx K)) (t : K) : list (Cplx K) * list (Cplx K) :=
    split_bezier N p t.

  (* crop_bezier, recursion unfolded:
       assert t0 < t1
       if t0 == 0:   cropped_seg = seg.split(t1)[0]
       elif t1 == 1: cropped_seg = seg.split(t0)[1]
       else: pt1 = seg.point(t1)
             trimmed_seg = crop_bezier(seg, t0, 1)        -> assert t0 < 1; seg.split(t0)[1]
             t1_adj = trimmed_seg.radialrange(pt1)[0][1]  -> ORACLE
             cropped_seg = crop_bezier(trimmed_seg, 0, t1_adj)
                                                          -> assert 0 < t1_adj; trimmed.split(t1_adj)[0] *)
  Definition crop_bezier (p : list (Cplx K)) (t0 t1 t1adj : K) : list (Cplx K) :=
    if eqb N t0 (zero N) then fst (bez_split p t1)
    else if eqb N t1 (one N) then snd (bez_split p t0)
    else fst (bez_split (snd (bez_split p t0)) t1adj).
  (* the asserts that must hold for crop_bezier to return *)
  Definition crop_bezier_pre (t0 t1 t1adj : K) : bool :=
    ltb N t0 t1 &&
    (eqb N t0 (zero N) || eqb N t1 (one N) || (ltb N t0 (one N) && ltb N (zero N) t1adj)).
  Definition crop_bezier_res (p : list (Cplx K)) (t0 t1 t1adj : K) : res (list (Cplx K)) :=
    if crop_bezier_pre t0 t1 t1adj then Ok (crop_bezier p t0 t1 t1adj) else Err EAssert.
  (* ---- variant of the relocation (an = false: the code as pinned, t1_adj is the ORACLE's answer
     `trimmed_seg.radialrange(pt1)[0][1]`; an = true: the repaired code
     `t1_adj = (t1 - t0)/(1 - t0)`, no oracle) ---- *)
  Definition crop_adj (an : bool) (t0 t1 oracle : K) : K :=
    if an then div N (sub N t1 t0) (sub N (one N) t0) else oracle.
  Definition crop_bezier_v (an : bool) (p : list (Cplx K)) (t0 t1 oracle : K) : list (Cplx K) :=
    crop_bezier p t0 t1 (crop_adj an t0 t1 oracle).
  Definition crop_bezier_pre_v (an : bool) (t0 t1 oracle : K) : bool :=
    crop_bezier_pre t0 t1 (crop_adj an t0 t1 oracle).
  Definition crop_bezier_res_v (an : bool) (p : list (Cplx K)) (t0 t1 oracle : K) : res (list (Cplx K)) :=
    crop_bezier_res p t0 t1 (crop_adj an t0 t1 oracle).
  (* the point handed to the oracle: pt1 = seg.point(t1); and the piece it searches *)
  Definition crop_trimmed (p : list (Cplx K)) (t0 : K) : list (Cplx K) := snd (bez_split p t0).

  (* reversed(): control points in opposite order
       Line(self.end, self.start)
       QuadraticBezier(self.end, self.control, self.start)
       CubicBezier(self.end, self.control2, self.control1, self.start) *)
  Definition line_reversed (s e : Cplx K) : Cplx K * Cplx K := (e, s).
  Definition quad_reversed (s c e : Cplx K) : Cplx K * Cplx K * Cplx K := (e, c, s).
  Definition cubic_reversed (s c1 c2 e : Cplx K) : Cplx K * Cplx K * Cplx K * Cplx K :=
    (e, c2, c1, s).
  Definition bez_reversed (p : list (Cplx K)) : list (Cplx K) := rev p.

  (* Line.cropped: Line(self.point(t0), self.point(t1)) *)
  Definition line_cropped (s e : Cplx K) (t0 t1 : K) : Cplx K * Cplx K :=
    (line_point N s e t0, line_point N s e t1).
  (* Line.split: pt = self.point(t); Line(self.start, pt), Line(pt, self.end) *)
  Definition line_split (s e : Cplx K) (t : K) : (Cplx K * Cplx K) * (Cplx K * Cplx K) :=
    let pt := line_point N s e t in ((s, pt), (pt, e)).
End CropBezier.

(* ================================================================== *)
(* Path.reversed                                                       *)
(*   newpath = [seg.reversed() for seg in self]; newpath.reverse()     *)
(* ================================================================== *)
Section PathReversed.
  Context {S : Type} (reversed : S -> S).
  Definition path_reversed (segs : list S) : list S := rev (map reversed segs).
End PathReversed.

(* ================================================================== *)
(* Path.cropped over an abstract segment type                          *)
(* ================================================================== *)
(* one segment of the returned path: [p_orig] = it is the very object
   self[p_idx] (appended un-cropped), otherwise it is the result of
   self[p_idx].cropped(p_a, p_b) *)
Record piece (S K : Type) := mkPiece { p_orig : bool; p_idx : nat; p_a : K; p_b : K; p_seg : S }.

(* self[a:b] *)
Definition slice {A} (p : list A) (a b : nat) : list A := firstn (b - a) (skipn a p).

Section PathCropped.
  Context {K : Type} (N : Num K) {S : Type}.
  Definition in01 (T : K) : bool := leb N (zero N) T && leb N T (one N).
  Variable crop : S -> K -> K -> res S.       (* seg.cropped(t0, t1) *)
  Variable seq : S -> S -> bool.              (* Python == on segments *)
  Variables atol rtol : K.                    (* np.isclose defaults 1e-8, 1e-5 *)

  (* np.isclose(a, b): |a - b| <= atol + rtol*|b| *)
  Definition isclose (a b : K) : bool :=
    leb N (nabs N (sub N a b)) (add N atol (mul N rtol (nabs N b))).

  (* self.index(seg) for seg = self[k] (collections.abc.Sequence.index):
     the first j with  self[j] is seg  or  self[j] == seg *)
  Fixpoint index_from (l : list S) (j k : nat) (v : S) : option nat :=
    match l with
    | [] => None
    | x :: r => if (j =? k)%nat || seq x v then Some j else index_from r (Datatypes.S j) k v
    end.
  Definition py_index (segs : list S) (k : nat) : option nat :=
    match nth_error segs k with
    | Some v => index_from segs 0 k v
    | None => None
    end.

  Definition getseg (segs : list S) (i : nat) : res S :=
    match nth_error segs i with Some s => Ok s | None => Err EIndex end.
  (* self[k] for the k returned by T2t (an int >= 0, or len-1 = -1 for the empty path) *)
  Definition zindex (segs : list S) (k : Z) : res nat :=
    if (0 <=? k)%Z && (k <? Z.of_nat (length segs))%Z then Ok (Z.to_nat k) else Err EIndex.
  Definition zmodn (z : Z) (n : nat) : nat := Z.to_nat (z mod Z.of_nat n).

  (* ---- variants of the code (repairs of three defects; all false = the code as pinned) ----
     ix: i0 / i1 are the indices T2t returned (seg0_idx, seg1_idx) instead of
         self.index(seg) = the FIRST EQUAL segment;
     hw: an np.isclose hand-over neither wraps around an end of the path nor
         moves the start beyond the end (block inserted after the two locations);
     tz: `if T1 == 0 and 0 < T0 < 1 and self.isclosed(): return self.cropped(T0, 1)`. *)
  Definition py_index_v (ix : bool) (segs : list S) (k : nat) : option nat :=
    if ix then Some k else py_index segs k.

  (* where the crop ends:
       if T1 == 1: seg1 = self[-1]; t_seg1 = 1; i1 = len(self) - 1
       else: seg1_idx, t_seg1 = self.T2t(T1); seg1 = self[seg1_idx]
             if np.isclose(t_seg1, 0): i1 = (self.index(seg1) - 1) % len(self)
                                       seg1 = self[i1]; t_seg1 = 1
             else: i1 = self.index(seg1)
     (ix: seg1_idx in place of self.index(seg1)) *)
  (* result: (i1, t_seg1, index of the object seg1): in the last branch seg1 stays
     self[seg1_idx] while i1 = self.index(seg1) may be an EARLIER equal segment *)
  Definition loc : Type := (nat * K * nat)%type.
  Definition loc1_v (ix : bool) (segs : list S) (T1 : K) (r1 : res (Z * K)) : res loc :=
    if eqb N T1 (one N) then
      (if (length segs =? 0)%nat then Err EIndex
       else Ok ((length segs - 1)%nat, one N, (length segs - 1)%nat))
    else rbind r1 (fun kt =>
         rbind (zindex segs (fst kt)) (fun k =>
         match py_index_v ix segs k with
         | None => Err EValue
         | Some j =>
             if isclose (snd kt) (zero N)
             then let i := zmodn (Z.of_nat j - 1) (length segs) in Ok (i, one N, i)
             else Ok (j, snd kt, k)
         end)).
  Definition loc1 := loc1_v false.
  (* where it starts:
       if T0 == 0: seg0 = self[0]; t_seg0 = 0; i0 = 0
       else: seg0_idx, t_seg0 = self.T2t(T0); seg0 = self[seg0_idx]
             if np.isclose(t_seg0, 1): i0 = (self.index(seg0) + 1) % len(self)
                                       seg0 = self[i0]; t_seg0 = 0
             else: i0 = self.index(seg0) *)
  Definition loc0_v (ix : bool) (segs : list S) (T0 : K) (r0 : res (Z * K)) : res loc :=
    if eqb N T0 (zero N) then
      (if (length segs =? 0)%nat then Err EIndex else Ok (0%nat, zero N, 0%nat))
    else rbind r0 (fun kt =>
         rbind (zindex segs (fst kt)) (fun k =>
         match py_index_v ix segs k with
         | None => Err EValue
         | Some j =>
             if isclose (snd kt) (one N)
             then let i := zmodn (Z.of_nat j + 1) (length segs) in Ok (i, zero N, i)
             else Ok (j, snd kt, k)
         end)).
  Definition loc0 := loc0_v false.

  (* for i in range(a, b): new_path.append(self[i]) *)
  Definition origs (segs : list S) (a b : nat) : res (list (piece S K)) :=
    fold_right (fun i acc =>
                  rbind (getseg segs i) (fun s =>
                  rbind acc (fun l => Ok (mkPiece true i (zero N) (one N) s :: l))))
               (Ok []) (List.seq a (b - a)).

  (* the pieces, once the two locations l0 = (i0, t_seg0, position of seg0),
     l1 = (i1, t_seg1, position of seg1) are known:
       if T0 < T1 and i0 == i1: new_path = Path(seg0.cropped(t_seg0, t_seg1))
       else:
           new_path = Path(seg0.cropped(t_seg0, 1))
           if T1 < T0:
               if not self.isclosed(): raise ValueError(...)
               else: for i in range(i0 + 1, len(self)): new_path.append(self[i])
                     for i in range(0, i1): new_path.append(self[i])
           else: for i in range(i0 + 1, i1): new_path.append(self[i])
           if t_seg1 != 0: new_path.append(seg1.cropped(0, t_seg1)) *)
  Definition assemble (segs : list S) (T0 T1 : K) (closed : res bool) (l0 l1 : loc)
    : res (list (piece S K)) :=
    let i1 := fst (fst l1) in let t1 := snd (fst l1) in let j1 := snd l1 in
    let i0 := fst (fst l0) in let t0 := snd (fst l0) in let j0 := snd l0 in
    rbind (getseg segs j1) (fun s1 =>
    rbind (getseg segs j0) (fun s0 =>
    if ltb N T0 T1 && (i0 =? i1)%nat then
      rbind (crop s0 t0 t1) (fun c => Ok [mkPiece false j0 t0 t1 c])
    else
      rbind (crop s0 t0 (one N)) (fun c0 =>
      rbind (if ltb N T1 T0 then
               rbind closed (fun cl =>
                 if cl then
                   rbind (origs segs (i0 + 1) (length segs)) (fun m1 =>
                   rbind (origs segs 0 i1) (fun m2 => Ok (m1 ++ m2)))
                 else Err EValue)
             else origs segs (i0 + 1) i1) (fun mid =>
      if neqb N t1 (zero N) then
        rbind (crop s1 (zero N) t1) (fun c1 =>
          Ok (mkPiece false j0 t0 (one N) c0 :: mid ++ [mkPiece false j1 (zero N) t1 c1]))
      else Ok (mkPiece false j0 t0 (one N) c0 :: mid))))).

  (* the hw repair, inserted between the locations and the assembly:
       if T1 != 1:
           k1, t1_raw = self.T2t(T1)
           if k1 == 0 and np.isclose(t1_raw, 0):       # end within tolerance of the start of the path
               seg1, i1 = self[0], 0
               t_seg1 = 0 if T1 < T0 else t1_raw
       if T0 != 0:
           k0, t0_raw = self.T2t(T0)
           if k0 == len(self) - 1 and np.isclose(t0_raw, 1):   # start within tolerance of the end
               if T0 < T1 or t_seg1 == 0: seg0, i0, t_seg0 = self[k0], k0, t0_raw
               elif self.isclosed(): return self.cropped(0, T1)
               (else: open path with T1 < T0, left as it is: the ValueError follows)
       if T0 < T1 and i0 > i1:                           # both within tolerance of one joint
           seg0, i0, t_seg0 = self[k0], k0, t0_raw
           seg1, i1, t_seg1 = self[k1], k1, t1_raw *)
  Inductive locs := Locs (l0 l1 : loc) | Again.        (* Again = `return self.cropped(0, T1)` *)
  Definition raw_loc (kt : Z * K) : loc := (Z.to_nat (fst kt), snd kt, Z.to_nat (fst kt)).
  Definition fix_hand (segs : list S) (T0 T1 : K) (r0 r1 : res (Z * K)) (closed : res bool)
             (l0 l1 : loc) : res locs :=
    rbind (if eqb N T1 (one N) then Ok l1
           else rbind r1 (fun kt =>
                  if (fst kt =? 0)%Z && isclose (snd kt) (zero N)
                  then Ok (0%nat, (if ltb N T1 T0 then zero N else snd kt), 0%nat)
                  else Ok l1)) (fun l1' =>
    rbind (if eqb N T0 (zero N) then Ok (Locs l0 l1')
           else rbind r0 (fun kt =>
                  if (fst kt =? Z.of_nat (length segs) - 1)%Z && isclose (snd kt) (one N)
                  then if ltb N T0 T1 || eqb N (snd (fst l1')) (zero N)
                       then Ok (Locs (raw_loc kt) l1')
                       else rbind closed (fun cl => if cl then Ok Again else Ok (Locs l0 l1'))
                  else Ok (Locs l0 l1'))) (fun lr =>
    match lr with
    | Again => Ok Again
    | Locs l0' l1'' =>
        if ltb N T0 T1 && (fst (fst l1'') <? fst (fst l0'))%nat
        then rbind r0 (fun kt0 => rbind r1 (fun kt1 => Ok (Locs (raw_loc kt0) (raw_loc kt1))))
        else Ok (Locs l0' l1'')
    end)).

  Definition locs_v (ix hw : bool) (segs : list S) (T0 T1 : K) (r0 r1 : res (Z * K))
             (closed : res bool) : res locs :=
    rbind (loc1_v ix segs T1 r1) (fun l1 =>
    rbind (loc0_v ix segs T0 r0) (fun l0 =>
    if hw then fix_hand segs T0 T1 r0 r1 closed l0 l1 else Ok (Locs l0 l1))).

  (* the plan of a crop: effective T0, T1 and the two locations.  The part of cropped()
     after the asserts and the top-level redirects: *)
  Definition plan : Type := (K * K * loc * loc)%type.
  Definition plan_main (ix hw : bool) (segs : list S) (T0 T1 : K) (r0 r1 : res (Z * K))
             (closed : res bool) : res plan :=
    rbind (locs_v ix hw segs T0 T1 r0 r1 closed) (fun lr =>
    match lr with
    | Locs l0 l1 => Ok (T0, T1, l0, l1)
    | Again =>                                       (* self.cropped(0, T1): T0 == 0 cannot redirect again *)
        rbind (locs_v ix hw segs (zero N) T1 (Ok (0%Z, zero N)) r1 closed) (fun lr' =>
        match lr' with
        | Locs l0 l1 => Ok (zero N, T1, l0, l1)
        | Again => Err ERuntime
        end)
    end).
  Definition run_plan (segs : list S) (closed : res bool) (p : plan) : res (list (piece S K)) :=
    let '(T0, T1, l0, l1) := p in assemble segs T0 T1 closed l0 l1.

  (*   assert 0 <= T0 <= 1 and 0 <= T1 <= 1
       assert T0 != T1
       assert not (T0 == 1 and T1 == 0)
       if T0 == 1 and 0 < T1 < 1 and self.isclosed(): return self.cropped(0, T1)
       (tz:) if T1 == 0 and 0 < T0 < 1 and self.isclosed(): return self.cropped(T0, 1) *)
  Definition crop_plan (ix hw tz : bool) (segs : list S) (T0 T1 : K) (r0 r1 : res (Z * K))
             (closed : res bool) : res plan :=
    if negb (in01 T0 && in01 T1) then Err EAssert
    else if eqb N T0 T1 then Err EAssert
    else if eqb N T0 (one N) && eqb N T1 (zero N) then Err EAssert
    else
      let rest :=
        if tz && eqb N T1 (zero N) && ltb N (zero N) T0 && ltb N T0 (one N) then
          rbind closed (fun cl =>
            if cl then plan_main ix hw segs T0 (one N) r0 (Ok (Z.of_nat (length segs) - 1, one N))%Z closed
            else plan_main ix hw segs T0 T1 r0 r1 closed)
        else plan_main ix hw segs T0 T1 r0 r1 closed in
      if eqb N T0 (one N) && ltb N (zero N) T1 && ltb N T1 (one N) then
        rbind closed (fun cl =>
          if cl then plan_main ix hw segs (zero N) T1 (Ok (0%Z, zero N)) r1 closed
          else rest)
      else rest.
  Definition path_cropped_v (ix hw tz : bool) (segs : list S) (T0 T1 : K) (r0 r1 : res (Z * K))
             (closed : res bool) : res (list (piece S K)) :=
    rbind (crop_plan ix hw tz segs T0 T1 r0 r1 closed) (run_plan segs closed).

  (* the code as pinned *)
  Definition path_cropped_main (segs : list S) (T0 T1 : K) (r0 r1 : res (Z * K))
             (closed : res bool) : res (list (piece S K)) :=
    rbind (plan_main false false segs T0 T1 r0 r1 closed) (run_plan segs closed).
  Definition path_cropped := path_cropped_v false false false.

  Definition piece_segs (ps : list (piece S K)) : list S := map (@p_seg S K) ps.
End PathCropped.

(* Path.cropped with a T2t function plugged in ([t2t] = self.T2t, e.g.
   PathIdx.T2t N comp cl fb tl for the tagged segment lengths tl) *)
Section PathCroppedT2t.
  Context {K : Type} (N : Num K) {S : Type}.
  Variable crop : S -> K -> K -> res S.
  Variable seq : S -> S -> bool.
  Variables atol rtol : K.
  Variable t2t : K -> res (Z * K).
  Definition path_cropped_T2t (segs : list S) (T0 T1 : K) (closed : res bool)
    : res (list (piece S K)) :=
    path_cropped N crop seq atol rtol segs T0 T1 (t2t T0) (t2t T1) closed.
End PathCroppedT2t.

(* binary64 values of numpy's default tolerances *)
Section Tol.
  Context {K : Type} (N : Num K).
  Definition np_atol : K := dyadic N 3022314549036573%Z (Zneg 78).   (* 1e-08 *)
  Definition np_rtol : K := dyadic N 5902958103587057%Z (Zneg 69).   (* 1e-05 *)
End Tol.
