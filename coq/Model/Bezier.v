(* Model/Bezier.v — hand-written models of the Line / QuadraticBezier /
   CubicBezier evaluation code (svgpathtools/path.py) and of the generic
   helpers in svgpathtools/bezier.py, plus the mathematical specification
   (the Bernstein form).  The generated counterparts live in Gen/ and are
   proved equal to these in GenAgree/. *)
From Coq Require Import ZArith List Bool.
From SVP Require Import Base.Num Base.Cplx Base.Poly.
Import ListNotations.
Set Implicit Arguments.

(* Pascal's triangle: the specification of n_choose_k *)
Fixpoint binom (n k : nat) : nat :=
  match n, k with
  | _, O => 1
  | O, S _ => 0
  | S n', S k' => binom n' k' + binom n' k
  end.

Fixpoint fact (n : nat) : Z :=
  match n with O => 1%Z | S m => (Z.of_nat (S m) * fact m)%Z end.

(* bezier.py n_choose_k: fac(n)//fac(k)//fac(n-k) *)
Definition n_choose_k (n k : nat) : Z := ((fact n / fact k) / fact (n - k))%Z.

Section Bezier.
  Context {K : Type} (N : Num K).
  Local Notation "x + y" := (cadd N x y).
  Local Notation "x - y" := (csub N x y).
  Local Notation "r ** z" := (cscale N r z) (at level 40, left associativity).
  Local Notation "# z" := (lit N z) (at level 1, format "# z").

  (* ---------------- specification: Bernstein form ---------------- *)
  Definition bern_basis (n i : nat) (t : K) : K :=
    mul N (mul N (lit N (Z.of_nat (binom n i))) (npow N (sub N (one N) t) (n - i))) (npow N t i).
  Fixpoint bern_from (n i : nat) (p : list (Cplx K)) (t : K) : Cplx K :=
    match p with
    | [] => c0 N
    | q :: p' => bern_basis n i t ** q + bern_from n (S i) p' t
    end.
  (* sum_i C(n,i) (1-t)^(n-i) t^i P_i  with n = length p - 1 *)
  Definition bern (p : list (Cplx K)) (t : K) : Cplx K := bern_from (length p - 1) 0 p t.

  (* ---------------- path.py segment classes ---------------- *)
  Definition line_point (s e : Cplx K) (t : K) : Cplx K := s + t ** (e - s).
  Definition quad_point (s c e : Cplx K) (t : K) : Cplx K :=
    let tc := sub N (one N) t in
    mul N tc tc ** s + mul N (mul N #2 tc) t ** c + mul N t t ** e.
  Definition cubic_point (s c1 c2 e : Cplx K) (t : K) : Cplx K :=
    s + t ** (#3 ** (c1 - s) + t ** ((#3 ** (s + c2) - #6 ** c1)
            + t ** (copp N s + #3 ** (c1 - c2) + e))).

  Definition line_poly (s e : Cplx K) : list (Cplx K) := [e - s; s].
  Definition quad_poly (s c e : Cplx K) : list (Cplx K) :=
    [s - #2 ** c + e; #2 ** (c - s); s].
  Definition cubic_poly (s c1 c2 e : Cplx K) : list (Cplx K) :=
    [copp N s + #3 ** (c1 - c2) + e; #3 ** (s - #2 ** c1 + c2); #3 ** (copp N s + c1); s].

  (* derivative(t, n); None = ValueError("n should be a positive integer") *)
  Definition line_deriv (s e : Cplx K) (t : K) (n : Z) : option (Cplx K) :=
    if Z.eqb n 1 then Some (e - s) else if Z.gtb n 1 then Some (c0 N) else None.
  Definition quad_deriv (s c e : Cplx K) (t : K) (n : Z) : option (Cplx K) :=
    if Z.eqb n 1 then Some (#2 ** (sub N (one N) t ** (c - s) + t ** (e - c)))
    else if Z.eqb n 2 then Some (#2 ** (e - #2 ** c + s))
    else if Z.gtb n 2 then Some (c0 N) else None.
  Definition cubic_deriv (s c1 c2 e : Cplx K) (t : K) (n : Z) : option (Cplx K) :=
    let u := sub N (one N) t in
    if Z.eqb n 1 then
      Some (mul N #3 (mul N u u) ** (c1 - s) + mul N (mul N #6 u) t ** (c2 - c1)
            + mul N #3 (mul N t t) ** (e - c2))
    else if Z.eqb n 2 then
      Some (#6 ** (u ** (c2 - #2 ** c1 + s) + t ** (e - #2 ** c2 + c1)))
    else if Z.eqb n 3 then Some (#6 ** (e - #3 ** (c2 - c1) - s))
    else if Z.gtb n 3 then Some (c0 N) else None.

  (* points(ts) = poly()(ts) *)
  Definition seg_points (poly : list (Cplx K)) (ts : list K) : list (Cplx K) :=
    map (cpeval N poly) ts.

  (* bezier.py polynomial2bezier / path.py poly2bez (coefficients highest first) *)
  Definition poly2bez (c : list (Cplx K)) : option (list (Cplx K)) :=
    match c with
    | [a3; a2; a1; a0] =>
        Some [a0; cdivr N a1 #3 + a0; cdivr N (a2 + #2 ** a1) #3 + a0; a3 + a2 + a1 + a0]
    | [a2; a1; a0] => Some [a0; cdivr N a1 #2 + a0; a2 + a1 + a0]
    | [a1; a0] => Some [a0; a1 + a0]
    | _ => None   (* AssertionError *)
    end.

  (* bezier.py bezier_point: Horner for degree <= 3, Bernstein sum above *)
  Definition bezier_point (p : list (Cplx K)) (t : K) : Cplx K :=
    match p with
    | [p0] => p0
    | [p0; p1] => p0 + t ** (p1 - p0)
    | [p0; p1; p2] => p0 + t ** (#2 ** (p1 - p0) + t ** (p0 - #2 ** p1 + p2))
    | [p0; p1; p2; p3] =>
        p0 + t ** (#3 ** (p1 - p0) + t ** ((#3 ** (p0 + p2) - #6 ** p1)
             + t ** (copp N p0 + #3 ** (p1 - p2) + p3)))
    | _ => bern p t
    end.

  (* bezier.py split_bezier: de Casteljau; left = first points of each level,
     right = last points of each level, reversed *)
  Fixpoint dc_step (p : list (Cplx K)) (t : K) : list (Cplx K) :=
    match p with
    | a :: (b :: _) as q => (sub N (one N) t ** a + t ** b) :: dc_step q t
    | _ => []
    end.
  Fixpoint dc_levels (fuel : nat) (p : list (Cplx K)) (t : K) : list (list (Cplx K)) :=
    match fuel with
    | O => []
    | S f => match p with
             | [] => []
             | [_] => [p]
             | _ => p :: dc_levels f (dc_step p t) t
             end
    end.
  Definition split_bezier (p : list (Cplx K)) (t : K) : list (Cplx K) * list (Cplx K) :=
    let lv := dc_levels (length p) p t in
    (map (fun l => hd (c0 N) l) lv, rev (map (fun l => last l (c0 N)) lv)).

  (* bezier.py halve_bezier: explicit formulas for cubics, split_bezier(p, 0.5) otherwise *)
  Definition halve_bezier (p : list (Cplx K)) : list (Cplx K) * list (Cplx K) :=
    match p with
    | [p0; p1; p2; p3] =>
        let m := cdivr N (p0 + #3 ** p1 + #3 ** p2 + p3) #8 in
        ([p0; cdivr N (p0 + p1) #2; cdivr N (p0 + #2 ** p1 + p2) #4; m],
         [m; cdivr N (p1 + #2 ** p2 + p3) #4; cdivr N (p2 + p3) #2; p3])
    | _ => split_bezier p (div N (one N) #2)
    end.
End Bezier.
