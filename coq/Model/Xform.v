(* Model/Xform.v — hand-written model of the geometric transformations of
   svgpathtools/path.py (lines 188-352): transform_segments_together, rotate,
   translate, scale, transform, and the .translated/.rotated/.scaled methods
   (which only forward to these functions).

   It mirrors what the code DOES, statement by statement (the Python source is
   quoted in the comments), over an arbitrary carrier (N : Num K); the arc
   kernels additionally take the transcendental record (T : NumT K) because
   they end in the Arc constructor (Model/Arc.v, arc_init).

   Conventions
   * a Bezier segment (Line / QuadraticBezier / CubicBezier) is the list of its
     2 / 3 / 4 control points (what .bpoints() returns; bpoints2bezier is the
     inverse and asserts the length);
   * exp(1j*radians(degs)) enters the Bezier kernels as DATA cs = (cos, sin), so
     that they run in exact rationals; cs_of_degs gives the value as coded;
   * float*complex and complex/int are component-wise (Base/Cplx.v);
   * the numpy pieces of transform(): tf.dot(column) is the exact row-by-column
     sum, np.linalg.inv of the 2x2 block is the exact adjugate formula, and
     np.linalg.eig is an ORACLE (a parameter returning eigenvalues and the
     matrix whose columns are eigenvectors) — nothing about it is assumed here;
   * the Arc branch of transform() exists in two variants selected by a flag tfx
     (false = the pinned code with the eigen oracle, arc_transform; true = the
     repaired code of fixes/C10-arc-transform.diff, arc_transform_fixed: closed-form
     eigen-decomposition of M.M^T, no oracle). *)
From Coq Require Import ZArith List Bool Arith.
From SVP Require Import Base.Num Base.Cplx Base.Poly Model.Bezier Model.BezierN Model.Arc.
Import ListNotations.
Set Implicit Arguments.

(* outcome of an operation *)
Inductive xres (A : Type) :=
| XOk (a : A)
| XRefused      (* raise Exception("For `Arc` objects, only scale transforms with sx==sy are implemented.") *)
| XAssert.      (* AssertionError of bpoints2bezier / polynomial2bezier: not 2, 3 or 4 control points *)
Arguments XOk {A} _. Arguments XRefused {A}. Arguments XAssert {A}.

Definition xmap {A B} (f : A -> B) (r : xres A) : xres B :=
  match r with XOk a => XOk (f a) | XRefused => XRefused | XAssert => XAssert end.
(* [transformation(seg) for seg in path]: the first failure propagates *)
Fixpoint xmapM {A B} (f : A -> xres B) (l : list A) : xres (list B) :=
  match l with
  | [] => XOk []
  | a :: r => match f a with
              | XOk b => match xmapM f r with XOk bs => XOk (b :: bs) | XRefused => XRefused | XAssert => XAssert end
              | XRefused => XRefused
              | XAssert => XAssert
              end
  end.

(* a path segment *)
Inductive Seg (K : Type) :=
| SBez (p : list (Cplx K))    (* Line / QuadraticBezier / CubicBezier by its control points *)
| SArc (P : ArcP K).
Arguments SBez {K} _. Arguments SArc {K} _.

Definition Mat3 (K : Type) : Type := ((K * K * K) * (K * K * K) * (K * K * K))%type.
(* np.linalg.eig on a 2x2 matrix given by rows: (eigvals, eigvecs by rows);
   eigvecs[:, 0] is the first column *)
Definition Mat2 (K : Type) : Type := ((K * K) * (K * K))%type.
Definition EigOracle (K : Type) : Type := Mat2 K -> (K * K) * Mat2 K.

(* ------------------------------------------------------------------ *)
(* transform_segments_together: pure data movement, any segment / point type *)
(* ------------------------------------------------------------------ *)
Section Together.
  Context {S P : Type}.
  Variables (s_start s_end : S -> P) (set_end : S -> P -> S) (peq : P -> P -> bool).
  (* false = the code: Path.joints() is  a, b = tee(self); next(b, None); zip(a, b)
     i.e. the n-1 pairs (s0,s1) ... (s_{n-2}, s_{n-1}); its docstring promises the
     closing pair (s_{n-1}, s0) as well — true adds it (the repaired variant) *)
  Variable closing_joint : bool.

  Definition joints (path : list S) : list (S * S) :=
    combine path (tl path ++ (if closing_joint then firstn 1 path else [])).

  Fixpoint upd (i : nat) (g : S -> S) (l : list S) : list S :=
    match l, i with
    | [], _ => []
    | x :: r, O => g x :: r
    | x :: r, Datatypes.S j => x :: upd j g r
    end.

  (* one iteration of
       for i, (sa, sb) in enumerate(path.joints()):
           if sa.end == sb.start:
               transformed_segs[i].end = transformed_segs[(i + 1) % len(path)].start *)
  Definition sync_step (n : nat) (segs : list S) (ij : nat * (S * S)) : list S :=
    let '(i, (sa, sb)) := ij in
    if peq (s_end sa) (s_start sb) then
      match nth_error segs (Datatypes.S i mod n) with
      | Some nxt => upd i (fun x => set_end x (s_start nxt)) segs
      | None => segs
      end
    else segs.

  Definition sync (path transformed_segs : list S) : list S :=
    let js := joints path in
    fold_left (sync_step (length path)) (combine (seq 0 (length js)) js) transformed_segs.

  (* transformed_segs = [transformation(seg) for seg in path]; loop; Path( *transformed_segs) *)
  Definition together (transformation : S -> S) (path : list S) : list S :=
    sync path (map transformation path).
  Definition together_x (transformation : S -> xres S) (path : list S) : xres (list S) :=
    xmap (sync path) (xmapM transformation path).
End Together.

(* ------------------------------------------------------------------ *)
(* Bezier kernels: only field operations                                *)
(* ------------------------------------------------------------------ *)
Section Bez.
  Context {K : Type} (N : Num K).
  Local Notation C := (Cplx K).

  Definition half : K := div N (one N) (lit N 2).        (* the literal 0.5 *)

  (* Line.point / QuadraticBezier.point / CubicBezier.point (Model/Bezier.v) *)
  Definition bez_point (p : list C) (t : K) : C :=
    match p with
    | [s; e] => line_point N s e t
    | [s; c; e] => quad_point N s c e t
    | [s; c1; c2; e] => cubic_point N s c1 c2 e t
    | _ => c0 N
    end.
  (* bpoints2bezier: order = len(bpoints) - 1 in (1,2,3), else AssertionError *)
  Definition bpoints2bezier (p : list C) : xres (list C) :=
    match p with
    | [_; _] | [_; _; _] | [_; _; _; _] => XOk p
    | _ => XAssert
    end.

  (* translate:  bpoints2bezier([bpt + z0 for bpt in curve.bpoints()]) *)
  Definition bez_translate (z0 : C) (p : list C) : list C := map (fun bpt => cadd N bpt z0) p.

  (* rotate:  def rotate_point(z): return exp(1j*radians(degs))*(z - origin) + origin *)
  Definition rotate_point (cs origin z : C) : C := cadd N (cmul N cs (csub N z origin)) origin.
  (* bpoints2bezier([rotate_point(bpt) for bpt in curve.bpoints()]) *)
  Definition bez_rotate (cs origin : C) (p : list C) : list C := map (rotate_point cs origin) p.
  (* origin = curve.point(0.5) *)
  Definition bez_default_origin (p : list C) : C := bez_point p half.

  (* scale:  def _scale(z): if sy is None: return sx*z
                            return sx*z.real + isy*z.imag        (isy = 1j*sy) *)
  Definition scale_c (sx : K) (sy : option K) (z : C) : C :=
    match sy with
    | None => cscale N sx z
    | Some sy' => (mul N sx (re z), mul N sy' (im z))
    end.
  (* p[-1] += c *)
  Fixpoint add_last (q : list C) (c : C) : list C :=
    match q with
    | [] => []
    | [a] => [cadd N a c]
    | a :: r => a :: add_last r c
    end.
  (* def scale_bezier(bez):
         p = [_scale(c) for c in bez2poly(bez)]
         p[-1] += origin - _scale(origin)
         return poly2bez(p) *)
  Definition scale_bezier (sx : K) (sy : option K) (origin : C) (p : list C) : xres (list C) :=
    let q := map (scale_c sx sy) (bezier2polynomial N p) in
    let q := add_last q (csub N origin (scale_c sx sy origin)) in
    match poly2bez N q with Some b => XOk b | None => XAssert end.

  (* what scaling about origin should do to a point *)
  Definition scale_point (sx : K) (sy : option K) (origin z : C) : C :=
    cadd N (scale_c sx sy (csub N z origin)) origin.

  (* transform:  if all((tf == np.eye(3)).ravel()): return curve *)
  Definition mat_is_identity (M : Mat3 K) : bool :=
    let '((m00, m01, m02), (m10, m11, m12), (m20, m21, m22)) := M in
    eqb N m00 (one N) && eqb N m01 (zero N) && eqb N m02 (zero N) &&
    eqb N m10 (zero N) && eqb N m11 (one N) && eqb N m12 (zero N) &&
    eqb N m20 (zero N) && eqb N m21 (zero N) && eqb N m22 (one N).
  (* to_complex(tf.dot(to_point(p))):  to_point(p) = [[p.real],[p.imag],[1.0]],
     to_complex(v) = v.item(0) + 1j*v.item(1)   (the third row is never used) *)
  Definition tf_point (M : Mat3 K) (p : C) : C :=
    let '((m00, m01, m02), (m10, m11, m12), _) := M in
    (add N (add N (mul N m00 (re p)) (mul N m01 (im p))) (mul N m02 (one N)),
     add N (add N (mul N m10 (re p)) (mul N m11 (im p))) (mul N m12 (one N))).
  (* bpoints2bezier([to_complex(tf.dot(to_point(p))) for p in curve.bpoints()]) *)
  Definition bez_transform (M : Mat3 K) (p : list C) : list C :=
    if mat_is_identity M then p else map (tf_point M) p.
End Bez.

(* ------------------------------------------------------------------ *)
(* arc kernels and the dispatch on the segment class                     *)
(* ------------------------------------------------------------------ *)
Section Arcs.
  Context {K : Type} (N : Num K) (T : NumT K).
  Local Notation C := (Cplx K).

  (* exp(1j*radians(degs)) *)
  Definition cs_of_degs (degs : K) : C := (cos_ T (radians_ T degs), sin_ T (radians_ T degs)).

  (* translate, Arc branch:
       new_start = curve.start + z0; new_end = curve.end + z0
       Arc(new_start, radius=curve.radius, rotation=curve.rotation,
           large_arc=curve.large_arc, sweep=curve.sweep, end=new_end) *)
  Definition arc_translate (z0 : C) (P : ArcP K) : ArcP K :=
    arc_init N T (cadd N (a_start P) z0) (a_radius P) (a_rotation P) (a_large P) (a_sweep P)
             (cadd N (a_end P) z0).

  (* rotate, Arc branch:
       new_start = rotate_point(curve.start); new_end = rotate_point(curve.end)
       new_rotation = curve.rotation + degs
       Arc(new_start, radius=curve.radius, rotation=new_rotation, ..., end=new_end) *)
  Definition arc_rotate (degs : K) (cs origin : C) (P : ArcP K) : ArcP K :=
    arc_init N T (rotate_point N cs origin (a_start P)) (a_radius P) (add N (a_rotation P) degs)
             (a_large P) (a_sweep P) (rotate_point N cs origin (a_end P)).

  (* scale, Arc branch:
       if sy is None or sy == sx:
           Arc(start=sx*(curve.start - origin) + origin, radius=sx*curve.radius,
               rotation=curve.rotation, large_arc=..., sweep=..., end=sx*(curve.end - origin) + origin)
       else: raise Exception(...) *)
  Definition arc_scale (sx : K) (sy : option K) (origin : C) (P : ArcP K) : xres (ArcP K) :=
    if (match sy with None => true | Some sy' => eqb N sy' sx end) then
      XOk (arc_init N T (cadd N (cscale N sx (csub N (a_start P) origin)) origin)
                    (cscale N sx (a_radius P)) (a_rotation P) (a_large P) (a_sweep P)
                    (cadd N (cscale N sx (csub N (a_end P) origin)) origin))
    else XRefused.

  (* transform, Arc branch (as coded):
       new_start = to_complex(tf.dot(to_point(curve.start))); new_end likewise
       rx2 = curve.radius.real ** 2; ry2 = curve.radius.imag ** 2
       Q = np.array([[1/rx2, 0], [0, 1/ry2]])
       invT = np.linalg.inv(tf[:2,:2])
       D = reduce(np.matmul, [invT.T, Q, invT])
       eigvals, eigvecs = np.linalg.eig(D)
       rx = 1 / np.sqrt(eigvals[0]); ry = 1 / np.sqrt(eigvals[1])
       new_radius = complex(rx, ry)
       xeigvec = eigvecs[:, 0]; rot = np.degrees(np.arccos(xeigvec[0]))
       if new_radius.real == 0 or new_radius.imag == 0: return Line(new_start, new_end)
       else:
           if tf[0][0] * tf[1][1] >= 0.0: new_sweep = curve.sweep
           else: new_sweep = not curve.sweep
           return Arc(new_start, radius=new_radius, rotation=curve.rotation + rot,
                      large_arc=curve.large_arc, sweep=new_sweep, end=new_end, autoscale_radius=True) *)
  Definition inv2 (A : Mat2 K) : Mat2 K :=
    let '((a, b), (c, d)) := A in
    let det := sub N (mul N a d) (mul N b c) in
    ((div N d det, div N (opp N b) det), (div N (opp N c) det, div N a det)).
  Definition arc_tf_D (M : Mat3 K) (radius : C) : Mat2 K :=
    let '((m00, m01, _), (m10, m11, _), _) := M in
    let q0 := div N (one N) (mul N (re radius) (re radius)) in
    let q1 := div N (one N) (mul N (im radius) (im radius)) in
    let '((i00, i01), (i10, i11)) := inv2 ((m00, m01), (m10, m11)) in
    (* (invT.T @ Q) @ invT with the structural zeros of Q dropped *)
    let a00 := mul N i00 q0 in let a01 := mul N i10 q1 in
    let a10 := mul N i01 q0 in let a11 := mul N i11 q1 in
    ((add N (mul N a00 i00) (mul N a01 i10), add N (mul N a00 i01) (mul N a01 i11)),
     (add N (mul N a10 i00) (mul N a11 i10), add N (mul N a10 i01) (mul N a11 i11))).
  Definition arc_transform (eig : EigOracle K) (M : Mat3 K) (P : ArcP K) : Seg K :=
    if mat_is_identity N M then SArc P else
    let new_start := tf_point N M (a_start P) in
    let new_end := tf_point N M (a_end P) in
    let '((ev0, ev1), ((v00, _), (_, _))) := eig (arc_tf_D M (a_radius P)) in
    let rx := div N (one N) (sqrt_ T ev0) in
    let ry := div N (one N) (sqrt_ T ev1) in
    let rot := degrees_ T (acos_ T v00) in
    if eqb N rx (zero N) || eqb N ry (zero N) then SBez [new_start; new_end]
    else
      let '((m00, _, _), (_, m11, _), _) := M in
      let new_sweep := if leb N (zero N) (mul N m00 m11) then a_sweep P else negb (a_sweep P) in
      SArc (arc_init N T new_start (rx, ry) (add N (a_rotation P) rot) (a_large P) new_sweep new_end).

  (* transform, Arc branch, REPAIRED (fixes/C10-arc-transform.diff):
       a00, a01 = tf[0][0], tf[0][1]; a10, a11 = tf[1][0], tf[1][1]
       det = a00*a11 - a01*a10
       cosphi = curve.rot_matrix.real; sinphi = curve.rot_matrix.imag
       rx = curve.radius.real; ry = curve.radius.imag
       m00 = (a00*cosphi + a01*sinphi)*rx;  m01 = (a01*cosphi - a00*sinphi)*ry
       m10 = (a10*cosphi + a11*sinphi)*rx;  m11 = (a11*cosphi - a10*sinphi)*ry
       p = m00*m00 + m01*m01; q = m00*m10 + m01*m11; r = m10*m10 + m11*m11
       half_diff = (p - r)/2
       lam = (p + r)/2 + np.hypot(half_diff, q)
       if det == 0 or not lam > 0: return Line(new_start, new_end)
       new_rx = np.sqrt(lam); new_ry = abs(det)*rx*ry/new_rx
       if new_ry == 0: return Line(new_start, new_end)
       rot = np.degrees(np.arctan2(q, half_diff)/2)
       new_sweep = curve.sweep if det > 0 else not curve.sweep
       return Arc(new_start, radius=complex(new_rx, new_ry), rotation=rot,
                  large_arc=curve.large_arc, sweep=new_sweep, end=new_end, autoscale_radius=True) *)
  (* np.arctan2(y, x) from atan and the quadrant of (x, y) *)
  Definition atan2_ (y x : K) : K :=
    if ltb N (zero N) x then atan_ T (div N y x)
    else if ltb N x (zero N) then
      (if leb N (zero N) y then add N (atan_ T (div N y x)) (pi_ T)
       else sub N (atan_ T (div N y x)) (pi_ T))
    else if ltb N (zero N) y then div N (pi_ T) (two N)
    else if ltb N y (zero N) then opp N (div N (pi_ T) (two N))
    else zero N.
  (* M = A.R(phi).diag(rx, ry) *)
  Definition arc_tf_M (M : Mat3 K) (P : ArcP K) : Mat2 K :=
    let '((a00, a01, _), (a10, a11, _), _) := M in
    let cosphi := re (a_rot P) in let sinphi := im (a_rot P) in
    let rx := re (a_radius P) in let ry := im (a_radius P) in
    ((mul N (add N (mul N a00 cosphi) (mul N a01 sinphi)) rx,
      mul N (sub N (mul N a01 cosphi) (mul N a00 sinphi)) ry),
     (mul N (add N (mul N a10 cosphi) (mul N a11 sinphi)) rx,
      mul N (sub N (mul N a11 cosphi) (mul N a10 sinphi)) ry)).
  Definition tf_det (M : Mat3 K) : K :=
    let '((a00, a01, _), (a10, a11, _), _) := M in sub N (mul N a00 a11) (mul N a01 a10).
  (* (p, q, r) of M.M^T, half_diff, lam *)
  Definition arc_tf_pqr (M2 : Mat2 K) : K * K * K :=
    let '((m00, m01), (m10, m11)) := M2 in
    (add N (mul N m00 m00) (mul N m01 m01),
     add N (mul N m00 m10) (mul N m01 m11),
     add N (mul N m10 m10) (mul N m11 m11)).
  Definition arc_tf_half_diff (pqr : K * K * K) : K :=
    let '(p, _, r) := pqr in div N (sub N p r) (two N).
  Definition arc_tf_lam (pqr : K * K * K) : K :=
    let '(p, q, r) := pqr in
    add N (div N (add N p r) (two N)) (hypot_ T (arc_tf_half_diff pqr) q).
  Definition arc_tf_new_rx (M : Mat3 K) (P : ArcP K) : K :=
    sqrt_ T (arc_tf_lam (arc_tf_pqr (arc_tf_M M P))).
  Definition arc_tf_new_ry (M : Mat3 K) (P : ArcP K) : K :=
    div N (mul N (mul N (nabs N (tf_det M)) (re (a_radius P))) (im (a_radius P))) (arc_tf_new_rx M P).
  Definition arc_tf_new_rot (M : Mat3 K) (P : ArcP K) : K :=
    let pqr := arc_tf_pqr (arc_tf_M M P) in
    let '(_, q, _) := pqr in
    degrees_ T (div N (atan2_ q (arc_tf_half_diff pqr)) (two N)).
  Definition arc_transform_fixed (M : Mat3 K) (P : ArcP K) : Seg K :=
    if mat_is_identity N M then SArc P else
    let new_start := tf_point N M (a_start P) in
    let new_end := tf_point N M (a_end P) in
    let det := tf_det M in
    let lam := arc_tf_lam (arc_tf_pqr (arc_tf_M M P)) in
    if eqb N det (zero N) || negb (ltb N (zero N) lam) then SBez [new_start; new_end] else
    let new_rx := arc_tf_new_rx M P in
    let new_ry := arc_tf_new_ry M P in
    if eqb N new_ry (zero N) then SBez [new_start; new_end] else
    let new_sweep := if ltb N (zero N) det then a_sweep P else negb (a_sweep P) in
    SArc (arc_init N T new_start (new_rx, new_ry) (arc_tf_new_rot M P) (a_large P) new_sweep new_end).
  (* tfx selects the variant of the Arc branch: false = pinned code (with its eigen oracle),
     true = repaired code (no oracle) *)
  Definition arc_transform_v (tfx : bool) (eig : EigOracle K) (M : Mat3 K) (P : ArcP K) : Seg K :=
    if tfx then arc_transform_fixed M P else arc_transform eig M P.

  (* ---- segment accessors ---- *)
  Definition seg_start (s : Seg K) : C :=
    match s with SBez p => hd (c0 N) p | SArc P => a_start P end.
  Definition seg_end (s : Seg K) : C :=
    match s with SBez p => last p (c0 N) | SArc P => a_end P end.
  (* seg.end = z : a plain attribute assignment for all four classes; on an Arc
     the derived attributes (center, theta, delta) are NOT recomputed *)
  Definition seg_set_end (s : Seg K) (z : C) : Seg K :=
    match s with
    | SBez p => SBez (removelast p ++ [z])
    | SArc P => SArc (mkArcP (a_start P) (a_radius P) (a_rotation P) (a_large P) (a_sweep P) z
                             (a_center P) (a_theta P) (a_delta P) (a_phi P) (a_rot P))
    end.
  Definition seg_point (s : Seg K) (t : K) : C :=
    match s with SBez p => bez_point N p t | SArc P => arc_point N T P t end.

  (* ---- the four functions on one segment ---- *)
  Definition seg_translate (z0 : C) (s : Seg K) : xres (Seg K) :=
    match s with
    | SBez p => xmap SBez (bpoints2bezier (bez_translate N z0 p))
    | SArc P => XOk (SArc (arc_translate z0 P))
    end.
  (* if origin is None: origin = curve.center if Arc else curve.point(0.5) *)
  Definition seg_default_origin (s : Seg K) : C :=
    match s with SBez p => bez_default_origin N p | SArc P => a_center P end.
  Definition seg_rotate (degs : K) (cs : C) (origin : option C) (s : Seg K) : xres (Seg K) :=
    let o := match origin with Some o => o | None => seg_default_origin s end in
    match s with
    | SBez p => xmap SBez (bpoints2bezier (bez_rotate N cs o p))
    | SArc P => XOk (SArc (arc_rotate degs cs o P))
    end.
  Definition seg_scale (sx : K) (sy : option K) (origin : C) (s : Seg K) : xres (Seg K) :=
    match s with
    | SBez p => xmap SBez (scale_bezier N sx sy origin p)
    | SArc P => xmap SArc (arc_scale sx sy origin P)
    end.
  Definition seg_transform (tfx : bool) (eig : EigOracle K) (M : Mat3 K) (s : Seg K) : xres (Seg K) :=
    match s with
    | SBez p => if mat_is_identity N M then XOk s
                else xmap SBez (bpoints2bezier (map (tf_point N M) p))
    | SArc P => XOk (arc_transform_v tfx eig M P)
    end.

  (* ---- the four functions on a Path (list of segments) ---- *)
  Variable closing_joint : bool.     (* false = the code, see Together *)
  Definition path_sync := sync seg_start seg_end seg_set_end (ceqb N) closing_joint.
  Definition path_together := together_x seg_start seg_end seg_set_end (ceqb N) closing_joint.

  Definition path_translate (z0 : C) (path : list (Seg K)) : xres (list (Seg K)) :=
    path_together (seg_translate z0) path.
  (* origin: the explicit argument, or Path.point(0.5) (Model/PathIdx.v) passed in as data;
     transformation = lambda seg: rotate(seg, degs, origin=origin) *)
  Definition path_rotate (degs : K) (cs origin : C) (path : list (Seg K)) : xres (list (Seg K)) :=
    path_together (seg_rotate degs cs (Some origin)) path.
  Definition path_scale (sx : K) (sy : option K) (origin : C) (path : list (Seg K)) :=
    path_together (seg_scale sx sy origin) path.
  Definition path_transform (tfx : bool) (eig : EigOracle K) (M : Mat3 K) (path : list (Seg K)) :=
    if mat_is_identity N M then XOk path
    else path_together (seg_transform tfx eig M) path.

  (* Path.isclosedac: self.start == self.end  (first start, last end) *)
  Definition path_closed (path : list (Seg K)) : bool :=
    match path with
    | [] => false
    | s0 :: _ => ceqb N (seg_start s0) (seg_end (last path s0))
    end.
End Arcs.
