(* Model/IsectExec.v — execution instance of [Num] on Bignums' BigQ (exact
   rationals on machine-integer limbs).  Used ONLY by the C12 correspondence
   check to run Model/Isect.v's crossing_count (Sturm / Tarski remainder
   sequences, whose coefficients reach several hundred bits) on the exact
   binary64 inputs; Qc's unary-binary gcd makes the same computation ~10x
   slower.  No theorem depends on this file. *)
From Coq Require Import ZArith QArith List Bool.
From Bignums Require Import BigZ BigN BigQ.
From SVP Require Import Base.Num Base.Cplx.
Import ListNotations.

Definition bq_ltb (x y : bigQ) : bool := match BigQ.compare x y with Lt => true | _ => false end.
Definition bq_leb (x y : bigQ) : bool := match BigQ.compare x y with Gt => false | _ => true end.
Definition NumBQ : Num bigQ :=
  mkNum BigQ.zero BigQ.one BigQ.add_norm BigQ.sub_norm BigQ.mul_norm BigQ.div_norm BigQ.opp
        BigQ.inv_norm BigQ.eq_bool bq_ltb bq_leb.
(* n/d as a reduced BigQ *)
Definition bqc (n : Z) (d : positive) : bigQ := BigQ.red (BigQ.Qq (BigZ.of_Z n) (BigN.of_pos d)).
