(* Model/CropArc.v — Arc.reversed / Arc.split / Arc.cropped (path.py 1924,
   2296, 2301) at the level of the constructor arguments: each of them builds a
   NEW Arc, i.e. re-runs Arc.__init__/_parameterize (Model/Arc.v's arc_init) on
   (start, radius, rotation, large_arc, sweep, end).  autoscale_radius is the
   default True as in Model/Arc.v.  Part of property C09. *)
From Coq Require Import ZArith List Bool.
From SVP Require Import Base.Num Base.Cplx Model.Arc Model.Crop.
Import ListNotations.
Set Implicit Arguments.

(* ================================================================== *)
(* Arc: at the level of the constructor arguments                      *)
(* ================================================================== *)
Section CropArc.
  (* fx selects the variant of Arc._parameterize's radical rule modelled in
     Model/Arc.v (arc_init_v): false = the np.isclose snap, true = the repaired
     rule; arc_init_v N T false is arc_init N T by definition *)
  Context {K : Type} (N : Num K) (T : NumT K) (fx : bool).

  (* the six constructor arguments *)
  Definition arc_args : Type := (Cplx K * Cplx K * K * bool * bool * Cplx K)%type.
  Definition arc_of_args (a : arc_args) : ArcP K :=
    let '(s, r, rot, la, sw, e) := a in arc_init_v N T fx s r rot la sw e.

  (* Arc.cropped:
       if abs(self.delta*(t1 - t0)) <= 180: new_large_arc = 0  else: new_large_arc = 1
       return Arc(self.point(t0), radius=self.radius, rotation=self.rotation,
                  large_arc=new_large_arc, sweep=self.sweep, end=self.point(t1),
                  autoscale_radius=self.autoscale_radius) *)
  Definition arc_crop_large (P : ArcP K) (t0 t1 : K) : bool :=
    negb (leb N (nabs N (mul N (a_delta P) (sub N t1 t0))) (d180 N)).
  Definition arc_cropped_args (P : ArcP K) (t0 t1 : K) : arc_args :=
    (arc_point N T P t0, a_radius P, a_rotation P, arc_crop_large P t0 t1, a_sweep P,
     arc_point N T P t1).
  (* Arc.__init__ asserts start != end (radius != 0 holds for a stored radius) *)
  Definition arc_args_ok (a : arc_args) : bool :=
    let '(s, r, _, _, _, e) := a in arc_admissible N s r e.
  Definition arc_cropped (P : ArcP K) (t0 t1 : K) : res (ArcP K) :=
    let a := arc_cropped_args P t0 t1 in
    if arc_args_ok a then Ok (arc_of_args a) else Err EAssert.

  (* Arc.reversed: Arc(self.end, self.radius, self.rotation, self.large_arc,
                       not self.sweep, self.start) *)
  Definition arc_reversed_args (P : ArcP K) : arc_args :=
    (a_end P, a_radius P, a_rotation P, a_large P, negb (a_sweep P), a_start P).
  Definition arc_reversed (P : ArcP K) : res (ArcP K) :=
    let a := arc_reversed_args P in
    if arc_args_ok a then Ok (arc_of_args a) else Err EAssert.

  (* Arc.split: return self.cropped(0, t), self.cropped(t, 1) *)
  Definition arc_split (P : ArcP K) (t : K) : res (ArcP K * ArcP K) :=
    rbind (arc_cropped P (zero N) t) (fun a =>
    rbind (arc_cropped P t (one N)) (fun b => Ok (a, b))).
End CropArc.

