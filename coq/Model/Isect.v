(* Model/Isect.v — hand-written model of the intersection code of svgpathtools
   (properties C11, C12):

     path.py    Line.intersect / QuadraticBezier.intersect / CubicBezier.intersect /
                Arc.intersect (dispatch only; the arc solvers are abstract), Path.intersect
     bezier.py  bezier_by_line_intersections, bezier_intersections (BPair worklist,
                ApproxSolutionSet, the remove-while-iterating loop), box_area,
                interval_intersection_width, boxes_intersect, halve_bezier (Model/Bezier.v)
     polytools.py  polyroots / polyroots01 (np.roots is an ORACLE; de-duplication:
                pinned variant = index of the PAIR used as index of a ROOT, repaired
                variant = index-correct; Model/BezierN.v, selected by a flag)

   plus the exact root counting (Sturm / Tarski query over a decidable field)
   the C12 harness uses to decide the true number of Line–Bezier crossings.

   Everything mirrors what the code DOES.  Numeric carrier: any [Num K]. *)
From Coq Require Import ZArith List Bool Arith Lia.
From SVP Require Import Base.Num Base.Cplx Base.Poly Model.Bezier Model.BezierN.
Import ListNotations.
Set Implicit Arguments.

(* ------------------------------------------------------------------ *)
(** * Segments, results, dispatch table *)

Inductive kind := KLine | KQuad | KCubic | KArc.

(* an Arc as stored after _parameterize (C04): the intersection code reads
   these attributes only *)
Record arc (K : Type) := mkArc {
  a_start : Cplx K; a_radius : Cplx K; a_rotation : K; a_large : bool; a_sweep : bool;
  a_end : Cplx K; a_center : Cplx K; a_theta : K; a_delta : K }.

Inductive seg (K : Type) :=
| SLine (s e : Cplx K)
| SQuad (s c e : Cplx K)
| SCubic (s c1 c2 e : Cplx K)
| SArc (a : arc K).
Arguments SLine {K} _ _. Arguments SQuad {K} _ _ _.
Arguments SCubic {K} _ _ _ _. Arguments SArc {K} _.

Definition kind_of {K} (s : seg K) : kind :=
  match s with SLine _ _ => KLine | SQuad _ _ _ => KQuad | SCubic _ _ _ _ => KCubic | SArc _ => KArc end.

(* outcome of a call: a value, or the exception class that escapes *)
Inductive ires (A : Type) := IOk (a : A) | IAssert | IValueErr | IException.
Arguments IOk {A} _. Arguments IAssert {A}. Arguments IValueErr {A}. Arguments IException {A}.
Definition imap {A B} (f : A -> B) (r : ires A) : ires B :=
  match r with IOk a => IOk (f a) | IAssert => IAssert | IValueErr => IValueErr | IException => IException end.

Definition swap {A B} (p : A * B) : B * A := (snd p, fst p).

(* which core routine X.intersect(Y) ends in *)
Inductive core := CoreLineLine | CoreBezLine | CoreBezBez | CoreArc.
Record route := mkRoute {
  r_core : core;
  r_flip : bool;       (* the routine is called with (other, self) and every returned pair is swapped *)
  r_prefilter : bool;  (* control-polygon bounding-box rejection runs first *)
  r_assert_ne : bool   (* `assert self != other_seg` guards the routine *)
}.

(* path.py:711-767, 1052-1092, 1320-1359, 1960-2246 *)
Definition dispatch (k1 k2 : kind) : route :=
  match k1, k2 with
  | KLine, KLine => mkRoute CoreLineLine false true true
  | KLine, KQuad | KLine, KCubic => mkRoute CoreBezLine true true false
  | KQuad, KLine | KCubic, KLine => mkRoute CoreBezLine false true false
  | KQuad, KQuad => mkRoute CoreBezBez false true true
  | KQuad, KCubic => mkRoute CoreBezBez false true false     (* no assert in this branch *)
  | KCubic, KQuad | KCubic, KCubic => mkRoute CoreBezBez false true true
  | KLine, KArc | KQuad, KArc | KCubic, KArc => mkRoute CoreArc true false false
  | KArc, _ => mkRoute CoreArc false false false
  end.

(* the four branches of Arc.intersect *)
Inductive arc_branch := ArcLineAlgebraic | ArcBezierU1 | ArcCircleCircle | ArcSubdivision.
Definition arc_route (self_rot0 self_circ : bool) (k2 : kind) (other_rot0 other_circ : bool) : arc_branch :=
  match k2 with
  | KLine => if self_rot0 then ArcLineAlgebraic else ArcBezierU1
  | KQuad | KCubic => ArcBezierU1
  | KArc => if self_rot0 && self_circ && other_rot0 && other_circ then ArcCircleCircle else ArcSubdivision
  end.

Section Isect.
  Context {K : Type} (N : Num K).
  Local Notation C := (Cplx K).
  Local Notation "x + y" := (add N x y).
  Local Notation "x - y" := (sub N x y).
  Local Notation "x * y" := (mul N x y).
  Local Notation "x / y" := (div N x y).
  Local Notation "- x" := (opp N x).
  Local Notation "# z" := (lit N z) (at level 1, format "# z").

  Definition bpoints (s : seg K) : list C :=
    match s with
    | SLine s e => [s; e] | SQuad s c e => [s; c; e] | SCubic s c1 c2 e => [s; c1; c2; e]
    | SArc _ => []
    end.

  Fixpoint leqb (a b : list C) : bool :=     (* Python list == on complex entries *)
    match a, b with
    | [], [] => true
    | x :: a', y :: b' => ceqb N x y && leqb a' b'
    | _, _ => false
    end.
  Definition arc_eqb (a b : arc K) : bool :=
    ceqb N (a_start a) (a_start b) && ceqb N (a_end a) (a_end b) && ceqb N (a_radius a) (a_radius b)
    && eqb N (a_rotation a) (a_rotation b) && Bool.eqb (a_large a) (a_large b)
    && Bool.eqb (a_sweep a) (a_sweep b).
  (* __eq__ of the segment classes: same class and equal defining fields *)
  Definition seg_eqb (s1 s2 : seg K) : bool :=
    match s1, s2 with
    | SArc a, SArc b => arc_eqb a b
    | SArc _, _ | _, SArc _ => false
    | _, _ => leqb (bpoints s1) (bpoints s2)
    end.

  (* ---------------------------------------------------------------- *)
  (** * Control-polygon pre-filter (identical text in the three Bezier classes) *)
  Definition lmin (l : list K) : K := match l with [] => zero N | x :: r => fold_left (nmin N) r x end.
  Definition lmax (l : list K) : K := match l with [] => zero N | x :: r => fold_left (nmax N) r x end.
  (* true = `return []` *)
  Definition prefilter_rejects (self other : list C) : bool :=
    let sx := map fst self in let ox := map fst other in
    let sy := map snd self in let oy := map snd other in
    gtb N (lmin ox) (lmax sx) || ltb N (lmax ox) (lmin sx)
    || gtb N (lmin oy) (lmax sy) || ltb N (lmax oy) (lmin sy).

  (* ---------------------------------------------------------------- *)
  (** * Line.intersect(Line): Cramer's rule exactly as written *)
  Definition in01 (t : K) : bool := leb N (zero N) t && leb N t (one N).

  Definition line_line_denom (p0 p1 q0 q1 : C) : K :=
    (re p1 - re p0) * (im q0 - im q1) - (im p1 - im p0) * (re q0 - re q1).
  Definition line_line_t1 (p0 p1 q0 q1 : C) : K :=
    (re q0 * (im p0 - im q1) - re q1 * (im p0 - im q0) - re p0 * (im q0 - im q1))
    / line_line_denom p0 p1 q0 q1.
  Definition line_line_t2 (p0 p1 q0 q1 : C) : K :=     (* -(…)/denom parses as (-(…))/denom *)
    (- (re p1 * (im p0 - im q0) - re p0 * (im p1 - im q0) - re q0 * (im p0 - im p1)))
    / line_line_denom p0 p1 q0 q1.

  (* atol = 1e-8: np.isclose(denom, 0) is |denom - 0| <= atol + rtol*|0| *)
  Definition line_line (atol : K) (p0 p1 q0 q1 : C) : ires (list (K * K)) :=
    if ceqb N q1 q0 || ceqb N p1 p0 then IAssert
    else if ceqb N p0 q0 && ceqb N p1 q1 then IAssert
    else
      let denom := line_line_denom p0 p1 q0 q1 in
      if leb N (nabs N denom) atol then IOk []
      else
        let t1 := line_line_t1 p0 p1 q0 q1 in
        let t2 := line_line_t2 p0 p1 q0 q1 in
        if in01 t1 && in01 t2 then IOk [(t1, t2)] else IOk [].

  (* ---------------------------------------------------------------- *)
  (** * polytools.polyroots / polyroots01 around the np.roots oracle *)
  (* the model lives in Model/BezierN.v (C19):  isclose (strict, unlike numpy's),
     dedup_coded = the PINNED code (the index of a close PAIR in combinations
     order is used as the index of a ROOT), dedup_fixed = the repair of /repo
     commit 48a8a6b (root j is dropped when an EARLIER root i<j is close to it).
     [fixed] selects the variant; the harness detects it from the implementation. *)
  Definition dedup_as_coded (rtol atol : K) (roots : list K) : list K := dedup_coded N rtol atol roots.
  Definition dedup (fixed : bool) (rtol atol : K) (roots : list K) : list K :=
    if fixed then dedup_fixed N rtol atol roots else dedup_coded N rtol atol roots.
  (* polyroots01(p) given np.roots(p) = raw (complex) *)
  Definition polyroots01_of (fixed : bool) (rtol atol : K) (raw : list C) : list K :=
    polyroots01 N rtol atol fixed raw.

  (* set(roots): distinct values (iteration order of a Python set is not specified;
     results are compared order-insensitively) *)
  Fixpoint nodupb (l : list K) : list K :=
    match l with
    | [] => []
    | x :: r => if existsb (eqb N x) r then nodupb r else x :: nodupb r
    end.

  (* ---------------------------------------------------------------- *)
  (** * bezier.bezier_by_line_intersections *)
  (* bezier2polynomial / bezier_point on REAL control values, explicit branches *)
  Definition bez2poly_real (p : list K) : list K :=
    match p with
    | [p0; p1; p2; p3] => [ (- p0) + #3 * (p1 - p2) + p3; #3 * (p0 - #2 * p1 + p2); #3 * (p1 - p0); p0 ]
    | [p0; p1; p2] => [ p0 - #2 * p1 + p2; #2 * (p1 - p0); p0 ]
    | [p0; p1] => [ p1 - p0; p0 ]
    | _ => p
    end.
  Definition bezier_point_real (p : list K) (t : K) : K :=
    match p with
    | [p0; p1; p2; p3] =>
        p0 + t * (#3 * (p1 - p0) + t * ((#3 * (p0 + p2) - #6 * p1) + t * ((- p0) + #3 * (p1 - p2) + p3)))
    | [p0; p1; p2] => p0 + t * (#2 * (p1 - p0) + t * (p0 - #2 * p1 + p2))
    | [p0; p1] => p0 + t * (p1 - p0)
    | [p0] => p0
    | _ => zero N
    end.

  (* the change of frame: shift by line[0], multiply by len/(l1-l0) *)
  Definition bl_rot (len : K) (l0 l1 : C) : C := cdiv N (cofr N len) (csub N l1 l0).
  Definition bl_transformed (len : K) (bez : list C) (l0 l1 : C) : list C :=
    map (fun z => cmul N (bl_rot len l0 l1) (csub N z l0)) bez.
  Definition bl_coeffs_y (len : K) (bez : list C) (l0 l1 : C) : list K :=
    bez2poly_real (map snd (bl_transformed len bez l0 l1)).
  Definition bl_xval (len : K) (bez : list C) (l0 l1 : C) (t : K) : K :=
    bezier_point_real (map fst (bl_transformed len bez l0 l1)) t.
  (* the loop over set(roots_y) *)
  Definition bl_select (len : K) (bez : list C) (l0 l1 : C) (roots : list K) : list (K * K) :=
    flat_map (fun t => let x := bl_xval len bez l0 l1 t in
                       if leb N (zero N) x && leb N x len then [(t, x / len)] else [])
             (nodupb roots).
  Definition nodal (bez : list C) : bool :=
    match bez with [] => true | b0 :: _ => forallb (fun p => ceqb N p b0) bez end.
  (* len = abs(line[1]-line[0]) (hypot: supplied by the caller);
     roots01 = polyroots01 applied to the y-polynomial *)
  Definition bezier_by_line (len : K) (roots01 : list K -> list K) (bez : list C) (l0 l1 : C)
    : ires (list (K * K)) :=
    if ceqb N l0 l1 then IAssert
    else if nodal bez then IValueErr
    else IOk (bl_select len bez l0 l1 (roots01 (bl_coeffs_y len bez l0 l1))).

  (* ---------------------------------------------------------------- *)
  (** * boxes *)
  Definition box := (K * K * K * K)%type.        (* xmin, xmax, ymin, ymax *)
  Definition box_area (b : box) : K :=
    let '(xmin, xmax, ymin, ymax) := b in (xmax - xmin) * (ymax - ymin).
  Definition interval_intersection_width (a b c d : K) : K :=
    nmax N (zero N) (nmin N b d - nmax N a c).
  Definition boxes_intersect (b1 b2 : box) : bool :=
    let '(xmin1, xmax1, ymin1, ymax1) := b1 in
    let '(xmin2, xmax2, ymin2, ymax2) := b2 in
    negb (eqb N (interval_intersection_width xmin1 xmax1 xmin2 xmax2) (zero N))
    && negb (eqb N (interval_intersection_width ymin1 ymax1 ymin2 ymax2) (zero N)).

  (* repaired variant (fixes/C12-subdivision-closed-boxes-extent.diff): the boxes are
     CLOSED rectangles — boxes that only touch, and boxes of zero width/height, intersect *)
  Definition boxes_intersect_closed (b1 b2 : box) : bool :=
    let '(xmin1, xmax1, ymin1, ymax1) := b1 in
    let '(xmin2, xmax2, ymin2, ymax2) := b2 in
    leb N (nmax N xmin1 xmin2) (nmin N xmax1 xmax2) && leb N (nmax N ymin1 ymin2) (nmin N ymax1 ymax2).
  Definition box_extent (b : box) : K :=
    let '(xmin, xmax, ymin, ymax) := b in nmax N (xmax - xmin) (ymax - ymin).

  (* exact bounding box of a quadratic (the non-cubic branch of
     bezier_bounding_box: end points + the root of the derivative when it is
     strictly inside (0,1)); rational, so the machine below runs in NumQ *)
  Definition quad_extremes (a0 a1 a2 : K) : list K :=
    let d := a0 - #2 * a1 + a2 in                  (* x'(t) = 2 d t + 2 (a1 - a0) *)
    let ends := [a0; a2] in
    if eqb N d (zero N) then ends
    else let r := (a0 - a1) / d in
         if ltb N (zero N) r && ltb N r (one N)
         then ends ++ [bezier_point_real [a0; a1; a2] r] else ends.
  Definition bbox_quad (p : list C) : box :=
    match p with
    | [p0; p1; p2] =>
        let xs := quad_extremes (re p0) (re p1) (re p2) in
        let ys := quad_extremes (im p0) (im p1) (im p2) in
        (lmin xs, lmax xs, lmin ys, lmax ys)
    | _ => (lmin (map fst p), lmax (map fst p), lmin (map snd p), lmax (map snd p))
    end.

  (* ---------------------------------------------------------------- *)
  (** * bezier.bezier_intersections: the BPair worklist machine *)
  Record bpair := mkBP { bp1 : list C; bp2 : list C; bt1 : K; bt2 : K }.

  Definition half : K := one N / #2.

  (* |z| < tol, decided without a square root: |z|^2 < tol^2 (tol >= 0) *)
  Definition cabs_lt (z : C) (tol : K) : bool := ltb N (cnorm2 N z) (tol * tol).
  (* ApproxSolutionSet.__contains__ *)
  Definition approx_mem (tol : K) (x : C) (s : list C) : bool :=
    existsb (fun y => cabs_lt (csub N x y) tol) s.

  (* the condition of the "redundant pair" loop *)
  Definition related (p o : bpair) : bool :=
    leqb (bp1 p) (bp1 o) || leqb (bp2 p) (bp2 o) || leqb (bp1 p) (bp2 o) || leqb (bp2 p) (bp1 o).

  Fixpoint remove_nth {A} (n : nat) (l : list A) : list A :=
    match n, l with
    | _, [] => []
    | O, _ :: r => r
    | S m, x :: r => x :: remove_nth m r
    end.

  (* `for otherPair in pair_list: if related: pair_list.remove(otherPair)` with
     CPython's list iterator: the iterator holds an index j; it yields l[j] and
     increments j; removing the element just yielded shifts the tail left, so
     the successor of a removed element is never examined. *)
  Fixpoint inner_remove (fuel : nat) (pr : bpair) (l : list bpair) (j : nat) : list bpair :=
    match fuel with
    | O => l
    | S f =>
        match nth_error l j with
        | None => l
        | Some o => if related pr o then inner_remove f pr (remove_nth j l) (S j)
                    else inner_remove f pr l (S j)
        end
    end.

  Record lstate := mkLS { ls_new : list bpair; ls_out : list (K * K); ls_seen : list C }.

  Definition children (delta : K) (p : bpair) : list bpair :=
    let '(c11, c12) := halve_bezier N (bp1 p) in
    let '(c21, c22) := halve_bezier N (bp2 p) in
    let t11 := bt1 p - delta in let t12 := bt1 p + delta in
    let t21 := bt2 p - delta in let t22 := bt2 p + delta in
    [mkBP c11 c21 t11 t21; mkBP c11 c22 t11 t22; mkBP c12 c21 t12 t21; mkBP c12 c22 t12 t22].

  (* positions j of l whose pair is related to pr (the repaired redundancy loop) *)
  Fixpoint related_idx (pr : bpair) (l : list bpair) (j : nat) : list nat :=
    match l with
    | [] => []
    | o :: r => if related pr o then j :: related_idx pr r (S j) else related_idx pr r (S j)
    end.

  Section Machine.
    (* false = the pinned code: pair_list.remove() inside `for ... in pair_list`;
       true  = the proposed repair (/tmp/fixes/C12-subdivision-remove-while-iterating.diff):
               the list is not mutated, redundant pairs are marked and skipped *)
    Variable rm_fixed : bool.
    (* false = pinned: open box overlap test (positive width in x and y), stop when both
               box AREAS are < tol_deC;
       true  = repaired (fixes/C12-subdivision-closed-boxes-extent.diff): closed boxes,
               stop when both box EXTENTS are < ext *)
    Variable bx_fixed : bool.
    (* true = repaired (fixes/C12-subdivision-merge-duplicates.diff): one solution per
       group of neighbouring parameter cells *)
    Variable mg_fixed : bool.
    Variable bbox : list C -> box.       (* bezier_bounding_box *)
    Variables tol tol_deC : K.
    Variable ext : K.                    (* the stopping length of the repaired variant (eff_extent) *)
    Variable bez1 : list C.              (* the ORIGINAL first curve: reported points are bez1(t1) *)

    Definition boxes_ok (p : bpair) : bool :=
      if bx_fixed then boxes_intersect_closed (bbox (bp1 p)) (bbox (bp2 p))
      else boxes_intersect (bbox (bp1 p)) (bbox (bp2 p)).
    Definition small (p : bpair) : bool :=
      if bx_fixed
      then ltb N (box_extent (bbox (bp1 p))) ext && ltb N (box_extent (bbox (bp2 p))) ext
      else ltb N (box_area (bbox (bp1 p))) tol_deC && ltb N (box_area (bbox (bp2 p))) tol_deC.

    (* `for pair in pair_list:` — outer iterator index i over the (mutating) list l *)
    Fixpoint level_loop (fuel : nat) (delta : K) (l : list bpair) (i : nat) (st : lstate) : lstate :=
      match fuel with
      | O => st
      | S f =>
          match nth_error l i with
          | None => st
          | Some pr =>
              if boxes_ok pr then
                if small pr then
                  let point := bezier_point N bez1 (bt1 pr) in
                  let st' := if approx_mem tol point (ls_seen st) then st
                             else mkLS (ls_new st) (ls_out st ++ [(bt1 pr, bt2 pr)])
                                       (ls_seen st ++ [point]) in
                  level_loop f delta (inner_remove (length l) pr l 0) (S i) st'
                else
                  level_loop f delta l (S i)
                             (mkLS (ls_new st ++ children delta pr) (ls_out st) (ls_seen st))
              else level_loop f delta l (S i) st
          end
      end.

    (* repaired loop: `redundant` = positions marked by earlier reported pairs *)
    Fixpoint level_loop_fixed (fuel : nat) (delta : K) (l : list bpair) (i : nat)
             (redundant : list nat) (st : lstate) : lstate :=
      match fuel with
      | O => st
      | S f =>
          match nth_error l i with
          | None => st
          | Some pr =>
              if existsb (Nat.eqb i) redundant then level_loop_fixed f delta l (S i) redundant st
              else if boxes_ok pr then
                if small pr then
                  let point := bezier_point N bez1 (bt1 pr) in
                  let st' := if approx_mem tol point (ls_seen st) then st
                             else mkLS (ls_new st) (ls_out st ++ [(bt1 pr, bt2 pr)])
                                       (ls_seen st ++ [point]) in
                  level_loop_fixed f delta l (S i) (redundant ++ related_idx pr l 0) st'
                else
                  level_loop_fixed f delta l (S i) redundant
                             (mkLS (ls_new st ++ children delta pr) (ls_out st) (ls_seen st))
              else level_loop_fixed f delta l (S i) redundant st
          end
      end.

    Definition level (k : nat) (l : list bpair) (out : list (K * K)) (seen : list C) : lstate :=
      if rm_fixed
      then level_loop_fixed (length l) (npow N half (k + 2)) l 0 [] (mkLS [] out seen)
      else level_loop (length l) (npow N half (k + 2)) l 0 (mkLS [] out seen).

    (* `while pair_list and k < maxits`, n = maxits - k; afterwards
       `if k >= maxits: raise Exception` (also when the list emptied at k = maxits).
       hs = the half-widths 2*delta of the parameter cells of the reported pairs *)
    Fixpoint bi_levels (n k : nat) (l : list bpair) (out : list (K * K)) (hs : list K) (seen : list C)
      : ires (list (K * K) * list K) :=
      match n with
      | O => IException
      | S n' =>
          match l with
          | [] => IOk (out, hs)
          | _ => let st := level k l out seen in
                 bi_levels n' (S k) (ls_new st) (ls_out st)
                           (hs ++ repeat (npow N half (k + 1)) (length (ls_out st) - length out))
                           (ls_seen st)
          end
      end.

    (* _merge_redundant_solutions *)
    Definition sol := (K * K * K)%type.                 (* t1, t2, h *)
    Definition sclose (f o : sol) : bool :=
      let reach := #8 * (snd f + snd o) in
      leb N (nabs N (fst (fst f) - fst (fst o))) reach && leb N (nabs N (snd (fst f) - snd (fst o))) reach.
    Definition is_hit (f : sol) (g : list sol) : bool := existsb (sclose f) g.
    Fixpoint merge_into (f : sol) (groups : list (list sol)) : list (list sol) :=
      match groups with
      | [] => [[f]]
      | g :: r => if is_hit f g
                  then (g ++ [f] ++ concat (filter (is_hit f) r)) :: filter (fun g' => negb (is_hit f g')) r
                  else g :: merge_into f r
      end.
    Definition sol_resid2 (bez2 : list C) (f : sol) : K :=
      cnorm2 N (csub N (bezier_point N bez1 (fst (fst f))) (bezier_point N bez2 (snd (fst f)))).
    (* min(g, key=...): the first minimal element *)
    Fixpoint best_of (bez2 : list C) (cur : sol) (g : list sol) : sol :=
      match g with
      | [] => cur
      | f :: r => if ltb N (sol_resid2 bez2 f) (sol_resid2 bez2 cur) then best_of bez2 f r else best_of bez2 cur r
      end.
    Definition merge_solutions (bez2 : list C) (found : list sol) : list (K * K) :=
      flat_map (fun g => match g with [] => [] | f :: r => [fst (best_of bez2 f r)] end)
               (fold_left (fun gs f => merge_into f gs) found []).

    Definition bezier_intersections (maxits : nat) (bez2 : list C) : ires (list (K * K)) :=
      match bi_levels maxits 0 [mkBP bez1 bez2 half half] [] [] [] with
      | IOk (out, hs) => IOk (if mg_fixed then merge_solutions bez2 (combine out hs) else out)
      | IAssert => IAssert | IValueErr => IValueErr | IException => IException
      end.
  End Machine.

  (* the stopping length of the repaired variant: ext0 = sqrt(tol_deC); with
     rel_fixed (fixes/C12-subdivision-relative-resolution.diff) it is scaled by the size
     of the curves when that is < 1 (never coarser than ext0, never finer than
     eps40 = 2^-40 of the coordinate magnitude) *)
  Definition eff_extent (rel_fixed : bool) (ext0 eps40 : K) (bbox : list C -> box) (bez1 bez2 : list C) : K :=
    let b1 := bbox bez1 in let b2 := bbox bez2 in
    let size := nmax N (box_extent b1) (box_extent b2) in
    if rel_fixed && ltb N (zero N) size && ltb N size (one N) then
      let coords (b : box) := let '(a, b', c, d) := b in [nabs N a; nabs N b'; nabs N c; nabs N d] in
      let magnitude := lmax (coords b1 ++ coords b2) in
      nmin N ext0 (nmax N (ext0 * size) (eps40 * magnitude))
    else ext0.

  (* ---------------------------------------------------------------- *)
  (** * X.intersect(Y) *)
  Section Dispatch.
    Variable atol : K.                                      (* 1e-8 of np.isclose *)
    Variable seg_len : C -> C -> K.                         (* abs(l1 - l0) *)
    Variable roots01 : list K -> list K.                    (* polyroots01 *)
    Variable bezbez : list C -> list C -> ires (list (K * K)).  (* bezier_intersections(self, other, ...) *)
    Variable arc_core : arc K -> seg K -> ires (list (K * K)).  (* Arc.intersect(self=arc, other) *)

    Definition by_line (bez : list C) (ln : seg K) : ires (list (K * K)) :=
      match ln with
      | SLine l0 l1 => bezier_by_line (seg_len l0 l1) roots01 bez l0 l1
      | _ => IException
      end.

    Definition intersect (s1 s2 : seg K) : ires (list (K * K)) :=
      let rt := dispatch (kind_of s1) (kind_of s2) in
      if r_prefilter rt && prefilter_rejects (bpoints s1) (bpoints s2) then IOk []
      else
        match r_core rt with
        | CoreLineLine =>
            match s1, s2 with
            | SLine p0 p1, SLine q0 q1 => line_line atol p0 p1 q0 q1
            | _, _ => IException
            end
        | CoreBezLine =>
            if r_flip rt then imap (map swap) (by_line (bpoints s2) s1)
            else by_line (bpoints s1) s2
        | CoreBezBez =>
            if r_assert_ne rt && seg_eqb s1 s2 then IAssert
            else bezbez (bpoints s1) (bpoints s2)
        | CoreArc =>
            match s1, s2 with
            | SArc a, _ => arc_core a s2
            | _, SArc a => imap (map swap) (arc_core a s1)
            | _, _ => IException
            end
        end.
  End Dispatch.

  (* ---------------------------------------------------------------- *)
  (** * Path.intersect *)
  Section PathIsect.
    Variable seg_isect : seg K -> seg K -> ires (list (K * K)).   (* seg1.intersect(seg2, tol=tol) *)
    Variable seg_point : seg K -> K -> C.
    Variable tol : K.

    (* list.index: position of the FIRST element that compares equal *)
    Fixpoint index_of (p : list (seg K)) (s : seg K) : nat :=
      match p with
      | [] => 0
      | x :: r => if seg_eqb x s then 0 else S (index_of r s)
      end.
    (* Path.t2T(seg, t) given self._lengths *)
    Definition t2T (lens : list K) (idx : nat) (t : K) : K :=
      let segment_start := nsum N (firstn idx lens) in
      let segment_end := segment_start + nth idx lens (zero N) in
      (segment_end - segment_start) * t + segment_start.

    Definition pent := (K * seg K * K)%type.          (* (T, seg, t) *)

    Fixpoint path_eqb (p q : list (seg K)) : bool :=
      match p, q with
      | [], [] => true
      | x :: p', y :: q' => seg_eqb x y && path_eqb p' q'
      | _, _ => false
      end.

    (* false = the pinned code: T from path.t2T(seg, t), i.e. list.index(seg), the
               FIRST EQUAL segment;
       true  = the proposed repair (/tmp/fixes/C11-path-intersect-index.diff): the
               loops enumerate the paths and t2T gets the position *)
    Variable idx_fixed : bool.
    Definition enum {A} (l : list A) : list (nat * A) := combine (seq 0 (length l)) l.
    Definition pos_of (p : list (seg K)) (i : nat) (s : seg K) : nat :=
      if idx_fixed then i else index_of p s.

    Definition entries (p1 : list (seg K)) (lens1 : list K) (p2 : list (seg K)) (lens2 : list K)
               (is1 js2 : nat * seg K) (l : list (K * K)) : list (pent * pent) :=
      map (fun tt => ((t2T lens1 (pos_of p1 (fst is1) (snd is1)) (fst tt), snd is1, fst tt),
                      (t2T lens2 (pos_of p2 (fst js2) (snd js2)) (snd tt), snd js2, snd tt))) l.

    (* the double loop; the first exception aborts *)
    Fixpoint collect (p1 : list (seg K)) (lens1 : list K) (p2 : list (seg K)) (lens2 : list K)
             (pairs : list ((nat * seg K) * (nat * seg K))) : ires (list (pent * pent)) :=
      match pairs with
      | [] => IOk []
      | (is1, js2) :: r =>
          match seg_isect (snd is1) (snd js2) with
          | IOk l =>
              match collect p1 lens1 p2 lens2 r with
              | IOk l' => IOk (entries p1 lens1 p2 lens2 is1 js2 l ++ l')
              | e => e
              end
          | IAssert => IAssert | IValueErr => IValueErr | IException => IException
          end
      end.

    (* joint de-duplication: entry j is removed when some EARLIER entry (removed or not) is
       "the same intersection".
       jd_fixed = false (pinned): the same POINT of path1 within tol;
       jd_fixed = true (fixes/C12-path-joint-dedup-same-place.diff): the same point AND the
       same place on both paths: |T - T'| (or 1 - |T - T'|: T=0 and T=1 of a closed path) times
       the path length < 10 tol + eps9 * length.  plen1/plen2 = path lengths, eps9 = 1e-9 (data) *)
    Variable jd_fixed : bool.
    Variables plen1 plen2 eps9 : K.
    Definition jkey := (C * K * K)%type.            (* point, T1, T2 *)
    Definition same_place (L Ta Tb : K) : bool :=
      let d := nabs N (Ta - Tb) in
      let d := nmin N d (nabs N (d - one N)) in
      ltb N (d * L) (#10 * tol + eps9 * L).
    Definition redundant (q p : jkey) : bool :=
      cabs_lt (csub N (fst (fst q)) (fst (fst p))) tol
      && (negb jd_fixed || (same_place plen1 (snd (fst q)) (snd (fst p)) && same_place plen2 (snd q) (snd p))).
    Fixpoint dedup_joint {A} (seen : list jkey) (l : list (jkey * A)) : list A :=
      match l with
      | [] => []
      | (p, x) :: r =>
          if existsb (fun q => redundant q p) seen then dedup_joint (seen ++ [p]) r
          else x :: dedup_joint (seen ++ [p]) r
      end.
    Definition jkey_of (e : pent * pent) : jkey :=
      (seg_point (snd (fst (fst e))) (snd (fst e)), fst (fst (fst e)), fst (fst (snd e))).

    Definition path_intersect (p1 : list (seg K)) (lens1 : list K) (p2 : list (seg K)) (lens2 : list K)
      : ires (list (pent * pent)) :=
      if path_eqb p1 p2 then IAssert
      else
        match collect p1 lens1 p2 lens2 (list_prod (enum p1) (enum p2)) with
        | IOk l => IOk (dedup_joint [] (map (fun e => (jkey_of e, e)) l))
        | e => e
        end.
  End PathIsect.

  (* ---------------------------------------------------------------- *)
  (** * Exact root counting over a decidable field (used with NumQ) *)
  Fixpoint pstrip (p : list K) : list K :=
    match p with [] => [] | c :: q => if eqb N c (zero N) then pstrip q else p end.
  (* a - b on the first |b| entries of a *)
  Fixpoint sub_head (a b : list K) : list K :=
    match a, b with
    | x :: a', y :: b' => (x - y) :: sub_head a' b'
    | _, _ => a
    end.
  (* remainder of p modulo d (d stripped and non-empty) *)
  Fixpoint prem_aux (fuel : nat) (p d : list K) : list K :=
    match fuel with
    | O => pstrip p
    | S f =>
        let p := pstrip p in
        if length p <? length d then p
        else match p, d with
             | a :: p', b :: d' => prem_aux f (sub_head p' (map (mul N (a / b)) d')) d
             | _, _ => p
             end
    end.
  Definition prem (p d : list K) : list K := prem_aux (S (length p)) p (pstrip d).
  Definition pneg (p : list K) : list K := map (opp N) p.
  (* division by |leading coefficient|: a positive factor, signs unchanged;
     keeps the rational coefficients of the remainder sequence small *)
  Definition pnormal (p : list K) : list K :=
    match p with [] => [] | c :: _ => map (fun x => x / nabs N c) p end.
  (* p0, p1, -rem(p0,p1), ... until the zero polynomial (each member normalised) *)
  Fixpoint sturm_chain (fuel : nat) (p0 p1 : list K) : list (list K) :=
    match fuel with
    | O => [p0]
    | S f => match pstrip p1 with
             | [] => [p0]
             | p1' => let p1n := pnormal p1' in p0 :: sturm_chain f p1n (pneg (prem p0 p1n))
             end
    end.
  Definition sgn (x : K) : Z := if ltb N x (zero N) then (-1)%Z else if ltb N (zero N) x then 1%Z else 0%Z.
  (* sign changes in a sequence, zeros skipped *)
  Fixpoint variations_from (prev : Z) (l : list Z) : nat :=
    match l with
    | [] => 0
    | s :: r => if Z.eqb s 0 then variations_from prev r
                else if Z.eqb (prev * s) (-1) then S (variations_from s r) else variations_from s r
    end.
  Definition variations (l : list Z) : nat := variations_from 0 l.
  Definition var_at (ch : list (list K)) (x : K) : nat := variations (map (fun p => sgn (peval N p x)) ch).
  (* Tarski query of q on the zeros of p in (0,1):  #{p=0,q>0} - #{p=0,q<0}
     (p(0) p(1) <> 0);  q = 1 gives the number of distinct roots.  The signed
     remainder sequence starts from p and (p' q) mod p: only the signs of q at
     the zeros of p matter, so q and p' q are first reduced modulo p (this
     keeps the degrees, hence the rational coefficients, small) *)
  Definition tarski01 (p q : list K) : Z :=
    let p := pnormal (pstrip p) in
    let q1 := prem (pmul N (pderiv N p) (pnormal (prem q p))) p in
    let ch := sturm_chain (length p + 2) p q1 in
    (Z.of_nat (var_at ch (zero N)) - Z.of_nat (var_at ch (one N)))%Z.
  Definition sturm_count (p : list K) : Z := tarski01 p [one N].
  (* gcd(p, q) is a non-zero constant *)
  Definition coprime (p q : list K) : bool :=
    match last (sturm_chain (length p + 2) (pstrip p) (prem q (pstrip p))) [] with
    | [_] => true | _ => false end.
  Definition squarefree (p : list K) : bool := coprime p (pderiv N (pstrip p)).

  (* the crossing polynomials of a Bezier curve against the line l0 l1, with no
     square root: g = cross(e, B - l0), h = dot(e, B - l0), e = l1 - l0.
     B(t) lies on the closed segment iff g(t) = 0 and 0 <= h(t) <= |e|^2 *)
  Definition cross_poly (bez : list C) (l0 l1 : C) : list K :=
    let e := csub N l1 l0 in
    bez2poly_real (map (fun z => let u := csub N z l0 in re e * im u - im e * re u) bez).
  Definition dot_poly (bez : list C) (l0 l1 : C) : list K :=
    let e := csub N l1 l0 in
    bez2poly_real (map (fun z => let u := csub N z l0 in re e * re u + im e * im u) bez).
  (* number of t in (0,1) with B(t) strictly inside the segment; None when the
     configuration is not in general position (then nothing is claimed) *)
  Definition crossing_count (bez : list C) (l0 l1 : C) : option Z :=
    let g := cross_poly bez l0 l1 in
    let h := dot_poly bez l0 l1 in
    let n2 := cnorm2 N (csub N l1 l0) in
    let q := pmul N h (padd N [n2] (pneg h)) in          (* h (n2 - h) > 0  <->  0 < h < n2 *)
    if negb (squarefree g) || negb (coprime g q)
       || eqb N (peval N g (zero N)) (zero N) || eqb N (peval N g (one N)) (zero N)
       || match pstrip g with [] | [_] => true | _ => false end
    then None
    else Some ((sturm_count g + tarski01 g q) / 2)%Z.

  (* ---------------------------------------------------------------- *)
  (** * Arc.point from the stored parameterisation (for residuals) *)
  Definition arc_point (T : NumT K) (a : arc K) (t : K) : C :=
    let angle := radians_ T (a_theta a + t * a_delta a) in
    let phi := radians_ T (a_rotation a) in
    let cosphi := cos_ T phi in let sinphi := sin_ T phi in
    let rx := re (a_radius a) in let ry := im (a_radius a) in
    (rx * cosphi * cos_ T angle - ry * sinphi * sin_ T angle + re (a_center a),
     rx * sinphi * cos_ T angle + ry * cosphi * sin_ T angle + im (a_center a)).
  Definition seg_point_T (T : NumT K) (s : seg K) (t : K) : C :=
    match s with
    | SLine s e => line_point N s e t
    | SQuad s c e => quad_point N s c e t
    | SCubic s c1 c2 e => cubic_point N s c1 c2 e t
    | SArc a => arc_point T a t
    end.
End Isect.
