(* Model/Tangent.v — hand-written model of unit_tangent / normal / curvature
   (svgpathtools/path.py: bezier_unit_tangent, segment_curvature, the methods of
   Line, QuadraticBezier, CubicBezier, Arc, Path) and of polytools.rational_limit.

   The model mirrors what the code DOES on Python scalars:
     * regular branch  dseg/abs(dseg)          (abs(complex) = hypot)
     * `except ZeroDivisionError`: taken exactly when abs(dseg) == 0; then
         csqrt(rational_limit(dseg_poly**2, real(dseg_poly)**2+imag(dseg_poly)**2, t))
       with numpy's sqrt of a complex number, i.e. the PRINCIPAL square root
     * rational_limit: recursion on (f', g'), AssertionError when g is the zero
       polynomial, ValueError when g(t0) = 0 /\ f(t0) <> 0.  numpy.poly1d strips
       leading zero coefficients; the lists here are not stripped, which changes
       no value (evaluation, derivative, products) and "g == poly1d([0])" becomes
       "all coefficients are zero".  The recursion has no fuel in Python; it ends
       at the latest when g has been differentiated to the zero polynomial, i.e.
       after length g + 1 calls (lemma rational_limit_fuel in Proofs/TangentSing.v).
   Polynomials are coefficient lists, highest degree first (Base/Poly.v). *)
From Coq Require Import ZArith List Bool.
From SVP Require Import Base.Num Base.Cplx Base.Poly Model.Bezier.
Import ListNotations.
Set Implicit Arguments.

(* result of a call that may raise *)
Inductive res (A : Type) : Type :=
| Val (a : A)
| ErrValue      (* ValueError: "Limit does not exist." / "Unit tangent appears to not be well-defined" *)
| ErrAssert.    (* AssertionError: rational_limit reached g == poly1d([0]) *)
Arguments ErrValue {A}. Arguments ErrAssert {A}.

Definition res_map {A B} (f : A -> B) (r : res A) : res B :=
  match r with Val a => Val (f a) | ErrValue => ErrValue | ErrAssert => ErrAssert end.

Section Tangent.
  Context {K : Type} (N : Num K) (T : NumT K).
  Local Notation "0" := (zero N).
  Local Notation "# z" := (lit N z) (at level 1, format "# z").

  (* abs(complex) *)
  Definition cabs (z : Cplx K) : K := hypot_ T (re z) (im z).

  (* ---------------- polynomial helpers (numpy.poly1d arithmetic) ---------------- *)
  Definition psub (p q : list K) : list K :=
    let n := Nat.max (length p) (length q) in
    let pad l := repeat 0 (n - length l) ++ l in
    map (fun ab => sub N (fst ab) (snd ab)) (combine (pad p) (pad q)).
  (* poly1d.__pow__: res = [1]; repeat n times res = polymul(p, res) *)
  Fixpoint ppow (p : list K) (n : nat) : list K :=
    match n with O => [one N] | S m => pmul N p (ppow p m) end.
  (* complex coefficients *)
  Definition cpadd (p q : list (Cplx K)) : list (Cplx K) :=
    let n := Nat.max (length p) (length q) in
    let pad l := repeat (c0 N) (n - length l) ++ l in
    map (fun ab => cadd N (fst ab) (snd ab)) (combine (pad p) (pad q)).
  Definition cpscale (c : Cplx K) (p : list (Cplx K)) : list (Cplx K) := map (cmul N c) p.
  Fixpoint cpmul (p q : list (Cplx K)) : list (Cplx K) :=
    match p with
    | [] => []
    | c :: p' => cpadd (cpscale c q ++ repeat (c0 N) (length p')) (cpmul p' q)
    end.
  Fixpoint cppow (p : list (Cplx K)) (n : nat) : list (Cplx K) :=
    match n with O => [c1 N] | S m => cpmul p (cppow p m) end.
  (* polytools.real / polytools.imag on a poly1d *)
  Definition preal (p : list (Cplx K)) : list K := map fst p.
  Definition pimag (p : list (Cplx K)) : list K := map snd p.
  (* g == np.poly1d([0]) *)
  Definition pzero (p : list K) : bool := forallb (fun c => eqb N c 0) p.

  (* ---------------- polytools.rational_limit ---------------- *)
  Fixpoint rational_limit (fuel : nat) (f g : list K) (t0 : K) : res K :=
    match fuel with
    | O => ErrAssert
    | S n =>
        if pzero g then ErrAssert
        else if negb (eqb N (peval N g t0) 0) then Val (div N (peval N f t0) (peval N g t0))
        else if eqb N (peval N f t0) 0 then rational_limit n (pderiv N f) (pderiv N g) t0
        else ErrValue
    end.
  (* the same with complex f (f(t0)/g(t0) is complex/real, f(t0) == 0 compares both parts) *)
  Fixpoint crational_limit (fuel : nat) (f : list (Cplx K)) (g : list K) (t0 : K) : res (Cplx K) :=
    match fuel with
    | O => ErrAssert
    | S n =>
        if pzero g then ErrAssert
        else if negb (eqb N (peval N g t0) 0) then Val (cdivr N (cpeval N f t0) (peval N g t0))
        else if ceqb N (cpeval N f t0) (c0 N) then crational_limit n (cpderiv N f) (pderiv N g) t0
        else ErrValue
    end.

  (* numpy.sqrt on a complex scalar: principal square root
       re = sqrt((|z| + x)/2),  im = sign(y) sqrt((|z| - x)/2), sign(+0) = + *)
  Definition csqrt (z : Cplx K) : Cplx K :=
    let r := cabs z in
    let a := sqrt_ T (div N (add N r (re z)) #2) in
    let b := sqrt_ T (div N (sub N r (re z)) #2) in
    (a, if ltb N (im z) 0 then opp N b else b).

  (* ---------------- unit tangent ---------------- *)
  (* dseg/abs(dseg) *)
  Definition unit_of (d : Cplx K) : Cplx K := cdivr N d (cabs d).
  (* -1j*z, as CPython multiplies complex(-0.0,-1.0) with z *)
  Definition mul_neg_i (z : Cplx K) : Cplx K :=
    (opp N (mul N #(-1) (im z)), mul N #(-1) (re z)).
  (* the mathematical rotation by -90 degrees *)
  Definition rot_m90 (z : Cplx K) : Cplx K := (im z, opp N (re z)).

  (* path.bezier_unit_tangent, given seg.poly() coefficients and dseg = seg.derivative(t) *)
  Definition dseg_sq_poly (poly : list (Cplx K)) : list (Cplx K) := cppow (cpderiv N poly) 2.
  Definition dseg_abs2_poly (poly : list (Cplx K)) : list K :=
    let dp := cpderiv N poly in padd N (ppow (preal dp) 2) (ppow (pimag dp) 2).
  Definition unit_tangent_fallback (poly : list (Cplx K)) (t : K) : res (Cplx K) :=
    let f := dseg_sq_poly poly in
    let g := dseg_abs2_poly poly in
    res_map csqrt (crational_limit (S (length g)) f g t).
  (* the REPAIRED fallback (fix "unit_tangent at a zero of the derivative follows
     the direction of travel"): for n = 2, 3, ... < len(bpoints) the first
     ddseg = seg.derivative(t, n) != 0 gives ddseg/abs(ddseg), after multiplying by
     (-1)**(n-1) when t == 1 (t = 1 is approached from below); for-else: ValueError.
     [higher] is the list [seg.derivative(t, 2); seg.derivative(t, 3); ...] *)
  Fixpoint first_dir (n : nat) (higher : list (Cplx K)) (at_one : bool) : res (Cplx K) :=
    match higher with
    | [] => ErrValue
    | d :: r =>
        if ceqb N d (c0 N) then first_dir (S n) r at_one
        else Val (unit_of (if at_one && Nat.even n then copp N d else d))
    end.
  Definition unit_tangent_fallback_repaired (higher : list (Cplx K)) (t : K) : res (Cplx K) :=
    first_dir 2 higher (eqb N t (one N)).

  (* [repaired] selects which fallback the tree under test contains (the harness
     detects it by the witness CubicBezier(0,0,-1+1j,-2).unit_tangent(0)).
     The branch condition abs(dseg) == 0 is what `except ZeroDivisionError` amounts to
     for Python scalars, and literally the test after the fix "explicit zero test"
     (for numpy scalars the unfixed code never reaches the fallback: it returns nan). *)
  Definition bezier_unit_tangent (repaired : bool) (poly : list (Cplx K)) (dseg : Cplx K)
             (higher : list (Cplx K)) (t : K) : res (Cplx K) :=
    if eqb N (cabs dseg) 0 then
      (if repaired then unit_tangent_fallback_repaired higher t
       else unit_tangent_fallback poly t)   (* ZeroDivisionError *)
    else Val (unit_of dseg).

  (* ---------------- curvature ---------------- *)
  (* abs(dx*ddy - dy*ddx)/sqrt(dx*dx + dy*dy)**3 *)
  Definition curv_num (dz ddz : Cplx K) : K :=
    nabs N (sub N (mul N (re dz) (im ddz)) (mul N (im dz) (re ddz))).
  Definition curv_den (dz : Cplx K) : K :=
    npow N (sqrt_ T (add N (mul N (re dz) (re dz)) (mul N (im dz) (im dz)))) 3.
  Definition curv_formula (dz ddz : Cplx K) : K := div N (curv_num dz ddz) (curv_den dz).

  Definition curvature_fallback (poly : list (Cplx K)) (t : K) : res K :=
    let dp := cpderiv N poly in
    let ddp := cpderiv N dp in
    let dx := preal dp in let dy := pimag dp in
    let ddx := preal ddp in let ddy := pimag ddp in
    let f2 := ppow (psub (pmul N dx ddy) (pmul N dy ddx)) 2 in
    let g2 := ppow (padd N (pmul N dx dx) (pmul N dy dy)) 3 in
    match rational_limit (S (length g2)) f2 g2 t with
    | Val lim2 => if ltb N lim2 0 then Val 0 else Val (sqrt_ T lim2)
    | ErrValue => ErrValue
    | ErrAssert => ErrAssert
    end.
  (* path.segment_curvature for a Bezier segment: the except branch is taken
     exactly when the denominator is zero (then the numerator is 0 too: 0/0 is
     FloatingPointError under seterr(invalid='raise'), ZeroDivisionError for
     Python floats) *)
  Definition segment_curvature (poly : list (Cplx K)) (dz ddz : Cplx K) (t : K) : res K :=
    if eqb N (curv_den dz) 0 then curvature_fallback poly t
    else Val (curv_formula dz ddz).

  (* ---------------- the segment classes ---------------- *)
  Definition oget (o : option (Cplx K)) : Cplx K := match o with Some z => z | None => c0 N end.

  (* Line: `assert self.end != self.start` is a precondition *)
  Definition line_unit_tangent (s e : Cplx K) (t : K) : Cplx K := unit_of (csub N e s).
  Definition line_normal (s e : Cplx K) (t : K) : Cplx K := mul_neg_i (line_unit_tangent s e t).
  Definition line_curvature (s e : Cplx K) (t : K) : K := 0.

  Definition quad_d (s c e : Cplx K) (t : K) (n : Z) : Cplx K := oget (quad_deriv N s c e t n).
  Definition cubic_d (s c1 c2 e : Cplx K) (t : K) (n : Z) : Cplx K := oget (cubic_deriv N s c1 c2 e t n).

  (* range(2, len(seg.bpoints())): n = 2 for a quadratic, n = 2, 3 for a cubic *)
  Definition quad_unit_tangent (rp : bool) (s c e : Cplx K) (t : K) : res (Cplx K) :=
    bezier_unit_tangent rp (quad_poly N s c e) (quad_d s c e t 1) [quad_d s c e t 2] t.
  Definition cubic_unit_tangent (rp : bool) (s c1 c2 e : Cplx K) (t : K) : res (Cplx K) :=
    bezier_unit_tangent rp (cubic_poly N s c1 c2 e) (cubic_d s c1 c2 e t 1)
                        [cubic_d s c1 c2 e t 2; cubic_d s c1 c2 e t 3] t.
  Definition quad_normal (rp : bool) (s c e : Cplx K) (t : K) : res (Cplx K) :=
    res_map mul_neg_i (quad_unit_tangent rp s c e t).
  Definition cubic_normal (rp : bool) (s c1 c2 e : Cplx K) (t : K) : res (Cplx K) :=
    res_map mul_neg_i (cubic_unit_tangent rp s c1 c2 e t).
  Definition quad_curvature (s c e : Cplx K) (t : K) : res K :=
    segment_curvature (quad_poly N s c e) (quad_d s c e t 1) (quad_d s c e t 2) t.
  Definition cubic_curvature (s c1 c2 e : Cplx K) (t : K) : res K :=
    segment_curvature (cubic_poly N s c1 c2 e) (cubic_d s c1 c2 e t 1) (cubic_d s c1 c2 e t 2) t.

  (* Arc.derivative(t, 1) and (t, 2), from the stored parameters
     radius = rx + i ry, rotation (degrees), theta, delta (degrees) *)
  Definition arc_d1 (rx ry rotation theta delta : K) (t : K) : Cplx K :=
    let angle := radians_ T (add N theta (mul N t delta)) in
    let phi := radians_ T rotation in
    let k := div N (mul N delta (pi_ T)) #180 in
    (mul N k (sub N (mul N (mul N (opp N rx) (cos_ T phi)) (sin_ T angle))
                    (mul N (mul N ry (sin_ T phi)) (cos_ T angle))),
     mul N k (add N (mul N (mul N (opp N rx) (sin_ T phi)) (sin_ T angle))
                    (mul N (mul N ry (cos_ T phi)) (cos_ T angle)))).
  Definition arc_d2 (rx ry rotation theta delta : K) (t : K) : Cplx K :=
    let angle := radians_ T (add N theta (mul N t delta)) in
    let phi := radians_ T rotation in
    let k := npow N (div N (mul N delta (pi_ T)) #180) 2 in
    (mul N k (add N (mul N (mul N (opp N rx) (cos_ T phi)) (cos_ T angle))
                    (mul N (mul N ry (sin_ T phi)) (sin_ T angle))),
     mul N k (sub N (mul N (mul N (opp N rx) (sin_ T phi)) (cos_ T angle))
                    (mul N (mul N ry (cos_ T phi)) (sin_ T angle)))).
  Definition arc_unit_tangent (rx ry rotation theta delta t : K) : Cplx K :=
    unit_of (arc_d1 rx ry rotation theta delta t).
  Definition arc_normal (rx ry rotation theta delta t : K) : Cplx K :=
    mul_neg_i (arc_unit_tangent rx ry rotation theta delta t).
  (* segment_curvature on an Arc: regular formula (the except branch needs
     .poly(), which Arc does not have: AttributeError on a degenerate arc) *)
  Definition arc_curvature (rx ry rotation theta delta t : K) : K :=
    curv_formula (arc_d1 rx ry rotation theta delta t) (arc_d2 rx ry rotation theta delta t).

  (* Path.unit_tangent / normal: the segment's, at (seg_idx, t) = T2t(T)
     (T2t is modelled in Model/PathIdx.v, property C05).  Path.curvature away
     from joints: the same formula on seg.derivative(t,n)/seg.length()**n with
     the exponent written **1.5 *)
  Definition path_curvature_core (dz ddz : Cplx K) (len : K) : K :=
    let pz := cdivr N dz len in
    let pzz := cdivr N ddz (npow N len 2) in
    let q := add N (mul N (re pz) (re pz)) (mul N (im pz) (im pz)) in
    div N (curv_num pz pzz) (mul N q (sqrt_ T q)).
End Tangent.
