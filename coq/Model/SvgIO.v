(* Model/SvgIO.v — writing paths to SVG and reading them back (property C18).

   XML is modelled at the level the code works at:

   * an in-memory ElementTree element [xel]: tag = (namespace, local name),
     attribute dictionary, children.  document.py builds and queries these;
     `'svg:path'` with SVG_NAMESPACE means (SVGNS, "path"); SubElement(group,
     'path') creates ("", "path");
   * a file [fel]: every element carries the prefix it is WRITTEN with, the
     namespace that prefix is bound to, and the local name.  xml.dom.minidom
     (svg2paths) matches getElementsByTagName on the written qualified name
     prefix:local; ElementTree (Document, SaxDocument) on {namespace}local.

   [et_write]: ElementTree serialisation after register_namespace('svg', SVGNS):
   elements of the SVG namespace are written svg:local, elements without a
   namespace are written bare.  [et_parse]: parsing drops the prefix.
   [wsvg_file]: what disvg/wsvg hand to svgwrite: a root with the default
   namespace, <defs/>, one <path> per input path with d first and the supplied
   attributes (key 'd' skipped).

   Oracles (not modelled, sampled by the harness): svgwrite's and minidom's
   serialisation and escaping, ElementTree's parser, CPython's dict. *)
From Coq Require Import String List Bool Ascii.
Import ListNotations.
Open Scope string_scope.
Open Scope list_scope.

Definition SVGNS : string := "http://www.w3.org/2000/svg".

(* Which variant of the code is modelled: false = the pinned code (commit
   12ec128), true = the repaired behaviour.  The correspondence check probes
   the implementation on every run and instantiates the model accordingly. *)
Record cfg := mkCfg {
  f_style_skip : bool;   (* SaxDocument skips style declarations without ':' (trailing ';') *)
  f_add_ns : bool;       (* Document(None) / add_path create svg / path in the SVG namespace *)
  f_default_ns : bool;   (* register_namespace('', SVGNS): the SVG namespace is written as the default one *)
  f_nod_empty : bool     (* svg2paths: a <path> without d reads as the empty path (el.get('d', '')) *)
}.
Definition pinned : cfg := mkCfg false false false false.
Definition repaired : cfg := mkCfg true true true true.

(* ---------- attribute dictionaries as association lists ---------- *)
Definition dict : Type := list (string * string).

Fixpoint lookup (k : string) (d : dict) : option string :=
  match d with
  | [] => None
  | (k', v) :: r => if String.eqb k k' then Some v else lookup k r
  end.

(* dict.update(other): the other's bindings win *)
Definition update (d other : dict) : dict :=
  other ++ filter (fun kv => match lookup (fst kv) other with Some _ => false | None => true end) d.

Definition remove_key (k : string) (d : dict) : dict :=
  filter (fun kv => negb (String.eqb (fst kv) k)) d.

(* ---------- ElementTree elements ---------- *)
Inductive xel := XE (ns local : string) (attrs : dict) (kids : list xel).

Definition x_ns (e : xel) := match e with XE ns _ _ _ => ns end.
Definition x_local (e : xel) := match e with XE _ l _ _ => l end.
Definition x_attrs (e : xel) := match e with XE _ _ a _ => a end.
Definition x_kids (e : xel) := match e with XE _ _ _ k => k end.

Definition is_tag (ns local : string) (e : xel) : bool :=
  String.eqb (x_ns e) ns && String.eqb (x_local e) local.

(* ---------- files ---------- *)
Inductive fel := FE (prefix ns local : string) (attrs : dict) (kids : list fel).

Definition f_attrs (e : fel) := match e with FE _ _ _ a _ => a end.

(* the qualified name minidom sees *)
Definition tag_name (e : fel) : string :=
  match e with
  | FE prefix _ local _ _ => if String.eqb prefix "" then local else (prefix ++ ":" ++ local)%string
  end.

(* ElementTree collects the namespaces of the whole tree and declares them on
   the root.  pinned (register_namespace('svg', SVGNS)): elements of the SVG
   namespace are written svg:local, elements without namespace bare.
   repaired (register_namespace('', SVGNS)): the SVG namespace is the default
   namespace, its elements are written bare; elements WITHOUT a namespace are
   written bare too and so fall into the default namespace whenever the tree
   contains an element of the SVG namespace ([dflt]). *)
Fixpoint has_svgns (e : xel) : bool :=
  match e with
  | XE ns _ _ kids => String.eqb ns SVGNS || existsb has_svgns kids
  end.

Fixpoint et_write_in (c : cfg) (dflt : bool) (e : xel) : fel :=
  match e with
  | XE ns local a kids =>
      let kids' := map (et_write_in c dflt) kids in
      if String.eqb ns SVGNS then
        FE (if f_default_ns c then "" else "svg") SVGNS local a kids'
      else if String.eqb ns "" then FE "" (if dflt then SVGNS else "") local a kids'
      else FE "ns0" ns local a kids'
  end.
Definition et_write (c : cfg) (e : xel) : fel := et_write_in c (f_default_ns c && has_svgns e) e.

Fixpoint et_parse (f : fel) : xel :=
  match f with
  | FE _ ns local a kids => XE ns local a (map et_parse kids)
  end.

(* ---------- wsvg ---------- *)
(* good_attribs = {'d': ps}; for key in attributes[i]: if key != 'd': update.
   svgwrite leaves the d attribute out when the d-string is empty (the empty
   Path()): the element is written <path id=... /> *)
Definition path_attrs (d : string) (a : dict) : dict :=
  if String.eqb d "" then remove_key "d" a
  else update [("d", d)] (remove_key "d" a).

Definition svgwrite_defaults : dict :=
  [("baseProfile", "full"); ("version", "1.1");
   ("xmlns", SVGNS); ("xmlns:ev", "http://www.w3.org/2001/xml-events");
   ("xmlns:xlink", "http://www.w3.org/1999/xlink")].

Fixpoint zip_paths (ds : list string) (attrs : list dict) : list fel :=
  match ds, attrs with
  | d :: dr, a :: ar => FE "" SVGNS "path" (path_attrs d a) [] :: zip_paths dr ar
  | _, _ => []
  end.

(* [size]: the width/height bindings disvg computes when none are supplied *)
Definition wsvg_file (ds : list string) (attrs : list dict) (svgattrs size : dict) : fel :=
  FE "" SVGNS "svg" (update (update svgwrite_defaults size) svgattrs)
     (FE "" SVGNS "defs" [] [] :: zip_paths ds attrs).

(* ---------- reader 1: svg2paths (minidom) ---------- *)
Fixpoint f_preorder (f : fel) : list fel :=
  match f with
  | FE _ _ _ _ kids => f :: flat_map f_preorder kids
  end.

(* doc.getElementsByTagName(name): all descendants (here: including the root,
   which is never named like a shape), document order *)
Definition elements_by_tag (name : string) (f : fel) : list fel :=
  filter (fun e => String.eqb (tag_name e) name) (f_preorder f).

(* [dom2dict(el) for el in ...]; d_strings = [el['d'] ...] (KeyError -> None) *)
Fixpoint all_some {A} (l : list (option A)) : option (list A) :=
  match l with
  | [] => Some []
  | Some x :: r => match all_some r with Some xs => Some (x :: xs) | None => None end
  | None :: _ => None
  end.

(* get('d', '') *)
Definition dget (a : dict) : string := match lookup "d" a with Some d => d | None => "" end.

(* pinned: d_strings = [el['d'] ...]: KeyError (None) when a path element has no
   d attribute; repaired: el.get('d', ''), the element reads as the empty path *)
Definition svg2paths_read (c : cfg) (f : fel) : option (list string * list dict) :=
  let ds := map f_attrs (elements_by_tag "path" f) in
  if f_nod_empty c then Some (map dget ds, ds)
  else match all_some (map (lookup "d") ds) with
       | Some dstrs => Some (dstrs, ds)
       | None => None
       end.

Definition svg2paths_svg_attributes (f : fel) : option dict :=
  match elements_by_tag "svg" f with
  | e :: _ => Some (f_attrs e)
  | [] => None            (* doc.getElementsByTagName('svg')[0]: IndexError *)
  end.

(* ---------- reader 2: Document(file).paths() ---------- *)
(* flattened_paths restricted to path elements: children (SVGNS,"path") of the
   root and of the groups reached through (SVGNS,"g") children; the order is
   the stack order proved in Proofs/SvgTreeFlat.v (paths of a group, then its
   child groups, last child first).  path2pathd = get('d', ''). *)
Definition is_svg_path (e : xel) : bool := is_tag SVGNS "path" e.
Definition is_svg_g (e : xel) : bool := is_tag SVGNS "g" e.

Fixpoint doc_visible (e : xel) : list dict :=
  match e with
  | XE _ _ _ kids =>
      map x_attrs (filter is_svg_path kids) ++
      (fix go (l : list xel) : list dict :=
         match l with
         | [] => []
         | c :: r => go r ++ (if is_svg_g c then doc_visible c else [])
         end) kids
  end.

Definition doc_read (f : fel) : list string * list dict :=
  let ds := doc_visible (et_parse f) in
  (map (fun a => match lookup "d" a with Some d => d | None => "" end) ds, ds).

(* ---------- reader 3: SaxDocument ---------- *)
(* name = elem.tag[28:]: the 28 characters of "{http://www.w3.org/2000/svg}" are
   cut off; an element without namespace has a short tag and gets name ''.
   (other namespaces give an arbitrary substring: not modelled, = '') *)
Definition sax_name (e : xel) : string :=
  if String.eqb (x_ns e) SVGNS then x_local e else "".

(* str.split(sep) for a one-character separator *)
Fixpoint split_on (c : ascii) (s : string) : list string :=
  match s with
  | EmptyString => [""]
  | String a r =>
      let l := split_on c r in
      if Ascii.eqb a c then "" :: l
      else match l with
           | h :: t => String a h :: t
           | [] => [String a ""]
           end
  end.

(* for equate in attrs["style"].split(";"): equal_item = equate.split(":");
   values[equal_item[0]] = equal_item[1].   A declaration without ':' (the empty
   string after a trailing ';') makes equal_item[1] raise IndexError (None);
   repaired: such declarations are skipped.  The result lists the assignments
   LAST FIRST, so that [update] lets the last assignment win. *)
Fixpoint style_assign (c : cfg) (decls : list string) (acc : dict) : option dict :=
  match decls with
  | [] => Some acc
  | e :: r =>
      match split_on ":" e with
      | k :: v :: _ => style_assign c r ((k, v) :: acc)
      | _ => if f_style_skip c then style_assign c r acc else None
      end
  end.
Definition style_entries (c : cfg) (a : dict) : option dict :=
  match lookup "style" a with
  | None => Some []
  | Some st => style_assign c (split_on ";" st) []
  end.

(* values['d'] = path2pathd(...): a path element always gets a 'd' entry, '' when
   it has no d attribute.  (path2pathd looks at the element's own attributes
   since the repair of the attribute inheritance, at the inherited values
   before; the two agree unless an ancestor carries a d attribute.) *)
Definition sax_path_values (values : dict) : dict := update values [("d", dget values)].

(* values = copy of the parent's values, updated with the element's attributes,
   then with the declarations of its style attribute.  An element whose style
   raises is marked None: the constructor raises. *)
Fixpoint sax_values (c : cfg) (inherited : dict) (e : xel) : list (option dict) :=
  match e with
  | XE ns local a kids =>
      match style_entries c a with
      | None => [None]
      | Some st =>
          let values := update (update inherited a) st in
          (if String.eqb (sax_name e) "path" then [Some (sax_path_values values)] else [])
          ++ flat_map (sax_values c values) kids
      end
  end.

(* None: SaxDocument(file) raises *)
Definition sax_read (c : cfg) (f : fel) : option (list string * list dict) :=
  match all_some (sax_values c [] (et_parse f)) with
  | Some ds => Some (map (fun a => match lookup "d" a with Some d => d | None => "" end) ds, ds)
  | None => None
  end.

Definition sax_root_values (c : cfg) (f : fel) : dict :=
  match et_parse f with
  | XE ns local a _ =>
      if String.eqb (sax_name (XE ns local a [])) "svg"
      then match style_entries c a with Some st => update (update [] a) st | None => [] end
      else []
  end.

(* ---------- Document: histories of add_path / add_group ---------- *)
Definition position := list nat.

(* apply f to the element at position p (no change when p is not in the tree:
   the code then warns and modifies a foreign element) *)
Fixpoint update_at (p : position) (f : xel -> xel) (e : xel) : xel :=
  match p with
  | [] => f e
  | i :: r =>
      match e with
      | XE ns l a kids =>
          XE ns l a ((fix go (j : nat) (ks : list xel) : list xel :=
                        match ks with
                        | [] => []
                        | c :: cr => (if Nat.eqb j i then update_at r f c else c) :: go (S j) cr
                        end) O kids)
      end
  end.

Definition append_child (c : xel) (e : xel) : xel :=
  match e with XE ns l a kids => XE ns l a (kids ++ [c]) end.

(* pinned: SubElement(group, 'path', attribs) with attribs['d'] = path_svg: NO
   namespace; repaired: '{http://www.w3.org/2000/svg}path' *)
Definition created_ns (c : cfg) : string := if f_add_ns c then SVGNS else "".
Definition new_path_element (c : cfg) (d : string) (a : dict) : xel :=
  XE (created_ns c) "path" (update a [("d", d)]) [].
(* SubElement(parent, '{http://www.w3.org/2000/svg}g', group_attribs) *)
Definition new_group_element (a : dict) (kids : list xel) : xel := XE SVGNS "g" a kids.

(* get_or_add_group(nested_names) followed by appending [leaf] to it *)
Fixpoint chain (names : list string) (leaf : xel) : xel :=
  match names with
  | [] => leaf
  | nm :: r => new_group_element [("id", nm)] [chain r leaf]
  end.

Definition names_match (nm : string) (c : xel) : bool :=
  is_svg_g c && match lookup "id" (x_attrs c) with Some v => String.eqb v nm | None => false end.

Fixpoint add_named (names : list string) (leaf : xel) (e : xel) : xel :=
  match names with
  | [] => append_child leaf e
  | nm :: rest =>
      match e with
      | XE ns l a kids =>
          if existsb (names_match nm) kids then
            XE ns l a ((fix go (ks : list xel) : list xel :=
                          match ks with
                          | [] => []
                          | c :: cr => if names_match nm c then add_named rest leaf c :: cr
                                       else c :: go cr
                          end) kids)
          else XE ns l a (kids ++ [chain (nm :: rest) leaf])
      end
  end.

Inductive op :=
| OpAddPath (d : string) (a : dict) (group : position)        (* group=None: [] *)
| OpAddPathNamed (d : string) (a : dict) (names : list string)
| OpAddGroup (a : dict) (parent : position).

Definition step (c : cfg) (o : op) (root : xel) : xel :=
  match o with
  | OpAddPath d a p => update_at p (append_child (new_path_element c d a)) root
  | OpAddPathNamed d a names => add_named names (new_path_element c d a) root
  | OpAddGroup a p => update_at p (append_child (new_group_element a [])) root
  end.

Definition run (c : cfg) (ops : list op) (root : xel) : xel :=
  fold_left (fun r o => step c o r) ops root.

(* Document(None): etree.ElementTree(Element('svg')) — pinned: no namespace either *)
Definition empty_document (c : cfg) : xel := XE (created_ns c) "svg" [] [].
