(* Model/Smooth.v — hand-written model of svgpathtools/smoothing.py
   (smoothed_joint, smoothed_path, kinks) over the Num / NumT records.

   What is modelled as coded:
   * smoothed_joint: the three asserts, the two `try: unit_tangent / except:`
     fall-backs, a = min(maxjointsize/2, min(seg1.length(), seg0.length())/20),
     the line-line and line-curve elbows (b and the four control points as
     written), curve-line by reversal, curve-curve as the composition of three
     sub-joints on pieces obtained from ilength / cropped;
   * smoothed_path: the joint loop, the classification of a joint by
     misctools.isclose on the two unit tangents (smooth / 180 degrees /
     kink), the wrap-around of closed paths (seg1 = new_path[0], the
     new_path[0] update), the `continue` of open paths, the early return of
     one-segment paths, the exception for unfixable kinks.

   Oracles (Section variables, never axioms):
   * sing_ut       — the singular branch of bezier_unit_tangent (C15's model),
   * curve_length  — CubicBezier.length() (QUADPACK / recursive subdivision, C06),
   * ilength       — inv_arclength (C07),
   * cropped       — CubicBezier.cropped (de Casteljau, C09).
   Their contracts are stated where a theorem needs them (Proofs/SmoothCC.v). *)
From Coq Require Import ZArith List Bool.
From SVP Require Import Base.Num Base.Cplx Model.Bezier.
Import ListNotations.
Set Implicit Arguments.

Inductive seg (K : Type) : Type :=
| SLine (s e : Cplx K)
| SCubic (s c1 c2 e : Cplx K).
Arguments SLine {K} _ _.
Arguments SCubic {K} _ _ _ _.

(* outcome of a unit_tangent call: a value, ValueError ("not well-defined"),
   or any other exception (AssertionError of a zero-length Line, ...) *)
Inductive utres (K : Type) : Type :=
| UTok (v : Cplx K) | UTValueError | UTOther.
Arguments UTok {K} _.
Arguments UTValueError {K}.
Arguments UTOther {K}.

(* how smoothed_path classifies a joint *)
Inductive jclass : Type := CSmooth | CSharp | CKink | CRaise.

Inductive sp_result (S : Type) : Type :=
| SPOk (p : list S)                (* the returned Path *)
| SPSharp (kinks : list nat)       (* _report_unfixable_kinks raises *)
| SPError.                         (* AssertionError / other exception *)
Arguments SPOk {S} _.
Arguments SPSharp {S} _.
Arguments SPError {S}.

(* ------------------------------------------------------------------ *)
(* The joint loop of smoothed_path, over an abstract segment type, an   *)
(* abstract joint classification and an abstract joint procedure.       *)
(* new_path is kept as  first :: rev rmid  (rmid = the rest, last first) *)
(* ------------------------------------------------------------------ *)
Section Loop.
  Variables (S : Type).
  Variable classify : S -> S -> jclass.
  Variable joint : S -> S -> option (S * list S * S).

  Definition np_state : Type := (S * list S * list nat)%type.   (* first, rmid, sharp_kinks *)
  Definition np_list (first : S) (rmid : list S) : list S := first :: rev rmid.
  (* new_path[-1] *)
  Definition np_cur (first : S) (rmid : list S) : S :=
    match rmid with x :: _ => x | [] => first end.
  (* new_path[-1] = x *)
  Definition np_set_cur (first : S) (rmid : list S) (x : S) : S * list S :=
    match rmid with _ :: r => (first, x :: r) | [] => (x, []) end.

  (* one iteration with idx < len(path)-1 : seg1 = path[idx+1] *)
  Definition step_mid (idx : nat) (seg1 : S) (st : np_state) : option np_state :=
    let '(first, rmid, sharp) := st in
    let seg0 := np_cur first rmid in
    match classify seg0 seg1 with
    | CRaise => None
    | CSmooth => Some (first, seg1 :: rmid, sharp)
    | CSharp => Some (first, seg1 :: rmid, sharp ++ [Datatypes.S idx])
    | CKink =>
        match joint seg0 seg1 with
        | None => None
        | Some (new_seg0, elbow_segs, new_seg1) =>
            let '(first', rmid') := np_set_cur first rmid new_seg0 in
            Some (first', new_seg1 :: rev elbow_segs ++ rmid', sharp)
        end
    end.

  (* the iteration idx = len(path)-1 of a closed path : seg1 = new_path[0] *)
  Definition step_close (st : np_state) : option np_state :=
    let '(first, rmid, sharp) := st in
    let seg0 := np_cur first rmid in
    let seg1 := first in
    match classify seg0 seg1 with
    | CRaise => None
    | CSmooth => Some st
    | CSharp => Some (first, seg1 :: rmid, sharp ++ [0%nat])   (* new_path.append(seg1), kink_idx = 0 *)
    | CKink =>
        match joint seg0 seg1 with
        | None => None
        | Some (new_seg0, elbow_segs, new_seg1) =>
            let '(first', rmid') := np_set_cur first rmid new_seg0 in
            (* new_path += elbow_segs ; new_path[0] = new_seg1 *)
            Some (new_seg1, rev elbow_segs ++ rmid', sharp)
        end
    end.

  Fixpoint loop_mid (idx : nat) (rest : list S) (st : np_state) : option np_state :=
    match rest with
    | [] => Some st
    | seg1 :: rest' =>
        match step_mid idx seg1 st with
        | None => None
        | Some st' => loop_mid (Datatypes.S idx) rest' st'
        end
    end.

  (* iscontinuous / isclosed are passed in as booleans computed on the input *)
  Definition sp_loop (path : list S) (continuous closed ignore : bool) : sp_result S :=
    match path with
    | [] => SPError                         (* path[0] : IndexError *)
    | [_] => SPOk path                      (* len(path) == 1: return path *)
    | p0 :: rest =>
        if negb continuous then SPError     (* assert path.iscontinuous() *)
        else
          match loop_mid 0 rest (p0, [], []) with
          | None => SPError
          | Some st =>
              match (if closed then step_close st else Some st) with
              | None => SPError
              | Some (first, rmid, sharp) =>
                  match sharp with
                  | [] => SPOk (np_list first rmid)
                  | _ :: _ => if ignore then SPOk (np_list first rmid) else SPSharp sharp
                  end
              end
          end
    end.
End Loop.

(* ------------------------------------------------------------------ *)
(* Segments, unit tangents, smoothed_joint                              *)
(* ------------------------------------------------------------------ *)
Section Seg.
  Context {K : Type} (N : Num K).
  Definition sstart (g : seg K) : Cplx K :=
    match g with SLine s _ => s | SCubic s _ _ _ => s end.
  Definition send (g : seg K) : Cplx K :=
    match g with SLine _ e => e | SCubic _ _ _ e => e end.
  Definition sreversed (g : seg K) : seg K :=
    match g with SLine s e => SLine e s | SCubic s c1 c2 e => SCubic e c2 c1 s end.
  Definition is_line (g : seg K) : bool :=
    match g with SLine _ _ => true | SCubic _ _ _ _ => false end.
  Definition sbpoints (g : seg K) : list (Cplx K) :=
    match g with SLine s e => [s; e] | SCubic s c1 c2 e => [s; c1; c2; e] end.
  Definition spoint (g : seg K) (t : K) : Cplx K :=
    match g with
    | SLine s e => line_point N s e t
    | SCubic s c1 c2 e => cubic_point N s c1 c2 e t
    end.
  (* derivative(t) (n = 1) *)
  Definition cubic_d1 (s c1 c2 e : Cplx K) (t : K) : Cplx K :=
    let u := sub N (one N) t in
    cadd N (cadd N (cscale N (mul N (lit N 3) (mul N u u)) (csub N c1 s))
                   (cscale N (mul N (mul N (lit N 6) u) t) (csub N c2 c1)))
           (cscale N (mul N (lit N 3) (mul N t t)) (csub N e c2)).
  Definition sderiv1 (g : seg K) (t : K) : Cplx K :=
    match g with
    | SLine s e => csub N e s
    | SCubic s c1 c2 e => cubic_d1 s c1 c2 e t
    end.
  Definition path_continuous (p : list (seg K)) : bool :=
    (fix go (l : list (seg K)) : bool :=
       match l with
       | a :: ((b :: _) as r) => ceqb N (send a) (sstart b) && go r
       | _ => true
       end) p.
  Definition path_closed (p : list (seg K)) : bool :=
    match p with
    | [] => false
    | p0 :: _ => ceqb N (sstart p0) (send (last p p0))
    end.
End Seg.

Lemma cubic_d1_deriv {K} (N : Num K) s c1 c2 e t :
  cubic_deriv N s c1 c2 e t 1 = Some (cubic_d1 N s c1 c2 e t).
Proof. reflexivity. Qed.

Section Model.
  Context {K : Type} (N : Num K) (T : NumT K).
  (* oracles *)
  Variable sing_ut : seg K -> K -> utres K.        (* singular branch of bezier_unit_tangent *)
  Variable curve_length : seg K -> K.              (* CubicBezier.length() *)
  Variable ilength : seg K -> K -> option K.       (* seg.ilength(s); None = raises *)
  Variable cropped : seg K -> K -> K -> seg K.     (* seg.cropped(t0, t1) *)

  Local Notation "x + y" := (cadd N x y).
  Local Notation "x - y" := (csub N x y).
  Local Notation "r ** z" := (cscale N r z) (at level 40, left associativity).
  Local Notation "# z" := (lit N z) (at level 1, format "# z").

  (* abs(z) of a complex ; z/abs(z) *)
  Definition cabs (z : Cplx K) : K := hypot_ T (re z) (im z).
  Definition cunit (z : Cplx K) : Cplx K := cdivr N z (cabs z).

  (* misctools.isclose(a, b, rtol=1e-5, atol=1e-8) on complex numbers;
     the two literals are the binary64 values of 1e-5 and 1e-8 *)
  Definition isclose_gen (a b : Cplx K) (rtol atol : K) : bool :=
    ltb N (cabs (a - b)) (add N atol (mul N rtol (cabs b))).
  Definition rtol_default : K := dyadic N 5902958103587057 (-69).
  Definition atol_default : K := dyadic N 3022314549036573 (-78).
  Definition isclose (a b : Cplx K) : bool := isclose_gen a b rtol_default atol_default.

  (* Line.unit_tangent: assert self.end != self.start; dseg/abs(dseg).
     bezier_unit_tangent: dseg/abs(dseg), ZeroDivisionError -> singular branch *)
  Definition line_ut (s e : Cplx K) : Cplx K := cunit (e - s).
  Definition seg_ut (g : seg K) (t : K) : utres K :=
    match g with
    | SLine s e => if ceqb N e s then UTOther else UTok (line_ut s e)
    | SCubic s c1 c2 e =>
        let d := cubic_d1 N s c1 c2 e t in
        if eqb N (cabs d) (zero N) then sing_ut g t else UTok (cunit d)
    end.
  Definition seg_length (g : seg K) : K :=
    match g with
    | SLine s e => cabs (e - s)          (* abs(end - start)*(1 - 0) *)
    | SCubic _ _ _ _ => curve_length g
    end.

  (* try: v = seg.unit_tangent(t) / except: v = seg.unit_tangent(tfb) *)
  Definition ut_try (g : seg K) (t tfb : K) : option (Cplx K) :=
    match seg_ut g t with
    | UTok v => Some v
    | _ => match seg_ut g tfb with UTok v => Some v | _ => None end
    end.
  Definition t_fb1 : K := dyadic N 4503149267407759 (-52).   (* the double 1 - 1e-4 *)
  Definition t_fb0 : K := dyadic N 7378697629483821 (-66).   (* the double 1e-4 *)

  (* a = min(maxjointsize/2, min(seg1.length(), seg0.length())/20) *)
  Definition joint_a (mj l0 l1 : K) : K :=
    nmin N (div N mj #2) (div N (nmin N l1 l0) #20).
  Definition b_ll (tight a : K) : K := mul N (sub N #2 tight) a.
  Definition b_lc (tight a : K) : K := mul N (sub N #4 tight) a.
  (* CubicBezier(q - a*v, q - (a - b/3)*v, q + (a - b/3)*w, q + a*w) *)
  Definition elbow_ll (q v w : Cplx K) (a b : K) : seg K :=
    SCubic (q - a ** v) (q - (sub N a (div N b #3)) ** v)
           (q + (sub N a (div N b #3)) ** w) (q + a ** w).
  (* CubicBezier(q - a*v, q + (b/3 - a)*v, q - b/3*w, q) *)
  Definition elbow_lc (q v w : Cplx K) (a b : K) : seg K :=
    SCubic (q - a ** v) (q + (sub N (div N b #3) a) ** v)
           (q - (div N b #3) ** w) q.

  (* the three asserts *)
  Definition sj_pre (seg0 seg1 : seg K) (mj tight : K) : bool :=
    ceqb N (send seg0) (sstart seg1) && ltb N (zero N) mj
    && ltb N (zero N) tight && ltb N tight #2.

  (* q, v, w of a call *)
  Definition sj_vw (seg0 seg1 : seg K) : option (Cplx K * Cplx K) :=
    match ut_try seg0 (one N) t_fb1 with
    | None => None
    | Some v => match ut_try seg1 (zero N) t_fb0 with
                | None => None
                | Some w => Some (v, w)
                end
    end.

  (* seg0 is a Line: the line-line and line-curve branches.  l0, l1 are the
     values seg0.length(), seg1.length() return in this call (the length of a
     reversed cubic comes from the cache shared with the original) *)
  Definition sj_from_line (seg0 seg1 : seg K) (l0 l1 mj tight : K)
    : option (seg K * list (seg K) * seg K) :=
    if negb (sj_pre seg0 seg1 mj tight) then None else
    match sj_vw seg0 seg1 with
    | None => None
    | Some (v, w) =>
        let q := send seg0 in
        let a := joint_a mj l0 l1 in
        if is_line seg1 then
          let elbow := elbow_ll q v w a (b_ll tight a) in
          Some (SLine (sstart seg0) (sstart elbow), [elbow], SLine (send elbow) (send seg1))
        else
          let elbow := elbow_lc q v w a (b_lc tight a) in
          Some (SLine (sstart seg0) (sstart elbow), [elbow], seg1)
    end.

  (* seg0 is a curve, seg1 a Line: by reversal *)
  Definition sj_to_line (seg0 seg1 : seg K) (l0 l1 mj tight : K)
    : option (seg K * list (seg K) * seg K) :=
    if negb (sj_pre seg0 seg1 mj tight) then None else
    match sj_vw seg0 seg1 with
    | None => None
    | Some _ =>
        match sj_from_line (sreversed seg1) (sreversed seg0)
                           (seg_length (sreversed seg1)) l0 mj tight with
        | Some (rseg1_trimmed, relbow :: _, _) =>
            Some (seg0, [sreversed relbow], sreversed rseg1_trimmed)
        | _ => None
        end
    end.

  (* a call whose arguments are not both curves *)
  Definition sj_simple (seg0 seg1 : seg K) (mj tight : K)
    : option (seg K * list (seg K) * seg K) :=
    if is_line seg0 then sj_from_line seg0 seg1 (seg_length seg0) (seg_length seg1) mj tight
    else if is_line seg1 then sj_to_line seg0 seg1 (seg_length seg0) (seg_length seg1) mj tight
    else None.

  (* both curves *)
  Definition sj_cc (seg0 seg1 : seg K) (mj tight : K)
    : option (seg K * list (seg K) * seg K) :=
    if negb (sj_pre seg0 seg1 mj tight) then None else
    match sj_vw seg0 seg1 with
    | None => None
    | Some _ =>
        let q := send seg0 in
        let a := joint_a mj (seg_length seg0) (seg_length seg1) in
        match ilength seg0 (sub N (seg_length seg0) (div N a #2)), ilength seg1 (div N a #2) with
        | Some t0, Some t1 =>
            let seg0_trimmed := cropped seg0 (zero N) t0 in
            let seg1_trimmed := cropped seg1 t1 (one N) in
            let seg0_line := SLine (send seg0_trimmed) q in
            let seg1_line := SLine q (sstart seg1_trimmed) in
            match sj_simple seg0_trimmed seg0_line mj tight with
            | None => None
            | Some (_, elbow0, seg0_line_trimmed) =>
              match sj_simple seg1_line seg1_trimmed mj tight with
              | None => None
              | Some (seg1_line_trimmed, elbow1, _) =>
                match sj_simple seg0_line_trimmed seg1_line_trimmed mj tight with
                | None => None
                | Some (seg0_line_trimmed', elbowq, seg1_line_trimmed') =>
                    Some (seg0_trimmed,
                          elbow0 ++ [seg0_line_trimmed'] ++ elbowq ++ [seg1_line_trimmed'] ++ elbow1,
                          seg1_trimmed)
                end
              end
            end
        | _, _ => None
        end
    end.

  Definition smoothed_joint (seg0 seg1 : seg K) (mj tight : K)
    : option (seg K * list (seg K) * seg K) :=
    if is_line seg0 || is_line seg1 then sj_simple seg0 seg1 mj tight
    else sj_cc seg0 seg1 mj tight.

  (* the joint test of smoothed_path *)
  Definition cls_ut (d0 d1 : utres K) : jclass :=
    match d0 with
    | UTOther => CRaise
    | UTValueError => CKink                      (* flag = True *)
    | UTok u0 =>
        match d1 with
        | UTOther => CRaise
        | UTValueError => CKink
        | UTok u1 =>
            if isclose u0 u1 then CSmooth
            else if isclose (copp N u0) u1 then CSharp
            else CKink
        end
    end.
  Definition tan1 (g : seg K) : utres K := seg_ut g (one N).
  Definition tan0 (g : seg K) : utres K := seg_ut g (zero N).
  Definition classify_seg (seg0 seg1 : seg K) : jclass := cls_ut (tan1 seg0) (tan0 seg1).

  Definition smoothed_path (path : list (seg K)) (mj tight : K) (ignore : bool)
    : sp_result (seg K) :=
    sp_loop classify_seg (fun s0 s1 => smoothed_joint s0 s1 mj tight)
            path (path_continuous N path) (path_closed N path) ignore.

  (* kinks(path, tol): is idx reported, for prev = path[(idx-1) % n], cur = path[idx];
     None = an exception other than ValueError propagates *)
  Definition kink_at (prev cur : seg K) (tol : K) : option bool :=
    match tan1 prev with
    | UTOther => None
    | UTValueError => Some true
    | UTok u =>
        match tan0 cur with
        | UTOther => None
        | UTValueError => Some true
        | UTok v =>
            let d := add N (mul N (re u) (re v)) (mul N (im u) (im v)) in
            Some (ltb N tol (nabs N (sub N d (one N))))
        end
    end.
End Model.
