(* Model/Dstr.v — the d-string serialiser of svgpathtools (path.py, Path.d,
   with QuadraticBezier.is_smooth_from, CubicBezier.is_smooth_from,
   Path.iscontinuous, Path.isclosed), mirrored line by line, over an arbitrary
   carrier [Num K] of which only [sub], [add] and [eqb] are used.

   d_cmds zfix sfix mfix useST closeZ rel p : list (command K)
     the command list Path.d writes for the path p (a list of segments, the
     constructor arguments as the objects store them), every command with ONE
     argument group, upper case unless rel ('.lower()' of the joined string).
     Tokens = Parse.flatten (d_cmds ...); the characters are Model/DstrText.v.

   Three booleans select, for the three places where the pinned code departs
   from the property, between the code as written (false) and a repair (true):
     zfix : `segments = self[:-1]` under use_closed_attrib.  false = the last
            segment is dropped whatever its kind (a closing curve is lost; a
            single closed curve gives 'Z' alone); true = only a closing Line
            of a path with at least two segments is dropped.
     sfix : the test of is_smooth_from when `previous` has the same class.
            false = (control1 - start) == (previous.end - previous.control2);
            true  = control1 == previous.end + previous.end - previous.control2,
            the expression _parse_path evaluates for S (same for T).
     mfix : S/T directly after an emitted 'M'.  false = is_smooth_from is asked
            about the previous segment although a moveto now separates the two
            (the parser then takes the current point as first control point);
            true = previous_segment is forgotten when an 'M' is written.
   (false,false,false) is the pinned code.  tools/harness/c01.py determines on
   every run which variant the code of /repo is. *)
From Coq Require Import List Bool.
From SVP Require Import Base.Num Base.Cplx Model.Parse.
Import ListNotations.
Set Implicit Arguments.

Section Dstr.
  Context {K : Type} (N : Num K).
  Notation pt := (Cplx K).

  Definition seg_start (g : seg K) : pt :=
    match g with Line s _ | Quad s _ _ | Cubic s _ _ _ | Arc s _ _ _ _ _ => s end.
  Definition seg_end (g : seg K) : pt :=
    match g with Line _ e | Quad _ _ e | Cubic _ _ _ e | Arc _ _ _ _ _ e => e end.
  Definition is_line (g : seg K) : bool := match g with Line _ _ => true | _ => false end.

  (* Path.iscontinuous: all(self[i].end == self[i+1].start ...) *)
  Fixpoint iscontinuous (p : list (seg K)) : bool :=
    match p with
    | a :: (b :: _) as r => ceqb N (seg_end a) (seg_start b) && iscontinuous r
    | _ => true
    end.
  (* self[-1] (p non-empty) *)
  Definition last_seg (a : seg K) (r : list (seg K)) : seg K := last r a.
  (* Path.isclosed: self.start == self.end *)
  Definition isclosed (a : seg K) (r : list (seg K)) : bool :=
    ceqb N (seg_start a) (seg_end (last_seg a r)).

  (* QuadraticBezier.is_smooth_from(previous):
       if isinstance(previous, QuadraticBezier):
           return (self.start == previous.end and
                   (self.control - self.start) == (previous.end - previous.control))
       else: return self.control == self.start                                   *)
  Definition quad_smooth (sfix : bool) (prev : option (seg K)) (s c : pt) : bool :=
    match prev with
    | Some (Quad _ pc pe) =>
        ceqb N s pe &&
        (if sfix then ceqb N c (csub N (cadd N pe pe) pc)
         else ceqb N (csub N c s) (csub N pe pc))
    | _ => ceqb N c s
    end.
  (* CubicBezier.is_smooth_from(previous): same with control1 / previous.control2 *)
  Definition cubic_smooth (sfix : bool) (prev : option (seg K)) (s c1 : pt) : bool :=
    match prev with
    | Some (Cubic _ _ pc2 pe) =>
        ceqb N s pe &&
        (if sfix then ceqb N c1 (csub N (cadd N pe pe) pc2)
         else ceqb N (csub N c1 s) (csub N pe pc2))
    | _ => ceqb N c1 s
    end.
  (* does the serialiser write the shorthand for g after prev? *)
  Definition shorthand (useST sfix : bool) (prev : option (seg K)) (g : seg K) : bool :=
    match g with
    | Cubic s c1 _ _ => useST && cubic_smooth sfix prev s c1
    | Quad s c _ => useST && quad_smooth sfix prev s c
    | _ => false
    end.

  (* `x - seg_start` when rel *)
  Definition lower (rel : bool) (ss x : pt) : pt := if rel then csub N x ss else x.

  (* the part written for one segment *)
  Definition emit_seg (useST sfix rel : bool) (prev : option (seg K)) (g : seg K) : command K :=
    let ab := negb rel in
    match g with
    | Line s e => LineTo ab [lower rel s e]
    | Cubic s c1 c2 e =>
        if useST && cubic_smooth sfix prev s c1
        then SmoothTo ab [(lower rel s c2, lower rel s e)]
        else CurveTo ab [(lower rel s c1, lower rel s c2, lower rel s e)]
    | Quad s c e =>
        if useST && quad_smooth sfix prev s c
        then TTo ab [lower rel s e]
        else QuadTo ab [(lower rel s c, lower rel s e)]
    | Arc s r rot la sw e => ArcTo ab [mkArcArgs r rot la sw (lower rel s e)]
    end.

  (* if current_pos != seg_start or (self_closed and seg_start == end and use_closed_attrib) *)
  Definition need_move (self_closed : bool) (endp : pt) (pos : option pt) (ss : pt) : bool :=
    match pos with None => true | Some cp => negb (ceqb N cp ss) end
    || (self_closed && ceqb N ss endp).
  (* _seg_start = seg_start - current_pos if rel and current_pos is not None else seg_start *)
  Definition move_arg (rel : bool) (pos : option pt) (ss : pt) : pt :=
    match pos with
    | Some cp => if rel then csub N ss cp else ss
    | None => ss
    end.

  (* for segment in segments: ...; current_pos = segment.end; previous_segment = segment *)
  Fixpoint d_loop (sfix mfix useST rel self_closed : bool) (endp : pt)
           (pos : option pt) (prev : option (seg K)) (segs : list (seg K)) : list (command K) :=
    match segs with
    | [] => []
    | g :: r =>
        let ss := seg_start g in
        let mv := need_move self_closed endp pos ss in
        let prev' := if mv && mfix then None else prev in
        (if mv then [MoveTo (negb rel) [move_arg rel pos ss]] else [])
        ++ emit_seg useST sfix rel prev' g
        :: d_loop sfix mfix useST rel self_closed endp (Some (seg_end g)) (Some g) r
    end.

  (* self_closed = use_closed_attrib and self.iscontinuous() and self.isclosed() *)
  Definition self_closed_of (closeZ : bool) (a : seg K) (r : list (seg K)) : bool :=
    closeZ && iscontinuous (a :: r) && isclosed a r.
  (* is the last segment left out of the loop? *)
  Definition drops_last (zfix closeZ : bool) (a : seg K) (r : list (seg K)) : bool :=
    self_closed_of closeZ a r &&
    (if zfix then is_line (last_seg a r) && nonempty r else true).
  (* segments = self[:-1] or self[:] *)
  Definition d_segments (zfix closeZ : bool) (p : list (seg K)) : list (seg K) :=
    match p with
    | [] => []
    | a :: r => if drops_last zfix closeZ a r then removelast p else p
    end.

  Definition d_cmds (zfix sfix mfix useST closeZ rel : bool) (p : list (seg K)) : list (command K) :=
    match p with
    | [] => []                                               (* if len(self) == 0: return '' *)
    | a :: r =>
        let sc := self_closed_of closeZ a r in
        d_loop sfix mfix useST rel sc (seg_end (last_seg a r)) None None (d_segments zfix closeZ p)
        ++ (if sc then [Close (negb rel)] else [])             (* parts.append('Z') *)
    end.

  Definition d_tokens (zfix sfix mfix useST closeZ rel : bool) (p : list (seg K)) : list (tok K) :=
    flatten N (d_cmds zfix sfix mfix useST closeZ rel p).

  (* parse_path(p.d(...)) at the level of tokens *)
  Definition roundtrip (none_ok coinc_ok zfix sfix mfix useST closeZ rel : bool) (p : list (seg K))
    : result (list (seg K)) :=
    impl_parse N none_ok coinc_ok (d_tokens zfix sfix mfix useST closeZ rel p) (c0 N).

  (* ---------------------------------------------------------------- *)
  (* the paths the property quantifies over                            *)

  (* no NaN among the coordinates: every coordinate equals itself *)
  Definition pfin (z : pt) : bool := ceqb N z z.
  Definition seg_fin (g : seg K) : bool :=
    match g with
    | Line s e => pfin s && pfin e
    | Quad s c e => pfin s && pfin c && pfin e
    | Cubic s c1 c2 e => pfin s && pfin c1 && pfin c2 && pfin e
    | Arc s r rot _ _ e => pfin s && pfin r && eqb N rot rot && pfin e
    end.
  (* no zero-length Line; an Arc as Arc.__init__ stores it: start != end, radii
     non-zero and non-negative (abs() has been applied) *)
  Definition seg_wf (g : seg K) : bool :=
    seg_fin g &&
    match g with
    | Line s e => negb (ceqb N s e)
    | Arc s r _ _ _ e =>
        negb (ceqb N s e)
        && negb (eqb N (re r) (zero N)) && negb (eqb N (im r) (zero N))
        && negb (ltb N (re r) (zero N)) && negb (ltb N (im r) (zero N))
    | _ => true
    end.
  Definition path_wf (p : list (seg K)) : bool := nonempty p && forallb seg_wf p.

  (* kind and arc flags of a segment: what may never change *)
  Inductive shape := KLine | KQuad | KCubic | KArc (large sweep : bool).
  Definition shape_of (g : seg K) : shape :=
    match g with
    | Line _ _ => KLine | Quad _ _ _ => KQuad | Cubic _ _ _ _ => KCubic
    | Arc _ _ _ la sw _ => KArc la sw
    end.
End Dstr.
