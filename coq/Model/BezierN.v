(* Model/BezierN.v — models of the degree-generic helpers of
   svgpathtools/bezier.py and polytools.py that are not already in
   Model/Bezier.v: bezier2polynomial, polyroots' filtering/de-duplication,
   rational_limit. *)
From Coq Require Import ZArith List Bool.
From SVP Require Import Base.Num Base.Cplx Base.Poly Model.Bezier.
Import ListNotations.
Set Implicit Arguments.

Section BezierN.
  Context {K : Type} (N : Num K).
  Local Notation "x + y" := (cadd N x y).
  Local Notation "x - y" := (csub N x y).
  Local Notation "r ** z" := (cscale N r z) (at level 40, left associativity).
  Local Notation "# z" := (lit N z) (at level 1, format "# z").

  (* (-1)^(i+j) * p_i / (i! (j-i)!) summed over i <= j, times n!/(n-j)! :
     coefficient of t^j *)
  Definition b2p_term (i j : nat) (pi : Cplx K) : Cplx K :=
    cdivr N (#(if Nat.even (i + j) then 1 else (-1)) ** pi) #(fact i * fact (j - i)).
  Fixpoint b2p_sum (i j : nat) (p : list (Cplx K)) (acc : Cplx K) : Cplx K :=
    match p with
    | [] => acc
    | pi :: r => if Nat.leb i j then b2p_sum (S i) j r (acc + b2p_term i j pi) else acc
    end.
  Definition b2p_coeff (n j : nat) (p : list (Cplx K)) : Cplx K :=
    #(fact n / fact (n - j)) ** b2p_sum 0 j p (c0 N).
  (* bezier2polynomial(p), numpy ordering (highest degree first) *)
  Definition bezier2polynomial (p : list (Cplx K)) : list (Cplx K) :=
    match p with
    | [p0] => [p0]
    | [p0; p1] => [p1 - p0; p0]
    | [p0; p1; p2] => [p0 - #2 ** p1 + p2; #2 ** (p1 - p0); p0]
    | [p0; p1; p2; p3] =>
        [copp N p0 + #3 ** (p1 - p2) + p3; #3 ** (p0 - #2 ** p1 + p2); #3 ** (p1 - p0); p0]
    | _ => let n := (length p - 1)%nat in
           rev (map (fun j => b2p_coeff n j p) (seq 0 (S n)))
    end.
End BezierN.

(* ---------- polytools.polyroots ---------- *)
Section Roots.
  Context {K : Type} (N : Num K).
  (* misctools.isclose(a, b): |a-b| < atol + rtol*|b| *)
  Variables (rtol atol : K).
  Definition isclose (a b : K) : bool :=
    ltb N (nabs N (sub N a b)) (add N atol (mul N rtol (nabs N b))).

  (* combinations(roots, 2) in itertools order, paired with their running index *)
  Fixpoint pairs_from (x : K) (l : list K) : list (K * K) :=
    match l with [] => [] | y :: r => (x, y) :: pairs_from x r end.
  Fixpoint combinations2 (l : list K) : list (K * K) :=
    match l with [] => [] | x :: r => pairs_from x r ++ combinations2 r end.
  Fixpoint close_pair_indices (i : nat) (ps : list (K * K)) : list nat :=
    match ps with
    | [] => []
    | (a, b) :: r => if isclose a b then i :: close_pair_indices (S i) r
                     else close_pair_indices (S i) r
    end.
  Fixpoint drop_indices (i : nat) (dups : list nat) (l : list K) : list K :=
    match l with
    | [] => []
    | x :: r => if existsb (Nat.eqb i) dups then drop_indices (S i) dups r
                else x :: drop_indices (S i) dups r
    end.
  (* AS CODED: the index of a close PAIR is used as the index of a ROOT *)
  Definition dedup_coded (roots : list K) : list K :=
    drop_indices 0 (close_pair_indices 0 (combinations2 roots)) roots.

  (* index-correct de-duplication: drop root j when it is close to an earlier root i<j *)
  Fixpoint dedup_fixed_aux (seen : list K) (l : list K) : list K :=
    match l with
    | [] => []
    | x :: r => if existsb (fun y => isclose y x) seen
                then dedup_fixed_aux (seen ++ [x]) r
                else x :: dedup_fixed_aux (seen ++ [x]) r
    end.
  Definition dedup_fixed (roots : list K) : list K := dedup_fixed_aux [] roots.

  (* polyroots(p, realroots, condition) given the oracle's answer np.roots(p):
     complex roots as pairs *)
  Definition polyroots (fixed : bool) (oracle_roots : list (Cplx K)) (realroots : bool)
             (condition : K -> bool) : list K :=
    let rs := if realroots
              then map fst (filter (fun z => isclose (snd z) (zero N)) oracle_roots)
              else map fst oracle_roots in   (* complex case not modelled: real parts *)
    let rs := filter condition rs in
    if fixed then dedup_fixed rs else dedup_coded rs.
  Definition polyroots01 (fixed : bool) (oracle_roots : list (Cplx K)) : list K :=
    polyroots fixed oracle_roots true (fun r => leb N (zero N) r && leb N r (one N)).
End Roots.

(* ---------- polytools.rational_limit ---------- *)
Inductive rl_result (A : Type) := RLok (v : A) | RLvalueerror | RLassert | RLfuel.
Arguments RLok {A} _. Arguments RLvalueerror {A}. Arguments RLassert {A}. Arguments RLfuel {A}.

Section RatLimit.
  Context {K : Type} (N : Num K).
  Definition all_zero (p : list K) : bool := forallb (fun c => eqb N c (zero N)) p.
  (* f, g real-coefficient polynomials (highest first); the complex-f variant
     is componentwise *)
  Fixpoint rational_limit (fuel : nat) (f g : list K) (t0 : K) : rl_result K :=
    if all_zero g then RLassert     (* assert g != poly1d([0]) *)
    else if negb (eqb N (peval N g t0) (zero N)) then RLok (div N (peval N f t0) (peval N g t0))
    else if eqb N (peval N f t0) (zero N) then
      match fuel with
      | O => RLfuel
      | S k => rational_limit k (pderiv N f) (pderiv N g) t0
      end
    else RLvalueerror.
End RatLimit.
