(* Model/PathCacheExec.v — two executable instances of Model/PathCache.v.

   [Sym]  numbers are symbolic terms (SLen d t = "length of a fresh segment with
          control data d at tolerance t"): used for the _refuted witnesses, where
          a stale answer shows as a term naming the wrong data / tolerance.
   [Ex]   numbers are exact rationals and len_of is a finite table measured by
          the harness on FRESH implementation segments: used by the generated
          case files (tools/harness/c16.py), where the model has to predict what
          the mutated implementation object answers. *)
From Coq Require Import ZArith QArith Qcanon List Bool.
From SVP Require Import Base.Num Base.Cplx Model.PathCache.
Import ListNotations.

Fixpoint list_eqb {A} (eqb : A -> A -> bool) (l1 l2 : list A) : bool :=
  match l1, l2 with
  | [], [] => true
  | a :: r1, b :: r2 => eqb a b && list_eqb eqb r1 r2
  | _, _ => false
  end.
Lemma list_eqb_eq : forall {A} (eqb : A -> A -> bool),
    (forall a b, eqb a b = true -> a = b) -> forall l1 l2, list_eqb eqb l1 l2 = true -> l1 = l2.
Proof.
  intros A eqb H. induction l1; destruct l2; simpl; intros E; try discriminate; auto.
  apply andb_true_iff in E. destruct E as [E1 E2]. f_equal; auto.
Qed.

(* tolerances: (error, min_depth) *)
Definition Tol : Type := (Qc * Z)%type.
Definition tol_eqb (a b : Tol) : bool := Qc_eq_bool (fst a) (fst b) && Z.eqb (snd a) (snd b).
Lemma tol_eqb_eq : forall a b, tol_eqb a b = true -> a = b.
Proof.
  intros [e1 d1] [e2 d2]; unfold tol_eqb; simpl. rewrite andb_true_iff. intros [A B].
  apply Qc_eq_bool_correct in A. apply Z.eqb_eq in B. congruence.
Qed.
(* pinned:   `_length_info['error'] >= error and _length_info['min_depth'] >= min_depth`
   repaired: `_length_info['error'] <= error and _length_info['min_depth'] >= min_depth`
   first argument: the cached tolerance *)
Definition tol_reuse_pinned (c t : Tol) : bool := Qc_leb (fst t) (fst c) && Z.leb (snd t) (snd c).
Definition tol_reuse_fixed (c t : Tol) : bool := Qc_leb (fst c) (fst t) && Z.leb (snd t) (snd c).
Definition tol_reuse (fx : fixes) : Tol -> Tol -> bool :=
  if fx_cubic fx then tol_reuse_fixed else tol_reuse_pinned.
(* LENGTH_ERROR = 1e-12, LENGTH_MIN_DEPTH = 5 *)
Definition t_default : Tol := (qc 1 1000000000000, 5%Z).

(* ------------------------------------------------------------------ Sym *)
Module Sym.
  Definition P : Type := (Z * Z)%type.                 (* Gaussian-integer points *)
  Definition P_eqb (a b : P) : bool := Z.eqb (fst a) (fst b) && Z.eqb (snd a) (snd b).
  Definition P_falsy (a : P) : bool := P_eqb a (0, 0)%Z.
  Definition Pay : Type := list P.
  Definition Pay_eqb : Pay -> Pay -> bool := list_eqb P_eqb.
  Lemma P_eqb_eq : forall a b, P_eqb a b = true -> a = b.
  Proof.
    intros [a1 a2] [b1 b2]; unfold P_eqb; simpl. rewrite andb_true_iff. intros [A B].
    apply Z.eqb_eq in A. apply Z.eqb_eq in B. congruence.
  Qed.
  Lemma Pay_eqb_eq : forall a b, Pay_eqb a b = true -> a = b.
  Proof. apply list_eqb_eq. apply P_eqb_eq. Qed.

  Definition SD : Type := @sdata P Pay.
  Inductive sym :=
  | SZero | SOne
  | SLit (q : Qc)
  | SLen (d : SD) (t : Tol)
  | SAdd (a b : sym) | SSub (a b : sym) | SDiv (a b : sym).
  Definition sd_eqb : SD -> SD -> bool := sdata_eqb P_eqb Pay_eqb.
  Fixpoint sym_eqb (a b : sym) : bool :=
    match a, b with
    | SZero, SZero | SOne, SOne => true
    | SLit p, SLit q => Qc_eq_bool p q
    | SLen d t, SLen d' t' => sd_eqb d d' && tol_eqb t t'
    | SAdd a1 a2, SAdd b1 b2 | SSub a1 a2, SSub b1 b2 | SDiv a1 a2, SDiv b1 b2 =>
        sym_eqb a1 b1 && sym_eqb a2 b2
    | _, _ => false
    end.
  (* order on symbolic numbers is not decided: point / T2t are not used with
     this instance *)
  Definition sym_geb (a b : sym) : bool := false.

  Definition Seg : Type := @seg P Pay Tol sym.
  Definition St : Type := @state P Pay Tol sym.
  Definition Op : Type := @op P Pay Tol sym.
  Definition Q : Type := @query P Pay Tol sym.
  Definition Ev : Type := @event P Pay Tol sym.
  Definition Val : Type := @value P Pay sym.
  Definition seg_length (fx : fixes) : Seg -> Tol -> Seg * sym :=
    seg_length fx P_eqb Pay_eqb (tol_reuse fx) tol_eqb SLen.
  Definition step (fx : fixes) : St -> Op -> St * @result P Pay := step fx P_eqb Pay_eqb.
  Definition obs (fx : fixes) : St -> Q -> St * Val :=
    obs fx P_eqb P_falsy Pay_eqb (tol_reuse fx) tol_eqb t_default SLen SZero SOne SAdd SSub SDiv sym_eqb sym_geb.
  Definition run (fx : fixes) : St -> list Ev -> St :=
    run fx P_eqb P_falsy Pay_eqb (tol_reuse fx) tol_eqb t_default SLen SZero SOne SAdd SSub SDiv sym_eqb sym_geb.
  Definition trace (fx : fixes) : St -> list Ev -> list (@outcome P Pay sym) :=
    trace fx P_eqb P_falsy Pay_eqb (tol_reuse fx) tol_eqb t_default SLen SZero SOne SAdd SSub SDiv sym_eqb sym_geb.
  Definition ask (fx : fixes) (s : St) (q : Q) : Val := snd (obs fx s q).

  Definition line (a b : P) : Seg := fresh_seg (mkSD KLine a b []).
  Definition quad (a c b : P) : Seg := fresh_seg (mkSD KQuad a b [c]).
  Definition cubic (a c1 c2 b : P) : Seg := fresh_seg (mkSD KCubic a b [c1; c2]).
  (* radius, (rotation, 2*large_arc + sweep) *)
  Definition arc (a r : P) (rot fl : Z) (b : P) : Seg := fresh_seg (mkSD KArc a b [r; (rot, fl)]).
  (* reversed control data of a Bezier segment *)
  Definition rev_data (d : SD) : SD := mkSD (skind d) (send d) (sstart d) (rev (spay d)).
  Definition sym_truthy (v : sym) : bool := negb (sym_eqb v SZero).
End Sym.

(* ------------------------------------------------------------------- Ex *)
Module Ex.
  Definition P : Type := Cplx Qc.
  Definition P_eqb (a b : P) : bool := Qc_eq_bool (fst a) (fst b) && Qc_eq_bool (snd a) (snd b).
  Definition P_falsy (a : P) : bool := P_eqb a (Q2Qc 0, Q2Qc 0).
  Definition Pay : Type := list Qc.
  Definition Pay_eqb : Pay -> Pay -> bool := list_eqb Qc_eq_bool.
  Lemma P_eqb_eq : forall a b, P_eqb a b = true -> a = b.
  Proof.
    intros [a1 a2] [b1 b2]; unfold P_eqb; simpl. rewrite andb_true_iff. intros [A B].
    apply Qc_eq_bool_correct in A. apply Qc_eq_bool_correct in B. congruence.
  Qed.
  Lemma Pay_eqb_eq : forall a b, Pay_eqb a b = true -> a = b.
  Proof. apply list_eqb_eq. apply Qc_eq_bool_correct. Qed.

  Definition SD : Type := @sdata P Pay.
  Definition sd_eqb : SD -> SD -> bool := sdata_eqb P_eqb Pay_eqb.
  (* measured lengths of fresh segments: ((data, tolerance), value) *)
  Definition Table : Type := list (SD * Tol * Qc).
  Definition missing : Qc := Q2Qc (-(7777777 # 1)).
  Fixpoint lookup (tb : Table) (d : SD) (t : Tol) : Qc :=
    match tb with
    | [] => missing
    | (d', t', v) :: r => if tol_eqb t' t && sd_eqb d' d then v else lookup r d t
    end.
  Definition q0 : Qc := Q2Qc 0.
  Definition q1 : Qc := Q2Qc 1.
  Definition q_geb (a b : Qc) : bool := Qc_leb b a.

  Definition Seg : Type := @seg P Pay Tol Qc.
  Definition St : Type := @state P Pay Tol Qc.
  Definition Op : Type := @op P Pay Tol Qc.
  Definition Q : Type := @query P Pay Tol Qc.
  Definition Ev : Type := @event P Pay Tol Qc.
  Definition Val : Type := @value P Pay Qc.
  Definition Out : Type := @outcome P Pay Qc.
  Definition step_ev (fx : fixes) (tb : Table) : St -> Ev -> St * Out :=
    step_ev fx P_eqb P_falsy Pay_eqb (tol_reuse fx) tol_eqb t_default (lookup tb) q0 q1 Qcplus Qcminus Qcdiv Qc_eq_bool q_geb.
  Definition obs (fx : fixes) (tb : Table) : St -> Q -> St * Val :=
    obs fx P_eqb P_falsy Pay_eqb (tol_reuse fx) tol_eqb t_default (lookup tb) q0 q1 Qcplus Qcminus Qcdiv Qc_eq_bool q_geb.
  Definition step (fx : fixes) : St -> Op -> St * @result P Pay := step fx P_eqb Pay_eqb.
End Ex.
