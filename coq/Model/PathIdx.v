(* Model/PathIdx.v — model of svgpathtools.path.Path: _calc_lengths, point (the
   search part), T2t, t2T, iscontinuous, continuous_subpaths, isclosed.

   Segment lengths are DATA (the numeric length functions are C06's subject).
   Each length carries a tag: [true] = the Python object is an exact `float`,
   [false] = it is a numpy scalar (QuadraticBezier.length returns numpy.float64).
   The tag matters only in binary64:
     * CPython >= 3.12 `sum()` adds exact floats with Neumaier compensation and
       switches to plain left-to-right addition at the first non-float item;
       CPython < 3.12 (flag comp = false) is the plain left fold from 0;
     * float / 0.0 raises ZeroDivisionError, numpy.float64 / 0.0 returns inf/nan.
   Over an exact field both summations are the left fold (Proofs/PathIdxR.v),
   so the theorems over R do not depend on the tags.

   Two flags select the variant of the code; everything else is shared.
   [fb] ("fallback"): false = the code before the repair (falling out of the
   search loop raises BugException in T2t / RuntimeError in point); true = the
   repaired code: a T in [0,1] beyond the floating-point sum of the fractions
   belongs to the end (t = 1) of the last segment of nonzero length (of the last
   segment if there is none), `_last_nonzero_length_index`.
   [cl] ("clamp"): false = T2t returns the raw quotient (T - T0)/seg_length,
   which can exceed 1 by rounding; true = the repaired `min(quotient, 1.0)`. *)
From Coq Require Import ZArith List Bool Arith.
From SVP Require Import Base.Num.
Import ListNotations.
Set Implicit Arguments.

Inductive perr := EValue | ERuntime | EBug | EAssert | EZeroDiv | EIndex.
Inductive res (A : Type) := Ok (a : A) | Err (e : perr).
Arguments Ok {A} _. Arguments Err {A} _.

(* outcome of a search loop *)
Inductive found (K : Type) := Found (k : Z) (t : K) | ZeroDiv | Fell.
Arguments Found {K} _ _. Arguments ZeroDiv {K}. Arguments Fell {K}.

Definition last_idx (n : nat) : Z := (Z.of_nat n - 1)%Z.   (* len(self) - 1 *)

Section PathIdx.
  Context {K : Type} (N : Num K).

  (* ---------------- builtin sum() ---------------- *)
  (* Py_IS_FINITE(c): c - c == 0 fails exactly for inf and nan *)
  Definition is_finite (c : K) : bool := eqb N (sub N c c) (zero N).
  (* `if (c && Py_IS_FINITE(c)) f_result += c;` *)
  Definition flush (f c : K) : K :=
    if neqb N c (zero N) && is_finite c then add N f c else f.
  (* generic PyNumber_Add loop *)
  Fixpoint sum_plain (l : list (bool * K)) (acc : K) : K :=
    match l with
    | [] => acc
    | (_, x) :: r => sum_plain r (add N acc x)
    end.
  (* the float fast path of CPython >= 3.12 (Neumaier) *)
  Fixpoint sum_neu (l : list (bool * K)) (f c : K) : K :=
    match l with
    | [] => flush f c
    | (true, x) :: r =>
        let t := add N f x in
        let c' := if leb N (nabs N x) (nabs N f)           (* fabs(f_result) >= fabs(x) *)
                  then add N c (add N (sub N f t) x)
                  else add N c (add N (sub N x t) f) in
        sum_neu r t c'
    | (false, x) :: r => sum_plain r (add N (flush f c) x)
    end.
  (* sum(l) with start = int 0; the first item is added by the generic 0 + x *)
  Definition pysum (comp : bool) (l : list (bool * K)) : K :=
    if comp then
      match l with
      | [] => zero N
      | (true, x) :: r => sum_neu r (add N (zero N) x) (zero N)
      | (false, x) :: r => sum_plain r (add N (zero N) x)
      end
    else sum_plain l (zero N).

  (* ---------------- _calc_lengths ---------------- *)
  Definition all_exact (l : list (bool * K)) : bool := forallb fst l.
  Definition total (comp : bool) (tl : list (bool * K)) : K := pysum comp tl.
  (* self._lengths *)
  Definition fractions (comp : bool) (tl : list (bool * K)) : list (bool * K) :=
    let tot := total comp tl in
    if eqb N tot (zero N) then tl
    else map (fun bx => (all_exact tl, div N (snd bx) tot)) tl.
  (* sum(self._lengths[:k]) *)
  Definition cum (comp : bool) (fs : list (bool * K)) (k : nat) : K :=
    pysum comp (firstn k fs).

  (* ---------------- _last_nonzero_length_index (repaired code only) ---------------- *)
  (* for idx in reversed(range(len)): if _lengths[idx] > 0: return idx;  return len - 1
     = the last index whose length is > 0, scanning forward and remembering *)
  Fixpoint last_pos_from (fs : list (bool * K)) (k best : Z) : Z :=
    match fs with
    | [] => best
    | (_, l) :: r => last_pos_from r (k + 1)%Z (if ltb N (zero N) l then k else best)
    end.
  Definition fallback_idx (fs : list (bool * K)) : Z :=
    last_pos_from fs 0%Z (last_idx (length fs)).

  (* ---------------- T2t ---------------- *)
  (* min(q, 1.0): Python's min returns its first argument unless 1.0 < q *)
  Definition clamp1 (cl : bool) (q : K) : K := if cl then nmin N q (one N) else q.
  Fixpoint T2t_loop (cl : bool) (fs : list (bool * K)) (k : Z) (T0 T : K) : found K :=
    match fs with
    | [] => Fell
    | (ex, l) :: r =>
        let T1 := add N T0 l in
        if leb N T T1                                   (* T1 >= T *)
        then if ex && eqb N l (zero N) then ZeroDiv
             else Found k (clamp1 cl (div N (sub N T T0) l))
        else T2t_loop cl r (k + 1)%Z T1 T
    end.
  Definition in01 (T : K) : bool := leb N (zero N) T && leb N T (one N).
  Definition T2t_fr (cl fb : bool) (fs : list (bool * K)) (T : K) : res (Z * K) :=
    if eqb N T (one N) then Ok (last_idx (length fs), one N)
    else if eqb N T (zero N) then Ok (0%Z, zero N)
    else match T2t_loop cl fs 0%Z (zero N) T with
         | Found k t => Ok (k, t)
         | ZeroDiv => Err EZeroDiv
         | Fell => if in01 T                               (* assert 0 <= T <= 1 *)
                   then if fb then Ok (fallback_idx fs, one N) else Err EBug
                   else Err EAssert
         end.
  Definition T2t (comp cl fb : bool) (tl : list (bool * K)) (T : K) : res (Z * K) :=
    T2t_fr cl fb (fractions comp tl) T.
  Definition T2t_fixed := T2t_fr true true.      (* the repaired code *)

  (* ---------------- point: which segment, at which parameter ---------------- *)
  Fixpoint point_loop (fs : list (bool * K)) (k : Z) (s T : K) : found K :=
    match fs with
    | [] => Fell
    | (ex, l) :: r =>
        let e := add N s l in
        if leb N T e                                    (* segment_end >= pos *)
        then let d := sub N e s in
             if ex && eqb N d (zero N) then ZeroDiv
             else Found k (div N (sub N T s) d)
        else point_loop r (k + 1)%Z e T
    end.
  Definition point_fr (fb : bool) (fs : list (bool * K)) (T : K) : res (Z * K) :=
    if (length fs =? 0)%nat then Err EValue
    else if eqb N T (zero N) then Ok (0%Z, T)
    else if eqb N T (one N) then Ok (last_idx (length fs), T)
    else match point_loop fs 0%Z (zero N) T with
         | Found k t => Ok (k, t)
         | ZeroDiv => Err EZeroDiv
         | Fell => if fb && in01 T then Ok (fallback_idx fs, one N) else Err ERuntime
         end.
  Definition point_search (comp fb : bool) (tl : list (bool * K)) (T : K) : res (Z * K) :=
    point_fr fb (fractions comp tl) T.

  (* Path.point(T) for segments of an abstract type with evaluation [spoint] *)
  Definition path_point {S P : Type} (spoint : S -> K -> P) (comp fb : bool)
             (segs : list S) (tl : list (bool * K)) (T : K) : res P :=
    match point_search comp fb tl T with
    | Ok (k, t) => match nth_error segs (Z.to_nat k) with
                   | Some s => Ok (spoint s t)
                   | None => Err EIndex
                   end
    | Err e => Err e
    end.

  (* ---------------- t2T (integer seg argument) ---------------- *)
  Definition t2T_fr (comp : bool) (fs : list (bool * K)) (k : nat) (t : K) : res K :=
    match nth_error fs k with
    | None => Err EIndex
    | Some (_, l) =>
        let s := cum comp fs k in
        let e := add N s l in
        Ok (add N (mul N (sub N e s) t) s)
    end.
  Definition t2T (comp : bool) (tl : list (bool * K)) (k : nat) (t : K) : res K :=
    t2T_fr comp (fractions comp tl) k t.
End PathIdx.

(* ---------------- continuity predicates ---------------- *)
Section Continuity.
  Context {S P : Type} (start_ end_ : S -> P) (peq : P -> P -> bool).
  (* [peq] is Python's == on the end points; `!=` is its negation.  No law is
     assumed (for complex binary64, == is not even reflexive on nan). *)

  (* self[i].end == self[j].start; an index out of range would be IndexError *)
  Definition joint (p : list S) (i j : nat) : option bool :=
    match nth_error p i, nth_error p j with
    | Some a, Some b => Some (peq (end_ a) (start_ b))
    | _, _ => None
    end.
  Definition jtrue (o : option bool) : bool := match o with Some b => b | None => false end.

  (* all(self[i].end == self[i+1].start for i in range(len(self) - 1)) *)
  Definition iscontinuous (p : list S) : bool :=
    forallb (fun i => jtrue (joint p i (i + 1))) (seq 0 (length p - 1)).

  (* self[a:b] *)
  Definition slice (p : list S) (a b : nat) : list S := firstn (b - a) (skipn a p).

  (* the for loop of continuous_subpaths: state = (subpaths, subpath_start) *)
  Fixpoint cs_loop (p : list S) (is : list nat) (acc : list (list S)) (st : nat)
    : list (list S) * nat :=
    match is with
    | [] => (acc, st)
    | i :: r =>
        if negb (jtrue (joint p i ((i + 1) mod length p)))   (* the `% len(self)` oddity *)
        then cs_loop p r (acc ++ [slice p st (i + 1)]) (i + 1)
        else cs_loop p r acc st
    end.
  Definition continuous_subpaths (p : list S) : list (list S) :=
    let '(acc, st) := cs_loop p (seq 0 (length p - 1)) [] 0 in
    acc ++ [slice p st (length p)].

  (* isclosed: two asserts, then self.start == self.end *)
  Definition isclosed (p : list S) : res bool :=
    match p with
    | [] => Err EAssert
    | a :: _ => if iscontinuous p then Ok (peq (start_ a) (end_ (last p a))) else Err EAssert
    end.

  (* structural reference versions (what the loops compute; Proofs/PathIdxList.v) *)
  Fixpoint iscont_rec (p : list S) : bool :=
    match p with
    | [] => true
    | a :: r => match r with
                | [] => true
                | b :: _ => peq (end_ a) (start_ b) && iscont_rec r
                end
    end.
  Definition glue (pre : list S) (gs : list (list S)) : list (list S) :=
    match gs with
    | [] => [pre]
    | g :: r => (pre ++ g) :: r
    end.
  Fixpoint cs_rec (p : list S) : list (list S) :=
    match p with
    | [] => [[]]
    | a :: r => match r with
                | [] => [[a]]
                | b :: _ => if peq (end_ a) (start_ b) then glue [a] (cs_rec r)
                            else [a] :: cs_rec r
                end
    end.
  (* adjacent pieces are separated by a real discontinuity *)
  Fixpoint separated (gs : list (list S)) : bool :=
    match gs with
    | [] => true
    | g1 :: r => match r with
                 | [] => true
                 | g2 :: _ =>
                     match g1, g2 with
                     | a :: g1', b :: _ => negb (peq (end_ (last g1 a)) (start_ b))
                     | _, _ => false
                     end && separated r
                 end
    end.
End Continuity.
