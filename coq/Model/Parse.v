(* Model/Parse.v — the SVG path-data parser of svgpathtools (path.py,
   Path._parse_path) and an independent reference interpreter of SVG 1.1 §8.3.

   Two artefacts, written independently of each other:

   (i)  impl_parse : a line-by-line model of the while-loop of _parse_path.
        It works on the token list produced by the tokenizer (Model/Lexer.v)
        and mirrors the code's state: the token stack, command /
        last_command / absolute, current_pos, start_pos, the segment list,
        implicit repetition, the M -> L switch, Z setting command := None,
        the test `last_command not in 'CS'` (with its behaviour when
        last_command is None), zero-radius arc -> Line, the assertion of
        Arc.__init__ (start != end), and every way the loop can raise
        (pop from empty list, float() of a command letter, implicit command
        with command None).  Errors are explicit values.

        The model is parameterised by two booleans that select the behaviour
        on the two places where the pinned code departs from the SVG
        specification; (false, false) is the pinned code:
          none_ok  : what `None in 'CS'` does.  false = raises TypeError (the
                     code as written); true = the test is
                     `last_command is None or last_command not in 'CS'`.
          coinc_ok : what an elliptical arc whose end point equals the current
                     point does.  false = Arc.__init__'s `assert start != end`
                     fires (AssertionError), unless a radius is zero, in which
                     case the zero-length Line is appended (the code as
                     written); true = the arc is omitted (SVG F.6.2), the
                     test being made before the zero-radius test.
        The correspondence check (tools/harness/c02.py) determines on every
        run which variant the code of /repo is.

   (ii) spec_run : a reference interpreter over a grammatical command AST,
        written from the text of SVG 1.1 §8.3 (and implementation notes
        F.6.2/F.6.6 for arcs).  Its state is what the specification speaks
        about: the current point, the initial point of the current subpath,
        and the last control point of the previous command with its kind.

   flatten renders an AST to the token list (implicit repetition = the
   argument groups just follow each other).

   Everything is generic in the carrier K of coordinates; only add, sub, eqb,
   zero, one, (and ltb/opp inside nabs for the radii) of `Num K` are used.
   Points are `Cplx K`. *)
From Coq Require Import List Bool.
From SVP Require Import Base.Num Base.Cplx.
Import ListNotations.
Set Implicit Arguments.

(* ------------------------------------------------------------------ *)
(* command letters, errors                                             *)

Inductive cmdletter := cM | cZ | cL | cH | cV | cC | cS | cQ | cT | cA.

Definition cmd_eqb (a b : cmdletter) : bool :=
  match a, b with
  | cM, cM | cZ, cZ | cL, cL | cH, cH | cV, cV
  | cC, cC | cS, cS | cQ, cQ | cT, cT | cA, cA => true
  | _, _ => false
  end.

(* the ways _parse_path can fail.  [StartNone]: a closepath before any moveto;
   Python does not raise there (start_pos is None: it appends
   Line(current_pos, None) and continues with current_pos = None); the model
   stops with this value — the situation is outside the grammar.
   [OutOfFuel] is never produced (see Proofs/ParseRefine.v, run_fuel). *)
Inductive perr := IndexError | ValueError | TypeError | AttributeError
                | AssertionError | StartNone | OutOfFuel.

Inductive result (A : Type) := Ok (a : A) | Err (e : perr).
Arguments Ok {A} a.
Arguments Err {A} e.

Definition bind {A B} (r : result A) (f : A -> result B) : result B :=
  match r with Ok a => f a | Err e => Err e end.

Definition perr_eqb (a b : perr) : bool :=
  match a, b with
  | IndexError, IndexError | ValueError, ValueError | TypeError, TypeError
  | AttributeError, AttributeError | AssertionError, AssertionError
  | StartNone, StartNone | OutOfFuel, OutOfFuel => true
  | _, _ => false
  end.

(* ------------------------------------------------------------------ *)
(* segments and tokens                                                 *)

(* An Arc is the record of the constructor's arguments as Arc.__init__ stores
   them: start, radius (abs of both parts), rotation, bool(large_arc),
   bool(sweep), end.  The re-scaling of too-small radii is property C04's. *)
Inductive seg (K : Type) :=
| Line (s e : Cplx K)
| Quad (s c e : Cplx K)
| Cubic (s c1 c2 e : Cplx K)
| Arc (s r : Cplx K) (rot : K) (large sweep : bool) (e : Cplx K).
Arguments Line {K} s e.
Arguments Quad {K} s c e.
Arguments Cubic {K} s c1 c2 e.
Arguments Arc {K} s r rot large sweep e.

Inductive tok (K : Type) :=
| TCmd (c : cmdletter) (upper : bool)
| TNum (v : K).
Arguments TCmd {K} c upper.
Arguments TNum {K} v.

(* arguments of one elliptical-arc group *)
Record arcargs (K : Type) := mkArcArgs {
  aa_r : Cplx K; aa_rot : K; aa_large : bool; aa_sweep : bool; aa_end : Cplx K }.
Arguments mkArcArgs {K} _ _ _ _ _.

(* grammatical command AST: one node per command letter occurrence, with the
   list of its argument groups (non-empty for every command but closepath;
   see [grammatical]).  [abs] = upper-case letter. *)
Inductive command (K : Type) :=
| MoveTo (abs : bool) (ps : list (Cplx K))
| LineTo (abs : bool) (ps : list (Cplx K))
| HTo (abs : bool) (xs : list K)
| VTo (abs : bool) (ys : list K)
| CurveTo (abs : bool) (cs : list (Cplx K * Cplx K * Cplx K))
| SmoothTo (abs : bool) (cs : list (Cplx K * Cplx K))
| QuadTo (abs : bool) (qs : list (Cplx K * Cplx K))
| TTo (abs : bool) (ps : list (Cplx K))
| ArcTo (abs : bool) (l : list (arcargs K))
| Close (upper : bool).
Arguments MoveTo {K} abs ps.
Arguments LineTo {K} abs ps.
Arguments HTo {K} abs xs.
Arguments VTo {K} abs ys.
Arguments CurveTo {K} abs cs.
Arguments SmoothTo {K} abs cs.
Arguments QuadTo {K} abs qs.
Arguments TTo {K} abs ps.
Arguments ArcTo {K} abs l.
Arguments Close {K} upper.

Section Parse.
  Context {K : Type} (N : Num K).
  Notation pt := (Cplx K).

  (* ---------------------------------------------------------------- *)
  (* equality tests                                                    *)

  Definition seg_eqb (a b : seg K) : bool :=
    match a, b with
    | Line s e, Line s' e' => ceqb N s s' && ceqb N e e'
    | Quad s c e, Quad s' c' e' => ceqb N s s' && ceqb N c c' && ceqb N e e'
    | Cubic s c1 c2 e, Cubic s' c1' c2' e' =>
        ceqb N s s' && ceqb N c1 c1' && ceqb N c2 c2' && ceqb N e e'
    | Arc s r rot la sw e, Arc s' r' rot' la' sw' e' =>
        ceqb N s s' && ceqb N r r' && eqb N rot rot' && Bool.eqb la la'
        && Bool.eqb sw sw' && ceqb N e e'
    | _, _ => false
    end.

  Fixpoint segs_eqb (l1 l2 : list (seg K)) : bool :=
    match l1, l2 with
    | [], [] => true
    | a :: r1, b :: r2 => seg_eqb a b && segs_eqb r1 r2
    | _, _ => false
    end.

  Definition tok_eqb (a b : tok K) : bool :=
    match a, b with
    | TCmd c u, TCmd c' u' => cmd_eqb c c' && Bool.eqb u u'
    | TNum v, TNum v' => eqb N v v'
    | _, _ => false
    end.

  Fixpoint toks_eqb (l1 l2 : list (tok K)) : bool :=
    match l1, l2 with
    | [], [] => true
    | a :: r1, b :: r2 => tok_eqb a b && toks_eqb r1 r2
    | _, _ => false
    end.

  (* ================================================================ *)
  (* (i) the implementation's machine                                  *)
  (* ================================================================ *)

  (* the loop's variables (elements is passed separately).  [p_segs] is the
     list `segments` with the LAST appended segment first. *)
  Record pstate := mkP {
    p_cmd : option cmdletter;     (* command; None initially and after Z *)
    p_abs : bool;                 (* absolute (unbound in Python until the first letter) *)
    p_cur : pt;                   (* current_pos *)
    p_start : option pt;          (* start_pos; None until the first M *)
    p_segs : list (seg K) }.

  (* elements.pop() *)
  Definition pop (s : list (tok K)) : result (tok K * list (tok K)) :=
    match s with [] => Err IndexError | t :: r => Ok (t, r) end.
  (* float(x): a command letter is not a float literal *)
  Definition tofloat (t : tok K) : result K :=
    match t with TNum v => Ok v | TCmd _ _ => Err ValueError end.
  (* float(elements.pop()) *)
  Definition popf (s : list (tok K)) : result (K * list (tok K)) :=
    bind (pop s) (fun tr => bind (tofloat (fst tr)) (fun v => Ok (v, snd tr))).
  (* float(elements.pop()) + float(elements.pop()) * 1j *)
  Definition popc (s : list (tok K)) : result (pt * list (tok K)) :=
    bind (popf s) (fun xr => bind (popf (snd xr)) (fun yr =>
      Ok (mkc (fst xr) (fst yr), snd yr))).
  (* x = elements.pop(); y = elements.pop(); float(x) + float(y) * 1j
     (M and L: both pops happen before either conversion) *)
  Definition pop2 (s : list (tok K)) : result (pt * list (tok K)) :=
    bind (pop s) (fun xr => bind (pop (snd xr)) (fun yr =>
      bind (tofloat (fst xr)) (fun x => bind (tofloat (fst yr)) (fun y =>
        Ok (mkc x y, snd yr))))).

  (* `last_command not in letters`, letters = 'CS' or 'QT'.  With
     last_command = None Python raises TypeError ('in <string>' requires
     string as left operand, not NoneType). *)
  Definition last_in (none_ok : bool) (a b : cmdletter) (last : option cmdletter)
    : result bool :=
    match last with
    | None => if none_ok then Ok false else Err TypeError
    | Some c => Ok (cmd_eqb c a || cmd_eqb c b)
    end.

  (* segments[-1].control2 / segments[-1].control *)
  Definition last_control2 (segs : list (seg K)) : result pt :=
    match segs with
    | [] => Err IndexError
    | Cubic _ _ c2 _ :: _ => Ok c2
    | _ :: _ => Err AttributeError
    end.
  Definition last_control (segs : list (seg K)) : result pt :=
    match segs with
    | [] => Err IndexError
    | Quad _ c _ :: _ => Ok c
    | _ :: _ => Err AttributeError
    end.

  (* bool(float(x)) *)
  Definition flag_of (v : K) : bool := negb (eqb N v (zero N)).

  (* the 'A' branch after the arguments have been read:
       if radius.real == 0 or radius.imag == 0: Line(current_pos, end)
       else: Arc(current_pos, radius, rotation, arc, sweep, end)
     with Arc.__init__'s `assert start != end`; abs() of the radii. *)
  Definition arc_or_line (coinc_ok : bool) (cur r : pt) (rot la sw : K) (e : pt)
    : result (list (seg K)) :=
    let zero_radius := eqb N (re r) (zero N) || eqb N (im r) (zero N) in
    let the_arc := Arc cur (mkc (nabs N (re r)) (nabs N (im r))) rot (flag_of la) (flag_of sw) e in
    if coinc_ok then
      if ceqb N cur e then Ok []
      else if zero_radius then Ok [Line cur e] else Ok [the_arc]
    else
      if zero_radius then Ok [Line cur e]
      else if ceqb N cur e then Err AssertionError else Ok [the_arc].

  (* one pass through the body of the while-loop once `command`,
     `last_command` and `absolute` are determined; [stk] = elements after the
     command letter (if any) was popped *)
  Definition exec (none_ok coinc_ok : bool) (c : cmdletter) (last : option cmdletter)
             (absolute : bool) (stk : list (tok K)) (st : pstate)
    : result (list (tok K) * pstate) :=
    let cur := p_cur st in
    let segs := p_segs st in
    let rel (z : pt) := if absolute then z else cadd N z cur in     (* z += current_pos *)
    match c with
    | cM =>
        bind (pop2 stk) (fun pr =>
          let cur' := if absolute then fst pr else cadd N cur (fst pr) in  (* current_pos += pos *)
          Ok (snd pr, mkP (Some cL) absolute cur' (Some cur') segs))
    | cZ =>
        match p_start st with
        | None => Err StartNone
        | Some sp =>
            let segs' := if ceqb N cur sp then segs else Line cur sp :: segs in
            Ok (stk, mkP None absolute sp (Some sp) segs')
        end
    | cL =>
        bind (pop2 stk) (fun pr =>
          let pos := rel (fst pr) in
          Ok (snd pr, mkP (Some cL) absolute pos (p_start st) (Line cur pos :: segs)))
    | cH =>
        bind (popf stk) (fun xr =>
          let pos0 := mkc (fst xr) (im cur) in                 (* float(x) + current_pos.imag*1j *)
          let pos := if absolute then pos0
                     else cadd N pos0 (cofr N (re cur)) in     (* pos += current_pos.real *)
          Ok (snd xr, mkP (Some cH) absolute pos (p_start st) (Line cur pos :: segs)))
    | cV =>
        bind (popf stk) (fun yr =>
          let pos0 := mkc (re cur) (fst yr) in                 (* current_pos.real + float(y)*1j *)
          let pos := if absolute then pos0
                     else cadd N pos0 (mkc (zero N) (im cur)) in (* pos += current_pos.imag*1j *)
          Ok (snd yr, mkP (Some cV) absolute pos (p_start st) (Line cur pos :: segs)))
    | cC =>
        bind (popc stk) (fun c1r => bind (popc (snd c1r)) (fun c2r =>
        bind (popc (snd c2r)) (fun er =>
          let c1 := rel (fst c1r) in let c2 := rel (fst c2r) in let e := rel (fst er) in
          Ok (snd er, mkP (Some cC) absolute e (p_start st) (Cubic cur c1 c2 e :: segs)))))
    | cS =>
        bind (last_in none_ok cC cS last) (fun isin =>
        bind (if isin then
                bind (last_control2 segs) (fun pc2 => Ok (csub N (cadd N cur cur) pc2))
              else Ok cur) (fun c1 =>
        bind (popc stk) (fun c2r => bind (popc (snd c2r)) (fun er =>
          let c2 := rel (fst c2r) in let e := rel (fst er) in
          Ok (snd er, mkP (Some cS) absolute e (p_start st) (Cubic cur c1 c2 e :: segs))))))
    | cQ =>
        bind (popc stk) (fun cr => bind (popc (snd cr)) (fun er =>
          let ct := rel (fst cr) in let e := rel (fst er) in
          Ok (snd er, mkP (Some cQ) absolute e (p_start st) (Quad cur ct e :: segs))))
    | cT =>
        bind (last_in none_ok cQ cT last) (fun isin =>
        bind (if isin then
                bind (last_control segs) (fun pc => Ok (csub N (cadd N cur cur) pc))
              else Ok cur) (fun ct =>
        bind (popc stk) (fun er =>
          let e := rel (fst er) in
          Ok (snd er, mkP (Some cT) absolute e (p_start st) (Quad cur ct e :: segs)))))
    | cA =>
        bind (popc stk) (fun rr => bind (popf (snd rr)) (fun rotr =>
        bind (popf (snd rotr)) (fun lar => bind (popf (snd lar)) (fun swr =>
        bind (popc (snd swr)) (fun er =>
          let e := rel (fst er) in
          bind (arc_or_line coinc_ok cur (fst rr) (fst rotr) (fst lar) (fst swr) e) (fun new =>
            Ok (snd er, mkP (Some cA) absolute e (p_start st) (new ++ segs))))))))
    end.

  (* one iteration of `while elements:` (elements non-empty) *)
  Definition step (none_ok coinc_ok : bool) (stk : list (tok K)) (st : pstate)
    : result (list (tok K) * pstate) :=
    match stk with
    | [] => Ok (stk, st)
    | TCmd c up :: r =>
        (* last_command = command; command = elements.pop();
           absolute = command in UPPERCASE; command = command.upper() *)
        exec none_ok coinc_ok c (p_cmd st) up r st
    | TNum _ :: _ =>
        match p_cmd st with
        | None => Err ValueError          (* "Unallowed implicit command" *)
        | Some c => exec none_ok coinc_ok c (Some c) (p_abs st) stk st   (* last_command = command *)
        end
    end.

  Fixpoint run (none_ok coinc_ok : bool) (fuel : nat) (stk : list (tok K)) (st : pstate)
    : result (list (seg K)) :=
    match stk with
    | [] => Ok (rev (p_segs st))
    | _ :: _ =>
        match fuel with
        | O => Err OutOfFuel
        | S f =>
            match step none_ok coinc_ok stk st with
            | Err e => Err e
            | Ok (stk', st') => run none_ok coinc_ok f stk' st'
            end
        end
    end.

  Definition init_state (pos0 : pt) : pstate := mkP None false pos0 None [].

  (* every successful iteration pops at least one token, so |toks| is enough fuel *)
  Definition impl_parse (none_ok coinc_ok : bool) (toks : list (tok K)) (pos0 : pt)
    : result (list (seg K)) :=
    run none_ok coinc_ok (length toks) toks (init_state pos0).

  (* ================================================================ *)
  (* (ii) reference interpreter, SVG 1.1 §8.3                          *)
  (* ================================================================ *)
  (* Conventions where svgpathtools (documented) or the property statement
     fix something the specification leaves open or states differently:
     - parse_path has a `current_pos` argument (default 0): "if you pass in a
       current_pos variable, the initial moveto will be relative to that
       current_pos".  The spec says an initial 'm' is absolute; with the
       default pos0 = 0 the two coincide (0 + p = p).  [spec_run] takes pos0.
     - closepath: the spec draws a straight line back to the initial point of
       the subpath; the property statement (and svgpathtools) add that closing
       line "only when the pen is elsewhere" — no zero-length closing line.
     - an arc with rx = 0 or ry = 0 is a straight line (F.6.2, F.6.6); an arc
       whose end point equals the current point is omitted (F.6.2, stated
       first, so it has precedence); radii are taken in absolute value
       (F.6.6).  Out-of-range radii (too small) are C04's business.
     - S/T: first control point = reflection of the previous command's last
       control point about the current point when the previous command was
       C/S (resp. Q/T), else the current point (§8.3.6, §8.3.7). *)

  Inductive lastctrl := NoCtrl | CubicCtrl (c : pt) | QuadCtrl (c : pt).

  Record sstate := mkS {
    s_cur : pt;            (* current point *)
    s_start : pt;          (* initial point of the current subpath *)
    s_ctrl : lastctrl }.   (* last control point of the previous command *)

  Definition to_abs (abs : bool) (cur p : pt) : pt := if abs then p else cadd N cur p.
  (* the point q with q - cur = cur - c *)
  Definition reflect (cur c : pt) : pt := cadd N cur (csub N cur c).

  Definition sp_move (abs : bool) (ss : sstate) (p : pt) : sstate :=
    let q := to_abs abs (s_cur ss) p in mkS q q NoCtrl.
  Definition sp_line (abs : bool) (ss : sstate) (p : pt) : sstate * list (seg K) :=
    let q := to_abs abs (s_cur ss) p in
    (mkS q (s_start ss) NoCtrl, [Line (s_cur ss) q]).
  Definition sp_h (abs : bool) (ss : sstate) (x : K) : sstate * list (seg K) :=
    let cur := s_cur ss in
    let q := mkc (if abs then x else add N (re cur) x) (im cur) in
    (mkS q (s_start ss) NoCtrl, [Line cur q]).
  Definition sp_v (abs : bool) (ss : sstate) (y : K) : sstate * list (seg K) :=
    let cur := s_cur ss in
    let q := mkc (re cur) (if abs then y else add N (im cur) y) in
    (mkS q (s_start ss) NoCtrl, [Line cur q]).
  Definition sp_curve (abs : bool) (ss : sstate) (a : pt * pt * pt) : sstate * list (seg K) :=
    let cur := s_cur ss in
    let '(c1, c2, e) := a in
    let c1' := to_abs abs cur c1 in let c2' := to_abs abs cur c2 in
    let e' := to_abs abs cur e in
    (mkS e' (s_start ss) (CubicCtrl c2'), [Cubic cur c1' c2' e']).
  Definition sp_smooth (abs : bool) (ss : sstate) (a : pt * pt) : sstate * list (seg K) :=
    let cur := s_cur ss in
    let '(c2, e) := a in
    let c1 := match s_ctrl ss with CubicCtrl c => reflect cur c | _ => cur end in
    let c2' := to_abs abs cur c2 in let e' := to_abs abs cur e in
    (mkS e' (s_start ss) (CubicCtrl c2'), [Cubic cur c1 c2' e']).
  Definition sp_quad (abs : bool) (ss : sstate) (a : pt * pt) : sstate * list (seg K) :=
    let cur := s_cur ss in
    let '(c, e) := a in
    let c' := to_abs abs cur c in let e' := to_abs abs cur e in
    (mkS e' (s_start ss) (QuadCtrl c'), [Quad cur c' e']).
  Definition sp_t (abs : bool) (ss : sstate) (e : pt) : sstate * list (seg K) :=
    let cur := s_cur ss in
    let c := match s_ctrl ss with QuadCtrl c => reflect cur c | _ => cur end in
    let e' := to_abs abs cur e in
    (mkS e' (s_start ss) (QuadCtrl c), [Quad cur c e']).
  Definition arc_end (abs : bool) (ss : sstate) (a : arcargs K) : pt :=
    to_abs abs (s_cur ss) (aa_end a).
  Definition sp_arc (abs : bool) (ss : sstate) (a : arcargs K) : sstate * list (seg K) :=
    let cur := s_cur ss in
    let e' := arc_end abs ss a in
    let r := aa_r a in
    (mkS e' (s_start ss) NoCtrl,
     if ceqb N cur e' then []
     else if eqb N (re r) (zero N) || eqb N (im r) (zero N) then [Line cur e']
     else [Arc cur (mkc (nabs N (re r)) (nabs N (im r))) (aa_rot a)
               (aa_large a) (aa_sweep a) e']).
  Definition sp_close (ss : sstate) : sstate * list (seg K) :=
    (mkS (s_start ss) (s_start ss) NoCtrl,
     if ceqb N (s_cur ss) (s_start ss) then [] else [Line (s_cur ss) (s_start ss)]).

  (* implicit repetition: the argument groups of one command, in order *)
  Fixpoint spec_args {A} (f : sstate -> A -> sstate * list (seg K)) (ss : sstate)
           (args : list A) : sstate * list (seg K) :=
    match args with
    | [] => (ss, [])
    | a :: r => let (ss1, o1) := f ss a in
                let (ss2, o2) := spec_args f ss1 r in
                (ss2, o1 ++ o2)
    end.

  Definition spec_cmd (ss : sstate) (c : command K) : sstate * list (seg K) :=
    match c with
    | MoveTo abs ps =>
        match ps with
        | [] => (ss, [])
        | p :: more => spec_args (sp_line abs) (sp_move abs ss p) more  (* further pairs: lineto *)
        end
    | LineTo abs ps => spec_args (sp_line abs) ss ps
    | HTo abs xs => spec_args (sp_h abs) ss xs
    | VTo abs ys => spec_args (sp_v abs) ss ys
    | CurveTo abs cs => spec_args (sp_curve abs) ss cs
    | SmoothTo abs cs => spec_args (sp_smooth abs) ss cs
    | QuadTo abs qs => spec_args (sp_quad abs) ss qs
    | TTo abs ps => spec_args (sp_t abs) ss ps
    | ArcTo abs l => spec_args (sp_arc abs) ss l
    | Close _ => sp_close ss
    end.

  Fixpoint spec_from (ss : sstate) (prog : list (command K)) : sstate * list (seg K) :=
    match prog with
    | [] => (ss, [])
    | c :: r => let (ss1, o1) := spec_cmd ss c in
                let (ss2, o2) := spec_from ss1 r in
                (ss2, o1 ++ o2)
    end.

  Definition spec_init (pos0 : pt) : sstate := mkS pos0 pos0 NoCtrl.
  Definition spec_run (pos0 : pt) (prog : list (command K)) : list (seg K) :=
    snd (spec_from (spec_init pos0) prog).
  Definition spec_state (pos0 : pt) (prog : list (command K)) : sstate :=
    fst (spec_from (spec_init pos0) prog).

  (* ---------------------------------------------------------------- *)
  (* grammar side conditions                                           *)

  Definition nonempty {A} (l : list A) : bool := match l with [] => false | _ => true end.
  Definition cmd_wf (c : command K) : bool :=
    match c with
    | MoveTo _ l | LineTo _ l | TTo _ l => nonempty l
    | HTo _ l | VTo _ l => nonempty l
    | CurveTo _ l => nonempty l
    | SmoothTo _ l | QuadTo _ l => nonempty l
    | ArcTo _ l => nonempty l
    | Close _ => true
    end.
  Definition is_moveto (c : command K) : bool :=
    match c with MoveTo _ _ => true | _ => false end.
  (* svg-path := moveto-drawto-command-groups: a moveto first, every command
     with at least one argument group *)
  Definition grammatical (prog : list (command K)) : bool :=
    match prog with
    | [] => false
    | c :: _ => is_moveto c
    end && forallb cmd_wf prog.

  Definition is_close (c : command K) : bool :=
    match c with Close _ => true | _ => false end.
  Definition is_smooth (c : command K) : bool :=
    match c with SmoothTo _ _ | TTo _ _ => true | _ => false end.
  (* no S/s/T/t directly after a closepath *)
  Fixpoint no_smooth_after_close (prog : list (command K)) : bool :=
    match prog with
    | [] => true
    | c :: r => match r with
                | [] => true
                | d :: _ => negb (is_close c && is_smooth d)
                end && no_smooth_after_close r
    end.

  (* no elliptical arc whose end point is the current point *)
  Fixpoint args_ok {A} (f : sstate -> A -> sstate * list (seg K)) (ok : sstate -> A -> bool)
           (ss : sstate) (args : list A) : bool :=
    match args with
    | [] => true
    | a :: r => ok ss a && args_ok f ok (fst (f ss a)) r
    end.
  Definition arc_not_coincident (abs : bool) (ss : sstate) (a : arcargs K) : bool :=
    negb (ceqb N (s_cur ss) (arc_end abs ss a)).
  Definition cmd_no_coincident_arc (ss : sstate) (c : command K) : bool :=
    match c with
    | ArcTo abs l => args_ok (sp_arc abs) (arc_not_coincident abs) ss l
    | _ => true
    end.
  Fixpoint no_coincident_arc_from (ss : sstate) (prog : list (command K)) : bool :=
    match prog with
    | [] => true
    | c :: r => cmd_no_coincident_arc ss c && no_coincident_arc_from (fst (spec_cmd ss c)) r
    end.
  Definition no_coincident_arc (pos0 : pt) (prog : list (command K)) : bool :=
    no_coincident_arc_from (spec_init pos0) prog.

  (* ================================================================ *)
  (* rendering an AST as tokens                                        *)
  (* ================================================================ *)
  Definition fpt (p : pt) : list (tok K) := [TNum (re p); TNum (im p)].
  Definition fnum (x : K) : list (tok K) := [TNum x].
  Definition fflag (b : bool) : tok K := TNum (if b then one N else zero N).
  Definition fcurve (a : pt * pt * pt) : list (tok K) :=
    fpt (fst (fst a)) ++ fpt (snd (fst a)) ++ fpt (snd a).
  Definition fpair (a : pt * pt) : list (tok K) := fpt (fst a) ++ fpt (snd a).
  Definition farc (a : arcargs K) : list (tok K) :=
    fpt (aa_r a) ++ [TNum (aa_rot a); fflag (aa_large a); fflag (aa_sweep a)] ++ fpt (aa_end a).

  Definition flatten_cmd (c : command K) : list (tok K) :=
    match c with
    | MoveTo abs ps => TCmd cM abs :: flat_map fpt ps
    | LineTo abs ps => TCmd cL abs :: flat_map fpt ps
    | HTo abs xs => TCmd cH abs :: flat_map fnum xs
    | VTo abs ys => TCmd cV abs :: flat_map fnum ys
    | CurveTo abs cs => TCmd cC abs :: flat_map fcurve cs
    | SmoothTo abs cs => TCmd cS abs :: flat_map fpair cs
    | QuadTo abs qs => TCmd cQ abs :: flat_map fpair qs
    | TTo abs ps => TCmd cT abs :: flat_map fpt ps
    | ArcTo abs l => TCmd cA abs :: flat_map farc l
    | Close up => [TCmd cZ up]
    end.
  Definition flatten (prog : list (command K)) : list (tok K) := flat_map flatten_cmd prog.
End Parse.

Arguments NoCtrl {K}.
