(* Model/Lexer.v — character-level model of Path._tokenize_path (path.py):

     COMMANDS   = set('MmZzLlHhVvCcSsQqTtAa')
     COMMAND_RE = re.compile(r"([MmZzLlHhVvCcSsQqTtAa])")
     FLOAT_RE   = re.compile(r"[-+]?[0-9]*\.?[0-9]+(?:[eE][-+]?[0-9]+)?")
     def _tokenize_path(self, pathdef):
         for x in COMMAND_RE.split(pathdef):
             if x in COMMANDS:
                 yield x
             for token in FLOAT_RE.findall(x):
                 yield token

   The regular expression is kept as a term of a small regex AST and matched
   by a backtracking matcher with Python's priorities (greedy quantifiers,
   first alternative first); findall scans left to right, skipping one
   character when there is no match at a position.  Proofs/LexerProofs.v shows
   that the matcher coincides with a deterministic scanner and proves the
   rendering theorems.  A numeral token carries its text; [numval] is its exact
   decimal value (a rational), which is what float() rounds. *)
From Coq Require Import Ascii String List Bool ZArith QArith Qcanon Lia.
From SVP Require Import Base.Num Base.Cplx Model.Parse.
Import ListNotations.
Local Open Scope char_scope.

(* ------------------------------------------------------------------ *)
(* character classes                                                   *)

Definition is_digit (a : ascii) : bool :=
  let n := nat_of_ascii a in (48 <=? n)%nat && (n <=? 57)%nat.
Definition is_sign (a : ascii) : bool := Ascii.eqb a "-" || Ascii.eqb a "+".   (* [-+] *)
Definition is_dot (a : ascii) : bool := Ascii.eqb a ".".
Definition is_e (a : ascii) : bool := Ascii.eqb a "e" || Ascii.eqb a "E".      (* [eE] *)

(* the 20 command letters: letter and "is upper case" *)
Definition cmd_of_ascii (a : ascii) : option (cmdletter * bool) :=
  if Ascii.eqb a "M" then Some (cM, true) else if Ascii.eqb a "m" then Some (cM, false)
  else if Ascii.eqb a "Z" then Some (cZ, true) else if Ascii.eqb a "z" then Some (cZ, false)
  else if Ascii.eqb a "L" then Some (cL, true) else if Ascii.eqb a "l" then Some (cL, false)
  else if Ascii.eqb a "H" then Some (cH, true) else if Ascii.eqb a "h" then Some (cH, false)
  else if Ascii.eqb a "V" then Some (cV, true) else if Ascii.eqb a "v" then Some (cV, false)
  else if Ascii.eqb a "C" then Some (cC, true) else if Ascii.eqb a "c" then Some (cC, false)
  else if Ascii.eqb a "S" then Some (cS, true) else if Ascii.eqb a "s" then Some (cS, false)
  else if Ascii.eqb a "Q" then Some (cQ, true) else if Ascii.eqb a "q" then Some (cQ, false)
  else if Ascii.eqb a "T" then Some (cT, true) else if Ascii.eqb a "t" then Some (cT, false)
  else if Ascii.eqb a "A" then Some (cA, true) else if Ascii.eqb a "a" then Some (cA, false)
  else None.
Definition is_cmd (a : ascii) : bool :=
  match cmd_of_ascii a with Some _ => true | None => false end.

(* ------------------------------------------------------------------ *)
(* a backtracking regex matcher (the fragment FLOAT_RE needs)          *)

Inductive regex :=
| RCls (p : ascii -> bool)      (* one character of a class *)
| RSeq (a b : regex)               (* ab *)
| ROpt (a : regex)                 (* a?  greedy *)
| RStar (p : ascii -> bool)     (* [class]*  greedy *)
| RPlus (p : ascii -> bool)     (* [class]+  greedy *)
| RAlt (a b : regex).           (* a|b : a first, b when a (with what follows) fails *)

(* [class]* then continuation k: longest first, giving back one character at
   a time while k fails *)
Fixpoint star_k {A} (p : ascii -> bool) (k : list ascii -> option A) (s : list ascii)
  : option A :=
  match s with
  | c :: s' =>
      if p c then match star_k p k s' with Some r => Some r | None => k s end
      else k s
  | [] => k s
  end.

(* match r at the head of s, then k on the rest; None = no way to match *)
Fixpoint rmatch {A} (r : regex) (s : list ascii) (k : list ascii -> option A) : option A :=
  match r with
  | RCls p => match s with c :: s' => if p c then k s' else None | [] => None end
  | RSeq a b => rmatch a s (fun s1 => rmatch b s1 k)
  | ROpt a => match rmatch a s k with Some r => Some r | None => k s end
  | RStar p => star_k p k s
  | RPlus p => match s with c :: s' => if p c then star_k p k s' else None | [] => None end
  | RAlt a b => match rmatch a s k with Some r => Some r | None => rmatch b s k end
  end.

(* [-+]?[0-9]*\.?[0-9]+(?:[eE][-+]?[0-9]+)? *)
Definition FLOAT_RE : regex :=
  RSeq (ROpt (RCls is_sign))
 (RSeq (RStar is_digit)
 (RSeq (ROpt (RCls is_dot))
 (RSeq (RPlus is_digit)
       (ROpt (RSeq (RCls is_e) (RSeq (ROpt (RCls is_sign)) (RPlus is_digit))))))).

(* FLOAT_RE.match at the head of s: the text after the match *)
Definition match_float (s : list ascii) : option (list ascii) :=
  rmatch FLOAT_RE s (fun rest => Some rest).

(* FLOAT_RE.findall(x): matched texts, left to right, non-overlapping; the
   pattern cannot match the empty string, so every round consumes a character *)
Fixpoint findall_fuel (fuel : nat) (s : list ascii) : list (list ascii) :=
  match fuel with
  | O => []
  | S f =>
      match s with
      | [] => []
      | _ :: s' =>
          match match_float s with
          | Some rest => firstn (length s - length rest) s :: findall_fuel f rest
          | None => findall_fuel f s'
          end
      end
  end.
Definition findall (s : list ascii) : list (list ascii) := findall_fuel (length s) s.

(* COMMAND_RE.split(pathdef): the pieces between command letters, alternating
   with the one-letter pieces (the pattern has a capturing group) *)
Fixpoint split_cmds (s : list ascii) (acc : list ascii) : list (list ascii) :=
  match s with
  | [] => [rev acc]
  | c :: s' => if is_cmd c then rev acc :: [c] :: split_cmds s' []
               else split_cmds s' (c :: acc)
  end.

Inductive ltok := LCmd (a : ascii) | LNum (text : list ascii).

(* for x in split: if x in COMMANDS: yield x;  for token in findall(x): yield token *)
Definition piece_tokens (x : list ascii) : list ltok :=
  match x with
  | [c] => if is_cmd c then [LCmd c] else []
  | _ => []
  end ++ map LNum (findall x).
Definition tokenize (s : list ascii) : list ltok := flat_map piece_tokens (split_cmds s []).

(* ------------------------------------------------------------------ *)
(* exact value of a numeral text                                       *)

Definition digit_val (a : ascii) : Z := Z.of_nat (nat_of_ascii a) - 48.
(* digits, most significant first *)
Definition digits_val (l : list ascii) : Z :=
  fold_left (fun acc a => acc * 10 + digit_val a)%Z l 0%Z.
Fixpoint take_while (p : ascii -> bool) (s : list ascii) : list ascii * list ascii :=
  match s with
  | c :: s' => if p c then let (a, b) := take_while p s' in (c :: a, b) else ([], s)
  | [] => ([], [])
  end.
Definition strip_sign (s : list ascii) : bool * list ascii :=     (* (negative?, rest) *)
  match s with
  | c :: s' => if Ascii.eqb c "-" then (true, s') else if Ascii.eqb c "+" then (false, s') else (false, s)
  | [] => (false, [])
  end.
Definition pow10 (e : Z) : Q := Qpower (10 # 1) e.
(* value of  [sign] int [. frac] [e [sign] digits]  *)
Definition numval_Q (s : list ascii) : Q :=
  let (neg, s1) := strip_sign s in
  let (ip, s2) := take_while is_digit s1 in
  let (fp, s3) := match s2 with
                  | c :: s2' => if is_dot c then take_while is_digit s2' else ([], s2)
                  | [] => ([], [])
                  end in
  let ex := match s3 with
            | c :: s3' => if is_e c then
                            let (eneg, s4) := strip_sign s3' in
                            let (ed, _) := take_while is_digit s4 in
                            if eneg then (- digits_val ed)%Z else digits_val ed
                          else 0%Z
            | [] => 0%Z
            end in
  let mant := (inject_Z (digits_val (ip ++ fp)) * pow10 (- Z.of_nat (length fp)))%Q in
  let v := (mant * pow10 ex)%Q in
  if neg then Qopp v else v.
Definition numval (s : list ascii) : Qc := Q2Qc (numval_Q s).

(* the token list handed to the parser, over the exact rationals *)
Definition tok_of_ltok (t : ltok) : list (tok Qc) :=
  match t with
  | LCmd a => match cmd_of_ascii a with Some (c, up) => [TCmd c up] | None => [] end
  | LNum text => [TNum (numval text)]
  end.
Definition lex (s : list ascii) : list (tok Qc) := flat_map tok_of_ltok (tokenize s).
Definition lex_string (s : string) : list (tok Qc) := lex (list_ascii_of_string s).

(* parse_path(d, current_pos) as the composition the code performs *)
Definition parse_string (none_ok coinc_ok : bool) (d : string) (pos0 : Cplx Qc)
  : result (list (seg Qc)) :=
  impl_parse NumQ none_ok coinc_ok (lex_string d) pos0.

(* ------------------------------------------------------------------ *)
(* the tokenizer for an arbitrary number pattern; the repaired FLOAT_RE  *)
(* (everything above is the instance [float_re false])                   *)

(* [-+]?(?:[0-9]+\.?[0-9]*|\.[0-9]+)(?:[eE][-+]?[0-9]+)?  — the SVG number
   grammar: a trailing dot belongs to the number, so "1.e3" is one number *)
Definition FLOAT_RE_DOT : regex :=
  RSeq (ROpt (RCls is_sign))
 (RSeq (RAlt (RSeq (RPlus is_digit) (RSeq (ROpt (RCls is_dot)) (RStar is_digit)))
             (RSeq (RCls is_dot) (RPlus is_digit)))
       (ROpt (RSeq (RCls is_e) (RSeq (ROpt (RCls is_sign)) (RPlus is_digit))))).

(* which FLOAT_RE the code has: false = the pinned one *)
Definition float_re (dot_ok : bool) : regex := if dot_ok then FLOAT_RE_DOT else FLOAT_RE.

Definition match_re (r : regex) (s : list ascii) : option (list ascii) :=
  rmatch r s (fun rest => Some rest).
Fixpoint findall_re_fuel (r : regex) (fuel : nat) (s : list ascii) : list (list ascii) :=
  match fuel with
  | O => []
  | S f =>
      match s with
      | [] => []
      | _ :: s' =>
          match match_re r s with
          | Some rest => firstn (length s - length rest) s :: findall_re_fuel r f rest
          | None => findall_re_fuel r f s'
          end
      end
  end.
Definition findall_re (r : regex) (s : list ascii) : list (list ascii) :=
  findall_re_fuel r (length s) s.
Definition piece_tokens_re (r : regex) (x : list ascii) : list ltok :=
  match x with
  | [c] => if is_cmd c then [LCmd c] else []
  | _ => []
  end ++ map LNum (findall_re r x).
Definition tokenize_re (r : regex) (s : list ascii) : list ltok :=
  flat_map (piece_tokens_re r) (split_cmds s []).
Definition lex_re (r : regex) (s : list ascii) : list (tok Qc) :=
  flat_map tok_of_ltok (tokenize_re r s).
Definition lex_string_re (r : regex) (s : string) : list (tok Qc) :=
  lex_re r (list_ascii_of_string s).
Definition parse_string_re (r : regex) (none_ok coinc_ok : bool) (d : string) (pos0 : Cplx Qc)
  : result (list (seg Qc)) :=
  impl_parse NumQ none_ok coinc_ok (lex_string_re r d) pos0.

(* ------------------------------------------------------------------ *)
(* arc flags without separators (the repaired _tokenize_path):

     arc_arg = None
     for x in COMMAND_RE.split(pathdef):
         if x in COMMANDS:
             yield x
             arc_arg = 0 if x in 'Aa' else None
         for token in FLOAT_RE.findall(x):
             if arc_arg is not None:
                 while arc_arg in (3, 4) and len(token) > 1 and token[0] in '01':
                     yield token[0]; token = token[1:]; arc_arg += 1
                 arc_arg = (arc_arg + 1) % 7
             yield token

   modelled as a pass over the token stream of the plain tokenizer (the state
   arc_arg is reset by every command letter, so per-piece and per-stream
   processing coincide) *)
Definition is_flagchar (c : ascii) : bool := Ascii.eqb c "0" || Ascii.eqb c "1".
Definition is_arc_letter (c : ascii) : bool := Ascii.eqb c "A" || Ascii.eqb c "a".
Definition is_flag_index (k : nat) : bool := Nat.eqb k 3 || Nat.eqb k 4.

(* the while loop on one token at argument index k: the tokens yielded (the
   last one is the remaining token) and the index of that last one *)
Fixpoint split_flags (fuel : nat) (k : nat) (t : list ascii) : list (list ascii) * nat :=
  match fuel with
  | O => ([t], k)
  | S f =>
      match t with
      | c :: (_ :: _) as r =>
          if is_flag_index k && is_flagchar c
          then let (l, k') := split_flags f (S k) r in ([c] :: l, k')
          else ([t], k)
      | _ => ([t], k)
      end
  end.

Fixpoint arc_fix (st : option nat) (l : list ltok) : list ltok :=
  match l with
  | [] => []
  | LCmd c :: r => LCmd c :: arc_fix (if is_arc_letter c then Some O else None) r
  | LNum t :: r =>
      match st with
      | None => LNum t :: arc_fix None r
      | Some k => let (ts, k') := split_flags (length t) k t in
                  map LNum ts ++ arc_fix (Some (Nat.modulo (S k') 7)) r
      end
  end.

(* the tokenizer in its four variants; (false, false) is the pinned one *)
Definition tokenize_v (dot_ok arc_ok : bool) (s : list ascii) : list ltok :=
  let l := tokenize_re (float_re dot_ok) s in
  if arc_ok then arc_fix None l else l.
Definition lex_v (dot_ok arc_ok : bool) (s : list ascii) : list (tok Qc) :=
  flat_map tok_of_ltok (tokenize_v dot_ok arc_ok s).
Definition lex_string_v (dot_ok arc_ok : bool) (s : string) : list (tok Qc) :=
  lex_v dot_ok arc_ok (list_ascii_of_string s).
Definition parse_string_v (dot_ok arc_ok none_ok coinc_ok : bool) (d : string) (pos0 : Cplx Qc)
  : result (list (seg Qc)) :=
  impl_parse NumQ none_ok coinc_ok (lex_string_v dot_ok arc_ok d) pos0.

(* ------------------------------------------------------------------ *)
(* behaviour on tricky inputs, as observed on Python's re (3.x):
   list(Path()._tokenize_path(s))                                      *)

Definition texts (s : string) : list string :=
  map (fun t => match t with
                | LCmd a => String a EmptyString
                | LNum x => string_of_list_ascii x end)
      (tokenize (list_ascii_of_string s)).
Local Open Scope string_scope.

Example lex_ex01 : texts "1.2.3" = ["1.2"; ".3"].            Proof. vm_compute. reflexivity. Qed.
Example lex_ex02 : texts "-.5-.5" = ["-.5"; "-.5"].          Proof. vm_compute. reflexivity. Qed.
Example lex_ex03 : texts "1e5e3" = ["1e5"; "3"].             Proof. vm_compute. reflexivity. Qed.
Example lex_ex04 : texts "1.e3" = ["1"; "3"].                Proof. vm_compute. reflexivity. Qed.
Example lex_ex05 : texts "+-1" = ["-1"].                     Proof. vm_compute. reflexivity. Qed.
Example lex_ex06 : texts "1e" = ["1"].                       Proof. vm_compute. reflexivity. Qed.
Example lex_ex07 : texts "1e+" = ["1"].                      Proof. vm_compute. reflexivity. Qed.
Example lex_ex08 : texts "." = [].                           Proof. vm_compute. reflexivity. Qed.
Example lex_ex09 : texts "0 11 2" = ["0"; "11"; "2"].        Proof. vm_compute. reflexivity. Qed.
Example lex_ex10 : texts "1." = ["1"].                       Proof. vm_compute. reflexivity. Qed.
Example lex_ex11 : texts "..5" = [".5"].                     Proof. vm_compute. reflexivity. Qed.
Example lex_ex12 : texts "1e-" = ["1"].                      Proof. vm_compute. reflexivity. Qed.
Example lex_ex13 : texts "1e+5" = ["1e+5"].                  Proof. vm_compute. reflexivity. Qed.
Example lex_ex14 : texts "1E5" = ["1E5"].                    Proof. vm_compute. reflexivity. Qed.
Example lex_ex15 : texts "--1" = ["-1"].                     Proof. vm_compute. reflexivity. Qed.
Example lex_ex16 : texts "1-2" = ["1"; "-2"].                Proof. vm_compute. reflexivity. Qed.
Example lex_ex17 : texts ".5.5" = [".5"; ".5"].              Proof. vm_compute. reflexivity. Qed.
Example lex_ex18 : texts "1e5.5" = ["1e5"; ".5"].            Proof. vm_compute. reflexivity. Qed.
Example lex_ex19 : texts "1 e5" = ["1"; "5"].                Proof. vm_compute. reflexivity. Qed.
Example lex_ex20 : texts "1.5e" = ["1.5"].                   Proof. vm_compute. reflexivity. Qed.
Example lex_ex21 : texts "e5" = ["5"].                       Proof. vm_compute. reflexivity. Qed.
Example lex_ex22 : texts "-" = [].                           Proof. vm_compute. reflexivity. Qed.
Example lex_ex23 : texts "M1 2L3-4z" = ["M"; "1"; "2"; "L"; "3"; "-4"; "z"].
Proof. vm_compute. reflexivity. Qed.
Example lex_ex24 : texts "m.5.5e1E2" = ["m"; ".5"; ".5e1"; "2"].
Proof. vm_compute. reflexivity. Qed.
Example lex_ex25 : texts "M0 0 A1,1 0 11 2,0" = ["M"; "0"; "0"; "A"; "1"; "1"; "0"; "11"; "2"; "0"].
Proof. vm_compute. reflexivity. Qed.
Example lex_ex26 : texts "1,2	3
4" = ["1"; "2"; "3"; "4"].                                   Proof. vm_compute. reflexivity. Qed.

Example numval_ex1 : Qc_eq_bool (numval (list_ascii_of_string "-12.50e-1")) (qc (-5) 4) = true.
Proof. vm_compute. reflexivity. Qed.
Example numval_ex2 : Qc_eq_bool (numval (list_ascii_of_string ".5E+1")) (qc 5 1) = true.
Proof. vm_compute. reflexivity. Qed.
Example numval_ex3 : Qc_eq_bool (numval (list_ascii_of_string "+007")) (qc 7 1) = true.
Proof. vm_compute. reflexivity. Qed.

(* ---- the repaired pattern on the same inputs (Python re, 3.x): only the
   texts "digits." change; only "digits.[eE]digits" changes its value ---- *)
Definition texts_dot (s : string) : list string :=
  map (fun t => match t with
                | LCmd a => String a EmptyString
                | LNum x => string_of_list_ascii x end)
      (tokenize_re FLOAT_RE_DOT (list_ascii_of_string s)).
Example lexd_ex01 : texts_dot "1.2.3" = ["1.2"; ".3"].        Proof. vm_compute. reflexivity. Qed.
Example lexd_ex02 : texts_dot "-.5-.5" = ["-.5"; "-.5"].      Proof. vm_compute. reflexivity. Qed.
Example lexd_ex03 : texts_dot "1e5e3" = ["1e5"; "3"].         Proof. vm_compute. reflexivity. Qed.
Example lexd_ex04 : texts_dot "1.e3" = ["1.e3"].              Proof. vm_compute. reflexivity. Qed.  (* was 1, 3 *)
Example lexd_ex05 : texts_dot "+-1" = ["-1"].                 Proof. vm_compute. reflexivity. Qed.
Example lexd_ex06 : texts_dot "1e" = ["1"].                   Proof. vm_compute. reflexivity. Qed.
Example lexd_ex07 : texts_dot "1e+" = ["1"].                  Proof. vm_compute. reflexivity. Qed.
Example lexd_ex08 : texts_dot "." = [].                       Proof. vm_compute. reflexivity. Qed.
Example lexd_ex09 : texts_dot "0 11 2" = ["0"; "11"; "2"].    Proof. vm_compute. reflexivity. Qed.
Example lexd_ex10 : texts_dot "1." = ["1."].                  Proof. vm_compute. reflexivity. Qed.  (* was 1 *)
Example lexd_ex11 : texts_dot "..5" = [".5"].                 Proof. vm_compute. reflexivity. Qed.
Example lexd_ex12 : texts_dot "1e-" = ["1"].                  Proof. vm_compute. reflexivity. Qed.
Example lexd_ex13 : texts_dot "1e+5" = ["1e+5"].              Proof. vm_compute. reflexivity. Qed.
Example lexd_ex14 : texts_dot "1E5" = ["1E5"].                Proof. vm_compute. reflexivity. Qed.
Example lexd_ex15 : texts_dot "--1" = ["-1"].                 Proof. vm_compute. reflexivity. Qed.
Example lexd_ex16 : texts_dot "1-2" = ["1"; "-2"].            Proof. vm_compute. reflexivity. Qed.
Example lexd_ex17 : texts_dot ".5.5" = [".5"; ".5"].          Proof. vm_compute. reflexivity. Qed.
Example lexd_ex18 : texts_dot "1e5.5" = ["1e5"; ".5"].        Proof. vm_compute. reflexivity. Qed.
Example lexd_ex19 : texts_dot "1 e5" = ["1"; "5"].            Proof. vm_compute. reflexivity. Qed.
Example lexd_ex20 : texts_dot "1.5e" = ["1.5"].               Proof. vm_compute. reflexivity. Qed.
Example lexd_ex21 : texts_dot "e5" = ["5"].                   Proof. vm_compute. reflexivity. Qed.
Example lexd_ex22 : texts_dot "-" = [].                       Proof. vm_compute. reflexivity. Qed.
Example lexd_ex23 : texts_dot "M1 2L3-4z" = ["M"; "1"; "2"; "L"; "3"; "-4"; "z"].
Proof. vm_compute. reflexivity. Qed.
Example lexd_ex24 : texts_dot "m.5.5e1E2" = ["m"; ".5"; ".5e1"; "2"].
Proof. vm_compute. reflexivity. Qed.
Example lexd_ex25 : texts_dot "M0 0 A1,1 0 11 2,0" = ["M"; "0"; "0"; "A"; "1"; "1"; "0"; "11"; "2"; "0"].
Proof. vm_compute. reflexivity. Qed.
Example lexd_ex27 : texts_dot "1.e" = ["1."].                 Proof. vm_compute. reflexivity. Qed.
Example lexd_ex28 : texts_dot "1..5" = ["1."; ".5"].          Proof. vm_compute. reflexivity. Qed.
Example lexd_ex29 : texts_dot "1.-2" = ["1."; "-2"].          Proof. vm_compute. reflexivity. Qed.
Example lexd_ex30 : texts_dot "1.5." = ["1.5"].               Proof. vm_compute. reflexivity. Qed.
Example lexd_ex31 : texts_dot "1.E+2.5" = ["1.E+2"; ".5"].    Proof. vm_compute. reflexivity. Qed.  (* was 1, +2.5 *)
Example lexd_ex32 : texts_dot "-.e5" = ["5"].                 Proof. vm_compute. reflexivity. Qed.
Example numval_ex4 : Qc_eq_bool (numval (list_ascii_of_string "1.e3")) (qc 1000 1) = true.
Proof. vm_compute. reflexivity. Qed.
Example numval_ex5 : Qc_eq_bool (numval (list_ascii_of_string "-12.")) (qc (-12) 1) = true.
Proof. vm_compute. reflexivity. Qed.

(* ---- the arc-flag repair on Python's outputs (patched _tokenize_path) ---- *)
Definition texts_v (dot_ok arc_ok : bool) (s : string) : list string :=
  map (fun t => match t with
                | LCmd a => String a EmptyString
                | LNum x => string_of_list_ascii x end)
      (tokenize_v dot_ok arc_ok (list_ascii_of_string s)).
Example lexa_ex1 : texts_v true true "M0 0 A1,1 0 11 2,0"
                   = ["M"; "0"; "0"; "A"; "1"; "1"; "0"; "1"; "1"; "2"; "0"].
Proof. vm_compute. reflexivity. Qed.
Example lexa_ex2 : texts_v true true "M0 0 a1,1 0 012,0"
                   = ["M"; "0"; "0"; "a"; "1"; "1"; "0"; "0"; "1"; "2"; "0"].
Proof. vm_compute. reflexivity. Qed.
Example lexa_ex3 : texts_v true true "M0 0a2.5 2.5 0 00.5-.5"
                   = ["M"; "0"; "0"; "a"; "2.5"; "2.5"; "0"; "0"; "0"; ".5"; "-.5"].
Proof. vm_compute. reflexivity. Qed.
Example lexa_ex4 : texts_v false true "M0 0 A1,1 0 1 1 2,0 1,1 0 0110,5"
                   = ["M"; "0"; "0"; "A"; "1"; "1"; "0"; "1"; "1"; "2"; "0";
                      "1"; "1"; "0"; "0"; "1"; "10"; "5"].
Proof. vm_compute. reflexivity. Qed.
Example lexa_ex5 : texts_v true true "M0 0 A1,1 0 1.0 1 2,0"     (* "1.0" is flag 1 then .0 *)
                   = ["M"; "0"; "0"; "A"; "1"; "1"; "0"; "1"; ".0"; "1"; "2"; "0"].
Proof. vm_compute. reflexivity. Qed.
Example lexa_ex6 : texts_v true true "M0 0 L10 11 A 10 11 100 1 0 10 11.5"   (* only flags are split *)
                   = ["M"; "0"; "0"; "L"; "10"; "11"; "A"; "10"; "11"; "100"; "1"; "0"; "10"; "11.5"].
Proof. vm_compute. reflexivity. Qed.
Example lexa_ex7 : texts_v true true "M0 0 A1,1 0 10 5 5"
                   = ["M"; "0"; "0"; "A"; "1"; "1"; "0"; "1"; "0"; "5"; "5"].
Proof. vm_compute. reflexivity. Qed.
Example lexa_ex8 : texts_v false false "M0 0 A1,1 0 11 2,0" = texts "M0 0 A1,1 0 11 2,0".
Proof. vm_compute. reflexivity. Qed.
