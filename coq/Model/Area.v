(* Model/Area.v — hand-written model of  Path.area  (area_without_arcs,
   seg2lines),  path_encloses_pt  (parity of the intersections reported by
   Path.intersect between the probe Line(pt, opt) and the path; Line–Line
   closed form of Line.intersect) and  Path.is_contained_by  of
   svgpathtools/path.py.

   What is modelled, line by line:

     def area_without_arcs(path):                 area_without_arcs
         area_enclosed = 0                          fold_left from zero
         for seg in path:
             x = real(seg.poly())                   preal (seg_poly s)
             dy = imag(seg.poly()).deriv()          pderiv (pimag (seg_poly s))
             integrand = x*dy                       pmul
             integral = integrand.integ()           pinteg
             area_enclosed += integral(1) - integral(0)     peval .. 1 - peval .. 0
         return area_enclosed

     def seg2lines(seg_):                         seg2lines
         num_lines = int(ceil(seg_.length() / chord_length))   num_lines_ok (a checkable
                                                               characterisation; ceil is not a
                                                               field operation)
         pts = [seg_.point(t) for t in np.linspace(0, 1, num_lines+1)]   map point (linspace01 n)
         return [Line(pts[i], pts[i+1]) for i in range(num_lines)]       chords

   numpy.poly1d trims leading zero coefficients; trimming does not change any
   value of the polynomial, and the model (coefficient lists of fixed length)
   does not trim.  The arc's `point` and `length` are the subject of other
   properties (C04, C06): here they are parameters (a function K -> Cplx K, a
   number), instantiated with the implementation's own values in the
   correspondence check. *)
From Coq Require Import ZArith List Bool.
From SVP Require Import Base.Num Base.Cplx Base.Poly Model.Bezier.
Import ListNotations.
Set Implicit Arguments.

(* a Bezier segment = its control points *)
Inductive bseg (K : Type) :=
| BLine (s e : Cplx K)
| BQuad (s c e : Cplx K)
| BCubic (s c1 c2 e : Cplx K).

(* a segment of a general path: Bezier, or an Arc seen through its `point`
   function and the number of chords seg2lines uses for it *)
Inductive aseg (K : Type) :=
| SB (b : bseg K)
| SA (point : K -> Cplx K) (n : nat).

Section Area.
  Context {K : Type} (N : Num K).

  Definition seg_poly (s : bseg K) : list (Cplx K) :=
    match s with
    | BLine a b => line_poly N a b
    | BQuad a c b => quad_poly N a c b
    | BCubic a c1 c2 b => cubic_poly N a c1 c2 b
    end.
  Definition seg_point (s : bseg K) (t : K) : Cplx K :=
    match s with
    | BLine a b => line_point N a b t
    | BQuad a c b => quad_point N a c b t
    | BCubic a c1 c2 b => cubic_point N a c1 c2 b t
    end.
  (* derivative(t) (n = 1) *)
  Definition seg_deriv1 (s : bseg K) (t : K) : Cplx K :=
    match (match s with
           | BLine a b => line_deriv N a b t 1
           | BQuad a c b => quad_deriv N a c b t 1
           | BCubic a c1 c2 b => cubic_deriv N a c1 c2 b t 1
           end) with Some d => d | None => c0 N end.
  Definition seg_start (s : bseg K) : Cplx K :=
    match s with BLine a _ => a | BQuad a _ _ => a | BCubic a _ _ _ => a end.
  Definition seg_end (s : bseg K) : Cplx K :=
    match s with BLine _ b => b | BQuad _ _ b => b | BCubic _ _ _ b => b end.

  (* polytools.real / imag on a poly1d: coefficient-wise *)
  Definition preal (p : list (Cplx K)) : list K := map (@fst K K) p.
  Definition pimag (p : list (Cplx K)) : list K := map (@snd K K) p.

  (* the body of the loop of area_without_arcs, for the complex polynomial p *)
  Definition area_integrand (p : list (Cplx K)) : list K :=
    pmul N (preal p) (pderiv N (pimag p)).
  Definition area_integral (p : list (Cplx K)) : list K := pinteg N (area_integrand p).
  Definition poly_area (p : list (Cplx K)) : K :=
    sub N (peval N (area_integral p) (one N)) (peval N (area_integral p) (zero N)).
  Definition seg_area (s : bseg K) : K := poly_area (seg_poly s).

  Definition area_without_arcs (p : list (bseg K)) : K :=
    fold_left (fun a s => add N a (seg_area s)) p (zero N).

  (* ---------------- seg2lines ---------------- *)
  (* np.linspace(0, 1, n+1): the values i/n, i = 0..n ([0] when n = 0) *)
  Definition linspace01 (n : nat) : list K :=
    map (fun i => div N (lit N (Z.of_nat i)) (lit N (Z.of_nat n))) (seq 0 (S n)).
  (* [Line(pts[i], pts[i+1]) for i in range(len(pts)-1)] *)
  Fixpoint chords (pts : list (Cplx K)) : list (bseg K) :=
    match pts with
    | a :: (b :: _) as r => BLine a b :: chords r
    | _ => []
    end.
  Definition seg2lines (point : K -> Cplx K) (n : nat) : list (bseg K) :=
    chords (map point (linspace01 n)).
  (* n = int(ceil(len / chord))  <->  n - 1 < len/chord <= n *)
  Definition num_lines_ok (len chord : K) (n : Z) : bool :=
    let q := div N len chord in
    ltb N (lit N (n - 1)) q && leb N q (lit N n).

  (* the path handed to area_without_arcs *)
  Definition approx (p : list (aseg K)) : list (bseg K) :=
    flat_map (fun s => match s with SB b => [b] | SA pt n => seg2lines pt n end) p.
  Definition area (p : list (aseg K)) : K := area_without_arcs (approx p).

  (* ---------------- closedness (Path.isclosed: iscontinuous and start == end) ---- *)
  Fixpoint continuous (p : list (bseg K)) : Prop :=
    match p with
    | a :: (b :: _) as r => seg_end a = seg_start b /\ continuous r
    | _ => True
    end.
  Definition path_start (p : list (bseg K)) : Cplx K :=
    match p with s :: _ => seg_start s | [] => c0 N end.
  Definition path_end (p : list (bseg K)) : Cplx K := seg_end (last p (BLine (c0 N) (c0 N))).
  Definition closed (p : list (bseg K)) : Prop :=
    p <> [] /\ continuous p /\ path_end p = path_start p.
  (* the executable test, with the carrier's == *)
  Fixpoint continuousb (p : list (bseg K)) : bool :=
    match p with
    | a :: (b :: _) as r => ceqb N (seg_end a) (seg_start b) && continuousb r
    | _ => true
    end.
  Definition isclosedb (p : list (bseg K)) : bool :=
    match p with [] => false | _ => continuousb p && ceqb N (path_start p) (path_end p) end.
  (* Path.area with its assertion: None = AssertionError *)
  Definition area_checked (p : list (bseg K)) : option K :=
    if isclosedb p then Some (area_without_arcs p) else None.

  (* ---------------- reversed / transforms on control points ---------------- *)
  Definition seg_rev (s : bseg K) : bseg K :=
    match s with
    | BLine a b => BLine b a
    | BQuad a c b => BQuad b c a
    | BCubic a c1 c2 b => BCubic b c2 c1 a
    end.
  (* Path.reversed: [seg.reversed() for seg in self], then list.reverse() *)
  Definition path_rev (p : list (bseg K)) : list (bseg K) := rev (map seg_rev p).
  Definition seg_map (f : Cplx K -> Cplx K) (s : bseg K) : bseg K :=
    match s with
    | BLine a b => BLine (f a) (f b)
    | BQuad a c b => BQuad (f a) (f c) (f b)
    | BCubic a c1 c2 b => BCubic (f a) (f c1) (f c2) (f b)
    end.
  Definition path_map (f : Cplx K -> Cplx K) (p : list (bseg K)) : list (bseg K) :=
    map (seg_map f) p.
  (* z |-> M z + w,  M = [[m11 m12] [m21 m22]]  (translate: M = I; scale(sx,sy): diag;
     rotate: [[c -s] [s c]]; transform(tf): the upper 2x3 block of tf) *)
  Definition affine (m11 m12 m21 m22 : K) (w : Cplx K) (z : Cplx K) : Cplx K :=
    (add N (add N (mul N m11 (re z)) (mul N m12 (im z))) (re w),
     add N (add N (mul N m21 (re z)) (mul N m22 (im z))) (im w)).
  Definition det2 (m11 m12 m21 m22 : K) : K := sub N (mul N m11 m22) (mul N m12 m21).

  (* ---------------- polygons ---------------- *)
  (* closed polygon through the vertices v0 :: vs *)
  Definition polygon (v0 : Cplx K) (vs : list (Cplx K)) : list (bseg K) :=
    chords (v0 :: vs ++ [v0]).
  Definition cross2 (p q : Cplx K) : K := sub N (mul N (re p) (im q)) (mul N (re q) (im p)).
  (* sum over consecutive pairs of x_i y_{i+1} - x_{i+1} y_i *)
  Fixpoint cross_sum (pts : list (Cplx K)) : K :=
    match pts with
    | a :: (b :: _) as r => add N (cross2 a b) (cross_sum r)
    | _ => zero N
    end.
  (* orientation determinant (q-p) x (r-p) *)
  Definition orient (p q r : Cplx K) : K :=
    sub N (mul N (sub N (re q) (re p)) (sub N (im r) (im p)))
          (mul N (sub N (im q) (im p)) (sub N (re r) (re p))).
  (* sum of the fan triangles (v0, a, b) over consecutive pairs of pts *)
  Fixpoint fan_sum (v0 : Cplx K) (pts : list (Cplx K)) : K :=
    match pts with
    | a :: (b :: _) as r => add N (orient v0 a b) (fan_sum v0 r)
    | _ => zero N
    end.
  Fixpoint fan_positive (v0 : Cplx K) (pts : list (Cplx K)) : Prop :=
    match pts with
    | a :: (b :: _) as r => ltb N (zero N) (orient v0 a b) = true /\ fan_positive v0 r
    | _ => True
    end.

  (* ================= enclosure ================= *)
  (* Line.intersect(self = Line(p0,p1), other = Line(q0,q1)); None = AssertionError.
     atol is numpy's isclose absolute tolerance (1e-08):
     np.isclose(denom, 0)  <->  |denom - 0| <= atol + rtol*|0|. *)
  Definition bbox_reject (p0 p1 q0 q1 : Cplx K) : bool :=
    let ob := (re q0, re q1) in let sb := (re p0, re p1) in
    ltb N (nmax N (fst sb) (snd sb)) (nmin N (fst ob) (snd ob))          (* min(ob) > max(sb) *)
    || ltb N (nmax N (fst ob) (snd ob)) (nmin N (fst sb) (snd sb))       (* max(ob) < min(sb) *)
    || (let ob := (im q0, im q1) in let sb := (im p0, im p1) in
        ltb N (nmax N (fst sb) (snd sb)) (nmin N (fst ob) (snd ob))
        || ltb N (nmax N (fst ob) (snd ob)) (nmin N (fst sb) (snd sb))).
  Definition ll_denom (p0 p1 q0 q1 : Cplx K) : K :=
    let a0 := re p0 in let a1 := re p1 in let b0 := im p0 in let b1 := im p1 in
    let c0 := re q0 in let c1 := re q1 in let d0 := im q0 in let d1 := im q1 in
    sub N (mul N (sub N a1 a0) (sub N d0 d1)) (mul N (sub N b1 b0) (sub N c0 c1)).
  Definition ll_t1 (p0 p1 q0 q1 : Cplx K) : K :=
    let a0 := re p0 in let b0 := im p0 in
    let c0 := re q0 in let c1 := re q1 in let d0 := im q0 in let d1 := im q1 in
    div N (sub N (sub N (mul N c0 (sub N b0 d1)) (mul N c1 (sub N b0 d0))) (mul N a0 (sub N d0 d1)))
          (ll_denom p0 p1 q0 q1).
  Definition ll_t2 (p0 p1 q0 q1 : Cplx K) : K :=
    let a0 := re p0 in let a1 := re p1 in let b0 := im p0 in let b1 := im p1 in
    let c0 := re q0 in let d0 := im q0 in
    div N (opp N (sub N (sub N (mul N a1 (sub N b0 d0)) (mul N a0 (sub N b1 d0))) (mul N c0 (sub N b0 b1))))
          (ll_denom p0 p1 q0 q1).
  Definition isclose0 (atol d : K) : bool := leb N (nabs N d) atol.
  Definition in01 (t : K) : bool := leb N (zero N) t && leb N t (one N).
  Definition line_line_intersect (atol : K) (p0 p1 q0 q1 : Cplx K) : option (list (K * K)) :=
    if bbox_reject p0 p1 q0 q1 then Some []
    else if ceqb N q1 q0 || ceqb N p1 p0 then None             (* assert both non-degenerate *)
    else if ceqb N p0 q0 && ceqb N p1 q1 then None             (* assert self != other_seg *)
    else if isclose0 atol (ll_denom p0 p1 q0 q1) then Some []
    else let t1 := ll_t1 p0 p1 q0 q1 in let t2 := ll_t2 p0 p1 q0 q1 in
         if in01 t1 && in01 t2 then Some [(t1, t2)] else Some [].
  (* the non-raising part, used in the parity theorem *)
  Definition line_line_hits (atol : K) (p0 p1 q0 q1 : Cplx K) : list (K * K) :=
    match line_line_intersect atol p0 p1 q0 q1 with Some l => l | None => [] end.

  (* Path(Line(pt,opt)).intersect(path) for a path of Lines (edges as (start,end)):
     all (t1, t2) in path order, then removal of every later intersection whose
     point on the probe is within tol of an earlier one (|z| < tol is stated on
     squares: |z|^2 < tol^2). *)
  Definition edges_of (p : list (bseg K)) : option (list (Cplx K * Cplx K)) :=
    fold_right (fun s acc => match s, acc with
                             | BLine a b, Some l => Some ((a, b) :: l)
                             | _, _ => None end) (Some []) p.
  Definition probe_hits (atol : K) (pt opt : Cplx K) (edges : list (Cplx K * Cplx K)) : list (K * K) :=
    flat_map (fun e => line_line_hits atol pt opt (fst e) (snd e)) edges.
  Definition near (tol2 : K) (a b : Cplx K) : bool := ltb N (cnorm2 N (csub N a b)) tol2.
  (* keep index ind2 unless some earlier index ind1 (kept or not) is near *)
  Fixpoint dedupe_from (tol2 : K) (seen : list (Cplx K)) (l : list (Cplx K)) : list (Cplx K) :=
    match l with
    | [] => []
    | x :: r => if existsb (fun y => near tol2 y x) seen
                then dedupe_from tol2 (seen ++ [x]) r
                else x :: dedupe_from tol2 (seen ++ [x]) r
    end.
  Definition reported_points (atol tol2 : K) (pt opt : Cplx K) (edges : list (Cplx K * Cplx K))
    : list (Cplx K) :=
    dedupe_from tol2 [] (map (fun h => line_point N pt opt (fst h)) (probe_hits atol pt opt edges)).
  (* path_encloses_pt: len(intersections) % 2 *)
  Definition encloses_polygon (atol tol2 : K) (pt opt : Cplx K) (edges : list (Cplx K * Cplx K)) : bool :=
    Nat.odd (length (reported_points atol tol2 pt opt edges)).

  (* reference: even-odd rule by exact counting of proper crossings *)
  Definition crosses (p0 p1 q0 q1 : Cplx K) : bool :=
    ltb N (mul N (orient p0 p1 q0) (orient p0 p1 q1)) (zero N)
    && ltb N (mul N (orient q0 q1 p0) (orient q0 q1 p1)) (zero N).
  Definition crossing_count (pt opt : Cplx K) (edges : list (Cplx K * Cplx K)) : nat :=
    length (filter (fun e => crosses pt opt (fst e) (snd e)) edges).
  Definition even_odd (pt opt : Cplx K) (edges : list (Cplx K * Cplx K)) : bool :=
    Nat.odd (crossing_count pt opt edges).

  (* ---------------- is_contained_by ----------------
     if self.intersect(other, justonemode=True): return False
     pt = self.point(0); xmin, xmax, ymin, ymax = other.bbox()
     if not (xmin <= pt.real <= xmax and ymin <= pt.imag <= ymax): return False
     opt = complex(xmin-1, ymin-1); return path_encloses_pt(pt, opt, other)
     [intersects] and [encl] (the enclosure test of the outer path, a function of
     the probe's end points) are parameters: Path.intersect is the subject of
     C11/C12; for polygons [encl] is encloses_polygon. *)
  Definition in_bbox (bb : K * K * K * K) (pt : Cplx K) : bool :=
    let '(xmin, xmax, ymin, ymax) := bb in
    (leb N xmin (re pt) && leb N (re pt) xmax) && (leb N ymin (im pt) && leb N (im pt) ymax).
  Definition probe_target (bb : K * K * K * K) : Cplx K :=
    let '(xmin, xmax, ymin, ymax) := bb in (sub N xmin (one N), sub N ymin (one N)).
  Definition is_contained_by (intersects : bool) (bb : K * K * K * K) (pt : Cplx K)
             (encl : Cplx K -> Cplx K -> bool) : bool :=
    if intersects then false
    else if negb (in_bbox bb pt) then false
    else encl pt (probe_target bb).
  (* Path.bbox of a polygon: min / max over the segment boxes (Line.bbox) *)
  Definition edges_bbox (edges : list (Cplx K * Cplx K)) : K * K * K * K :=
    match edges with
    | [] => (zero N, zero N, zero N, zero N)
    | (a, b) :: r =>
        fold_left (fun bb e =>
                     let '(xmin, xmax, ymin, ymax) := bb in
                     let a := fst e in let b := snd e in
                     (nmin N xmin (nmin N (re a) (re b)), nmax N xmax (nmax N (re a) (re b)),
                      nmin N ymin (nmin N (im a) (im b)), nmax N ymax (nmax N (im a) (im b))))
                  r (nmin N (re a) (re b), nmax N (re a) (re b),
                     nmin N (im a) (im b), nmax N (im a) (im b))
    end.
End Area.
