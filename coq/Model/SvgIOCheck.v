(* Model/SvgIOCheck.v — executable comparisons for the generated case files of
   C18 (tools/harness/c18.py): the model of a Document history (Model/SvgIO.v)
   against what the implementation showed — the element tree after the history,
   what paths() returned after every step, and what the three readers return
   on the saved file.  Computed inside Coq. *)
From Coq Require Import String List Bool Ascii.
From SVP Require Import Model.SvgIO.
Import ListNotations.
Open Scope string_scope.
Open Scope list_scope.

Fixpoint lstr_eqb (a b : list string) : bool :=
  match a, b with
  | [], [] => true
  | x :: r, y :: s => String.eqb x y && lstr_eqb r s
  | _, _ => false
  end.

Definition ostr_eqb (a b : option string) : bool :=
  match a, b with
  | Some x, Some y => String.eqb x y
  | None, None => true
  | _, _ => false
  end.

(* dictionaries compared as finite maps *)
Definition dict_incl (a b : dict) : bool :=
  forallb (fun kv => ostr_eqb (lookup (fst kv) a) (lookup (fst kv) b)) a.
Definition dict_eqb (a b : dict) : bool := dict_incl a b && dict_incl b a.

Fixpoint xel_eqb (e f : xel) : bool :=
  match e, f with
  | XE ns l a kids, XE ns' l' a' kids' =>
      String.eqb ns ns' && String.eqb l l' && dict_eqb a a' &&
      (fix go (x y : list xel) : bool :=
         match x, y with
         | [], [] => true
         | c :: r, d :: s => xel_eqb c d && go r s
         | _, _ => false
         end) kids kids'
  end.

Definition dlist (ds : list dict) : list string :=
  map (fun a => match lookup "d" a with Some d => d | None => "" end) ds.

Fixpoint prefixes {A} (l : list A) : list (list A) :=
  match l with
  | [] => []
  | x :: r => [x] :: map (cons x) (prefixes r)
  end.

Definition olstr_eqb (a b : option (list string)) : bool :=
  match a, b with
  | Some x, Some y => lstr_eqb x y
  | None, None => true
  | _, _ => false
  end.

(* bits: 1 final tree; 2 paths() after some step; 4 Document reload;
   8 svg2paths on the saved file; 16 SaxDocument on the saved file *)
Definition check_history (c : cfg) (root : xel) (ops : list op) (obs_steps : list (list string))
           (obs_final : xel) (obs_reload : list string) (obs_svg2paths : option (list string))
           (obs_sax : option (list string)) : nat :=
  let final := run c ops root in
  let steps := map (fun pre => dlist (doc_visible (run c pre root))) (prefixes ops) in
  let b1 := xel_eqb final obs_final in
  let b2 := (fix go (x y : list (list string)) : bool :=
               match x, y with
               | [], [] => true
               | a :: r, b :: s => lstr_eqb a b && go r s
               | _, _ => false
               end) steps obs_steps in
  let saved := et_write c final in
  let b3 := lstr_eqb (fst (doc_read saved)) obs_reload in
  let b4 := olstr_eqb (option_map fst (svg2paths_read c saved)) obs_svg2paths in
  let b5 := olstr_eqb (option_map fst (sax_read c saved)) obs_sax in
  ((if b1 then 0 else 1) + (if b2 then 0 else 2) + (if b3 then 0 else 4)
   + (if b4 then 0 else 8) + (if b5 then 0 else 16))%nat.

(* the wsvg stream: the written file as the readers saw it *)
Definition ldict_eqb (a b : list dict) : bool :=
  (fix go (x y : list dict) : bool :=
     match x, y with
     | [], [] => true
     | c :: r, d :: s => dict_eqb c d && go r s
     | _, _ => false
     end) a b.

Definition no_xmlns (d : dict) : dict :=
  filter (fun kv => negb (String.prefix "xmlns" (fst kv))) d.

(* bits: 1 svg2paths d-strings/dicts; 2 Document; 4 SaxDocument (ElementTree
   consumes the xmlns declarations); 8 svg attributes of svg2paths2 *)
Definition check_wsvg (c : cfg) (ds : list string) (attrs : list dict) (svgattrs size : dict)
           (o_s2p : option (list string * list dict)) (o_svg : option dict)
           (o_doc : list string * list dict) (o_sax : option (list string * list dict)) : nat :=
  let f := wsvg_file ds attrs svgattrs size in
  let b1 := match svg2paths_read c f, o_s2p with
            | Some (d, a), Some (d', a') => lstr_eqb d d' && ldict_eqb a a'
            | None, None => true
            | _, _ => false
            end in
  let b2 := lstr_eqb (fst (doc_read f)) (fst o_doc) && ldict_eqb (snd (doc_read f)) (snd o_doc) in
  let b3 := match sax_read c f, o_sax with
            | Some (d, a), Some (d', a') => lstr_eqb d d' && ldict_eqb (map no_xmlns a) a'
            | None, None => true
            | _, _ => false
            end in
  (* svg2paths2 raises before it gets to the svg attributes when a path has no d *)
  let b4 := match (match svg2paths_read c f with Some _ => svg2paths_svg_attributes f | None => None end), o_svg with
            | Some a, Some a' => dict_eqb a a'
            | None, None => true
            | _, _ => false
            end in
  ((if b1 then 0 else 1) + (if b2 then 0 else 2) + (if b3 then 0 else 4) + (if b4 then 0 else 8))%nat.
