(* GenAgree/Crop.v — translator tie for C09.  The methods reversed / split /
   cropped themselves construct objects (outside the translator's subset, see
   tools/py2v_tables/c09.py); what DOES translate are the functions they are
   made of: Line.point, X.bpoints and bezier.split_bezier (groups GenBezierSeg,
   GenBezierN, regenerated from /repo on every run).  The lemmas below state the
   hand models of Model/Crop.v in terms of those generated definitions, so a
   change of Line.point / split_bezier / bpoints in /repo breaks them.
   Compiled lemma by lemma (split on the AGREE markers). *)
From Coq Require Import ZArith List Bool Field.
From SVP Require Import Base.Num Base.Cplx Base.Poly Base.FieldTac Base.Agree Base.FieldTac2
     Model.Bezier Model.Crop.
From SVP Require Import Gen.GenBezierSeg Gen.GenBezierN.
Import ListNotations.
Section A.
Context {K : Type} (N : Num K) (OK : NumFieldOK N).
Add Field KF : (Fth OK).
(* HEADER END *)

(* AGREE gen_Line_point *)
(* Line.cropped = Line(self.point(t0), self.point(t1)); Line.split = Line(start, pt), Line(pt, end) *)
Lemma agree_Line_cropped s e t0 t1 :
  line_cropped N s e t0 t1 = (gen_Line_point N s e t0, gen_Line_point N s e t1).
Proof. agree_ring. Qed.
Lemma agree_Line_split s e t :
  line_split N s e t = ((s, gen_Line_point N s e t), (gen_Line_point N s e t, e)).
Proof. agree_ring. Qed.
(* AGREE gen_Line_bpoints *)
Lemma agree_Line_reversed s e :
  (let '(a, b) := line_reversed s e in [a; b]) = rev (gen_Line_bpoints N s e).
Proof. destruct s, e. reflexivity. Qed.
(* AGREE gen_Quad_bpoints *)
Lemma agree_Quad_reversed s c e :
  (let '(a, b, d) := quad_reversed s c e in [a; b; d]) = rev (gen_Quad_bpoints N s c e).
Proof. destruct s, c, e. reflexivity. Qed.
(* AGREE gen_Cubic_bpoints *)
Lemma agree_Cubic_reversed s c1 c2 e :
  (let '(a, b, d, f) := cubic_reversed s c1 c2 e in [a; b; d; f]) = rev (gen_Cubic_bpoints N s c1 c2 e).
Proof. destruct s, c1, c2, e. reflexivity. Qed.
(* AGREE gen_split_bezier_3 *)
(* QuadraticBezier.split / crop_bezier on 3 control points, through the generated split_bezier *)
Lemma agree_split_3 p0 p1 p2 t : bez_split N [p0; p1; p2] t = gen_split_bezier_3 N p0 p1 p2 t.
Proof. unfold bez_split. symmetry. ring_lin N OK. Qed.
Lemma agree_crop_3 p0 p1 p2 t0 t1 adj :
  crop_bezier N [p0; p1; p2] t0 t1 adj =
  if eqb N t0 (zero N) then fst (gen_split_bezier_3 N p0 p1 p2 t1)
  else if eqb N t1 (one N) then snd (gen_split_bezier_3 N p0 p1 p2 t0)
  else match snd (gen_split_bezier_3 N p0 p1 p2 t0) with
       | [q0; q1; q2] => fst (gen_split_bezier_3 N q0 q1 q2 adj)
       | _ => []
       end.
Proof.
  unfold crop_bezier. rewrite !agree_split_3.
  destruct (eqb N t0 (zero N)); [reflexivity|]. destruct (eqb N t1 (one N)); [reflexivity|].
  rewrite <- (agree_split_3 p0 p1 p2 t0). unfold bez_split at 1 3.
  cbv [split_bezier dc_levels dc_step length map rev app last hd snd fst].
  rewrite agree_split_3. reflexivity.
Qed.
(* AGREE gen_split_bezier_4 *)
Lemma agree_split_4 p0 p1 p2 p3 t : bez_split N [p0; p1; p2; p3] t = gen_split_bezier_4 N p0 p1 p2 p3 t.
Proof. unfold bez_split. symmetry. ring_lin N OK. Qed.
Lemma agree_crop_4 p0 p1 p2 p3 t0 t1 adj :
  crop_bezier N [p0; p1; p2; p3] t0 t1 adj =
  if eqb N t0 (zero N) then fst (gen_split_bezier_4 N p0 p1 p2 p3 t1)
  else if eqb N t1 (one N) then snd (gen_split_bezier_4 N p0 p1 p2 p3 t0)
  else match snd (gen_split_bezier_4 N p0 p1 p2 p3 t0) with
       | [q0; q1; q2; q3] => fst (gen_split_bezier_4 N q0 q1 q2 q3 adj)
       | _ => []
       end.
Proof.
  unfold crop_bezier. rewrite !agree_split_4.
  destruct (eqb N t0 (zero N)); [reflexivity|]. destruct (eqb N t1 (one N)); [reflexivity|].
  rewrite <- (agree_split_4 p0 p1 p2 p3 t0). unfold bez_split at 1 3.
  cbv [split_bezier dc_levels dc_step length map rev app last hd snd fst].
  rewrite agree_split_4. reflexivity.
Qed.
(* FOOTER *)
End A.
