(* GenAgree/Crop.v — translator tie for C09.  The methods reversed / split /
   cropped construct objects; tools/py2v.py renders a constructor call as the
   tuple of the constructor's arguments, so group GenCrop (tools/py2v_tables/c09.py)
   translates Line.cropped/split/reversed, Quadratic/CubicBezier.reversed/split,
   Arc.reversed and Arc.cropped (only crop_bezier — symbolic t-branching and the
   radialrange oracle — stays outside).  Part 1 proves the generated definitions
   equal to the hand models of Model/Crop.v / Model/CropArc.v; part 2 (older)
   states the hand models in terms of the generated building blocks Line.point,
   X.bpoints, bezier.split_bezier (groups GenBezierSeg, GenBezierN).  Everything
   is regenerated from /repo and recompiled on every run.
   Compiled lemma by lemma (split on the AGREE markers). *)
From Coq Require Import ZArith List Bool Field.
From SVP Require Import Base.Num Base.Cplx Base.Poly Base.FieldTac Base.Agree Base.FieldTac2
     Model.Bezier Model.Arc Model.Crop Model.CropArc.
From SVP Require Import Gen.GenBezierSeg Gen.GenBezierN Gen.GenCrop.
Import ListNotations.
Section A.
Context {K : Type} (N : Num K) (OK : NumFieldOK N) (T : NumT K).
Add Field KF : (Fth OK).
(* HEADER END *)

(* ---------------- part 1: the methods themselves ---------------- *)
(* AGREE gen_Line_cropped *)
Lemma agree_gen_Line_cropped s e t0 t1 : gen_Line_cropped N s e t0 t1 = line_cropped N s e t0 t1.
Proof. agree_ring. Qed.
(* AGREE gen_Line_split *)
Lemma agree_gen_Line_split s e t : gen_Line_split N s e t = line_split N s e t.
Proof. agree_ring. Qed.
(* AGREE gen_Line_reversed *)
Lemma agree_gen_Line_reversed s e : gen_Line_reversed N s e = line_reversed s e.
Proof. destruct s, e. reflexivity. Qed.
(* AGREE gen_Quad_reversed *)
Lemma agree_gen_Quad_reversed s c e : gen_Quad_reversed N s c e = quad_reversed s c e.
Proof. destruct s, c, e. reflexivity. Qed.
(* AGREE gen_Cubic_reversed *)
Lemma agree_gen_Cubic_reversed s c1 c2 e : gen_Cubic_reversed N s c1 c2 e = cubic_reversed s c1 c2 e.
Proof. destruct s, c1, c2, e. reflexivity. Qed.
(* AGREE gen_Quad_split *)
(* QuadraticBezier.split: the two objects' constructor arguments are the control polygons of bez_split *)
Lemma agree_gen_Quad_split s c e t :
  (let '((a, b, d), (a', b', d')) := gen_Quad_split N s c e t in ([a; b; d], [a'; b'; d']))
  = bez_split N [s; c; e] t.
Proof. unfold bez_split. ring_lin N OK. Qed.
(* AGREE gen_Cubic_split *)
Lemma agree_gen_Cubic_split s c1 c2 e t :
  (let '((a, b, d, f), (a', b', d', f')) := gen_Cubic_split N s c1 c2 e t in ([a; b; d; f], [a'; b'; d'; f']))
  = bez_split N [s; c1; c2; e] t.
Proof. unfold bez_split. ring_lin N OK. Qed.
(* AGREE gen_Arc_reversed *)
(* Arc.reversed: Arc(end, radius, rotation, large_arc, not sweep, start), for the object's stored attributes *)
Lemma agree_gen_Arc_reversed start radius rotation large sweep end_ center theta delta phi rot :
  gen_Arc_reversed N start radius rotation large sweep end_ center theta delta phi rot
  = arc_reversed_args (mkArcP start radius rotation large sweep end_ center theta delta phi rot).
Proof. destruct start, radius, end_. reflexivity. Qed.
(* AGREE gen_Arc_cropped *)
(* Arc.cropped: constructor arguments (point(t0), radius, rotation, flag rule, sweep, point(t1)) with
   point() inlined = arc_cropped_args over Model/Arc.v's arc_point, for ANY carrier and ANY NumT *)
Lemma agree_gen_Arc_cropped start radius rotation large sweep end_ center theta delta phi rot t0 t1 :
  gen_Arc_cropped N T start radius rotation large sweep end_ center theta delta phi rot t0 t1
  = arc_cropped_args N T (mkArcP start radius rotation large sweep end_ center theta delta phi rot) t0 t1.
Proof.
  first [ solve [ destruct radius, center, rot;
                  unfold gen_Arc_cropped, arc_cropped_args, arc_crop_large, arc_point, d180;
                  cbn [a_start a_radius a_rotation a_large a_sweep a_end a_center a_theta a_delta a_phi a_rot re im fst snd];
                  destruct (leb N (nabs N (mul N delta (sub N t1 t0))) (lit N 180)); reflexivity ]
        | (* the same arguments written in another ring-equal way (e.g. (t1 - t0)*delta) *)
          solve [ unfold gen_Arc_cropped, arc_cropped_args, arc_crop_large; agree_cases OK N T ] ].
Qed.

(* ---------------- part 2: the models over the generated building blocks ---------------- *)

(* AGREE gen_Line_point *)
(* Line.cropped = Line(self.point(t0), self.point(t1)); Line.split = Line(start, pt), Line(pt, end) *)
Lemma agree_Line_cropped s e t0 t1 :
  line_cropped N s e t0 t1 = (gen_Line_point N s e t0, gen_Line_point N s e t1).
Proof. agree_ring. Qed.
Lemma agree_Line_split s e t :
  line_split N s e t = ((s, gen_Line_point N s e t), (gen_Line_point N s e t, e)).
Proof. agree_ring. Qed.
(* AGREE gen_Line_bpoints *)
Lemma agree_Line_reversed s e :
  (let '(a, b) := line_reversed s e in [a; b]) = rev (gen_Line_bpoints N s e).
Proof. destruct s, e. reflexivity. Qed.
(* AGREE gen_Quad_bpoints *)
Lemma agree_Quad_reversed s c e :
  (let '(a, b, d) := quad_reversed s c e in [a; b; d]) = rev (gen_Quad_bpoints N s c e).
Proof. destruct s, c, e. reflexivity. Qed.
(* AGREE gen_Cubic_bpoints *)
Lemma agree_Cubic_reversed s c1 c2 e :
  (let '(a, b, d, f) := cubic_reversed s c1 c2 e in [a; b; d; f]) = rev (gen_Cubic_bpoints N s c1 c2 e).
Proof. destruct s, c1, c2, e. reflexivity. Qed.
(* AGREE gen_split_bezier_3 *)
(* QuadraticBezier.split / crop_bezier on 3 control points, through the generated split_bezier *)
Lemma agree_split_3 p0 p1 p2 t : bez_split N [p0; p1; p2] t = gen_split_bezier_3 N p0 p1 p2 t.
Proof. unfold bez_split. symmetry. ring_lin N OK. Qed.
Lemma agree_crop_3 p0 p1 p2 t0 t1 adj :
  crop_bezier N [p0; p1; p2] t0 t1 adj =
  if eqb N t0 (zero N) then fst (gen_split_bezier_3 N p0 p1 p2 t1)
  else if eqb N t1 (one N) then snd (gen_split_bezier_3 N p0 p1 p2 t0)
  else match snd (gen_split_bezier_3 N p0 p1 p2 t0) with
       | [q0; q1; q2] => fst (gen_split_bezier_3 N q0 q1 q2 adj)
       | _ => []
       end.
Proof.
  unfold crop_bezier. rewrite !agree_split_3.
  destruct (eqb N t0 (zero N)); [reflexivity|]. destruct (eqb N t1 (one N)); [reflexivity|].
  rewrite <- (agree_split_3 p0 p1 p2 t0). unfold bez_split at 1 3.
  cbv [split_bezier dc_levels dc_step length map rev app last hd snd fst].
  rewrite agree_split_3. reflexivity.
Qed.
(* AGREE gen_split_bezier_4 *)
Lemma agree_split_4 p0 p1 p2 p3 t : bez_split N [p0; p1; p2; p3] t = gen_split_bezier_4 N p0 p1 p2 p3 t.
Proof. unfold bez_split. symmetry. ring_lin N OK. Qed.
Lemma agree_crop_4 p0 p1 p2 p3 t0 t1 adj :
  crop_bezier N [p0; p1; p2; p3] t0 t1 adj =
  if eqb N t0 (zero N) then fst (gen_split_bezier_4 N p0 p1 p2 p3 t1)
  else if eqb N t1 (one N) then snd (gen_split_bezier_4 N p0 p1 p2 p3 t0)
  else match snd (gen_split_bezier_4 N p0 p1 p2 p3 t0) with
       | [q0; q1; q2; q3] => fst (gen_split_bezier_4 N q0 q1 q2 q3 adj)
       | _ => []
       end.
Proof.
  unfold crop_bezier. rewrite !agree_split_4.
  destruct (eqb N t0 (zero N)); [reflexivity|]. destruct (eqb N t1 (one N)); [reflexivity|].
  rewrite <- (agree_split_4 p0 p1 p2 p3 t0). unfold bez_split at 1 3.
  cbv [split_bezier dc_levels dc_step length map rev app last hd snd fst].
  rewrite agree_split_4. reflexivity.
Qed.
(* AGREE gen_crop_bezier_cubic *)
(* crop_bezier with the ANALYTIC relocation t1_adj = (t1 - t0)/(1 - t0) (the repaired code; on the
   pinned code the relocation is the radialrange oracle and the function is outside the translator's
   subset): the whole function, with its recursive calls inlined and the t0 == 0 / t1 == 1 tests as
   conditional values, is the model's crop_bezier_v true — for every field of characteristic 0 *)
Lemma agree_crop_bezier_cubic s c1 c2 e t0 t1 oracle :
  gen_crop_bezier_cubic N s c1 c2 e t0 t1 = crop_bezier_v N true [s; c1; c2; e] t0 t1 oracle.
Proof. agree_cases_noT OK N. Qed.
(* AGREE gen_crop_bezier_quad *)
Lemma agree_crop_bezier_quad s c e t0 t1 oracle :
  gen_crop_bezier_quad N s c e t0 t1 = crop_bezier_v N true [s; c; e] t0 t1 oracle.
Proof. agree_cases_noT OK N. Qed.
(* AGREE gen_crop_bezier_line *)
Lemma agree_crop_bezier_line s e t0 t1 oracle :
  gen_crop_bezier_line N s e t0 t1 = crop_bezier_v N true [s; e] t0 t1 oracle.
Proof. agree_cases_noT OK N. Qed.
(* FOOTER *)
End A.
