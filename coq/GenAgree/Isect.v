(* GenAgree/Isect.v — the definitions generated from /repo's current bezier.py
   (box helpers, real-valued bezier2polynomial / bezier_point) agree with the
   hand-written models of Model/Isect.v.  Recompiled on every check run, lemma
   by lemma (split on the AGREE markers). *)
From Coq Require Import ZArith List Bool Field.
From SVP Require Import Base.Num Base.Cplx Base.Poly Base.FieldTac Base.Agree Model.Bezier Model.Isect.
From SVP Require Import Gen.GenBoxes Gen.GenIsect Gen.GenBezierN.
Import ListNotations.
Section A.
Context {K : Type} (N : Num K) (OK : NumFieldOK N).
Add Field KF : (Fth OK).
(* HEADER END *)

(* AGREE gen_box_area *)
Lemma agree_box_area xmin xmax ymin ymax :
  gen_box_area N xmin xmax ymin ymax = box_area N (xmin, xmax, ymin, ymax).
Proof. reflexivity. Qed.
(* AGREE gen_interval_intersection_width *)
Lemma agree_interval_intersection_width a b c d :
  gen_interval_intersection_width N a b c d = interval_intersection_width N a b c d.
Proof. reflexivity. Qed.
(* AGREE gen_boxes_intersect *)
(* the code is one of the two modelled variants: open boxes (pinned) or closed boxes
   (fixes/C12-subdivision-closed-boxes-extent.diff); the harness probes which *)
Lemma agree_boxes_intersect a0 a1 a2 a3 b0 b1 b2 b3 :
  gen_boxes_intersect N a0 a1 a2 a3 b0 b1 b2 b3 = boxes_intersect N (a0, a1, a2, a3) (b0, b1, b2, b3)
  \/ gen_boxes_intersect N a0 a1 a2 a3 b0 b1 b2 b3 = boxes_intersect_closed N (a0, a1, a2, a3) (b0, b1, b2, b3).
Proof.
  first [ left; unfold gen_boxes_intersect, boxes_intersect, interval_intersection_width;
          match goal with |- (if ?c then true else false) = _ => destruct c end; reflexivity
        | right; unfold gen_boxes_intersect, boxes_intersect_closed;
          match goal with |- (if ?c then true else false) = _ => destruct c end; reflexivity ].
Qed.
(* AGREE gen_box_extent *)
Lemma agree_box_extent xmin xmax ymin ymax :
  gen_box_extent N xmin xmax ymin ymax = box_extent N (xmin, xmax, ymin, ymax).
Proof. reflexivity. Qed.
(* AGREE gen_bezier2polynomial_real_2 *)
Lemma agree_bezier2polynomial_real_2 p0 p1 :
  gen_bezier2polynomial_real_2 N p0 p1 = bez2poly_real N [p0; p1].
Proof. agree_ring. Qed.
(* AGREE gen_bezier2polynomial_real_3 *)
Lemma agree_bezier2polynomial_real_3 p0 p1 p2 :
  gen_bezier2polynomial_real_3 N p0 p1 p2 = bez2poly_real N [p0; p1; p2].
Proof. agree_ring. Qed.
(* AGREE gen_bezier2polynomial_real_4 *)
Lemma agree_bezier2polynomial_real_4 p0 p1 p2 p3 :
  gen_bezier2polynomial_real_4 N p0 p1 p2 p3 = bez2poly_real N [p0; p1; p2; p3].
Proof. agree_ring. Qed.
(* AGREE gen_bezier_point_real_2 *)
Lemma agree_bezier_point_real_2 p0 p1 t :
  gen_bezier_point_real_2 N p0 p1 t = bezier_point_real N [p0; p1] t.
Proof. agree_ring. Qed.
(* AGREE gen_bezier_point_real_3 *)
Lemma agree_bezier_point_real_3 p0 p1 p2 t :
  gen_bezier_point_real_3 N p0 p1 p2 t = bezier_point_real N [p0; p1; p2] t.
Proof. agree_ring. Qed.
(* AGREE gen_bezier_point_real_4 *)
Lemma agree_bezier_point_real_4 p0 p1 p2 p3 t :
  gen_bezier_point_real_4 N p0 p1 p2 p3 t = bezier_point_real N [p0; p1; p2; p3] t.
Proof. agree_ring. Qed.
(* AGREE gen_halve_bezier_4 *)
Lemma agree_halve_bezier_4 (p0 p1 p2 p3 : Cplx K) :
  gen_halve_bezier_4 N p0 p1 p2 p3 = halve_bezier N [p0; p1; p2; p3].
Proof. agree_field OK. Qed.
(* AGREE gen_halve_bezier_3 *)
Lemma agree_halve_bezier_3 (p0 p1 p2 : Cplx K) :
  gen_halve_bezier_3 N p0 p1 p2 = halve_bezier N [p0; p1; p2].
Proof. agree_field OK. Qed.
(* FOOTER *)
End A.
