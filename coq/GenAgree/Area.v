(* GenAgree/Area.v — the area kernel generated from /repo's current
   Path.area.area_without_arcs (one segment per class, and the empty path)
   agrees with the hand-written model of Model/Area.v.  Recompiled on every
   check run, lemma by lemma (split on the AGREE markers). *)
From Coq Require Import ZArith List Bool Field.
From SVP Require Import Base.Num Base.Cplx Base.Poly Base.FieldTac Base.Agree Model.Bezier Model.Area.
From SVP Require Import Gen.GenArea.
Import ListNotations.
Section A.
Context {K : Type} (N : Num K) (OK : NumFieldOK N).
Add Field KF : (Fth OK).
(* closed numerals in the side conditions of [field], possibly re-factored (2*2, 2*3, ...) *)
Ltac nz1 p :=
  fold (add N) (mul N) (one N) (sub N) (opp N);
  match goal with |- ?x <> _ =>
    let H := fresh in
    assert (H : x = of_pos N p) by (cbn [of_pos]; ring); rewrite H; exact (char0 OK p) end.
Ltac numnz2 :=
  repeat split;
  first [ nz1 1%positive | nz1 2%positive | nz1 3%positive | nz1 4%positive | nz1 5%positive
        | nz1 6%positive | nz1 8%positive | nz1 10%positive | nz1 12%positive | nz1 15%positive
        | nz1 20%positive | nz1 30%positive | nz1 60%positive ].
Ltac agree_area := intros; destruct_cplx_vars; norm_num; field; numnz2.
(* HEADER END *)

(* AGREE gen_area_empty *)
Lemma agree_area_empty : gen_area_empty N = area_without_arcs N [].
Proof. reflexivity. Qed.
(* AGREE gen_area1_Line *)
Lemma agree_area1_Line s e : gen_area1_Line N s e = area_without_arcs N [BLine s e].
Proof. agree_area. Qed.
(* AGREE gen_area1_Quad *)
Lemma agree_area1_Quad s c e : gen_area1_Quad N s c e = area_without_arcs N [BQuad s c e].
Proof. agree_area. Qed.
(* AGREE gen_area1_Cubic *)
Lemma agree_area1_Cubic s c1 c2 e : gen_area1_Cubic N s c1 c2 e = area_without_arcs N [BCubic s c1 c2 e].
Proof. agree_area. Qed.
(* FOOTER *)
End A.
