(* GenAgree/BezierN.v — written by tools/gen_agree_bezierN.py (committed).  The
   definitions generated from /repo's current bezier.py agree with the models of
   Model/Bezier.v / Model/BezierN.v.  Compiled lemma by lemma on every run. *)
From Coq Require Import ZArith List Bool Field.
From SVP Require Import Base.Num Base.Cplx Base.Poly Base.FieldTac Base.Agree Base.FieldTac2 Model.Bezier Model.BezierN.
From SVP Require Import Gen.GenBezierN Gen.GenBoxes.
Import ListNotations.
Section A.
Context {K : Type} (N : Num K) (OK : NumFieldOK N).
Add Field KF : (Fth OK).
(* HEADER END *)

(* AGREE gen_bezier_point_1 *)
Lemma agree_bezier_point_1 p0 t : gen_bezier_point_1 N p0 t = bezier_point N [p0] t.
Proof. ring_lin N OK. Qed.
(* AGREE gen_bezier2polynomial_1 *)
Lemma agree_bezier2polynomial_1 p0 : gen_bezier2polynomial_1 N p0 = bezier2polynomial N [p0].
Proof. field_lin N OK. Qed.
(* AGREE gen_bezier2polynomial_asc_1 *)
Lemma agree_bezier2polynomial_asc_1 p0 : gen_bezier2polynomial_asc_1 N p0 = rev (bezier2polynomial N [p0]).
Proof. field_lin N OK. Qed.
(* AGREE gen_bezier_point_real_1 *)
Lemma agree_bezier_point_real_1 (x0 : K) t : gen_bezier_point_real_1 N x0 t = fst (bezier_point N [(x0, zero N)] t).
Proof. ring_lin N OK. Qed.
(* AGREE gen_bezier_point_2 *)
Lemma agree_bezier_point_2 p0 p1 t : gen_bezier_point_2 N p0 p1 t = bezier_point N [p0; p1] t.
Proof. ring_lin N OK. Qed.
(* AGREE gen_bezier2polynomial_2 *)
Lemma agree_bezier2polynomial_2 p0 p1 : gen_bezier2polynomial_2 N p0 p1 = bezier2polynomial N [p0; p1].
Proof. field_lin N OK. Qed.
(* AGREE gen_bezier2polynomial_asc_2 *)
Lemma agree_bezier2polynomial_asc_2 p0 p1 : gen_bezier2polynomial_asc_2 N p0 p1 = rev (bezier2polynomial N [p0; p1]).
Proof. field_lin N OK. Qed.
(* AGREE gen_split_bezier_2 *)
Lemma agree_split_bezier_2 p0 p1 t : gen_split_bezier_2 N p0 p1 t = split_bezier N [p0; p1] t.
Proof. ring_lin N OK. Qed.
(* AGREE gen_halve_bezier_2 *)
Lemma agree_halve_bezier_2 p0 p1 : gen_halve_bezier_2 N p0 p1 = halve_bezier N [p0; p1].
Proof. field_lin N OK. Qed.
(* AGREE gen_bezier_point_real_2 *)
Lemma agree_bezier_point_real_2 (x0 : K) (x1 : K) t : gen_bezier_point_real_2 N x0 x1 t = fst (bezier_point N [(x0, zero N); (x1, zero N)] t).
Proof. ring_lin N OK. Qed.
(* AGREE gen_bezier_point_3 *)
Lemma agree_bezier_point_3 p0 p1 p2 t : gen_bezier_point_3 N p0 p1 p2 t = bezier_point N [p0; p1; p2] t.
Proof. ring_lin N OK. Qed.
(* AGREE gen_bezier2polynomial_3 *)
Lemma agree_bezier2polynomial_3 p0 p1 p2 : gen_bezier2polynomial_3 N p0 p1 p2 = bezier2polynomial N [p0; p1; p2].
Proof. field_lin N OK. Qed.
(* AGREE gen_bezier2polynomial_asc_3 *)
Lemma agree_bezier2polynomial_asc_3 p0 p1 p2 : gen_bezier2polynomial_asc_3 N p0 p1 p2 = rev (bezier2polynomial N [p0; p1; p2]).
Proof. field_lin N OK. Qed.
(* AGREE gen_split_bezier_3 *)
Lemma agree_split_bezier_3 p0 p1 p2 t : gen_split_bezier_3 N p0 p1 p2 t = split_bezier N [p0; p1; p2] t.
Proof. ring_lin N OK. Qed.
(* AGREE gen_halve_bezier_3 *)
Lemma agree_halve_bezier_3 p0 p1 p2 : gen_halve_bezier_3 N p0 p1 p2 = halve_bezier N [p0; p1; p2].
Proof. field_lin N OK. Qed.
(* AGREE gen_bezier_point_real_3 *)
Lemma agree_bezier_point_real_3 (x0 : K) (x1 : K) (x2 : K) t : gen_bezier_point_real_3 N x0 x1 x2 t = fst (bezier_point N [(x0, zero N); (x1, zero N); (x2, zero N)] t).
Proof. ring_lin N OK. Qed.
(* AGREE gen_bezier_point_4 *)
Lemma agree_bezier_point_4 p0 p1 p2 p3 t : gen_bezier_point_4 N p0 p1 p2 p3 t = bezier_point N [p0; p1; p2; p3] t.
Proof. ring_lin N OK. Qed.
(* AGREE gen_bezier2polynomial_4 *)
Lemma agree_bezier2polynomial_4 p0 p1 p2 p3 : gen_bezier2polynomial_4 N p0 p1 p2 p3 = bezier2polynomial N [p0; p1; p2; p3].
Proof. field_lin N OK. Qed.
(* AGREE gen_bezier2polynomial_asc_4 *)
Lemma agree_bezier2polynomial_asc_4 p0 p1 p2 p3 : gen_bezier2polynomial_asc_4 N p0 p1 p2 p3 = rev (bezier2polynomial N [p0; p1; p2; p3]).
Proof. field_lin N OK. Qed.
(* AGREE gen_split_bezier_4 *)
Lemma agree_split_bezier_4 p0 p1 p2 p3 t : gen_split_bezier_4 N p0 p1 p2 p3 t = split_bezier N [p0; p1; p2; p3] t.
Proof. ring_lin N OK. Qed.
(* AGREE gen_halve_bezier_4 *)
Lemma agree_halve_bezier_4 p0 p1 p2 p3 : gen_halve_bezier_4 N p0 p1 p2 p3 = halve_bezier N [p0; p1; p2; p3].
Proof. field_lin N OK. Qed.
(* AGREE gen_bezier_point_real_4 *)
Lemma agree_bezier_point_real_4 (x0 : K) (x1 : K) (x2 : K) (x3 : K) t : gen_bezier_point_real_4 N x0 x1 x2 x3 t = fst (bezier_point N [(x0, zero N); (x1, zero N); (x2, zero N); (x3, zero N)] t).
Proof. ring_lin N OK. Qed.
(* AGREE gen_bezier_point_5 *)
Lemma agree_bezier_point_5 p0 p1 p2 p3 p4 t : gen_bezier_point_5 N p0 p1 p2 p3 p4 t = bezier_point N [p0; p1; p2; p3; p4] t.
Proof. ring_lin N OK. Qed.
(* AGREE gen_bezier2polynomial_5 *)
Lemma agree_bezier2polynomial_5 p0 p1 p2 p3 p4 : gen_bezier2polynomial_5 N p0 p1 p2 p3 p4 = bezier2polynomial N [p0; p1; p2; p3; p4].
Proof. field_lin N OK. Qed.
(* AGREE gen_bezier2polynomial_asc_5 *)
Lemma agree_bezier2polynomial_asc_5 p0 p1 p2 p3 p4 : gen_bezier2polynomial_asc_5 N p0 p1 p2 p3 p4 = rev (bezier2polynomial N [p0; p1; p2; p3; p4]).
Proof. field_lin N OK. Qed.
(* AGREE gen_split_bezier_5 *)
Lemma agree_split_bezier_5 p0 p1 p2 p3 p4 t : gen_split_bezier_5 N p0 p1 p2 p3 p4 t = split_bezier N [p0; p1; p2; p3; p4] t.
Proof. ring_lin N OK. Qed.
(* AGREE gen_halve_bezier_5 *)
Lemma agree_halve_bezier_5 p0 p1 p2 p3 p4 : gen_halve_bezier_5 N p0 p1 p2 p3 p4 = halve_bezier N [p0; p1; p2; p3; p4].
Proof. field_lin N OK. Qed.
(* AGREE gen_bezier_point_real_5 *)
Lemma agree_bezier_point_real_5 (x0 : K) (x1 : K) (x2 : K) (x3 : K) (x4 : K) t : gen_bezier_point_real_5 N x0 x1 x2 x3 x4 t = fst (bezier_point N [(x0, zero N); (x1, zero N); (x2, zero N); (x3, zero N); (x4, zero N)] t).
Proof. ring_lin N OK. Qed.
(* AGREE gen_bezier_point_6 *)
Lemma agree_bezier_point_6 p0 p1 p2 p3 p4 p5 t : gen_bezier_point_6 N p0 p1 p2 p3 p4 p5 t = bezier_point N [p0; p1; p2; p3; p4; p5] t.
Proof. ring_lin N OK. Qed.
(* AGREE gen_bezier2polynomial_6 *)
Lemma agree_bezier2polynomial_6 p0 p1 p2 p3 p4 p5 : gen_bezier2polynomial_6 N p0 p1 p2 p3 p4 p5 = bezier2polynomial N [p0; p1; p2; p3; p4; p5].
Proof. field_lin N OK. Qed.
(* AGREE gen_bezier2polynomial_asc_6 *)
Lemma agree_bezier2polynomial_asc_6 p0 p1 p2 p3 p4 p5 : gen_bezier2polynomial_asc_6 N p0 p1 p2 p3 p4 p5 = rev (bezier2polynomial N [p0; p1; p2; p3; p4; p5]).
Proof. field_lin N OK. Qed.
(* AGREE gen_split_bezier_6 *)
Lemma agree_split_bezier_6 p0 p1 p2 p3 p4 p5 t : gen_split_bezier_6 N p0 p1 p2 p3 p4 p5 t = split_bezier N [p0; p1; p2; p3; p4; p5] t.
Proof. ring_lin N OK. Qed.
(* AGREE gen_halve_bezier_6 *)
Lemma agree_halve_bezier_6 p0 p1 p2 p3 p4 p5 : gen_halve_bezier_6 N p0 p1 p2 p3 p4 p5 = halve_bezier N [p0; p1; p2; p3; p4; p5].
Proof. field_lin N OK. Qed.
(* AGREE gen_bezier_point_real_6 *)
Lemma agree_bezier_point_real_6 (x0 : K) (x1 : K) (x2 : K) (x3 : K) (x4 : K) (x5 : K) t : gen_bezier_point_real_6 N x0 x1 x2 x3 x4 x5 t = fst (bezier_point N [(x0, zero N); (x1, zero N); (x2, zero N); (x3, zero N); (x4, zero N); (x5, zero N)] t).
Proof. ring_lin N OK. Qed.
(* AGREE gen_bezier_point_7 *)
Lemma agree_bezier_point_7 p0 p1 p2 p3 p4 p5 p6 t : gen_bezier_point_7 N p0 p1 p2 p3 p4 p5 p6 t = bezier_point N [p0; p1; p2; p3; p4; p5; p6] t.
Proof. ring_lin N OK. Qed.
(* AGREE gen_bezier2polynomial_7 *)
Lemma agree_bezier2polynomial_7 p0 p1 p2 p3 p4 p5 p6 : gen_bezier2polynomial_7 N p0 p1 p2 p3 p4 p5 p6 = bezier2polynomial N [p0; p1; p2; p3; p4; p5; p6].
Proof. field_lin N OK. Qed.
(* AGREE gen_bezier2polynomial_asc_7 *)
Lemma agree_bezier2polynomial_asc_7 p0 p1 p2 p3 p4 p5 p6 : gen_bezier2polynomial_asc_7 N p0 p1 p2 p3 p4 p5 p6 = rev (bezier2polynomial N [p0; p1; p2; p3; p4; p5; p6]).
Proof. field_lin N OK. Qed.
(* AGREE gen_split_bezier_7 *)
Lemma agree_split_bezier_7 p0 p1 p2 p3 p4 p5 p6 t : gen_split_bezier_7 N p0 p1 p2 p3 p4 p5 p6 t = split_bezier N [p0; p1; p2; p3; p4; p5; p6] t.
Proof. ring_lin N OK. Qed.
(* AGREE gen_halve_bezier_7 *)
Lemma agree_halve_bezier_7 p0 p1 p2 p3 p4 p5 p6 : gen_halve_bezier_7 N p0 p1 p2 p3 p4 p5 p6 = halve_bezier N [p0; p1; p2; p3; p4; p5; p6].
Proof. field_lin N OK. Qed.
(* AGREE gen_bezier_point_real_7 *)
Lemma agree_bezier_point_real_7 (x0 : K) (x1 : K) (x2 : K) (x3 : K) (x4 : K) (x5 : K) (x6 : K) t : gen_bezier_point_real_7 N x0 x1 x2 x3 x4 x5 x6 t = fst (bezier_point N [(x0, zero N); (x1, zero N); (x2, zero N); (x3, zero N); (x4, zero N); (x5, zero N); (x6, zero N)] t).
Proof. ring_lin N OK. Qed.
(* AGREE gen_bezier_point_8 *)
Lemma agree_bezier_point_8 p0 p1 p2 p3 p4 p5 p6 p7 t : gen_bezier_point_8 N p0 p1 p2 p3 p4 p5 p6 p7 t = bezier_point N [p0; p1; p2; p3; p4; p5; p6; p7] t.
Proof. ring_lin N OK. Qed.
(* AGREE gen_bezier2polynomial_8 *)
Lemma agree_bezier2polynomial_8 p0 p1 p2 p3 p4 p5 p6 p7 : gen_bezier2polynomial_8 N p0 p1 p2 p3 p4 p5 p6 p7 = bezier2polynomial N [p0; p1; p2; p3; p4; p5; p6; p7].
Proof. field_lin N OK. Qed.
(* AGREE gen_bezier2polynomial_asc_8 *)
Lemma agree_bezier2polynomial_asc_8 p0 p1 p2 p3 p4 p5 p6 p7 : gen_bezier2polynomial_asc_8 N p0 p1 p2 p3 p4 p5 p6 p7 = rev (bezier2polynomial N [p0; p1; p2; p3; p4; p5; p6; p7]).
Proof. field_lin N OK. Qed.
(* AGREE gen_split_bezier_8 *)
Lemma agree_split_bezier_8 p0 p1 p2 p3 p4 p5 p6 p7 t : gen_split_bezier_8 N p0 p1 p2 p3 p4 p5 p6 p7 t = split_bezier N [p0; p1; p2; p3; p4; p5; p6; p7] t.
Proof. ring_lin N OK. Qed.
(* AGREE gen_halve_bezier_8 *)
Lemma agree_halve_bezier_8 p0 p1 p2 p3 p4 p5 p6 p7 : gen_halve_bezier_8 N p0 p1 p2 p3 p4 p5 p6 p7 = halve_bezier N [p0; p1; p2; p3; p4; p5; p6; p7].
Proof. field_lin N OK. Qed.
(* AGREE gen_bezier_point_real_8 *)
Lemma agree_bezier_point_real_8 (x0 : K) (x1 : K) (x2 : K) (x3 : K) (x4 : K) (x5 : K) (x6 : K) (x7 : K) t : gen_bezier_point_real_8 N x0 x1 x2 x3 x4 x5 x6 x7 t = fst (bezier_point N [(x0, zero N); (x1, zero N); (x2, zero N); (x3, zero N); (x4, zero N); (x5, zero N); (x6, zero N); (x7, zero N)] t).
Proof. ring_lin N OK. Qed.
(* AGREE gen_bezier_point_9 *)
Lemma agree_bezier_point_9 p0 p1 p2 p3 p4 p5 p6 p7 p8 t : gen_bezier_point_9 N p0 p1 p2 p3 p4 p5 p6 p7 p8 t = bezier_point N [p0; p1; p2; p3; p4; p5; p6; p7; p8] t.
Proof. ring_lin N OK. Qed.
(* AGREE gen_bezier2polynomial_9 *)
Lemma agree_bezier2polynomial_9 p0 p1 p2 p3 p4 p5 p6 p7 p8 : gen_bezier2polynomial_9 N p0 p1 p2 p3 p4 p5 p6 p7 p8 = bezier2polynomial N [p0; p1; p2; p3; p4; p5; p6; p7; p8].
Proof. field_lin N OK. Qed.
(* AGREE gen_bezier2polynomial_asc_9 *)
Lemma agree_bezier2polynomial_asc_9 p0 p1 p2 p3 p4 p5 p6 p7 p8 : gen_bezier2polynomial_asc_9 N p0 p1 p2 p3 p4 p5 p6 p7 p8 = rev (bezier2polynomial N [p0; p1; p2; p3; p4; p5; p6; p7; p8]).
Proof. field_lin N OK. Qed.
(* AGREE gen_split_bezier_9 *)
Lemma agree_split_bezier_9 p0 p1 p2 p3 p4 p5 p6 p7 p8 t : gen_split_bezier_9 N p0 p1 p2 p3 p4 p5 p6 p7 p8 t = split_bezier N [p0; p1; p2; p3; p4; p5; p6; p7; p8] t.
Proof. ring_lin N OK. Qed.
(* AGREE gen_halve_bezier_9 *)
Lemma agree_halve_bezier_9 p0 p1 p2 p3 p4 p5 p6 p7 p8 : gen_halve_bezier_9 N p0 p1 p2 p3 p4 p5 p6 p7 p8 = halve_bezier N [p0; p1; p2; p3; p4; p5; p6; p7; p8].
Proof. field_lin N OK. Qed.
(* AGREE gen_bezier_point_real_9 *)
Lemma agree_bezier_point_real_9 (x0 : K) (x1 : K) (x2 : K) (x3 : K) (x4 : K) (x5 : K) (x6 : K) (x7 : K) (x8 : K) t : gen_bezier_point_real_9 N x0 x1 x2 x3 x4 x5 x6 x7 x8 t = fst (bezier_point N [(x0, zero N); (x1, zero N); (x2, zero N); (x3, zero N); (x4, zero N); (x5, zero N); (x6, zero N); (x7, zero N); (x8, zero N)] t).
Proof. ring_lin N OK. Qed.
(* AGREE gen_polynomial2bezier_2 *)
Lemma agree_polynomial2bezier_2 a0 a1 : gen_polynomial2bezier_2 N a0 a1 = poly2bez N [a0; a1].
Proof. field_lin N OK. Qed.
(* AGREE gen_polynomial2bezier_3 *)
Lemma agree_polynomial2bezier_3 a0 a1 a2 : gen_polynomial2bezier_3 N a0 a1 a2 = poly2bez N [a0; a1; a2].
Proof. field_lin N OK. Qed.
(* AGREE gen_polynomial2bezier_4 *)
Lemma agree_polynomial2bezier_4 a0 a1 a2 a3 : gen_polynomial2bezier_4 N a0 a1 a2 a3 = poly2bez N [a0; a1; a2; a3].
Proof. field_lin N OK. Qed.
(* AGREE gen_box_area *)
Lemma agree_box_area (a b c d : K) : gen_box_area N a b c d = mul N (sub N b a) (sub N d c).
Proof. ring_lin N OK. Qed.
(* FOOTER *)
End A.
