(* GenAgree/BezierSeg.v — the definitions generated from /repo's current
   path.py agree with the hand-written models of Model/Bezier.v.
   Recompiled on every check run, lemma by lemma (split on the AGREE markers). *)
From Coq Require Import ZArith List Bool Field.
From SVP Require Import Base.Num Base.Cplx Base.Poly Base.FieldTac Base.Agree Model.Bezier.
From SVP Require Import Gen.GenBezierSeg.
Import ListNotations.
Section A.
Context {K : Type} (N : Num K) (OK : NumFieldOK N).
Add Field KF : (Fth OK).
(* HEADER END *)

(* AGREE gen_Line_point *)
Lemma agree_Line_point s e t : gen_Line_point N s e t = line_point N s e t.
Proof. agree_ring. Qed.
(* AGREE gen_Quad_point *)
Lemma agree_Quad_point s c e t : gen_Quad_point N s c e t = quad_point N s c e t.
Proof. agree_ring. Qed.
(* AGREE gen_Cubic_point *)
Lemma agree_Cubic_point s c1 c2 e t : gen_Cubic_point N s c1 c2 e t = cubic_point N s c1 c2 e t.
Proof. agree_ring. Qed.
(* AGREE gen_Line_poly *)
Lemma agree_Line_poly s e : gen_Line_poly N s e = line_poly N s e.
Proof. agree_ring. Qed.
(* AGREE gen_Quad_poly *)
Lemma agree_Quad_poly s c e : gen_Quad_poly N s c e = quad_poly N s c e.
Proof. agree_ring. Qed.
(* AGREE gen_Cubic_poly *)
Lemma agree_Cubic_poly s c1 c2 e : gen_Cubic_poly N s c1 c2 e = cubic_poly N s c1 c2 e.
Proof. agree_ring. Qed.
(* AGREE gen_Line_derivative *)
Lemma agree_Line_derivative s e t n : gen_Line_derivative N s e t n = line_deriv N s e t n.
Proof. agree_ring. Qed.
(* AGREE gen_Quad_derivative *)
Lemma agree_Quad_derivative s c e t n : gen_Quad_derivative N s c e t n = quad_deriv N s c e t n.
Proof. agree_ring. Qed.
(* AGREE gen_Cubic_derivative *)
Lemma agree_Cubic_derivative s c1 c2 e t n :
  gen_Cubic_derivative N s c1 c2 e t n = cubic_deriv N s c1 c2 e t n.
Proof. agree_ring. Qed.
(* AGREE gen_Line_bpoints *)
Lemma agree_Line_bpoints (s e : Cplx K) : gen_Line_bpoints N s e = [s; e].
Proof. agree_ring. Qed.
(* AGREE gen_Quad_bpoints *)
Lemma agree_Quad_bpoints (s c e : Cplx K) : gen_Quad_bpoints N s c e = [s; c; e].
Proof. agree_ring. Qed.
(* AGREE gen_Cubic_bpoints *)
Lemma agree_Cubic_bpoints (s c1 c2 e : Cplx K) : gen_Cubic_bpoints N s c1 c2 e = [s; c1; c2; e].
Proof. agree_ring. Qed.
(* FOOTER *)
End A.
