(* GenAgree/ArcVariant.v — Arc.derivative at n = 4, 8 against EACH of the two
   modelled variants.  The harness (tools/harness/c04.py) detects behaviourally
   which variant the implementation runs and compiles only the lemmas of that
   variant (markers ..._pinned / ..._fixed): they fail if the source is not the
   variant that was detected. *)
From Coq Require Import ZArith List Bool Field.
From SVP Require Import Base.Num Base.TLaws Base.Cplx Base.Poly Base.FieldTac Base.Agree Model.Arc.
From SVP Require Import Gen.GenArc.
Import ListNotations.
Section A.
Context {K : Type} (N : Num K) (T : NumT K) (OK : NumFieldOK N) (L : NumTLaws N T).
Add Field KF : (Fth OK).
(* radians(x) and x*pi/180 (degrees(x) and x*180/pi) are identified by the laws L
   (Base/TLaws.v; they hold at the real instance): a lemma that needs them depends
   on L, one that does not stays unconditional. *)
Ltac agree_arc_norm :=
  cbv -[add sub mul div opp inv zero one eqb ltb leb
        sqrt_ cos_ sin_ tan_ acos_ asin_ atan_ ln_ pi_ hypot_ radians_ degrees_].
Ltac agree_arc_plain :=
  intros; destruct_cplx_vars; agree_arc_norm;
  split_struct; try reflexivity; try ring.
Ltac agree_arc_laws :=
  intros; destruct_cplx_vars; agree_arc_norm;
  rewrite ?(radians_law L), ?(degrees_law L); agree_arc_norm;
  split_struct; try reflexivity; try ring.
Ltac agree_arc := first [ solve [agree_arc_plain] | agree_arc_laws ].
(* HEADER END *)

(* AGREE gen_Arc_derivative_4_pinned *)
Lemma agree_Arc_derivative_4_pinned (start radius : Cplx K) (rotation : K) (large sweep : bool) (end_ center : Cplx K) (theta delta phi : K) (rot : Cplx K) t :
  gen_Arc_derivative_4 N T start radius rotation large sweep end_ center theta delta phi rot t = arc_deriv N T false (mkArcP start radius rotation large sweep end_ center theta delta phi rot) t 4.
Proof. solve [agree_arc]. Qed.
(* AGREE gen_Arc_derivative_4_fixed *)
Lemma agree_Arc_derivative_4_fixed (start radius : Cplx K) (rotation : K) (large sweep : bool) (end_ center : Cplx K) (theta delta phi : K) (rot : Cplx K) t :
  gen_Arc_derivative_4 N T start radius rotation large sweep end_ center theta delta phi rot t = arc_deriv N T true (mkArcP start radius rotation large sweep end_ center theta delta phi rot) t 4.
Proof. solve [agree_arc]. Qed.
(* AGREE gen_Arc_derivative_8_pinned *)
Lemma agree_Arc_derivative_8_pinned (start radius : Cplx K) (rotation : K) (large sweep : bool) (end_ center : Cplx K) (theta delta phi : K) (rot : Cplx K) t :
  gen_Arc_derivative_8 N T start radius rotation large sweep end_ center theta delta phi rot t = arc_deriv N T false (mkArcP start radius rotation large sweep end_ center theta delta phi rot) t 8.
Proof. solve [agree_arc]. Qed.
(* AGREE gen_Arc_derivative_8_fixed *)
Lemma agree_Arc_derivative_8_fixed (start radius : Cplx K) (rotation : K) (large sweep : bool) (end_ center : Cplx K) (theta delta phi : K) (rot : Cplx K) t :
  gen_Arc_derivative_8 N T start radius rotation large sweep end_ center theta delta phi rot t = arc_deriv N T true (mkArcP start radius rotation large sweep end_ center theta delta phi rot) t 8.
Proof. solve [agree_arc]. Qed.
(* FOOTER *)
End A.
