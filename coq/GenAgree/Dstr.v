(* GenAgree/Dstr.v — the definitions generated from /repo's current
   CubicBezier.is_smooth_from / QuadraticBezier.is_smooth_from (path.py) agree
   with the hand-written model Model/Dstr.v (cubic_smooth, quad_smooth), by
   conversion.  The same-class test exists in two variants of the model
   (sfix = false: the pinned code; sfix = true: the repaired test, the parser's
   own expression): the lemma holds when the source is one of the two, and the
   harness (tools/harness/c01.py) establishes which by a probe.
   Recompiled on every check run, lemma by lemma (split on the AGREE markers).
   QuadraticBezier.is_smooth_from with a QuadraticBezier `previous` cannot be
   declared to the translator (parameter-name collision, see
   tools/py2v_tables/c01.py): correspondence only. *)
From Coq Require Import ZArith List Bool.
From SVP Require Import Base.Num Base.Cplx Model.Parse Model.Dstr.
From SVP Require Import Gen.GenDstr.
Import ListNotations.
Section A.
Context {K : Type} (N : Num K).
(* HEADER END *)

(* AGREE gen_cubic_smooth_from_cubic *)
Lemma agree_cubic_smooth_from_cubic :
  (forall s c1 pc2 pe ps pc1,
     gen_cubic_smooth_from_cubic N s c1 pc2 pe = cubic_smooth N false (Some (Cubic ps pc1 pc2 pe)) s c1)
  \/ (forall s c1 pc2 pe ps pc1,
     gen_cubic_smooth_from_cubic N s c1 pc2 pe = cubic_smooth N true (Some (Cubic ps pc1 pc2 pe)) s c1).
Proof. first [left; intros; reflexivity | right; intros; reflexivity]. Qed.
(* AGREE gen_cubic_smooth_from_quad *)
Lemma agree_cubic_smooth_from_quad sfix s c1 ps pc pe :
  gen_cubic_smooth_from_quad N s c1 = cubic_smooth N sfix (Some (Quad ps pc pe)) s c1.
Proof. reflexivity. Qed.
(* AGREE gen_cubic_smooth_from_line *)
Lemma agree_cubic_smooth_from_line sfix s c1 ps pe :
  gen_cubic_smooth_from_line N s c1 = cubic_smooth N sfix (Some (Line ps pe)) s c1.
Proof. reflexivity. Qed.
(* AGREE gen_cubic_smooth_from_arc *)
Lemma agree_cubic_smooth_from_arc sfix s c1 ps r rot la sw pe :
  gen_cubic_smooth_from_arc N s c1 = cubic_smooth N sfix (Some (Arc ps r rot la sw pe)) s c1.
Proof. reflexivity. Qed.
(* AGREE gen_cubic_smooth_from_none *)
Lemma agree_cubic_smooth_from_none sfix s c1 :
  gen_cubic_smooth_from_none N s c1 = cubic_smooth N sfix None s c1.
Proof. reflexivity. Qed.
(* AGREE gen_quad_smooth_from_cubic *)
Lemma agree_quad_smooth_from_cubic sfix s c ps pc1 pc2 pe :
  gen_quad_smooth_from_cubic N s c = quad_smooth N sfix (Some (Cubic ps pc1 pc2 pe)) s c.
Proof. reflexivity. Qed.
(* AGREE gen_quad_smooth_from_line *)
Lemma agree_quad_smooth_from_line sfix s c ps pe :
  gen_quad_smooth_from_line N s c = quad_smooth N sfix (Some (Line ps pe)) s c.
Proof. reflexivity. Qed.
(* AGREE gen_quad_smooth_from_arc *)
Lemma agree_quad_smooth_from_arc sfix s c ps r rot la sw pe :
  gen_quad_smooth_from_arc N s c = quad_smooth N sfix (Some (Arc ps r rot la sw pe)) s c.
Proof. reflexivity. Qed.
(* AGREE gen_quad_smooth_from_none *)
Lemma agree_quad_smooth_from_none sfix s c :
  gen_quad_smooth_from_none N s c = quad_smooth N sfix None s c.
Proof. reflexivity. Qed.
(* FOOTER *)
End A.
