(* GenAgree/ArcParam.v — Arc._parameterize, translated from /repo's current path.py on every run,
   IS the model's constructor (Model/Arc.v: arc_scaled_radius, arc_radical with the pinned
   np.isclose snap, arc_cp, arc_center, arc_theta, arc_delta0/arc_adjust), for every field of
   characteristic 0, every transcendental record, every input.
   How: the translator emits the whole function (gen_Arc_parameterize: a straight-line chain of
   lets whose conditionals are VALUES) and the same function cut into six slices at its comment
   blocks (gen_Arc_param_A..F, the live variables at each cut being parameters).
     1. whole_is_composed: the whole function is the composition of the slices — by conversion
        (reflexivity), so the cutting is checked by the kernel, not trusted;
     2. one agreement lemma per slice against the corresponding piece of the model;
     3. agree_Arc_parameterize: 1 and 2 chained.
   Slice F needs the three order facts of Base/TLaws.v (NumOrdFacts: 0 <= 0, 0 <= 180,
   not 180 <= 0 — Python decides them statically on ints, the model states them with the
   carrier's comparison); they hold at the real instance (NumR_ordfacts). *)
From Coq Require Import ZArith List Bool Field.
From SVP Require Import Base.Num Base.TLaws Base.Cplx Base.Poly Base.FieldTac Base.Agree Model.Arc.
From SVP Require Import Gen.GenArc.
Import ListNotations.
Section A.
Context {K : Type} (N : Num K) (T : NumT K) (OK : NumFieldOK N) (L : NumTLaws N T) (O : NumOrdFacts N).
Add Field KF : (Fth OK).
Ltac pnorm :=
  cbv -[dyadic add sub mul div opp inv zero one eqb ltb leb nmin nmax nabs Bool.eqb negb andb orb
        sqrt_ cos_ sin_ tan_ acos_ asin_ atan_ ln_ pi_ hypot_ radians_ degrees_].
Ltac pnorm_in H :=
  cbv -[dyadic add sub mul div opp inv zero one eqb ltb leb nmin nmax nabs Bool.eqb negb andb orb
        sqrt_ cos_ sin_ tan_ acos_ asin_ atan_ ln_ pi_ hypot_ radians_ degrees_] in H.
Ltac uni1 f :=
  match goal with
  | |- context [f ?x] =>
      match goal with
      | |- context [f ?y] =>
          tryif constr_eq x y then fail else (replace y with x by ring)
      end
  end.
Ltac uni2 f :=
  match goal with
  | |- context [f ?a ?b] =>
      match goal with
      | |- context [f ?c ?d] =>
          first [ tryif constr_eq a c then fail else (replace c with a by ring)
                | tryif constr_eq b d then fail else (replace d with b by ring) ]
      end
  end.
Ltac uni :=
  repeat first [ uni1 (inv N) | uni1 (sqrt_ T) | uni1 (acos_ T) | uni1 (degrees_ T) | uni1 (cos_ T) | uni1 (sin_ T)
               | uni1 (nabs N) | uni2 (nmax N) | uni2 (nmin N)
               | uni2 (ltb N) | uni2 (leb N) | uni2 (eqb N) ].
Ltac inner_if :=
  match goal with
  | |- context [if ?c then _ else _] =>
      lazymatch c with
      | context [if _ then _ else _] => fail
      | _ => destruct c eqn:?
      end
  end.
Ltac red_if := cbv beta iota; cbn [negb andb orb Bool.eqb].
Ltac finish := split_struct; try reflexivity; ring.
Ltac slice_cheap := repeat (inner_if; red_if); finish.
Ltac slice_uni := uni; repeat (inner_if; red_if; uni); finish.
Ltac slice := intros; destruct_cplx_vars; pnorm; rewrite ?(Fdiv_def (Fth OK));
              first [ solve [slice_cheap] | solve [slice_uni] ].

(* HEADER END *)

(* AGREE gen_Arc_parameterize needs: gen_Arc_param_A gen_Arc_param_B gen_Arc_param_C gen_Arc_param_D gen_Arc_param_E gen_Arc_param_F *)
(* A: zp1 and radius_check *)
Lemma agree_Arc_param_A start r rotation large sweep end_ c0 th0 de0 phi rotm :
  gen_Arc_param_A N start r rotation large sweep end_ c0 th0 de0 phi rotm
  = (re (arc_zp1 N rotm start end_), im (arc_zp1 N rotm start end_), arc_rc N r (arc_zp1 N rotm start end_)).
Proof. slice. Qed.

(* B: radii enlarged when radius_check > 1 *)
Lemma agree_Arc_param_B start r rotation large sweep end_ c0 th0 de0 phi rotm rc :
  gen_Arc_param_B N T start r rotation large sweep end_ c0 th0 de0 phi rotm
                  (re r) (im r) (mul N (re r) (re r)) (mul N (im r) (im r)) rc
  = let r' := arc_scaled_radius N T r rc in
    Some (re r', im r', r', mul N (re r') (re r'), mul N (im r') (im r')).
Proof. slice. Qed.

(* C: radicand, radical (pinned np.isclose snap), cp and centre *)
Lemma agree_Arc_param_C start r0 rotation large sweep end_ c0 th0 de0 phi rotm0 (r' zp1 : Cplx K) scaled :
  gen_Arc_param_C N T start r0 rotation large sweep end_ c0 th0 de0 phi rotm0
                  (re r') (im r') (mul N (re r') (re r')) (mul N (im r') (im r'))
                  (re zp1) (im zp1) (mul N (re zp1) (re zp1)) (mul N (im zp1) (im zp1))
  = let cp := arc_cp N large sweep (arc_radical N T false scaled (arc_radicand N r' zp1)) r' zp1 in
    (cp, arc_center N (arc_rotm T phi) cp start end_).
Proof. slice. Qed.

(* D: the clipped unit-circle images of start and end *)
Lemma agree_Arc_param_D (r' zp1 cp : Cplx K) :
  gen_Arc_param_D N (re r') (im r') (re zp1) (im zp1) cp
  = (cclip N (arc_u1_raw N r' zp1 cp), cclip N (arc_u2_raw N r' zp1 cp)).
Proof. slice. Qed.

(* E: theta *)
Lemma agree_Arc_param_E start r rotation large sweep end_ c0 th0 de0 phi rotm u1 :
  gen_Arc_param_E N T start r rotation large sweep end_ c0 th0 de0 phi rotm u1 = arc_theta N T u1.
Proof. slice. Qed.

(* F: delta with the sweep / large_arc adjustment *)
Lemma agree_Arc_param_F start r rotation large sweep end_ c0 th0 de0 phi rotm u1 u2 :
  gen_Arc_param_F N T start r rotation large sweep end_ c0 th0 de0 phi rotm u1 u2
  = arc_adjust N large sweep (arc_delta0 N T u1 u2).
Proof.
  intros. pose proof (leb_0_0 O) as H1. pose proof (leb_0_180 O) as H2. pose proof (leb_180_0 O) as H3.
  destruct large, sweep; destruct_cplx_vars; pnorm; pnorm_in H1; pnorm_in H2; pnorm_in H3;
  (repeat (inner_if; red_if; rewrite ?H1, ?H2, ?H3; red_if); finish).
Qed.
Definition param_composed (start r : Cplx K) (rotation : K) (large sweep : bool) (end_ c0 : Cplx K)
           (th0 de0 phi : K) (rotm : Cplx K) : option (Cplx K * Cplx K * K * K) :=
  let '(x1p, y1p, rc) := gen_Arc_param_A N start r rotation large sweep end_ c0 th0 de0 phi rotm in
  match gen_Arc_param_B N T start r rotation large sweep end_ c0 th0 de0 phi rotm
                        (fst r) (snd r) (mul N (fst r) (fst r)) (mul N (snd r) (snd r)) rc with
  | Some (rx, ry, rad, rxs, rys) =>
      let '(cp, center) := gen_Arc_param_C N T start r rotation large sweep end_ c0 th0 de0 phi rotm
                              rx ry rxs rys x1p y1p (mul N x1p x1p) (mul N y1p y1p) in
      let '(u1, u2) := gen_Arc_param_D N rx ry x1p y1p cp in
      Some (rad, center,
            gen_Arc_param_E N T start r rotation large sweep end_ c0 th0 de0 phi rotm u1,
            gen_Arc_param_F N T start r rotation large sweep end_ c0 th0 de0 phi rotm u1 u2)
  | None => None
  end.

Lemma whole_is_composed start r rotation large sweep end_ c0 th0 de0 phi rotm :
  gen_Arc_parameterize N T start r rotation large sweep end_ c0 th0 de0 phi rotm
  = param_composed start r rotation large sweep end_ c0 th0 de0 phi rotm.
Proof. destruct r. reflexivity. Qed.

(* the whole function = the model's constructor: radius (possibly enlarged), centre, theta, delta *)
Lemma agree_Arc_parameterize start r rotation large sweep end_ c0 th0 de0 phi :
  let rotm := arc_rotm T phi in
  let zp1 := arc_zp1 N rotm start end_ in
  let rc := arc_rc N r zp1 in
  let r' := arc_scaled_radius N T r rc in
  let radical := arc_radical N T false (ltb N (one N) rc) (arc_radicand N r' zp1) in
  let cp := arc_cp N large sweep radical r' zp1 in
  let u1 := cclip N (arc_u1_raw N r' zp1 cp) in
  let u2 := cclip N (arc_u2_raw N r' zp1 cp) in
  gen_Arc_parameterize N T start r rotation large sweep end_ c0 th0 de0 phi rotm
  = Some (r', arc_center N rotm cp start end_, arc_theta N T u1,
          arc_adjust N large sweep (arc_delta0 N T u1 u2)).
Proof.
  intros. rewrite whole_is_composed. unfold param_composed.
  rewrite agree_Arc_param_A. cbv beta iota.
  change (fst r) with (re r). change (snd r) with (im r).
  rewrite agree_Arc_param_B. cbv beta iota zeta.
  fold zp1. fold rc. fold r'.
  rewrite (agree_Arc_param_C start r rotation large sweep end_ c0 th0 de0 phi rotm r' zp1 (ltb N (one N) rc)).
  cbv beta iota zeta. fold radical. fold cp.
  rewrite agree_Arc_param_D. cbv beta iota. fold u1. fold u2.
  rewrite agree_Arc_param_E, agree_Arc_param_F. reflexivity.
Qed.
(* FOOTER *)
End A.
