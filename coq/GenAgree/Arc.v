(* GenAgree/Arc.v — the definitions generated from /repo's current path.py
   (Arc.point, Arc.derivative at n = 1..8, centeriso, icenteriso, u1transform)
   agree with the hand-written model Model/Arc.v.  Recompiled on every check
   run, lemma by lemma (split on the AGREE markers).
   derivative at n = 4, 8: the code must be ONE of the two modelled variants
   (pinned: no factor k; repaired: factor k) — which one is pinned down by
   GenAgree/ArcVariant.v against the variant the harness detected.
   Arc._parameterize (assigns to attributes of self) and Arc.derivative with a
   symbolic n (power with exponent n) are outside the translator's subset:
   correspondence only. *)
From Coq Require Import ZArith List Bool Field.
From SVP Require Import Base.Num Base.TLaws Base.Cplx Base.Poly Base.FieldTac Base.Agree Model.Arc.
From SVP Require Import Gen.GenArc.
Import ListNotations.
Section A.
Context {K : Type} (N : Num K) (T : NumT K) (OK : NumFieldOK N) (L : NumTLaws N T).
Add Field KF : (Fth OK).
(* radians(x) and x*pi/180 (degrees(x) and x*180/pi) are identified by the laws L
   (Base/TLaws.v; they hold at the real instance): a lemma that needs them depends
   on L, one that does not stays unconditional. *)
Ltac agree_arc_norm :=
  cbv -[add sub mul div opp inv zero one eqb ltb leb
        sqrt_ cos_ sin_ tan_ acos_ asin_ atan_ ln_ pi_ hypot_ radians_ degrees_].
Ltac agree_arc_plain :=
  intros; destruct_cplx_vars; agree_arc_norm;
  split_struct; try reflexivity; try ring.
Ltac agree_arc_laws :=
  intros; destruct_cplx_vars; agree_arc_norm;
  rewrite ?(radians_law L), ?(degrees_law L); agree_arc_norm;
  split_struct; try reflexivity; try ring.
Ltac agree_arc := first [ solve [agree_arc_plain] | agree_arc_laws ].
(* HEADER END *)


(* AGREE gen_Arc_point *)
Lemma agree_Arc_point (start radius : Cplx K) (rotation : K) (large sweep : bool) (end_ center : Cplx K) (theta delta phi : K) (rot : Cplx K) t :
  gen_Arc_point N T start radius rotation large sweep end_ center theta delta phi rot t = arc_point N T (mkArcP start radius rotation large sweep end_ center theta delta phi rot) t.
Proof. agree_arc. Qed.
(* AGREE gen_Arc_derivative_1 *)
Lemma agree_Arc_derivative_1 dfx (start radius : Cplx K) (rotation : K) (large sweep : bool) (end_ center : Cplx K) (theta delta phi : K) (rot : Cplx K) t :
  gen_Arc_derivative_1 N T start radius rotation large sweep end_ center theta delta phi rot t = arc_deriv N T dfx (mkArcP start radius rotation large sweep end_ center theta delta phi rot) t 1.
Proof. agree_arc. Qed.
(* AGREE gen_Arc_derivative_2 *)
Lemma agree_Arc_derivative_2 dfx (start radius : Cplx K) (rotation : K) (large sweep : bool) (end_ center : Cplx K) (theta delta phi : K) (rot : Cplx K) t :
  gen_Arc_derivative_2 N T start radius rotation large sweep end_ center theta delta phi rot t = arc_deriv N T dfx (mkArcP start radius rotation large sweep end_ center theta delta phi rot) t 2.
Proof. agree_arc. Qed.
(* AGREE gen_Arc_derivative_3 *)
Lemma agree_Arc_derivative_3 dfx (start radius : Cplx K) (rotation : K) (large sweep : bool) (end_ center : Cplx K) (theta delta phi : K) (rot : Cplx K) t :
  gen_Arc_derivative_3 N T start radius rotation large sweep end_ center theta delta phi rot t = arc_deriv N T dfx (mkArcP start radius rotation large sweep end_ center theta delta phi rot) t 3.
Proof. agree_arc. Qed.
(* AGREE gen_Arc_derivative_5 *)
Lemma agree_Arc_derivative_5 dfx (start radius : Cplx K) (rotation : K) (large sweep : bool) (end_ center : Cplx K) (theta delta phi : K) (rot : Cplx K) t :
  gen_Arc_derivative_5 N T start radius rotation large sweep end_ center theta delta phi rot t = arc_deriv N T dfx (mkArcP start radius rotation large sweep end_ center theta delta phi rot) t 5.
Proof. agree_arc. Qed.
(* AGREE gen_Arc_derivative_6 *)
Lemma agree_Arc_derivative_6 dfx (start radius : Cplx K) (rotation : K) (large sweep : bool) (end_ center : Cplx K) (theta delta phi : K) (rot : Cplx K) t :
  gen_Arc_derivative_6 N T start radius rotation large sweep end_ center theta delta phi rot t = arc_deriv N T dfx (mkArcP start radius rotation large sweep end_ center theta delta phi rot) t 6.
Proof. agree_arc. Qed.
(* AGREE gen_Arc_derivative_7 *)
Lemma agree_Arc_derivative_7 dfx (start radius : Cplx K) (rotation : K) (large sweep : bool) (end_ center : Cplx K) (theta delta phi : K) (rot : Cplx K) t :
  gen_Arc_derivative_7 N T start radius rotation large sweep end_ center theta delta phi rot t = arc_deriv N T dfx (mkArcP start radius rotation large sweep end_ center theta delta phi rot) t 7.
Proof. agree_arc. Qed.
(* AGREE gen_Arc_derivative_4 *)
Lemma agree_Arc_derivative_4 :
  (forall (start radius : Cplx K) (rotation : K) (large sweep : bool) (end_ center : Cplx K) (theta delta phi : K) (rot : Cplx K) t, gen_Arc_derivative_4 N T start radius rotation large sweep end_ center theta delta phi rot t = arc_deriv N T false (mkArcP start radius rotation large sweep end_ center theta delta phi rot) t 4) \/
  (forall (start radius : Cplx K) (rotation : K) (large sweep : bool) (end_ center : Cplx K) (theta delta phi : K) (rot : Cplx K) t, gen_Arc_derivative_4 N T start radius rotation large sweep end_ center theta delta phi rot t = arc_deriv N T true (mkArcP start radius rotation large sweep end_ center theta delta phi rot) t 4).
Proof. first [ left; solve [agree_arc] | right; solve [agree_arc] ]. Qed.
(* AGREE gen_Arc_derivative_8 *)
Lemma agree_Arc_derivative_8 :
  (forall (start radius : Cplx K) (rotation : K) (large sweep : bool) (end_ center : Cplx K) (theta delta phi : K) (rot : Cplx K) t, gen_Arc_derivative_8 N T start radius rotation large sweep end_ center theta delta phi rot t = arc_deriv N T false (mkArcP start radius rotation large sweep end_ center theta delta phi rot) t 8) \/
  (forall (start radius : Cplx K) (rotation : K) (large sweep : bool) (end_ center : Cplx K) (theta delta phi : K) (rot : Cplx K) t, gen_Arc_derivative_8 N T start radius rotation large sweep end_ center theta delta phi rot t = arc_deriv N T true (mkArcP start radius rotation large sweep end_ center theta delta phi rot) t 8).
Proof. first [ left; solve [agree_arc] | right; solve [agree_arc] ]. Qed.
(* AGREE gen_Arc_icenteriso *)
Lemma agree_Arc_icenteriso (start radius : Cplx K) (rotation : K) (large sweep : bool) (end_ center : Cplx K) (theta delta phi : K) (rot : Cplx K) zeta :
  gen_Arc_icenteriso N start radius rotation large sweep end_ center theta delta phi rot zeta = arc_icenteriso N (mkArcP start radius rotation large sweep end_ center theta delta phi rot) zeta.
Proof. agree_arc. Qed.
(* AGREE gen_Arc_centeriso *)
(* 1/rot_matrix: the code divides (CPython's quotient), the model uses the
   mathematical quotient; they agree in a field when |rot_matrix|^2 <> 0 *)
Lemma agree_Arc_centeriso (start radius : Cplx K) (rotation : K) (large sweep : bool) (end_ center : Cplx K) (theta delta phi : K) (rot : Cplx K) z :
  add N (mul N (fst rot) (fst rot)) (mul N (snd rot) (snd rot)) <> zero N ->
  gen_Arc_centeriso N start radius rotation large sweep end_ center theta delta phi rot z = arc_centeriso N (mkArcP start radius rotation large sweep end_ center theta delta phi rot) z.
Proof.
  intros Hn. destruct_cplx_vars.
  cbv -[add sub mul div opp inv zero one] in *.
  f_equal; field; exact Hn.
Qed.
(* AGREE gen_Arc_u1transform *)
Lemma agree_Arc_u1transform (start radius : Cplx K) (rotation : K) (large sweep : bool) (end_ center : Cplx K) (theta delta phi : K) (rot : Cplx K) z :
  add N (mul N (fst rot) (fst rot)) (mul N (snd rot) (snd rot)) <> zero N ->
  fst radius <> zero N -> snd radius <> zero N ->
  gen_Arc_u1transform N start radius rotation large sweep end_ center theta delta phi rot z = arc_u1transform N (mkArcP start radius rotation large sweep end_ center theta delta phi rot) z.
Proof.
  intros Hn Hx Hy. destruct_cplx_vars.
  cbv -[add sub mul div opp inv zero one] in *.
  f_equal; field; split; assumption.
Qed.
(* FOOTER *)
End A.
