(* GenAgree/Xform.v — the definitions generated from /repo's current path.py for
   C10 agree with the hand-written model Model/Xform.v.  Recompiled on every check
   run, lemma by lemma (split on the AGREE markers).

   translate / rotate / scale on Line, QuadraticBezier, CubicBezier objects: the
   generated definition returns the control points handed to the constructor; it
   equals the model kernel followed by bpoints2bezier (xopt: XOk q -> Some q).
   rotate: exp(1j*radians(degs)) is (cos_ T (radians_ T degs), sin_ T ...) =
   cs_of_degs T degs for an ARBITRARY transcendental record T.
   Arc branches: the generated definition returns the tuple of constructor
   arguments (start, radius, rotation, large_arc, sweep, end); feeding it to the
   model of the constructor (init_of = arc_init) gives the model kernel; the
   refusal of sy != sx is None on both sides.
   transform() is outside the translator's subset (numpy matrix code). *)
From Coq Require Import ZArith List Bool Field.
From SVP Require Import Base.Num Base.Cplx Base.Poly Base.FieldTac Base.Agree
     Model.Bezier Model.BezierN Model.Arc Model.Xform.
From SVP Require Import Gen.GenXform.
Import ListNotations.
Section A.
Context {K : Type} (N : Num K) (OK : NumFieldOK N) (T : NumT K).
Add Field KF : (Fth OK).
Definition xopt {A : Type} (r : xres A) : option A :=
  match r with XOk a => Some a | _ => None end.
Definition ctor_args : Type := (Cplx K * Cplx K * K * bool * bool * Cplx K)%type.
(* Arc(start, radius, rotation, large_arc, sweep, end) *)
Definition init_of (a : ctor_args) : ArcP K :=
  let '(s, r, rot, l, sw, e) := a in arc_init N T s r rot l sw e.
Ltac bez_agree :=
  intros; unfold xopt, scale_bezier, bpoints2bezier, bez_translate, bez_rotate, bez_default_origin,
                 bez_point, rotate_point, cs_of_degs, scale_c, add_last, bezier2polynomial, poly2bez, half;
  cbn [map]; agree_field OK.
Ltac arc_args :=
  repeat match goal with
  | |- arc_init _ _ _ _ _ _ _ _ = arc_init _ _ _ _ _ _ _ _ => f_equal
  | |- (_, _) = (_, _) => apply cplx_eq; cbn [fst snd]
  | |- (fst ?r, snd ?r) = ?r => destruct r; reflexivity
  | |- ?r = (fst ?r, snd ?r) => destruct r; reflexivity
  end; try reflexivity; try ring.
Ltac arc_agree :=
  cbv beta zeta;
  unfold xopt, xmap, arc_translate, arc_rotate, arc_scale, rotate_point, cs_of_degs;
  cbn [a_start a_radius a_rotation a_large a_sweep a_end a_center];
  try match goal with |- context [eqb N ?a ?b] => destruct (eqb N a b) end;
  cbn [option_map init_of]; try reflexivity;
  f_equal; cunfold; arc_args.
(* the header names no generated definition, so that one lost translation does not
   take the other lemmas down *)
(* HEADER END *)

(* AGREE gen_bez2poly_Line *)
Lemma agree_bez2poly_Line s e : gen_bez2poly_Line N s e = bezier2polynomial N [s; e].
Proof. agree_ring. Qed.
(* AGREE gen_translate_Line *)
Lemma agree_translate_Line s e z0 :
  gen_translate_Line N s e z0 = xopt (bpoints2bezier (bez_translate N z0 [s; e])).
Proof. bez_agree. Qed.
(* AGREE gen_rotate_Line *)
Lemma agree_rotate_Line s e degs o :
  gen_rotate_Line N T s e degs o = xopt (bpoints2bezier (bez_rotate N (cs_of_degs T degs) o [s; e])).
Proof. bez_agree. Qed.
(* AGREE gen_rotate_Line_default *)
Lemma agree_rotate_Line_default s e degs :
  gen_rotate_Line_default N T s e degs
  = xopt (bpoints2bezier (bez_rotate N (cs_of_degs T degs) (bez_default_origin N [s; e]) [s; e])).
Proof. bez_agree. Qed.
(* AGREE gen_scale_Line *)
Lemma agree_scale_Line s e sx sy o :
  gen_scale_Line N s e sx sy o = xopt (scale_bezier N sx (Some sy) o [s; e]).
Proof. bez_agree. Qed.
(* AGREE gen_scale_Line_uniform *)
Lemma agree_scale_Line_uniform s e sx o :
  gen_scale_Line_uniform N s e sx o = xopt (scale_bezier N sx None o [s; e]).
Proof. bez_agree. Qed.

(* AGREE gen_bez2poly_Quad *)
Lemma agree_bez2poly_Quad s c e : gen_bez2poly_Quad N s c e = bezier2polynomial N [s; c; e].
Proof. agree_ring. Qed.
(* AGREE gen_translate_Quad *)
Lemma agree_translate_Quad s c e z0 :
  gen_translate_Quad N s c e z0 = xopt (bpoints2bezier (bez_translate N z0 [s; c; e])).
Proof. bez_agree. Qed.
(* AGREE gen_rotate_Quad *)
Lemma agree_rotate_Quad s c e degs o :
  gen_rotate_Quad N T s c e degs o = xopt (bpoints2bezier (bez_rotate N (cs_of_degs T degs) o [s; c; e])).
Proof. bez_agree. Qed.
(* AGREE gen_rotate_Quad_default *)
Lemma agree_rotate_Quad_default s c e degs :
  gen_rotate_Quad_default N T s c e degs
  = xopt (bpoints2bezier (bez_rotate N (cs_of_degs T degs) (bez_default_origin N [s; c; e]) [s; c; e])).
Proof. bez_agree. Qed.
(* AGREE gen_scale_Quad *)
Lemma agree_scale_Quad s c e sx sy o :
  gen_scale_Quad N s c e sx sy o = xopt (scale_bezier N sx (Some sy) o [s; c; e]).
Proof. bez_agree. Qed.
(* AGREE gen_scale_Quad_uniform *)
Lemma agree_scale_Quad_uniform s c e sx o :
  gen_scale_Quad_uniform N s c e sx o = xopt (scale_bezier N sx None o [s; c; e]).
Proof. bez_agree. Qed.

(* AGREE gen_bez2poly_Cubic *)
Lemma agree_bez2poly_Cubic s c1 c2 e : gen_bez2poly_Cubic N s c1 c2 e = bezier2polynomial N [s; c1; c2; e].
Proof. agree_ring. Qed.
(* AGREE gen_translate_Cubic *)
Lemma agree_translate_Cubic s c1 c2 e z0 :
  gen_translate_Cubic N s c1 c2 e z0 = xopt (bpoints2bezier (bez_translate N z0 [s; c1; c2; e])).
Proof. bez_agree. Qed.
(* AGREE gen_rotate_Cubic *)
Lemma agree_rotate_Cubic s c1 c2 e degs o :
  gen_rotate_Cubic N T s c1 c2 e degs o = xopt (bpoints2bezier (bez_rotate N (cs_of_degs T degs) o [s; c1; c2; e])).
Proof. bez_agree. Qed.
(* AGREE gen_rotate_Cubic_default *)
Lemma agree_rotate_Cubic_default s c1 c2 e degs :
  gen_rotate_Cubic_default N T s c1 c2 e degs
  = xopt (bpoints2bezier (bez_rotate N (cs_of_degs T degs) (bez_default_origin N [s; c1; c2; e]) [s; c1; c2; e])).
Proof. bez_agree. Qed.
(* AGREE gen_scale_Cubic *)
Lemma agree_scale_Cubic s c1 c2 e sx sy o :
  gen_scale_Cubic N s c1 c2 e sx sy o = xopt (scale_bezier N sx (Some sy) o [s; c1; c2; e]).
Proof. bez_agree. Qed.
(* AGREE gen_scale_Cubic_uniform *)
Lemma agree_scale_Cubic_uniform s c1 c2 e sx o :
  gen_scale_Cubic_uniform N s c1 c2 e sx o = xopt (scale_bezier N sx None o [s; c1; c2; e]).
Proof. bez_agree. Qed.

(* AGREE gen_translate_Arc *)
Lemma agree_translate_Arc s r rot l sw e c th d ph rm z0 :
  option_map init_of (gen_translate_Arc N s r rot l sw e c th d ph rm z0) = Some (arc_translate N T z0 (mkArcP s r rot l sw e c th d ph rm)).
Proof. intros; unfold gen_translate_Arc; arc_agree. Qed.
(* AGREE gen_rotate_Arc *)
Lemma agree_rotate_Arc s r rot l sw e c th d ph rm degs o :
  option_map init_of (gen_rotate_Arc N T s r rot l sw e c th d ph rm degs o)
  = Some (arc_rotate N T degs (cs_of_degs T degs) o (mkArcP s r rot l sw e c th d ph rm)).
Proof. intros; unfold gen_rotate_Arc; arc_agree. Qed.
(* AGREE gen_rotate_Arc_default *)
Lemma agree_rotate_Arc_default s r rot l sw e c th d ph rm degs :
  option_map init_of (gen_rotate_Arc_default N T s r rot l sw e c th d ph rm degs)
  = Some (arc_rotate N T degs (cs_of_degs T degs) (a_center (mkArcP s r rot l sw e c th d ph rm)) (mkArcP s r rot l sw e c th d ph rm)).
Proof. intros; unfold gen_rotate_Arc_default; arc_agree. Qed.
(* AGREE gen_scale_Arc *)
Lemma agree_scale_Arc s r rot l sw e c th d ph rm sx o :
  option_map init_of (gen_scale_Arc N s r rot l sw e c th d ph rm sx o) = xopt (arc_scale N T sx None o (mkArcP s r rot l sw e c th d ph rm)).
Proof. intros; unfold gen_scale_Arc; arc_agree. Qed.
(* AGREE gen_scale_Arc_sy *)
Lemma agree_scale_Arc_sy s r rot l sw e c th d ph rm sx sy o :
  option_map init_of (gen_scale_Arc_sy N s r rot l sw e c th d ph rm sx sy o) = xopt (arc_scale N T sx (Some sy) o (mkArcP s r rot l sw e c th d ph rm)).
Proof. intros; unfold gen_scale_Arc_sy; arc_agree. Qed.
(* FOOTER *)
End A.
