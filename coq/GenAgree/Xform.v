(* GenAgree/Xform.v — the definitions generated from /repo's current path.py for
   C10 agree with the hand-written model Model/Xform.v.  Recompiled on every check
   run, lemma by lemma (split on the AGREE markers).  Only bez2poly (the first
   statement of scale_bezier) is inside the translator's subset: translate /
   rotate / scale / transform end in a constructor call (see
   tools/py2v_tables/c10.py); poly2bez's kernel polynomial2bezier is tied in
   GenAgree/BezierN.v. *)
From Coq Require Import ZArith List Bool Field.
From SVP Require Import Base.Num Base.Cplx Base.Poly Base.FieldTac Base.Agree
     Model.Bezier Model.BezierN Model.Arc Model.Xform.
From SVP Require Import Gen.GenXform.
Import ListNotations.
Section A.
Context {K : Type} (N : Num K) (OK : NumFieldOK N).
Add Field KF : (Fth OK).
(* HEADER END *)

(* AGREE gen_bez2poly_Line *)
Lemma agree_bez2poly_Line s e : gen_bez2poly_Line N s e = bezier2polynomial N [s; e].
Proof. agree_ring. Qed.
(* AGREE gen_bez2poly_Quad *)
Lemma agree_bez2poly_Quad s c e : gen_bez2poly_Quad N s c e = bezier2polynomial N [s; c; e].
Proof. agree_ring. Qed.
(* AGREE gen_bez2poly_Cubic *)
Lemma agree_bez2poly_Cubic s c1 c2 e :
  gen_bez2poly_Cubic N s c1 c2 e = bezier2polynomial N [s; c1; c2; e].
Proof. agree_ring. Qed.
(* FOOTER *)
End A.
