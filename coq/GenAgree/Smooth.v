(* GenAgree/Smooth.v — the definitions generated from /repo's current
   misctools.py / path.py (the expression-level code smoothing.py evaluates)
   agree with the hand-written model Model/Smooth.v.
   Recompiled on every check run, lemma by lemma (split on the AGREE markers).
   smoothed_joint / smoothed_path themselves are outside the translator's
   subset (try/except, list mutation): tied by the in-Coq correspondence of
   tools/harness/c20.py. *)
From Coq Require Import ZArith List Bool Field.
From SVP Require Import Base.Num Base.Cplx Base.Poly Base.FieldTac Base.Agree Model.Bezier Model.Smooth.
From SVP Require Import Gen.GenSmooth.
Import ListNotations.
Section A.
Context {K : Type} (N : Num K) (T : NumT K) (OK : NumFieldOK N).
Add Field KF : (Fth OK).
(* HEADER END *)

(* AGREE gen_isclose_C *)
Lemma agree_isclose_C a b rtol atol :
  gen_isclose_C N T a b rtol atol = isclose_gen N T a b rtol atol.
Proof. agree_ring. Qed.
(* AGREE gen_sm_Line_unit_tangent *)
Lemma agree_sm_Line_unit_tangent s e t :
  gen_sm_Line_unit_tangent N T s e t = Some (line_ut N T s e).
Proof. agree_ring. Qed.
(* AGREE gen_sm_Line_length *)
Lemma agree_sm_Line_length s e cl :
  gen_sm_Line_length N T s e = seg_length N T cl (SLine s e).
Proof. agree_ring. Qed.
(* FOOTER *)
End A.
