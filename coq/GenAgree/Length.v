(* GenAgree/Length.v — the definitions generated from /repo's current path.py
   agree with the hand-written models of Model/Length.v.  Recompiled on every
   check run, lemma by lemma (split on the AGREE markers).
   QuadraticBezier.length is outside the translator's subset (dict-valued
   attribute _length_info, isnan): correspondence only. *)
From Coq Require Import ZArith List Bool Field.
From SVP Require Import Base.Num Base.Cplx Base.FieldTac Base.Agree Model.Length.
From SVP Require Import Gen.GenLength.
Import ListNotations.
Section A.
Context {K : Type} (N : Num K) (T : NumT K) (OK : NumFieldOK N).
Add Field KF : (Fth OK).
(* HEADER END *)

(* AGREE gen_Line_length *)
Lemma agree_Line_length s e t0 t1 : gen_Line_length N T s e t0 t1 = line_length N T s e t0 t1.
Proof. intros; destruct s, e; reflexivity. Qed.
(* FOOTER *)
End A.
