(* GenAgree/Extrema.v — the definitions generated from /repo's current
   path.py (Line.bbox, Line.radialrange) agree with the hand-written models of
   Model/Extrema.v.  Recompiled on every check run, lemma by lemma. *)
From Coq Require Import ZArith List Bool Field.
From SVP Require Import Base.Num Base.Cplx Base.Poly Base.FieldTac Base.Agree Model.Extrema.
From SVP Require Import Gen.GenBoxes Gen.GenExtrema.
Import ListNotations.
Section A.
Context {K : Type} (N : Num K) (T : NumT K) (OK : NumFieldOK N).
Add Field KF : (Fth OK).
(* HEADER END *)

(* AGREE gen_Line_bbox *)
Lemma agree_Line_bbox s e : gen_Line_bbox N s e = line_bbox N s e.
Proof. intros; destruct_cplx_vars; reflexivity. Qed.
(* AGREE gen_Line_radialrange *)
Lemma agree_Line_radialrange s e z : gen_Line_radialrange N T s e z = line_radialrange N T s e z.
Proof.
  first [ solve [ intros; destruct_cplx_vars;
                  unfold gen_Line_radialrange, line_radialrange, lt01, cabs, line_pt, csub, re, im; cbn [fst snd];
                  repeat match goal with
                  | |- (if ?c then _ else _) = (if ?c then _ else _) => destruct c
                  end; reflexivity ]
        | (* the code computes the same projection parameter / distances by another ring-equal formula *)
          agree_cases OK N T ].
Qed.
(* FOOTER *)
End A.
