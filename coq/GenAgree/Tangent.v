(* GenAgree/Tangent.v — the definitions generated from /repo's current path.py
   (Line/Arc unit_tangent, normal, curvature; QuadraticBezier/CubicBezier.unit_tangent
   through bezier_unit_tangent) agree with the hand-written models of
   Model/Tangent.v.  Recompiled on every check run, lemma by lemma.
   gen_Quad_unit_tangent / gen_Cubic_unit_tangent are stated against the REPAIRED
   variant of the model (flag true): the harness skips them for a tree with the
   pinned fallback (whose try/except does not translate anyway) and checks them
   for every other tree.  segment_curvature (np.seterr, try/except) is outside
   the translator's subset: tied by correspondence only. *)
From Coq Require Import ZArith List Bool Field.
From SVP Require Import Base.Num Base.Cplx Base.Poly Base.FieldTac Base.Agree Model.Bezier Model.Tangent.
From SVP Require Import Gen.GenTangent.
Import ListNotations.
Section A.
Context {K : Type} (N : Num K) (T : NumT K) (OK : NumFieldOK N).
Add Field KF : (Fth OK).

(* res -> option: Val u |-> Some u, ValueError / AssertionError |-> None *)
Definition res_opt {A} (r : res A) : option A := match r with Val a => Some a | _ => None end.

Lemma if_cong {A} (c c' : bool) (a a' b b' : A) :
  c = c' -> a = a' -> b = b' -> (if c then a else b) = (if c' then a' else b').
Proof. intros; subst; reflexivity. Qed.

(* congruence down to the carrier: boolean tests, hypot_, pairs, options and
   conditionals are compared structurally, the numbers inside them by ring *)
Ltac cong :=
  lazymatch goal with
  | |- negb _ = negb _ => apply f_equal; cong
  | |- andb _ _ = andb _ _ => apply f_equal2; cong
  | |- eqb N _ _ = eqb N _ _ => apply f_equal2; cong
  | |- hypot_ T _ _ = hypot_ T _ _ => apply f_equal2; cong
  | |- div N _ (hypot_ T _ _) = div N _ (hypot_ T _ _) => apply f_equal2; cong
  | |- Some _ = Some _ => apply f_equal; cong
  | |- (_, _) = (_, _) => apply f_equal2; cong
  | |- @None _ = @None _ => reflexivity
  | |- (if _ then _ else _) = (if _ then _ else _) => apply if_cong; cong
  | |- (if ?c then _ else _) = _ => destruct c; cong
  | |- _ = (if ?c then _ else _) => destruct c; cong
  | |- _ => ring
  end.
(* like Agree.norm_num but call-by-need (the unused bef/aft of the error message are
   never evaluated) and with binary64 literals left folded *)
Ltac norm_lazy :=
  lazy -[add sub mul div opp inv zero one eqb ltb leb dyadic
         sqrt_ cos_ sin_ tan_ acos_ asin_ atan_ ln_ pi_ hypot_ radians_ degrees_].

(* the shape of the translated bezier_unit_tangent, over the derivative vectors *)
Definition unit_pair (a b : K) : Cplx K := (div N a (hypot_ T a b), div N b (hypot_ T a b)).
Definition nz (d : Cplx K) : bool := negb (andb (eqb N (fst d) (zero N)) (eqb N (snd d) (zero N))).
Definition neg1 (x : K) : K := mul N (lit N (-1)) x.
Definition shape2 (d1 d2 : Cplx K) (t : K) : option (Cplx K) :=
  if negb (eqb N (hypot_ T (fst d1) (snd d1)) (zero N)) then Some (unit_pair (fst d1) (snd d1))
  else if nz d2 then
    (if eqb N t (one N) then Some (unit_pair (neg1 (fst d2)) (neg1 (snd d2)))
     else Some (unit_pair (fst d2) (snd d2)))
  else None.
Definition shape3 (d1 d2 d3 : Cplx K) (t : K) : option (Cplx K) :=
  if negb (eqb N (hypot_ T (fst d1) (snd d1)) (zero N)) then Some (unit_pair (fst d1) (snd d1))
  else if nz d2 then
    (if eqb N t (one N) then Some (unit_pair (neg1 (fst d2)) (neg1 (snd d2)))
     else Some (unit_pair (fst d2) (snd d2)))
  else if nz d3 then Some (unit_pair (fst d3) (snd d3))
  else None.

Ltac shape_tac :=
  intros; destruct_cplx_vars;
  unfold shape2, shape3, nz, neg1, unit_pair, res_opt, bezier_unit_tangent, unit_tangent_fallback_repaired,
         first_dir, cabs, ceqb, unit_of, cdivr, copp, c0, re, im;
  cbn [fst snd Nat.even andb lit of_pos];
  repeat match goal with |- context [eqb N ?x ?y] => destruct (eqb N x y) end;
  cbn [negb andb]; cbv beta iota; unfold cabs, re, im; cbn [fst snd]; cong.
Lemma model_shape2 poly d1 d2 t :
  res_opt (bezier_unit_tangent N T true poly d1 [d2] t) = shape2 d1 d2 t.
Proof. shape_tac. Qed.
Lemma model_shape3 poly d1 d2 d3 t :
  res_opt (bezier_unit_tangent N T true poly d1 [d2; d3] t) = shape3 d1 d2 d3 t.
Proof. shape_tac. Qed.
(* HEADER END *)

(* AGREE gen_Line_unit_tangent *)
Lemma agree_Line_unit_tangent s e t :
  gen_Line_unit_tangent N T s e t = Some (line_unit_tangent N T s e t).
Proof. agree_ring. Qed.
(* AGREE gen_Line_normal *)
Lemma agree_Line_normal s e t : gen_Line_normal N T s e t = Some (line_normal N T s e t).
Proof. agree_ring. Qed.
(* AGREE gen_Line_curvature *)
Lemma agree_Line_curvature s e t : gen_Line_curvature N s e t = line_curvature N s e t.
Proof. agree_ring. Qed.
(* AGREE gen_Arc_unit_tangent *)
Lemma agree_Arc_unit_tangent st (radius : Cplx K) rotation la sw en ce theta delta phi rm t :
  gen_Arc_unit_tangent N T st radius rotation la sw en ce theta delta phi rm t
  = Some (arc_unit_tangent N T (fst radius) (snd radius) rotation theta delta t).
Proof. agree_ring. Qed.
(* AGREE gen_Arc_normal *)
Lemma agree_Arc_normal st (radius : Cplx K) rotation la sw en ce theta delta phi rm t :
  gen_Arc_normal N T st radius rotation la sw en ce theta delta phi rm t
  = Some (arc_normal N T (fst radius) (snd radius) rotation theta delta t).
Proof. agree_ring. Qed.
(* AGREE gen_Quad_unit_tangent *)
Lemma agree_Quad_unit_tangent s c e t :
  gen_Quad_unit_tangent N T s c e t = res_opt (quad_unit_tangent N T true s c e t).
Proof.
  unfold quad_unit_tangent. rewrite model_shape2.
  destruct_cplx_vars. norm_lazy. cong.
Qed.
(* AGREE gen_Cubic_unit_tangent *)
Lemma agree_Cubic_unit_tangent s c1 c2 e t :
  gen_Cubic_unit_tangent N T s c1 c2 e t = res_opt (cubic_unit_tangent N T true s c1 c2 e t).
Proof.
  unfold cubic_unit_tangent. rewrite model_shape3.
  destruct_cplx_vars. norm_lazy. cong.
Qed.
(* FOOTER *)
End A.
