(* GenAgree/Tangent.v — the definitions generated from /repo's current path.py
   (Line/Arc unit_tangent, normal, curvature) agree with the hand-written
   models of Model/Tangent.v.  Recompiled on every check run, lemma by lemma.
   bezier_unit_tangent and segment_curvature contain try/except and are outside
   the translator's subset: they are tied by correspondence only. *)
From Coq Require Import ZArith List Bool Field.
From SVP Require Import Base.Num Base.Cplx Base.Poly Base.FieldTac Base.Agree Model.Bezier Model.Tangent.
From SVP Require Import Gen.GenTangent.
Import ListNotations.
Section A.
Context {K : Type} (N : Num K) (T : NumT K) (OK : NumFieldOK N).
Add Field KF : (Fth OK).
(* HEADER END *)

(* AGREE gen_Line_unit_tangent *)
Lemma agree_Line_unit_tangent s e t :
  gen_Line_unit_tangent N T s e t = Some (line_unit_tangent N T s e t).
Proof. agree_ring. Qed.
(* AGREE gen_Line_normal *)
Lemma agree_Line_normal s e t : gen_Line_normal N T s e t = Some (line_normal N T s e t).
Proof. agree_ring. Qed.
(* AGREE gen_Line_curvature *)
Lemma agree_Line_curvature s e t : gen_Line_curvature N s e t = line_curvature N s e t.
Proof. agree_ring. Qed.
(* AGREE gen_Arc_unit_tangent *)
Lemma agree_Arc_unit_tangent st (radius : Cplx K) rotation la sw en ce theta delta phi rm t :
  gen_Arc_unit_tangent N T st radius rotation la sw en ce theta delta phi rm t
  = Some (arc_unit_tangent N T (fst radius) (snd radius) rotation theta delta t).
Proof. agree_ring. Qed.
(* AGREE gen_Arc_normal *)
Lemma agree_Arc_normal st (radius : Cplx K) rotation la sw en ce theta delta phi rm t :
  gen_Arc_normal N T st radius rotation la sw en ce theta delta phi rm t
  = Some (arc_normal N T (fst radius) (snd radius) rotation theta delta t).
Proof. agree_ring. Qed.
(* FOOTER *)
End A.
