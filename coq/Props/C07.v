(* Props/C07.v — property C07: ilength inverts length on [0, L], is monotone,
   total and terminates.  Only statements, `exact`, Print Assumptions.
   Model: Model/Length.v (inv_arclength_seg / bisect / path_search; flag
   rep = false: the code as it is, rep = true: repaired exit test). *)
From Coq Require Import ZArith List Bool Reals Lra Lia PrimFloat.
From SVP Require Import Base.Num Base.FloatK Base.Cplx Model.Length Proofs.InvLength Proofs.InvLengthF.
Import ListNotations.

(* ---------------- binary64: the statement is REFUTED for the code as it is ---- *)
(* Structural, any carrier, any length function: once the midpoint coincides
   with the bound that is re-assigned to itself (adjacent floats) and the
   tolerance is not met there, the exit test `t_upper == t_lower` never fires:
   "Maximum iterations" for every maxits. *)
Theorem C07_stall_refuted : forall {K} (N : Num K) (len : K -> K) (s s_tol lo hi : K),
  stalled N len s s_tol lo hi ->
  forall fuel, bisect N false s s_tol len fuel lo hi = EMaxIts.
Proof. intros K N. exact (stall_maxits N). Qed.
(* adjacent binary64 numbers do have this midpoint property (witnesses) *)
Example C07_adjacent_midpoint :
  fnext F_lo = F_hi /\ midpt NumF F_lo F_hi = F_lo /\ stalled NumF F_len F_s F_tol F_lo F_hi.
Proof. exact (conj F_adjacent (conj F_mid F_stalled)). Qed.
(* end-to-end binary64 run of the model with the default s_tol = 1e-12,
   maxits = 10000 on len t = 2e5 * t, s = 28571.428571428572: raises *)
Example C07_stall_refuted_witness :
  inv_arclength_seg NumF false false F_len 0x1.86ap+17%float F_s F_tol 10000 = EMaxIts.
Proof. exact F_run_maxits. Qed.
(* the repaired exit test (state unchanged => return t) returns on the same
   input, with |len t - s| <= 4 ulp(L) *)
Example C07_repaired_witness :
  inv_arclength_seg NumF true false F_len 0x1.86ap+17%float F_s F_tol 10000 = IStall F_lo
  /\ PrimFloat.leb (fabs (PrimFloat.sub (F_len F_lo) F_s))
                   (PrimFloat.mul 4 (ulp_of 0x1.86ap+17%float)) = true.
Proof. exact (conj F_run_repaired F_repaired_value_ok). Qed.
(* repaired variant (C07-ilength-stall-exit: `t == t_lower or t == t_upper`
   tested before the re-assignment), any carrier: never MaxIts within mu+1
   iterations, for any measure mu that decreases while the midpoint is strictly
   inside (for binary64: the number of floats between the bounds) *)
Theorem C07_returns_partial : forall {K} (N : Num K) (len : K -> K) (s s_tol : K) (mu : K -> K -> nat),
  (forall x, eqb N x x = true) ->
  (forall lo hi, midpt N lo hi <> lo -> midpt N lo hi <> hi -> (mu (midpt N lo hi) hi < mu lo hi)%nat) ->
  (forall lo hi, midpt N lo hi <> lo -> midpt N lo hi <> hi -> (mu lo (midpt N lo hi) < mu lo hi)%nat) ->
  forall fuel lo hi, (mu lo hi < fuel)%nat -> bisect N true s s_tol len fuel lo hi <> EMaxIts.
Proof. intros K N len s s_tol mu. exact (repaired_returns N len s s_tol mu). Qed.
(* in a stalled state the repaired loop returns the midpoint at once *)
Theorem C07_stall_repaired_returns : forall {K} (N : Num K) (len : K -> K) (s s_tol lo hi : K),
  stalled N len s s_tol lo hi -> (forall x, eqb N x x = true) ->
  forall fuel, bisect N true s s_tol len (S fuel) lo hi = IStall (midpt N lo hi).
Proof. intros K N. exact (stall_repaired_returns N). Qed.

(* Path branch, binary64, code without the clamp (prep = false): for s on a
   segment boundary the segment search hands the segment an s - lsum that exceeds
   the segment's length by one ulp: ValueError although 0 <= s <= L *)
Example C07_path_boundary_refuted : forall rep t2T,
  PrimFloat.leb 0 P_s && PrimFloat.leb P_s P_L = true
  /\ inv_arclength_path NumF rep false t2T P_segs P_L P_s F_tol 10000 = EValueError.
Proof. intros. exact (conj P_s_inside (P_path_valueerror rep t2T)). Qed.
(* repaired (C07-path-ilength-inner-range, prep = true): the same call returns *)
Example C07_path_boundary_repaired_witness : forall rep t2T,
  inv_arclength_path NumF rep true t2T P_segs P_L P_s F_tol 10000 = IRet (t2T 1%nat 1%float).
Proof. exact P_path_repaired. Qed.
(* repaired Path branch, any carrier whose comparisons satisfy the four order
   facts (true in R and for non-NaN binary64): no ValueError / AssertionError from
   the segment search, for every s and every list of positive-length segments *)
Theorem C07_path_total_partial : forall {K} (N : Num K),
  (forall x, leb N x x = true) ->
  (forall x y, ltb N y x = false -> leb N x y = true) ->
  (forall x y, ltb N x y = true -> leb N x y = true) ->
  (forall a b, leb N a b = true -> leb N (zero N) (sub N b a) = true) ->
  forall rep t2T s s_tol maxits segs k lsum,
  Forall (fun p : @pseg K => ltb N (zero N) (snd p) = true) segs ->
  path_search N rep true t2T segs k lsum s s_tol maxits <> EValueError /\
  path_search N rep true t2T segs k lsum s s_tol maxits <> EAssert.
Proof. intros K N. exact (path_repaired_total N). Qed.

(* ---------------- over R (both variants: rep arbitrary) ---------------- *)
Local Open Scope R_scope.

Theorem C07_bisect_invariant : forall (len : R -> R) s i lo hi, len lo <= s <= len hi -> lo <= hi ->
  let st := bis_state len s i lo hi in
  len (fst st) <= s <= len (snd st) /\ snd st - fst st = (hi - lo) / 2 ^ i
  /\ lo <= fst st /\ snd st <= hi.
Proof. exact bisect_invariant. Qed.

Theorem C07_result : forall rep is_line len L s_tol maxits, 0 < L ->
  forall s t, 0 <= s <= L ->
  inv_arclength_seg NumR rep is_line len L s s_tol maxits = IRet t ->
  0 <= t <= 1 /\
  (is_line = false -> 0 < s < L -> Rabs (len t - s) < s_tol) /\
  (is_line = true -> (forall u, len u = L * u) -> len t = s).
Proof. exact inv_result. Qed.
Theorem C07_no_stall_over_R : forall rep is_line len L s_tol maxits, 0 < L ->
  forall s t, inv_arclength_seg NumR rep is_line len L s s_tol maxits <> IStall t.
Proof. exact inv_no_stall. Qed.

Theorem C07_terminates : forall rep is_line len L s_tol maxits, 0 < L ->
  forall Lam n s, (forall a b, a <= b -> len a <= len b) ->
  (forall a b, a <= b -> len b - len a <= Lam * (b - a)) -> len 0 = 0 -> len 1 = L ->
  Lam / 2 ^ n < s_tol -> (n < maxits)%nat -> 0 <= s <= L ->
  exists t, inv_arclength_seg NumR rep is_line len L s s_tol maxits = IRet t.
Proof. exact inv_terminates. Qed.

Theorem C07_ends : forall rep is_line len L s_tol maxits, 0 < L ->
  inv_arclength_seg NumR rep is_line len L 0 s_tol maxits = IRet 0
  /\ inv_arclength_seg NumR rep is_line len L L s_tol maxits = IRet 1.
Proof. exact inv_ends. Qed.
Theorem C07_range : forall rep is_line len L s_tol maxits, 0 < L ->
  forall s, s < 0 \/ L < s ->
  inv_arclength_seg NumR rep is_line len L s s_tol maxits = EValueError.
Proof. exact inv_range. Qed.

Theorem C07_monotone : forall rep is_line len L s_tol maxits, 0 < L -> 0 < s_tol ->
  forall m s s' t t', 0 < m ->
  (forall a b, a <= b -> m * (b - a) <= len b - len a) -> is_line = false ->
  0 < s -> s <= s' -> s' < L ->
  inv_arclength_seg NumR rep is_line len L s s_tol maxits = IRet t ->
  inv_arclength_seg NumR rep is_line len L s' s_tol maxits = IRet t' ->
  t <= t' + 2 * s_tol / m.
Proof. exact inv_monotone. Qed.
Theorem C07_monotone_line : forall rep is_line len L s_tol maxits, 0 < L ->
  forall s s', is_line = true -> 0 < s -> s <= s' -> s' < L ->
  exists t t', inv_arclength_seg NumR rep is_line len L s s_tol maxits = IRet t
            /\ inv_arclength_seg NumR rep is_line len L s' s_tol maxits = IRet t' /\ t <= t'.
Proof. exact inv_line_monotone. Qed.

(* Path (both variants of the clamp: over R it is the identity): the result is
   t2T k (result on segment k at s - (l_0 + ... + l_{k-1})), k the first segment
   whose cumulative interval contains s *)
Theorem C07_path : forall rep prep t2T s s_tol maxits (segs : list (@pseg R)) k0 lsum,
  let r := path_search NumR rep prep t2T segs k0 lsum s s_tol maxits in
  (exists j p, nth_error segs j = Some p /\
     let c := cumL segs lsum j in
     c <= s <= c + seg_L p /\
     (forall i q, (i < j)%nat -> nth_error segs i = Some q ->
                  ~ (cumL segs lsum i <= s <= cumL segs lsum i + seg_L q)) /\
     r = match inv_arclength_seg NumR rep (fst (fst p)) (snd (fst p)) (seg_L p) (s - c) s_tol maxits with
         | IRet t => IRet (t2T (k0 + j)%nat t)
         | IStall t => IStall (t2T (k0 + j)%nat t)
         | e => e
         end)
  \/ ((forall i q, nth_error segs i = Some q ->
                   ~ (cumL segs lsum i <= s <= cumL segs lsum i + seg_L q)) /\ r = IRet 1).
Proof. intros rep prep t2T s s_tol maxits. exact (path_search_spec rep prep t2T s s_tol maxits). Qed.
Theorem C07_path_total : forall rep t2T s s_tol maxits (segs : list (@pseg R)) k lsum,
  Forall (fun p : @pseg R => 0 < snd p) segs ->
  path_search NumR rep true t2T segs k lsum s s_tol maxits <> EValueError /\
  path_search NumR rep true t2T segs k lsum s s_tol maxits <> EAssert.
Proof. exact path_repaired_total_R. Qed.

(* non-vacuity over R: len t = 10 t, s = 3 — the bisection returns a t with
   |10 t - 3| < 1e-3 within 16 iterations *)
Example C07_nonvacuous :
  exists t, inv_arclength_seg NumR false false (fun t => 10 * t) 10 3 (1/1000) 16 = IRet t.
Proof.
  apply (C07_terminates false false (fun t => 10 * t) 10 (1/1000) 16 ltac:(lra) 10 15%nat);
    try (intros; lra); try lia.
Qed.

Print Assumptions C07_stall_refuted.
Print Assumptions C07_adjacent_midpoint.
Print Assumptions C07_stall_refuted_witness.
Print Assumptions C07_repaired_witness.
Print Assumptions C07_returns_partial.
Print Assumptions C07_stall_repaired_returns.
Print Assumptions C07_path_boundary_refuted.
Print Assumptions C07_path_boundary_repaired_witness.
Print Assumptions C07_path_total_partial.
Print Assumptions C07_bisect_invariant.
Print Assumptions C07_result.
Print Assumptions C07_no_stall_over_R.
Print Assumptions C07_terminates.
Print Assumptions C07_ends.
Print Assumptions C07_range.
Print Assumptions C07_monotone.
Print Assumptions C07_monotone_line.
Print Assumptions C07_path.
Print Assumptions C07_path_total.
