(* Props/C03.v — property C03: Line/Quadratic/Cubic point, poly, points and
   derivative are the Bernstein curve.  Only statements, `exact`, and
   Print Assumptions live here. *)
From Coq Require Import ZArith List Reals.
From SVP Require Import Base.Num Base.Cplx Base.Poly Model.Bezier
     Proofs.BezierAlg Proofs.BezierDeriv.
Import ListNotations.

Section C03.
  Context {K : Type} (N : Num K) (OK : NumFieldOK N).

  Theorem C03_line_point_bern : forall s e t, line_point N s e t = bern N [s; e] t.
  Proof. exact (line_point_bern N OK). Qed.
  Theorem C03_quad_point_bern : forall s c e t, quad_point N s c e t = bern N [s; c; e] t.
  Proof. exact (quad_point_bern N OK). Qed.
  Theorem C03_cubic_point_bern : forall s c1 c2 e t,
      cubic_point N s c1 c2 e t = bern N [s; c1; c2; e] t.
  Proof. exact (cubic_point_bern N OK). Qed.

  Theorem C03_point0 : forall s c1 c2 e,
      line_point N s e (zero N) = s /\ quad_point N s c1 e (zero N) = s
      /\ cubic_point N s c1 c2 e (zero N) = s.
  Proof. intros; repeat split;
    [apply (line_point0 N OK)|apply (quad_point0 N OK)|apply (cubic_point0 N OK)]. Qed.
  Theorem C03_point1 : forall s c1 c2 e,
      line_point N s e (one N) = e /\ quad_point N s c1 e (one N) = e
      /\ cubic_point N s c1 c2 e (one N) = e.
  Proof. intros; repeat split;
    [apply (line_point1 N OK)|apply (quad_point1 N OK)|apply (cubic_point1 N OK)]. Qed.

  Theorem C03_poly_eval : forall s c1 c2 e t,
      cpeval N (line_poly N s e) t = line_point N s e t
      /\ cpeval N (quad_poly N s c1 e) t = quad_point N s c1 e t
      /\ cpeval N (cubic_poly N s c1 c2 e) t = cubic_point N s c1 c2 e t.
  Proof. intros; repeat split;
    [apply (line_poly_eval N OK)|apply (quad_poly_eval N OK)|apply (cubic_poly_eval N OK)]. Qed.

  Theorem C03_points : forall s c1 c2 e ts,
      seg_points N (line_poly N s e) ts = map (line_point N s e) ts
      /\ seg_points N (quad_poly N s c1 e) ts = map (quad_point N s c1 e) ts
      /\ seg_points N (cubic_poly N s c1 c2 e) ts = map (cubic_point N s c1 c2 e) ts.
  Proof. intros; repeat split;
    [apply (line_points N OK)|apply (quad_points N OK)|apply (cubic_points N OK)]. Qed.

  Theorem C03_poly2bez_poly : forall s c1 c2 e,
      poly2bez N (line_poly N s e) = Some [s; e]
      /\ poly2bez N (quad_poly N s c1 e) = Some [s; c1; e]
      /\ poly2bez N (cubic_poly N s c1 c2 e) = Some [s; c1; c2; e].
  Proof. intros; repeat split;
    [apply (poly2bez_line_poly N OK)|apply (poly2bez_quad_poly N OK)|apply (poly2bez_cubic_poly N OK)]. Qed.

  Theorem C03_poly_poly2bez_cubic : forall a3 a2 a1 a0,
      match poly2bez N [a3; a2; a1; a0] with
      | Some [s; c1; c2; e] => cubic_poly N s c1 c2 e = [a3; a2; a1; a0]
      | _ => False end.
  Proof. exact (cubic_poly_poly2bez N OK). Qed.
  Theorem C03_poly_poly2bez_quad : forall a2 a1 a0,
      match poly2bez N [a2; a1; a0] with
      | Some [s; c; e] => quad_poly N s c e = [a2; a1; a0]
      | _ => False end.
  Proof. exact (quad_poly_poly2bez N OK). Qed.
  Theorem C03_poly_poly2bez_line : forall a1 a0,
      match poly2bez N [a1; a0] with
      | Some [s; e] => line_poly N s e = [a1; a0]
      | _ => False end.
  Proof. exact (line_poly_poly2bez N OK). Qed.

  (* derivative(t, n) is the n-th formal derivative of poly(), all n >= 1;
     n <= 0 raises *)
  Theorem C03_deriv_formal : forall s c1 c2 e t n, (1 <= n)%Z ->
      line_deriv N s e t n = Some (cpeval N (iter (cpderiv N) (Z.to_nat n) (line_poly N s e)) t)
      /\ quad_deriv N s c1 e t n = Some (cpeval N (iter (cpderiv N) (Z.to_nat n) (quad_poly N s c1 e)) t)
      /\ cubic_deriv N s c1 c2 e t n = Some (cpeval N (iter (cpderiv N) (Z.to_nat n) (cubic_poly N s c1 c2 e)) t).
  Proof. intros; repeat split;
    [apply (line_deriv_formal N OK)|apply (quad_deriv_formal N OK)|apply (cubic_deriv_formal N OK)]; assumption. Qed.
  Theorem C03_deriv_rejects : forall s c1 c2 e t n, (n <= 0)%Z ->
      cubic_deriv N s c1 c2 e t n = None /\ quad_deriv N s c1 e t n = None
      /\ line_deriv N s e t n = None.
  Proof. exact (deriv_rejects N). Qed.
End C03.

(* the statements hold in particular for the real numbers and for the exact
   rationals the correspondence check executes the same definitions in *)
Definition C03_at_R := C03_cubic_point_bern NumR NumR_ok.
Definition C03_at_Q := C03_cubic_point_bern NumQ NumQ_ok.

(* over the reals: derivative(t, n) IS the n-th derivative of t |-> point(t)
   (Coquelicot's is_derive_n, component by component), for every n >= 1 *)
From SVP Require Proofs.BezierAnalytic.
Theorem C03_deriv_analytic_cubic : forall s c1 c2 e t n d, (1 <= n)%Z ->
    cubic_deriv NumR s c1 c2 e t n = Some d ->
    Coquelicot.Derive.is_derive_n (fun u => fst (cubic_point NumR s c1 c2 e u)) (Z.to_nat n) t (fst d)
    /\ Coquelicot.Derive.is_derive_n (fun u => snd (cubic_point NumR s c1 c2 e u)) (Z.to_nat n) t (snd d).
Proof. exact Proofs.BezierAnalytic.cubic_deriv_analytic. Qed.
Theorem C03_deriv_analytic_quad : forall s c e t n d, (1 <= n)%Z ->
    quad_deriv NumR s c e t n = Some d ->
    Coquelicot.Derive.is_derive_n (fun u => fst (quad_point NumR s c e u)) (Z.to_nat n) t (fst d)
    /\ Coquelicot.Derive.is_derive_n (fun u => snd (quad_point NumR s c e u)) (Z.to_nat n) t (snd d).
Proof. exact Proofs.BezierAnalytic.quad_deriv_analytic. Qed.
Theorem C03_deriv_analytic_line : forall s e t n d, (1 <= n)%Z ->
    line_deriv NumR s e t n = Some d ->
    Coquelicot.Derive.is_derive_n (fun u => fst (line_point NumR s e u)) (Z.to_nat n) t (fst d)
    /\ Coquelicot.Derive.is_derive_n (fun u => snd (line_point NumR s e u)) (Z.to_nat n) t (snd d).
Proof. exact Proofs.BezierAnalytic.line_deriv_analytic. Qed.
Print Assumptions C03_deriv_analytic_cubic.

Print Assumptions C03_line_point_bern.
Print Assumptions C03_quad_point_bern.
Print Assumptions C03_cubic_point_bern.
Print Assumptions C03_point0.
Print Assumptions C03_point1.
Print Assumptions C03_poly_eval.
Print Assumptions C03_points.
Print Assumptions C03_poly2bez_poly.
Print Assumptions C03_poly_poly2bez_cubic.
Print Assumptions C03_poly_poly2bez_quad.
Print Assumptions C03_poly_poly2bez_line.
Print Assumptions C03_deriv_formal.
Print Assumptions C03_deriv_rejects.
Print Assumptions C03_at_R.
Print Assumptions C03_at_Q.
