(* Props/C19.v — property C19: generic n-th order Bezier and polynomial
   helpers are exact and lose no roots.  Statements + exact + Print Assumptions. *)
From Coq Require Import ZArith QArith Qcanon List Bool.
From SVP Require Import Base.Num Base.Cplx Base.Poly Model.Bezier Model.BezierN
     Proofs.Choose Proofs.DeCasteljau Proofs.BezierN Proofs.B2PAll Proofs.Roots Proofs.RatLimit.
Import ListNotations.

(* n_choose_k is the binomial coefficient, all k <= n *)
Theorem C19_choose : forall n k, (k <= n)%nat -> n_choose_k n k = Z.of_nat (binom n k).
Proof. exact n_choose_k_binom. Qed.

Section C19.
  Context {K : Type} (N : Num K) (OK : NumFieldOK N).

  (* ---- all degrees at once (induction on the number of control points) ---- *)
  Theorem C19_bezier_point_all : forall p t, p <> [] -> bezier_point N p t = bern N p t.
  Proof. exact (bezier_point_bern_all N OK). Qed.
  Theorem C19_ends_all : forall p, p <> [] ->
      bern N p (zero N) = hd (c0 N) p /\ bern N p (one N) = last p (c0 N).
  Proof. exact (bern_ends_all N OK). Qed.
  Theorem C19_decasteljau_step : forall p t, (2 <= length p)%nat ->
      bern N p t = bern N (dc_step N p t) t.
  Proof. exact (dc_step_bern N OK). Qed.
  Theorem C19_split_left_all : forall p t u, p <> [] ->
      bern N (fst (split_bezier N p t)) u = bern N p (mul N u t).
  Proof. exact (split_left_all N OK). Qed.
  Theorem C19_split_right_all : forall p t u, p <> [] ->
      bern N (snd (split_bezier N p t)) u = bern N p (add N t (mul N u (sub N (one N) t))).
  Proof. exact (split_right_all N OK). Qed.
  Theorem C19_split_meet_all : forall p t, p <> [] ->
      last (fst (split_bezier N p t)) (c0 N) = bern N p t
      /\ hd (c0 N) (snd (split_bezier N p t)) = bern N p t
      /\ hd (c0 N) (fst (split_bezier N p t)) = hd (c0 N) p
      /\ last (snd (split_bezier N p t)) (c0 N) = last p (c0 N)
      /\ length (fst (split_bezier N p t)) = length p
      /\ length (snd (split_bezier N p t)) = length p.
  Proof. exact (split_meet_all N OK). Qed.
  Theorem C19_reversed_all : forall p t, bern N (rev p) t = bern N p (sub N (one N) t).
  Proof. exact (bern_rev_all N OK). Qed.

  (* ---- bezier2polynomial is the change of basis: ALL degrees (the general factorial
     formula of the code, integer divisions included) ---- *)
  Theorem C19_b2p_eval_all : forall p t, p <> [] ->
      cpeval N (bezier2polynomial N p) t = bern N p t.
  Proof. exact (b2p_eval_all N OK). Qed.

  (* ---- the same, per degree 0..8 (by computation; kept as cross-checks) ---- *)
  Theorem C19_b2p_eval_deg0 : forall p0 t, cpeval N (bezier2polynomial N [p0]) t = bern N [p0] t.
  Proof. exact (b2p_eval_1 N OK). Qed.
  Theorem C19_b2p_eval_deg1 : forall p0 p1 t, cpeval N (bezier2polynomial N [p0; p1]) t = bern N [p0; p1] t.
  Proof. exact (b2p_eval_2 N OK). Qed.
  Theorem C19_b2p_eval_deg2 : forall p0 p1 p2 t,
      cpeval N (bezier2polynomial N [p0; p1; p2]) t = bern N [p0; p1; p2] t.
  Proof. exact (b2p_eval_3 N OK). Qed.
  Theorem C19_b2p_eval_deg3 : forall p0 p1 p2 p3 t,
      cpeval N (bezier2polynomial N [p0; p1; p2; p3]) t = bern N [p0; p1; p2; p3] t.
  Proof. exact (b2p_eval_4 N OK). Qed.
  Theorem C19_b2p_eval_deg4 : forall p0 p1 p2 p3 p4 t,
      cpeval N (bezier2polynomial N [p0; p1; p2; p3; p4]) t = bern N [p0; p1; p2; p3; p4] t.
  Proof. exact (b2p_eval_5 N OK). Qed.
  Theorem C19_b2p_eval_deg5 : forall p0 p1 p2 p3 p4 p5 t,
      cpeval N (bezier2polynomial N [p0; p1; p2; p3; p4; p5]) t = bern N [p0; p1; p2; p3; p4; p5] t.
  Proof. exact (b2p_eval_6 N OK). Qed.
  Theorem C19_b2p_eval_deg6 : forall p0 p1 p2 p3 p4 p5 p6 t,
      cpeval N (bezier2polynomial N [p0; p1; p2; p3; p4; p5; p6]) t
      = bern N [p0; p1; p2; p3; p4; p5; p6] t.
  Proof. exact (b2p_eval_7 N OK). Qed.
  Theorem C19_b2p_eval_deg7 : forall p0 p1 p2 p3 p4 p5 p6 p7 t,
      cpeval N (bezier2polynomial N [p0; p1; p2; p3; p4; p5; p6; p7]) t
      = bern N [p0; p1; p2; p3; p4; p5; p6; p7] t.
  Proof. exact (b2p_eval_8 N OK). Qed.
  Theorem C19_b2p_eval_deg8 : forall p0 p1 p2 p3 p4 p5 p6 p7 p8 t,
      cpeval N (bezier2polynomial N [p0; p1; p2; p3; p4; p5; p6; p7; p8]) t
      = bern N [p0; p1; p2; p3; p4; p5; p6; p7; p8] t.
  Proof. exact (b2p_eval_9 N OK). Qed.

  (* ---- mutually inverse changes of basis, degree <= 3 ---- *)
  Theorem C19_p2b_b2p : forall p0 p1 p2 p3,
      poly2bez N (bezier2polynomial N [p0; p1]) = Some [p0; p1]
      /\ poly2bez N (bezier2polynomial N [p0; p1; p2]) = Some [p0; p1; p2]
      /\ poly2bez N (bezier2polynomial N [p0; p1; p2; p3]) = Some [p0; p1; p2; p3].
  Proof. intros; repeat split;
    [apply (p2b_b2p_2 N OK)|apply (p2b_b2p_3 N OK)|apply (p2b_b2p_4 N OK)]. Qed.
  Theorem C19_b2p_p2b : forall a0 a1 a2 a3,
      match poly2bez N [a0; a1] with Some q => bezier2polynomial N q = [a0; a1] | None => False end
      /\ match poly2bez N [a0; a1; a2] with Some q => bezier2polynomial N q = [a0; a1; a2] | None => False end
      /\ match poly2bez N [a0; a1; a2; a3] with Some q => bezier2polynomial N q = [a0; a1; a2; a3] | None => False end.
  Proof. intros; repeat split;
    [apply (b2p_p2b_2 N OK)|apply (b2p_p2b_3 N OK)|apply (b2p_p2b_4 N OK)]. Qed.

  (* ---- halve_bezier is split_bezier at 1/2 (the cubic has its own formulas) ---- *)
  Theorem C19_halve_cubic : forall p0 p1 p2 p3,
      halve_bezier N [p0; p1; p2; p3] = split_bezier N [p0; p1; p2; p3] (div N (one N) (lit N 2)).
  Proof. exact (halve_is_split_4 N OK). Qed.
  Theorem C19_halve_other : forall p, length p <> 4%nat ->
      halve_bezier N p = split_bezier N p (div N (one N) (lit N 2)).
  Proof.
    intros p H. destruct p as [|a [|b [|c [|d [|e r]]]]]; try reflexivity.
    exfalso; apply H; reflexivity.
  Qed.
End C19.

(* ---- polyroots: the index-correct de-duplication keeps every isolated root
   exactly once and invents none; the de-duplication as coded at the pinned
   commit (pair index used as root index) loses a simple root ---- *)
Theorem C19_dedup_keeps_isolated :
  forall {K} (N : Num K) rtol atol l1 x l2,
    (forall y, In y l1 -> isclose N rtol atol y x = false) ->
    isclose N rtol atol x x = true ->
    exists o1 o2, dedup_fixed N rtol atol (l1 ++ x :: l2) = o1 ++ x :: o2
                  /\ ~ In x o1 /\ ~ In x o2.
Proof. intros K N rtol atol. exact (dedup_fixed_keeps_isolated N rtol atol). Qed.
Theorem C19_dedup_incl :
  forall {K} (N : Num K) rtol atol l x, In x (dedup_fixed N rtol atol l) -> In x l.
Proof. intros K N rtol atol. exact (dedup_fixed_incl N rtol atol). Qed.
Theorem C19_dedup_dropped_is_duplicate :
  forall {K} (N : Num K) rtol atol l1 x l2,
    ~ In x (dedup_fixed N rtol atol (l1 ++ x :: l2)) ->
    exists y, In y l1 /\ isclose N rtol atol y x = true.
Proof. intros K N rtol atol. exact (dedup_fixed_dropped N rtol atol). Qed.
Theorem C19_dedup_coded_refuted :
  dedup_coded NumQ q_rtol q_atol q_roots
  = [Q2Qc (9 # 10); Q2Qc (1 # 2); Q2Qc (500000001 # 1000000000)].
Proof. exact dedup_coded_loses_root. Qed.

From Coq Require Import Reals.
From Coquelicot Require Import Coquelicot.
(* ---- rational_limit returns the limit of f/g, including at common zeros of
   any order k; raises ValueError exactly when f vanishes to lower order; never
   runs out of recursion ---- *)
Theorem C19_limit_common_zero : forall k f1 g1 t0 f g fuel,
    peval NumR g1 t0 <> 0%R ->
    (forall x, peval NumR f x = ((x - t0) ^ k * peval NumR f1 x)%R) ->
    (forall x, peval NumR g x = ((x - t0) ^ k * peval NumR g1 x)%R) ->
    (k <= fuel)%nat ->
    rational_limit NumR fuel f g t0 = RLok (peval NumR f1 t0 / peval NumR g1 t0)%R.
Proof. intros k f1 g1 t0 f g fuel H1 H2 H3 H4.
  exact (@rational_limit_common_zero k f1 g1 t0 H1 f g H2 H3 fuel H4). Qed.
Theorem C19_limit_is_lim : forall k f1 g1 t0 f g,
    peval NumR g1 t0 <> 0%R ->
    (forall x, peval NumR f x = ((x - t0) ^ k * peval NumR f1 x)%R) ->
    (forall x, peval NumR g x = ((x - t0) ^ k * peval NumR g1 x)%R) ->
    is_lim (fun x => (peval NumR f x / peval NumR g x)%R) t0 (peval NumR f1 t0 / peval NumR g1 t0)%R.
Proof. intros k f1 g1 t0 f g H1 H2 H3. eapply rational_limit_is_lim; eassumption. Qed.
Theorem C19_limit_valueerror : forall j k f1 g1 t0 f g fuel,
    (j < k)%nat -> peval NumR f1 t0 <> 0%R -> peval NumR g1 t0 <> 0%R ->
    (forall x, peval NumR f x = ((x - t0) ^ j * peval NumR f1 x)%R) ->
    (forall x, peval NumR g x = ((x - t0) ^ k * peval NumR g1 x)%R) ->
    (j <= fuel)%nat ->
    rational_limit NumR fuel f g t0 = RLvalueerror.
Proof. intros j k f1 g1 t0 f g fuel H0 H1 H2 H3 H4 H5.
  exact (@rational_limit_valueerror j k f1 g1 t0 H0 H1 H2 f g H3 H4 fuel H5). Qed.
Theorem C19_limit_terminates : forall fuel f g t0,
    (length g <= fuel)%nat -> rational_limit NumR fuel f g t0 <> RLfuel.
Proof. intros; eapply rational_limit_fuel; eauto. Qed.

Print Assumptions C19_limit_common_zero.
Print Assumptions C19_limit_is_lim.
Print Assumptions C19_choose.
Print Assumptions C19_bezier_point_all.
Print Assumptions C19_split_left_all.
Print Assumptions C19_split_right_all.
Print Assumptions C19_split_meet_all.
Print Assumptions C19_reversed_all.
Print Assumptions C19_b2p_eval_all.
Print Assumptions C19_b2p_eval_deg8.
Print Assumptions C19_p2b_b2p.
Print Assumptions C19_b2p_p2b.
Print Assumptions C19_halve_cubic.
Print Assumptions C19_halve_other.
Print Assumptions C19_dedup_keeps_isolated.
Print Assumptions C19_dedup_coded_refuted.
