(* Props/C17.v — property C17: SVG flattening applies shape conversion and
   nested transforms per the SVG specification.  Only statements, `exact`,
   Print Assumptions and witnesses (vm_compute) live here.

   Reference (SVG 1.1 §7.5, §7.6, §9) and implementation models:
   Model/SvgTree.v.  `_refuted`: the faithful model of the current code
   violates the statement; the witness replays on the implementation
   (tools/harness/c17.py finds the same classes on random trees). *)
From Coq Require Import ZArith QArith Qcanon List Bool Permutation.
From SVP Require Import Base.Num Base.FieldTac Base.CaseLib Model.SvgTree Model.SvgTreeCheck
     Proofs.SvgTreeAlg Proofs.SvgTreeFlat Proofs.SvgTreeGroup Proofs.SvgTreeShapes.
Import ListNotations.

Section C17.
  Context {K : Type} (N : Num K) (OK : NumFieldOK N) (CMP : NumCmpOK N).

  (* ---- one transform item: parser.py = SVG 1.1 §7.6, every legal count ---- *)
  Theorem C17_titem : forall t : titem, impl_item N (of_titem N t) = titem_spec N t.
  Proof. exact (impl_item_spec N OK). Qed.

  Theorem C17_titem_rotate_centre : forall c s cx cy,
      titem_spec N (TRotate c s (Some (cx, cy)))
      = mmul N (mmul N (titem_spec N (TTranslate cx (Some cy))) (titem_spec N (TRotate c s None)))
               (titem_spec N (TTranslate (opp N cx) (Some (opp N cy)))).
  Proof. exact (rotate_about_centre N OK). Qed.

  (* what each item does to a point *)
  Theorem C17_titem_points : forall p : @pt K,
      (forall x y, pt_apply N (titem_spec N (TTranslate x (Some y))) p = (add N (fst p) x, add N (snd p) y))
      /\ (forall x y, pt_apply N (titem_spec N (TScale x (Some y))) p = (mul N x (fst p), mul N y (snd p)))
      /\ (forall c s, pt_apply N (titem_spec N (TRotate c s None)) p
                      = (sub N (mul N c (fst p)) (mul N s (snd p)), add N (mul N s (fst p)) (mul N c (snd p))))
      /\ (forall t, pt_apply N (titem_spec N (TSkewX t)) p = (add N (fst p) (mul N t (snd p)), snd p))
      /\ (forall t, pt_apply N (titem_spec N (TSkewY t)) p = (fst p, add N (snd p) (mul N t (fst p))))
      /\ (forall a b c d e f, pt_apply N (titem_spec N (TMatrix a b c d e f)) p
                      = (add N (add N (mul N a (fst p)) (mul N c (snd p))) e,
                         add N (add N (mul N b (fst p)) (mul N d (snd p))) f)).
  Proof.
    intros p. repeat split; intros.
    - apply (translate_point N OK). - apply (scale_point N OK). - apply (rotate_point N OK).
    - apply (skewx_point N OK). - apply (skewy_point N OK). - apply (matrix_point N OK).
  Qed.

  (* illegal value counts: the code warns and uses the identity *)
  Theorem C17_titem_bad_counts : forall vals c s t,
      (length vals <> 6%nat -> impl_item N (mkRaw NMatrix vals c s t) = mI N)
      /\ (length vals <> 1%nat -> length vals <> 2%nat ->
          impl_item N (mkRaw NTranslate vals c s t) = mI N /\ impl_item N (mkRaw NScale vals c s t) = mI N)
      /\ (length vals <> 1%nat -> length vals <> 3%nat -> impl_item N (mkRaw NRotate vals c s t) = mI N)
      /\ (length vals <> 1%nat ->
          impl_item N (mkRaw NSkewX vals c s t) = mI N /\ impl_item N (mkRaw NSkewY vals c s t) = mI N).
  Proof.
    intros. repeat split; intros.
    - apply impl_item_bad_count_matrix; assumption.
    - apply (impl_item_bad_count_translate N vals c s t); assumption.
    - apply (impl_item_bad_count_translate N vals c s t); assumption.
    - apply impl_item_bad_count_rotate; assumption.
    - apply (impl_item_bad_count_skew N vals c s t); assumption.
    - apply (impl_item_bad_count_skew N vals c s t); assumption.
  Qed.

  (* a transform list: parse_transform (left fold of dot) = product in order *)
  Theorem C17_transform_list : forall l : list titem, parse_tf N l = tlist_spec N l.
  Proof. exact (parse_tf_spec N OK). Qed.

  (* innermost transform acts first on a point *)
  Theorem C17_transform_list_points : forall (l1 l2 : list titem) p,
      pt_apply N (tlist_spec N (l1 ++ l2)) p = pt_apply N (tlist_spec N l1) (pt_apply N (tlist_spec N l2) p).
  Proof.
    intros. rewrite (tlist_spec_app N OK). destruct (affine_tlist N OK l2) as (A & B & C).
    apply (pt_apply_mmul N OK); assumption.
  Qed.

  (* ---- the stack traversal of flattened_paths ---- *)
  Theorem C17_stack_is_rec : forall tf kids,
      Permutation (flatten_stack N (Group tf kids)) (flatten_ref N (Group tf kids) (mI N)).
  Proof. exact (stack_is_rec N OK). Qed.

  (* the exact order: per group, shapes kind by kind (dict order) in document
     order within a kind, then the child groups, last child first *)
  Theorem C17_stack_order : forall tf kids,
      flatten_stack N (Group tf kids)
      = dfs_rev N tt_ tt_ (Group tf kids) [] (mmul N (mI N) (parse_tf N tf)).
  Proof. exact (stack_order N). Qed.
  Theorem C17_stack_order_within_kind : forall key M p l i,
      shapes_kind N tt_ key M p i l
      = filter (fun o : @out K => kind_eqb (fst (fst o)) key) (shapes_all N M l).
  Proof. intros. apply shapes_kind_all_filter. Qed.

  (* the matrix attached to a shape is the product of its ancestors' transform
     lists, outermost first, then its own = the matrix of the concatenated list *)
  Theorem C17_compose : forall tf kids k a M,
      In (k, a, M) (flatten_stack N (Group tf kids)) <->
      exists tfs, occurs (Group tf kids) tfs k a /\ M = tlist_spec N (concat tfs).
  Proof.
    intros tf kids k a M. split.
    - intros Hin. apply (Permutation_in _ (stack_is_rec N OK tf kids)) in Hin.
      apply (ref_compose N) in Hin. destruct Hin as (tfs & Ho & ->).
      exists tfs. split; [exact Ho|]. rewrite (chain_product N OK). apply (mmul_I_l N OK).
    - intros (tfs & Ho & ->).
      apply (Permutation_in _ (Permutation_sym (stack_is_rec N OK tf kids))).
      apply (ref_compose N). exists tfs. split; [exact Ho|].
      rewrite (chain_product N OK). symmetry. apply (mmul_I_l N OK).
  Qed.

  (* paths_from_group: exactly the group's subtree, with the product of ALL
     ancestors' transforms from the root *)
  Theorem C17_from_group : forall root target g Manc,
      subtree_at N root target (mI N) = Some (g, Manc) -> is_group g ->
      Permutation (from_group N root target) (flatten_ref N g Manc).
  Proof. exact (from_group_is_ref N OK). Qed.

  (* recursive=False: exactly the shapes that are children of the group itself,
     with the product of all ancestors' transforms, the group's and their own *)
  Theorem C17_from_group_nonrecursive : forall root target g Manc,
      subtree_at N root target (mI N) = Some (g, Manc) -> is_group g ->
      Permutation (from_group_nr N root target) (direct_ref N g Manc).
  Proof. exact (from_group_nr_is_ref N OK). Qed.

  (* Document.paths_from_group(element): as above when the group has children
     (pinned and repaired code) ... *)
  Theorem C17_paths_from_group_partial : forall c root target tf ch kids Manc,
      subtree_at N root target (mI N) = Some (Group tf (ch :: kids), Manc) ->
      Permutation (paths_from_group N c root target) (flatten_ref N (Group tf (ch :: kids)) Manc).
  Proof. exact (paths_from_group_is_ref N OK). Qed.
  (* ... and, repaired (f_group_empty), for every group *)
  Theorem C17_paths_from_group : forall c root target g Manc,
      f_group_empty c = true ->
      subtree_at N root target (mI N) = Some (g, Manc) -> is_group g ->
      Permutation (paths_from_group N c root target) (flatten_ref N g Manc).
  Proof. exact (paths_from_group_is_ref_repaired N OK). Qed.

  (* ---- shape conversion: converter + parse_path = SVG 1.1 §9 ----
     [c] is the variant of the code (Model/SvgTree.v cfg; pinned = all false) *)
  Theorem C17_shapes_path : forall c rt a, convert N c rt KPath a = shape_spec N KPath a.
  Proof. exact (convert_path N). Qed.
  Theorem C17_shapes_line_document : forall c a, convert N c RDocument KLine a = shape_spec N KLine a.
  Proof. exact (convert_line_document N). Qed.
  Theorem C17_shapes_line_svg2paths_partial : forall c a x1 y1 x2 y2,
      a_x1 a = Some x1 -> a_y1 a = Some y1 -> a_x2 a = Some x2 -> a_y2 a = Some y2 ->
      convert N c RSvg2paths KLine a = shape_spec N KLine a.
  Proof. exact (convert_line_svg2paths N). Qed.
  (* repaired (f_line_default, f_sax_line): every route, every attribute set *)
  Theorem C17_shapes_line : forall c rt a,
      f_line_default c = true -> f_sax_line c = true ->
      convert N c rt KLine a = shape_spec N KLine a.
  Proof. exact (convert_line_repaired N). Qed.
  Theorem C17_shapes_polyline : forall c rt a, convert N c rt KPolyline a = shape_spec N KPolyline a.
  Proof. exact (convert_polyline N CMP). Qed.
  Theorem C17_shapes_polygon : forall c rt a, convert N c rt KPolygon a = shape_spec N KPolygon a.
  Proof. exact (convert_polygon N CMP). Qed.
  Theorem C17_shapes_circle : forall c rt a r,
      a_r a = Some r -> pos N r = true -> convert N c rt KCircle a = shape_spec N KCircle a.
  Proof. exact (convert_circle N OK CMP). Qed.
  Theorem C17_shapes_ellipse : forall c rt a rx ry,
      a_r a = None -> a_rx a = Some rx -> a_ry a = Some ry -> pos N rx = true -> pos N ry = true ->
      convert N c rt KEllipse a = shape_spec N KEllipse a.
  Proof. exact (convert_ellipse N OK CMP). Qed.
  Theorem C17_shapes_rect_plain : forall c rt a w h,
      a_w a = Some w -> a_h a = Some h -> a_rx a = None -> a_ry a = None ->
      pos N w = true -> pos N h = true -> nonneg N (zero N) = true ->
      convert N c rt KRect a = shape_spec N KRect a.
  Proof. exact (convert_rect_plain N OK CMP). Qed.
  (* rounded, radii not larger than half the size: when the attributes reach
     rect2pathd — the dict routes (svg2paths, SaxDocument), or every route
     once the membership test is repaired (f_rect_attr) *)
  Theorem C17_shapes_rect_rounded_partial : forall c rt a w h rx ry,
      via_dict rt || f_rect_attr c = true ->
      a_w a = Some w -> a_h a = Some h ->
      (a_rx a = Some rx /\ a_ry a = Some ry) \/
      (a_rx a = Some rx /\ a_ry a = None /\ ry = rx) \/
      (a_rx a = None /\ a_ry a = Some ry /\ rx = ry) ->
      pos N w = true -> pos N h = true -> pos N rx = true -> pos N ry = true ->
      nonneg N rx = true -> nonneg N ry = true -> nonneg N (zero N) = true ->
      ltb N (half N w) rx = false -> ltb N (half N h) ry = false ->
      convert N c rt KRect a = shape_spec N KRect a.
  Proof. exact (convert_rect_rounded N CMP). Qed.
  (* repaired (f_rect_attr, f_rect_clamp): every route, every non-negative
     rx / ry (also larger than half the size, rx only, ry only), as long as the
     effective radii of SVG 1.1 §9.2 are not zero *)
  Theorem C17_shapes_rect : forall c rt a w h,
      via_dict rt || f_rect_attr c = true -> f_rect_clamp c = true ->
      a_w a = Some w -> a_h a = Some h ->
      (a_rx a <> None \/ a_ry a <> None) ->
      pos N w = true -> pos N h = true ->
      nonneg N (odef (zero N) (a_rx a)) = true -> nonneg N (odef (zero N) (a_ry a)) = true ->
      fst (rect_radii N w h (a_rx a) (a_ry a)) <> zero N ->
      snd (rect_radii N w h (a_rx a) (a_ry a)) <> zero N ->
      convert N c rt KRect a = shape_spec N KRect a.
  Proof. exact (convert_rect_clamped N CMP). Qed.

  (* ---- transform(): Bezier/Line segments get their control points mapped ---- *)
  Theorem C17_transform_bezier : forall c M l,
      existsb (@is_arc K) l = false ->
      exists l', apply_tf N c M l = Some l' /\
                 (M = mI N -> l' = l) /\ (M <> mI N -> l' = map (seg_affine N M) l).
  Proof. exact (apply_tf_bezier N CMP). Qed.
  Theorem C17_transform_identity : forall c l, apply_tf N c (mI N) l = Some l.
  Proof. exact (apply_tf_identity N CMP). Qed.
  (* the Arc branch raises under every non-identity matrix *)
  Theorem C17_transform_arc_raises : forall c M l,
      f_arc_tf c = false ->
      M <> mI N -> existsb (@is_arc K) l = true -> apply_tf N c M l = None.
  Proof. exact (apply_tf_arc_raises N CMP). Qed.
  (* repaired Arc branch (f_arc_tf): transform() never raises, the points of every
     segment (for an arc: its end points) are mapped; the arc's radii / rotation
     are property C10's *)
  Theorem C17_transform_total : forall c M l,
      f_arc_tf c = true ->
      exists l', apply_tf N c M l = Some l' /\
                 (M = mI N -> l' = l) /\ (M <> mI N -> l' = map (seg_affine N M) l).
  Proof. exact (apply_tf_total N CMP). Qed.

  (* ---- svg2paths: every element, transforms ignored, per-kind harvest ---- *)
  Theorem C17_svg2paths : forall root : @node K,
      Permutation (harvest root)
                  (map (fun o : @out K => (fst (fst o), snd (fst o))) (flatten_ref N root (mI N)))
      /\ forall k, filter (fun ka => kind_eqb (fst ka) k) (harvest root)
                   = filter (fun ka => kind_eqb (fst ka) k) (preorder root).
  Proof.
    intros root. split.
    - rewrite <- (preorder_ref N root (mI N)). apply harvest_perm.
    - intros k. apply harvest_kind_order.
  Qed.

  (* ---- SaxDocument ---- *)
  Theorem C17_sax_stack_is_rec : forall c root, sax_tree N c root = sax_rec N c root None.
  Proof. exact (sax_tree_rec N). Qed.
  Theorem C17_sax_order : forall c root,
      map (fun o : @saxout K => (fst (fst o), snd (fst o))) (sax_tree N c root) = preorder root.
  Proof. intros c root. rewrite (sax_tree_rec N). apply sax_rec_preorder. Qed.
  (* pinned line2pathd: a <line> anywhere in the file: the constructor raises (AttributeError) *)
  Theorem C17_sax_line_refuted : forall c root a,
      f_sax_line c = false ->
      In (KLine, a) (preorder root) -> sax_parse N c root = None.
  Proof. exact (sax_line_raises N). Qed.
  (* repaired order (f_sax_order): the recorded matrices are the reference's,
     element by element in the reference's order (no matrix = identity) *)
  Theorem C17_sax_matrix : forall c root,
      f_sax_order c = true ->
      map (fun o : @saxout K => (fst (fst o), snd (fst o), odefm N (snd o))) (sax_tree N c root)
      = flatten_ref N root (mI N).
  Proof. exact (sax_tree_ref N OK). Qed.
  (* repaired order and flatten (f_sax_order, f_sax_keep): flatten_all_paths is
     the reference traversal followed by conversion and transform() *)
  Theorem C17_sax_flatten : forall c root,
      f_sax_order c = true -> f_sax_keep c = true ->
      sax_flatten N c root = mapM (sax_ref_entry N c) (flatten_ref N root (mI N)).
  Proof. exact (sax_flatten_ref N OK CMP). Qed.
End C17.

(* ------------------------------------------------------------------ *)
(* witnesses in exact rationals                                         *)
Definition q (z : Z) : Qc := Q2Qc (inject_Z z).
(* exact comparison of computed values (Qc carries a canonicity proof, so
   syntactic equality is replaced by the decidable one) *)
Definition osegs_eq (a b : option (list qseg)) : bool :=
  match a, b with
  | Some x, Some y => lclose (seg_close (q 0) true) x y
  | None, None => true
  | _, _ => false
  end.
Definition mats_eq (a b : list qmat) : bool := lclose (mat_close (q 0)) a b.

(* <rect x=0 y=0 width=10 height=8 rx=2 ry=1/> *)
Definition rect_rounded : @attrs Qc :=
  mkAttrs 1 [] None None None (Some (q 2)) (Some (q 1)) (Some (q 0)) (Some (q 0))
          (Some (q 10)) (Some (q 8)) None None None None [].

(* Document hands the Element itself to rect2pathd: `'rx' in rect` looks at the
   children, the rounding is lost (4 lines instead of 4 lines + 4 arcs) *)
Example C17_shapes_rect_document_refuted :
  option_map (@length _) (convert N pinned RDocument KRect rect_rounded) = Some 4%nat
  /\ option_map (@length _) (shape_spec N KRect rect_rounded) = Some 8%nat
  /\ osegs_eq (convert N pinned RSvg2paths KRect rect_rounded) (shape_spec N KRect rect_rounded) = true.
Proof. vm_compute. repeat split. Qed.

(* rx larger than half the width is not clamped (SVG 1.1 §9.2) *)
Definition rect_big_rx : @attrs Qc :=
  mkAttrs 1 [] None None None (Some (q 8)) (Some (q 1)) (Some (q 0)) (Some (q 0))
          (Some (q 10)) (Some (q 8)) None None None None [].
Definition first_arc_rx (o : option (list (@seg Qc))) : option Qc :=
  match o with
  | Some (_ :: SgArc _ rx _ _ _ _ _ :: _) => Some rx
  | _ => None
  end.
Example C17_shapes_rect_clamp_refuted :
  option_map (@this) (first_arc_rx (convert N pinned RSvg2paths KRect rect_big_rx)) = Some (8 # 1)%Q
  /\ option_map (@this) (first_arc_rx (shape_spec N KRect rect_big_rx)) = Some (5 # 1)%Q.
Proof. vm_compute. split; reflexivity. Qed.

(* svg2paths: a <line> without x1 raises KeyError; SVG: x1 defaults to 0 *)
Definition line_no_x1 : @attrs Qc :=
  mkAttrs 1 [] None None None None None None None None None None None (Some (q 3)) (Some (q 4)) [].
Example C17_shapes_line_svg2paths_refuted :
  convert N pinned RSvg2paths KLine line_no_x1 = None
  /\ osegs_eq (shape_spec N KLine line_no_x1) (Some [SgLine (q 0, q 0) (q 3, q 4)]) = true
  /\ osegs_eq (convert N pinned RDocument KLine line_no_x1) (shape_spec N KLine line_no_x1) = true.
Proof. vm_compute. repeat split. Qed.

(* a circle under translate(1,1): Document.paths() raises *)
Definition circle1 : @attrs Qc :=
  mkAttrs 1 [] (Some (q 1)) (Some (q 2)) (Some (q 3)) None None None None None None None None None None [].
Definition tree_circle : qnode :=
  Group [] [Group [TTranslate (q 1) (Some (q 1))] [Shape KCircle circle1 []]].
Example C17_arc_transform_refuted :
  doc_paths N pinned tree_circle = None
  /\ length (ref_paths N tree_circle) = 1%nat
  /\ check_document pinned (q 0) tree_circle tree_circle None = 6%nat.   (* tie holds (bit 0 clear); count (2) and element 0 (4) fail *)
Proof. vm_compute. repeat split. Qed.

(* SaxDocument multiplies child · parent: <g translate(10,0)><g scale(2)><path/> *)
Definition path1 : @attrs Qc :=
  mkAttrs 1 [SgLine (q 0, q 0) (q 1, q 1)] None None None None None None None None None None None None None [].
Definition tree_nested : qnode :=
  Group [] [Group [TTranslate (q 10) (Some (q 0))] [Group [TScale (q 2) None] [Shape KPath path1 []]]].
Example C17_sax_matrix_refuted :
  mats_eq (map (fun o : @saxout Qc => match snd o with Some M => M | None => mI N end) (sax_tree N pinned tree_nested))
          [mat6 (q 2) (q 0) (q 0) (q 2) (q 20) (q 0)] = true
  /\ mats_eq (map (fun o : @out Qc => snd o) (flatten_ref N tree_nested (mI N)))
             [mat6 (q 2) (q 0) (q 0) (q 2) (q 10) (q 0)] = true
  /\ mats_eq (map (fun o : @out Qc => snd o) (flatten_stack N tree_nested))
             [mat6 (q 2) (q 0) (q 0) (q 2) (q 10) (q 0)] = true.
Proof. vm_compute. repeat split. Qed.

(* flatten_all_paths discards the transformed path *)
Example C17_sax_discard_refuted :
  tie_plain (q 0) (sax_flatten N pinned tree_nested) (Some [(1%nat, [SgLine (q 0, q 0) (q 1, q 1)])]) = true
  /\ tie_entries (q 0) (doc_paths N pinned tree_nested)
        (Some [(1%nat, [SgLine (q 10, q 0) (q 12, q 2)], mat6 (q 2) (q 0) (q 0) (q 2) (q 10) (q 0))]) = true.
Proof. vm_compute. repeat split. Qed.

(* Document.paths() does not return the elements in document order *)
Definition path2 : @attrs Qc :=
  mkAttrs 2 [SgLine (q 0, q 0) (q 1, q 3)] None None None None None None None None None None None None None [].
Definition tree_order : qnode := Group [] [Group [] [Shape KPath path1 []]; Shape KPath path2 []].
Example C17_stack_not_document_order :
  map (fun o : @out Qc => a_id (snd (fst o))) (flatten_stack N tree_order) = [2%nat; 1%nat]
  /\ map (fun o : @out Qc => a_id (snd (fst o))) (flatten_ref N tree_order (mI N)) = [1%nat; 2%nat].
Proof. vm_compute. split; reflexivity. Qed.

(* paths_from_group(element) for a group WITHOUT children returns the paths of
   the whole document (the element is mistaken for an empty list of names) *)
Definition tree_empty_group : qnode := Group [] [Shape KPath path1 []; Group [] []].
Example C17_paths_from_group_empty_refuted :
  map (fun o : @out Qc => a_id (snd (fst o))) (paths_from_group N pinned tree_empty_group [1%nat]) = [1%nat]
  /\ option_map (@length _) (ref_from_group N tree_empty_group [1%nat]) = Some 0%nat.
Proof. vm_compute. split; reflexivity. Qed.

(* the same witnesses on the repaired variant: the discrepancies are gone *)
Example C17_repaired_witnesses :
  osegs_eq (convert N repaired RDocument KRect rect_rounded) (shape_spec N KRect rect_rounded) = true
  /\ osegs_eq (convert N repaired RSvg2paths KRect rect_big_rx) (shape_spec N KRect rect_big_rx) = true
  /\ osegs_eq (convert N repaired RSvg2paths KLine line_no_x1) (shape_spec N KLine line_no_x1) = true
  /\ osegs_eq (convert N repaired RSax KLine line_no_x1) (shape_spec N KLine line_no_x1) = true
  /\ length (paths_from_group N repaired tree_empty_group [1%nat]) = 0%nat
  /\ mats_eq (map (fun o : @saxout Qc => odefm N (snd o)) (sax_tree N repaired tree_nested))
             (map (fun o : @out Qc => snd o) (flatten_ref N tree_nested (mI N))) = true
  /\ tie_plain (q 0) (sax_flatten N repaired tree_nested) (Some [(1%nat, [SgLine (q 10, q 0) (q 12, q 2)])]) = true
  (* repaired Arc branch: the circle under translate(1,1) is returned *)
  /\ option_map (@length _) (doc_paths N repaired tree_circle) = Some 1%nat.
Proof. vm_compute. repeat split. Qed.

(* non-vacuity: a mixed tree on which everything agrees *)
Definition poly3 : @attrs Qc :=
  mkAttrs 3 [] None None None None None None None None None None None None None
          [(q 0, q 0); (q 1, q 0); (q 1, q 1)].
Definition tree_mixed : qnode :=
  Group [TScale (q 2) None]
        [Shape KPolygon poly3 [TTranslate (q 1) None];
         Group [TRotate (q 0) (q 1) (Some (q 1, q 1))] [Shape KPath path1 [TSkewX (q 1)]]].
Example C17_nonvacuous :
  check_document pinned (q 0) tree_mixed tree_mixed
     (option_map (map (fun r => r)) (doc_paths N pinned tree_mixed)) = 0%nat
  /\ option_map (@length _) (doc_paths N pinned tree_mixed) = Some 2%nat.
Proof. vm_compute. split; reflexivity. Qed.

(* the generic theorems hold in particular over R and over the rationals the
   correspondence check computes in *)
Definition C17_stack_at_R := C17_stack_is_rec NumR NumR_ok.
Definition C17_stack_at_Q := C17_stack_is_rec NumQ NumQ_ok.
Definition C17_polygon_at_Q := C17_shapes_polygon NumQ NumQ_cmp.
Definition C17_circle_at_Q := C17_shapes_circle NumQ NumQ_ok NumQ_cmp.
Definition C17_circle_at_R := C17_shapes_circle NumR NumR_ok NumR_cmp.

Print Assumptions C17_titem.
Print Assumptions C17_titem_rotate_centre.
Print Assumptions C17_titem_points.
Print Assumptions C17_titem_bad_counts.
Print Assumptions C17_transform_list.
Print Assumptions C17_transform_list_points.
Print Assumptions C17_stack_is_rec.
Print Assumptions C17_stack_order.
Print Assumptions C17_compose.
Print Assumptions C17_from_group.
Print Assumptions C17_from_group_nonrecursive.
Print Assumptions C17_paths_from_group_partial.
Print Assumptions C17_paths_from_group.
Print Assumptions C17_shapes_line.
Print Assumptions C17_shapes_rect.
Print Assumptions C17_sax_matrix.
Print Assumptions C17_sax_flatten.
Print Assumptions C17_repaired_witnesses.
Print Assumptions C17_paths_from_group_empty_refuted.
Print Assumptions C17_shapes_polyline.
Print Assumptions C17_shapes_polygon.
Print Assumptions C17_shapes_circle.
Print Assumptions C17_shapes_ellipse.
Print Assumptions C17_shapes_rect_plain.
Print Assumptions C17_shapes_rect_rounded_partial.
Print Assumptions C17_transform_bezier.
Print Assumptions C17_transform_arc_raises.
Print Assumptions C17_transform_total.
Print Assumptions C17_svg2paths.
Print Assumptions C17_sax_stack_is_rec.
Print Assumptions C17_sax_order.
Print Assumptions C17_sax_line_refuted.
Print Assumptions C17_shapes_rect_document_refuted.
Print Assumptions C17_shapes_rect_clamp_refuted.
Print Assumptions C17_shapes_line_svg2paths_refuted.
Print Assumptions C17_arc_transform_refuted.
Print Assumptions C17_sax_matrix_refuted.
Print Assumptions C17_sax_discard_refuted.
Print Assumptions C17_stack_at_Q.
Print Assumptions C17_circle_at_Q.
Print Assumptions C17_stack_at_R.
Print Assumptions C17_circle_at_R.
