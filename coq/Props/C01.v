(* Props/C01.v — property C01: Path.d() output parses back to the same path,
   under every option.  Only statements, `exact`, closed witnesses by
   vm_compute, and Print Assumptions live here.

   Models: Model/Dstr.v (d_cmds = Path.d with is_smooth_from, iscontinuous,
   isclosed; eight variants (zfix, sfix, mfix), (false,false,false) is the
   pinned code), Model/DstrText.v (the characters; repr/float are oracles),
   Model/Parse.v and Model/Lexer.v (the parser and tokenizer of C02, imported).
   roundtrip none_ok coinc_ok zfix sfix mfix useST closeZ rel p
     = impl_parse none_ok coinc_ok (flatten (d_cmds zfix sfix mfix useST closeZ rel p)) 0.
   Proofs: Proofs/DstrRun.v DstrLaws.v DstrSim.v DstrLoop.v DstrShape.v
   DstrText.v DstrFloat.v DstrThm.v.

   Which variant of d_cmds the code of /repo is, is established on every run
   by the correspondence check (tools/harness/c01.py, evidence field
   code_is_variant), which then names the applicable theorems. *)
From Coq Require Import ZArith QArith Qcanon List Bool Ascii String PrimFloat.
From SVP Require Import Base.Num Base.Cplx Base.FloatK Model.Parse Model.Lexer Model.Dstr Model.DstrText
     Proofs.ParseRefine Proofs.LexerRender Proofs.DstrRun Proofs.DstrLaws Proofs.DstrSim
     Proofs.DstrLoop Proofs.DstrShape Proofs.DstrText Proofs.DstrFloat Proofs.DstrThm.
Import ListNotations.
Local Open Scope list_scope.

(* ================================================================== *)
(* Theorems: every path, of any length                                 *)
(* ================================================================== *)
Section C01.
  Context {K : Type} (N : Num K).
  Variables none_ok coinc_ok : bool.       (* which parser variant (C02): immaterial *)

  (* ---- absolute form, no shorthands, no 'Z': pure data movement.  Asked of
     the carrier: `==` symmetric and transitive, 1 <> 0, 0 == 0 — no arithmetic.
     Holds for every variant of the serialiser, hence for the pinned code, and
     verbatim for binary64 (C01_abs_noST_binary64 below). *)
  Theorem C01_abs_noST : forall zfix sfix mfix (E : EqbOK N) p,
      path_wf N p = true ->
      exists q, roundtrip N none_ok coinc_ok zfix sfix mfix false false false p = Ok q
                /\ segs_eqb N q p = true.
  Proof. exact (abs_noST N none_ok coinc_ok). Qed.

  (* the same when `==` is Leibniz equality: the very same path *)
  Theorem C01_abs_noST_leibniz : forall zfix sfix mfix (X : LeibnizOK N) p,
      path_wf N p = true ->
      roundtrip N none_ok coinc_ok zfix sfix mfix false false false p = Ok p.
  Proof. exact (abs_noST_leibniz N none_ok coinc_ok). Qed.

  (* ---- absolute form with S/T, the test of is_smooth_from AS WRITTEN
     ((control1 - start) == (previous.end - previous.control2)): under the one
     arithmetic law  c1 - s = s - c2 -> (s + s) - c2 = c1  (ReflectOK).  True in
     every abelian group (C01_abs_ST_Q/_R); refuted for binary64
     (C01_ST_float_refuted). *)
  Theorem C01_abs_ST : forall zfix sfix mfix (X : LeibnizOK N) (Rf : ReflectOK N) useST p,
      path_wf N p = true ->
      roundtrip N none_ok coinc_ok zfix sfix mfix useST false false p = Ok p.
  Proof. exact (abs_ST N none_ok coinc_ok). Qed.

  (* ---- absolute form with S/T, the REPAIRED test (the parser's own
     expression): no arithmetic law beyond  a - b == x, b == b' -> a - b' == x
     (chains of T); valid verbatim for binary64 *)
  Theorem C01_abs_ST_fixed : forall zfix sfix mfix (E : EqbOK N) (Sc : SubCongOK N) useST p,
      sfix = true -> path_wf N p = true ->
      exists q, roundtrip N none_ok coinc_ok zfix sfix mfix useST false false p = Ok q
                /\ segs_eqb N q p = true.
  Proof. exact (abs_ST_fixed N none_ok coinc_ok). Qed.

  (* ---- use_closed_attrib, any variant: proved when the closing segment of a
     closed path is a Line (closing_ok; void once zfix) and no S/T directly
     follows a re-emitted 'M' (restart_ok; void once mfix, or without useSandT) *)
  Theorem C01_closeZ_partial : forall zfix sfix mfix (E : EqbOK N) useST p,
      (useST = false \/ (sfix = true /\ SubCongOK N) \/ (LeibnizOK N /\ ReflectOK N)) ->
      path_wf N p = true -> closing_ok N zfix true p -> restart_ok N sfix mfix useST zfix true p ->
      exists q, roundtrip N none_ok coinc_ok zfix sfix mfix useST true false p = Ok q
                /\ segs_eqb N q p = true.
  Proof. exact (closeZ_partial N none_ok coinc_ok). Qed.

  (* ---- the three repairs together: the full absolute statement, all four
     (useSandT, use_closed_attrib) combinations, valid verbatim for binary64 *)
  Theorem C01_abs_fixed : forall (E : EqbOK N) (Sc : SubCongOK N) useST closeZ p,
      path_wf N p = true ->
      exists q, roundtrip N none_ok coinc_ok true true true useST closeZ false p = Ok q
                /\ segs_eqb N q p = true.
  Proof. intros E Sc. exact (fixed_all N E Sc none_ok coinc_ok). Qed.

  (* ---- all eight option sets over an exact carrier (abelian group, decidable
     equality): the pinned code under the two side conditions, ... *)
  Theorem C01_rel_exact : forall zfix sfix mfix (X : ExactOK N) (Rf : ReflectOK N) useST closeZ rel p,
      path_wf N p = true -> closing_ok N zfix closeZ p -> restart_ok N sfix mfix useST zfix closeZ p ->
      roundtrip N none_ok coinc_ok zfix sfix mfix useST closeZ rel p = Ok p.
  Proof. exact (rel_exact N none_ok coinc_ok). Qed.
  (* ... the repaired code unconditionally *)
  Theorem C01_fixed_exact : forall (X : ExactOK N) (Rf : ReflectOK N) useST closeZ rel p,
      path_wf N p = true ->
      roundtrip N none_ok coinc_ok true true true useST closeZ rel p = Ok p.
  Proof. intros X Rf. exact (fixed_all_exact N X Rf none_ok coinc_ok). Qed.

  (* ---- everything at once *)
  Theorem C01_roundtrip_general : forall zfix sfix mfix (E : EqbOK N) useST closeZ rel p,
      (rel = false \/ ExactOK N) ->
      (useST = false \/ (sfix = true /\ SubCongOK N) \/ (LeibnizOK N /\ ReflectOK N)) ->
      path_wf N p = true -> closing_ok N zfix closeZ p -> restart_ok N sfix mfix useST zfix closeZ p ->
      exists q, roundtrip N none_ok coinc_ok zfix sfix mfix useST closeZ rel p = Ok q
                /\ segs_eqb N q p = true.
  Proof. exact (roundtrip_general N none_ok coinc_ok). Qed.

  (* ---- kinds, order, arc flags: ANY carrier, all eight option sets, every
     variant; no law of arithmetic or of `==` (only 1 <> 0, 0 == 0 for the
     flags).  Every segment written is read back as a segment of the same kind
     and flags, in order; nothing is added except at most one closing Line
     after a 'Z'.  (Asked: no arc collapses under the rounding of relative
     offsets — the parser's known treatment of such arcs is C02's.) *)
  Theorem C01_shape : forall (F1 : eqb N (one N) (zero N) = false) (F0 : eqb N (zero N) (zero N) = true)
      sfix mfix useST rel zfix closeZ p,
      forallb (radii_ok N) p = true -> d_segments N zfix closeZ p <> [] ->
      no_arc_collapse N rel zfix closeZ p = true ->
      exists q cl,
        roundtrip N none_ok coinc_ok zfix sfix mfix useST closeZ rel p = Ok q
        /\ map shape_of q = map shape_of (d_segments N zfix closeZ p) ++ cl
        /\ (cl = [] \/ (cl = [KLine] /\ closeZ = true)).
  Proof. intros F1 F0. exact (roundtrip_shape N F1 F0 none_ok coinc_ok). Qed.

  Theorem C01_shape_open : forall (F1 : eqb N (one N) (zero N) = false) (F0 : eqb N (zero N) (zero N) = true)
      zfix sfix mfix useST rel p,
      p <> [] -> forallb (radii_ok N) p = true -> no_arc_collapse N rel zfix false p = true ->
      exists q, roundtrip N none_ok coinc_ok zfix sfix mfix useST false rel p = Ok q
                /\ map shape_of q = map shape_of p.
  Proof. intros F1 F0. exact (shape_open N F1 F0 none_ok coinc_ok). Qed.

  (* ---- the characters: with repr/float as oracles satisfying their contract
     on the numbers written, tokenizing the d-string gives the tokens of d_cmds
     (instance of C02's rendering theorem), so every statement above is about
     parse_path(p.d(...)) on strings *)
  Theorem C01_text_roundtrip : forall (fmt : K -> numeral) (unfmt : list ascii -> K)
      zfix sfix mfix useST closeZ rel p,
      unfmt ["1"%char] = one N -> unfmt ["0"%char] = zero N ->
      Forall (cmd_printable fmt unfmt) (d_cmds N zfix sfix mfix useST closeZ rel p) ->
      roundtrip_text N (fun x => ntext (fmt x)) unfmt none_ok coinc_ok zfix sfix mfix useST closeZ rel p
      = roundtrip N none_ok coinc_ok zfix sfix mfix useST closeZ rel p.
  Proof. intros fmt unfmt. exact (text_roundtrip N fmt unfmt none_ok coinc_ok). Qed.
End C01.

(* the d-string MEANS the path: C02's refinement theorem transports the round
   trip to the reference interpreter of SVG 1.1 §8.3 *)
Theorem C01_spec_meaning : forall {K} (N : Num K) (L : ParseLawsOK N) (X : ExactOK N) (Rf : ReflectOK N)
    zfix sfix mfix useST closeZ rel p,
    path_wf N p = true -> closing_ok N zfix closeZ p -> restart_ok N sfix mfix useST zfix closeZ p ->
    spec_run N (c0 N) (d_cmds N zfix sfix mfix useST closeZ rel p) = p.
Proof. intros K N. exact (spec_meaning N). Qed.

(* ---- instances ---- *)
Definition C01_rel_exact_Q := fun z s m => C01_rel_exact NumQ false false z s m exact_Q reflect_Q.
Definition C01_rel_exact_R := fun z s m => C01_rel_exact NumR false false z s m exact_R reflect_R.
Definition C01_abs_ST_Q := fun z s m => C01_abs_ST NumQ false false z s m (ex_lz NumQ exact_Q) reflect_Q.
Definition C01_abs_ST_R := fun z s m => C01_abs_ST NumR false false z s m (ex_lz NumR exact_R) reflect_R.
Definition C01_spec_meaning_Q := C01_spec_meaning NumQ parse_laws_Q exact_Q reflect_Q.
(* binary64: the absolute theorems hold verbatim (from the specification of
   Coq's primitive floats) *)
Definition C01_abs_noST_binary64 := fun z s m => C01_abs_noST NumF false false z s m NumF_eqb_ok.
Definition C01_abs_ST_fixed_binary64 := fun z s m => C01_abs_ST_fixed NumF false false z s m NumF_eqb_ok NumF_subcong.
Definition C01_abs_fixed_binary64 := C01_abs_fixed NumF false false NumF_eqb_ok NumF_subcong.

(* ================================================================== *)
(* The pinned code violates the full statement: witnesses              *)
(* ================================================================== *)
Definition rt_ok {K} (N : Num K) (r : result (list (seg K))) (p : list (seg K)) : bool :=
  match r with Ok q => segs_eqb N q p | Err _ => false end.
Definition is_err {K} (r : result (list (seg K))) (e : perr) : bool :=
  match r with Err f => perr_eqb e f | Ok _ => false end.

(* ---- S/T in binary64: the test of is_smooth_from holds, the parser's
   reflection gives a different double ---- *)
Definition fs : float := 0x1.248dee7a5a1dap+3%float.
Definition fc2 : float := (-0x1.3c589dc14e095p+3)%float.
Definition fc1 : float := 0x1.c2ba3d5b01225p+4%float.
Definition pF_prev : seg float := Cubic (0, 0)%float (1, 0)%float (fc2, 0%float) (fs, 0%float).
Definition pF : list (seg float) :=
  [pF_prev; Cubic (fs, 0%float) (fc1, 0%float) (5, 0)%float (6, 1)%float].
Example C01_ST_float_refuted :
  path_wf NumF pF = true
  (* the code's test says "smooth": (c1 - s) == (s - c2) *)
  /\ cubic_smooth NumF false (Some pF_prev) (fs, 0%float) (fc1, 0%float) = true
  /\ PrimFloat.eqb (PrimFloat.sub fc1 fs) (PrimFloat.sub fs fc2) = true
  (* the parser's expression (s + s) - c2 is the neighbouring double *)
  /\ PrimFloat.sub (PrimFloat.add fs fs) fc2 = 0x1.c2ba3d5b01224p+4%float
  /\ PrimFloat.eqb (PrimFloat.sub (PrimFloat.add fs fs) fc2) fc1 = false
  (* so parse_path(p.d(useSandT=True)) != p for the pinned test ... *)
  /\ rt_ok NumF (roundtrip NumF false false false false false true false false pF) pF = false
  (* ... and == p for the repaired test (which writes 'C' here) *)
  /\ rt_ok NumF (roundtrip NumF false false false true false true false false pF) pF = true.
Proof. repeat split; vm_compute; reflexivity. Qed.

(* the law ReflectOK is false in binary64 *)
Theorem C01_reflect_law_float_refuted : ~ ReflectOK NumF.
Proof.
  intros R. specialize (R fc1 fs fc2). cbn [NumF sub add] in R.
  assert (E : PrimFloat.sub fc1 fs = PrimFloat.sub fs fc2) by (vm_compute; reflexivity).
  specialize (R E).
  assert (B : PrimFloat.eqb (PrimFloat.sub (PrimFloat.add fs fs) fc2) fc1 = true)
    by (rewrite R; vm_compute; reflexivity).
  vm_compute in B. discriminate B.
Qed.

(* ---- relative form in binary64: the documented closing Line of rounding-error
   length after a 'Z' that follows a curve (repaired serialiser, which writes
   the closing curve): kinds and order are those of C01_shape with cl = [KLine] ---- *)
Definition pR : list (seg float) :=
  [Line (0x1.3cccccccccccdp+3, -0x1.ccccccccccccdp+1)%float (0x1.acccccccccccdp+2, -0x1.1333333333333p+3)%float;
   Cubic (0x1.acccccccccccdp+2, -0x1.1333333333333p+3)%float (-0x1.799999999999ap+2, -0x1.c666666666666p+2)%float
         (-0x1.999999999999ap-2, 0x1.0cccccccccccdp+1)%float (0x1.3cccccccccccdp+3, -0x1.ccccccccccccdp+1)%float].
Example C01_rel_closing_line_float :
  path_wf NumF pR = true
  /\ match roundtrip NumF false false true true true false true true pR with
     | Ok q => map shape_of q = [KLine; KCubic; KLine]
               /\ match last q (Line (0,0)%float (0,0)%float) with
                  | Line s e => PrimFloat.eqb (fst s) (fst e) = true          (* same abscissa *)
                                /\ PrimFloat.sub (snd s) (snd e) = 0x1p-51%float (* one ulp of drift *)
                  | _ => False end
     | Err _ => False end
  (* in absolute form the same path round-trips exactly *)
  /\ rt_ok NumF (roundtrip NumF false false true true true false true false pR) pR = true.
Proof. vm_compute. repeat split. Qed.

(* ---- exact rationals for the structural witnesses ---- *)
Definition qz (n : Z) : Qc := Q2Qc (inject_Z n).
Definition P (a b : Z) : Cplx Qc := (qz a, qz b).
Definition rtQ := roundtrip NumQ false false.

(* closed by a cubic: the cubic is dropped, re-parsing yields a Line in its place *)
Definition w_closing_cubic : list (seg Qc) :=
  [Line (P 0 0) (P 1 0); Line (P 1 0) (P 1 1); Cubic (P 1 1) (P 2 2) (P (-1) 1) (P 0 0)].
Example C01_closeZ_closing_curve_refuted :
  path_wf NumQ w_closing_cubic = true
  /\ rt_ok NumQ (rtQ false false false false true false w_closing_cubic)
       [Line (P 0 0) (P 1 0); Line (P 1 0) (P 1 1); Line (P 1 1) (P 0 0)] = true
  /\ rt_ok NumQ (rtQ false false false false true true w_closing_cubic)
       [Line (P 0 0) (P 1 0); Line (P 1 0) (P 1 1); Line (P 1 1) (P 0 0)] = true
  (* the repaired serialiser keeps it, in all eight option sets *)
  /\ forallb (fun o : bool * bool * bool => let '(u, z, r) := o in
               rt_ok NumQ (rtQ true true true u z r w_closing_cubic) w_closing_cubic)
       [(false,false,false); (false,false,true); (false,true,false); (false,true,true);
        (true,false,false); (true,false,true); (true,true,false); (true,true,true)] = true.
Proof. vm_compute. repeat split. Qed.

(* a single closed curve: the d-string is 'Z' alone (Python then builds
   Line(0j, None); the parser model stops with StartNone) *)
Definition w_single_closed_curve : list (seg Qc) := [Cubic (P 0 0) (P 2 2) (P (-1) 1) (P 0 0)].
Example C01_closeZ_single_curve_refuted :
  path_wf NumQ w_single_closed_curve = true
  /\ d_cmds NumQ false false false false true false w_single_closed_curve = [Close true]
  /\ is_err (rtQ false false false false true false w_single_closed_curve) StartNone = true
  /\ rt_ok NumQ (rtQ true false false false true false w_single_closed_curve) w_single_closed_curve = true.
Proof. vm_compute. repeat split. Qed.

(* S directly after a re-emitted 'M': the parser takes the current point as
   first control point, the reflected one is lost *)
Definition w_smooth_after_move : list (seg Qc) :=
  [Cubic (P 0 0) (P 1 1) (P 2 1) (P 3 0); Cubic (P 3 0) (P 4 (-1)) (P (-1) (-2)) (P 0 0);
   Cubic (P 0 0) (P 1 2) (P 5 5) (P 6 1); Line (P 6 1) (P 0 0)].
Example C01_smooth_after_moveto_refuted :
  path_wf NumQ w_smooth_after_move = true /\ closing_ok NumQ false true w_smooth_after_move
  /\ rt_ok NumQ (rtQ false false false true true false w_smooth_after_move)
       [Cubic (P 0 0) (P 1 1) (P 2 1) (P 3 0); Cubic (P 3 0) (P 4 (-1)) (P (-1) (-2)) (P 0 0);
        Cubic (P 0 0) (P 0 0) (P 5 5) (P 6 1); Line (P 6 1) (P 0 0)] = true
  /\ rt_ok NumQ (rtQ false false false true true false w_smooth_after_move) w_smooth_after_move = false
  (* without useSandT, or with previous_segment forgotten at an 'M': fine *)
  /\ rt_ok NumQ (rtQ false false false false true false w_smooth_after_move) w_smooth_after_move = true
  /\ rt_ok NumQ (rtQ false false true true true false w_smooth_after_move) w_smooth_after_move = true
  /\ rt_ok NumQ (rtQ false false true true true true w_smooth_after_move) w_smooth_after_move = true.
Proof. vm_compute. repeat split. right. intros _. reflexivity. Qed.

(* ================================================================== *)
(* Non-vacuity                                                         *)
(* ================================================================== *)
(* three subpaths: closed by a Line (with an arc), closed by a curve (with an
   S-eligible join), open (with a T-eligible join) *)
Definition w3 : list (seg Qc) :=
  [Line (P 0 0) (P 4 0); Arc (P 4 0) (P 2 1) (qz 30) true false (P 4 4); Line (P 4 4) (P 0 0);
   Cubic (P 10 10) (P 12 14) (P 14 14) (P 16 10); Cubic (P 16 10) (P 18 6) (P 12 2) (P 10 10);
   Quad (P 20 0) (P 22 4) (P 24 0); Quad (P 24 0) (P 26 (-4)) (P 28 0); Line (P 28 0) (P 30 5)].
Definition has_ST (prog : list (command Qc)) : bool :=
  existsb (fun c => match c with SmoothTo _ _ => true | _ => false end) prog
  && existsb (fun c => match c with TTo _ _ => true | _ => false end) prog.
Definition all8 : list (bool * bool * bool) :=
  [(false,false,false); (false,false,true); (false,true,false); (false,true,true);
   (true,false,false); (true,false,true); (true,true,false); (true,true,true)].
Example C01_nonvacuous :
  path_wf NumQ w3 = true
  /\ (forall z c, closing_ok NumQ z c w3)
  /\ (forall s m u z c, restart_ok NumQ s m u z c w3)
  (* the pinned code writes S and T for it, and all eight option sets round-trip *)
  /\ has_ST (d_cmds NumQ false false false true false false w3) = true
  /\ forallb (fun o : bool * bool * bool => let '(u, z, r) := o in
               rt_ok NumQ (rtQ false false false u z r w3) w3) all8 = true
  /\ List.length (d_cmds NumQ false false false true true true w3) = 11%nat.
Proof.
  split; [vm_compute; reflexivity|]. split; [|split; [|vm_compute; repeat split]].
  - intros z c. right. destruct c; vm_compute; intros H; discriminate H.
  - intros s m u z c. right. destruct s, u, z, c; vm_compute; reflexivity.
Qed.

(* a closed path whose closing segment is a Line and which revisits its start:
   the hypotheses of C01_closeZ_partial hold for the pinned code *)
Definition w_revisit : list (seg Qc) :=
  [Line (P 0 0) (P 1 0); Line (P 1 0) (P 0 0); Line (P 0 0) (P 0 1); Line (P 0 1) (P 0 0)].
Example C01_closeZ_nonvacuous :
  path_wf NumQ w_revisit = true /\ closing_ok NumQ false true w_revisit
  /\ restart_ok NumQ false false true false true w_revisit
  /\ self_closed_of NumQ true (Line (P 0 0) (P 1 0)) (tl w_revisit) = true
  /\ List.length (d_cmds NumQ false false false true true false w_revisit) = 6%nat  (* M L L M L Z *)
  /\ rt_ok NumQ (rtQ false false false true true false w_revisit) w_revisit = true
  /\ rt_ok NumQ (rtQ false false false true true true w_revisit) w_revisit = true.
Proof.
  split; [vm_compute; reflexivity|]. split; [right; intros _; reflexivity|].
  split; [right; vm_compute; reflexivity|]. vm_compute. repeat split.
Qed.

(* the characters of a d-string, with a toy formatter on small integers *)
Local Open Scope char_scope.
Definition toy_fmt (x : Qc) : numeral :=
  let z := Qnum (this x) in
  mkNumeral (if (z <? 0)%Z then Some true else None)
            [ascii_of_nat (48 + Z.to_nat (Z.abs z))] ["0"] None.
Example C01_text_nonvacuous :
  String.string_of_list_ascii
    (d_text NumQ (fun x => ntext (toy_fmt x)) false false false true false true
       [Line (P 1 2) (P 3 2); Arc (P 3 2) (P 2 1) (qz 0) true false (P 4 4)])
  = "m 1.0,2.0 l 2.0,0.0 a 2.0,1.0 0.0 1,0 1.0,2.0"%string.
Proof. vm_compute. reflexivity. Qed.

Print Assumptions C01_abs_noST.
Print Assumptions C01_abs_noST_leibniz.
Print Assumptions C01_abs_ST.
Print Assumptions C01_abs_ST_fixed.
Print Assumptions C01_closeZ_partial.
Print Assumptions C01_abs_fixed.
Print Assumptions C01_rel_exact.
Print Assumptions C01_fixed_exact.
Print Assumptions C01_roundtrip_general.
Print Assumptions C01_shape.
Print Assumptions C01_shape_open.
Print Assumptions C01_text_roundtrip.
Print Assumptions C01_spec_meaning.
Print Assumptions C01_rel_exact_Q.
Print Assumptions C01_rel_exact_R.
Print Assumptions C01_abs_ST_Q.
Print Assumptions C01_spec_meaning_Q.
Print Assumptions C01_abs_noST_binary64.
Print Assumptions C01_abs_ST_fixed_binary64.
Print Assumptions C01_abs_fixed_binary64.
Print Assumptions C01_ST_float_refuted.
Print Assumptions C01_reflect_law_float_refuted.
Print Assumptions C01_rel_closing_line_float.
Print Assumptions C01_closeZ_closing_curve_refuted.
Print Assumptions C01_closeZ_single_curve_refuted.
Print Assumptions C01_smooth_after_moveto_refuted.
Print Assumptions C01_nonvacuous.
Print Assumptions C01_closeZ_nonvacuous.
