(* Props/C12.v — property C12: every transversal crossing is reported, exactly
   once.  Statements only; proofs in Proofs/IsectAlg.v, IsectMachine.v, IsectR.v.
   `_refuted` = the faithful model of the CURRENT code violates the statement on
   the given witness (each witness also replays on the implementation, see
   tools/harness/c12.py). *)
From Coq Require Import ZArith QArith Qcanon List Bool Reals.
From SVP Require Import Base.Num Base.Cplx Base.Poly Model.Bezier Model.BezierN Model.Isect
     Proofs.Roots Proofs.IsectAlg Proofs.IsectMachine Proofs.IsectR.
Import ListNotations.

Section C12_field.
  Context {K : Type} (N : Num K) (OK : NumFieldOK N).

  (* Line–Line: when the denominator is not snapped to zero, a common point at
     parameters in [0,1] is returned, and it is the only pair returned *)
  Theorem C12_line_line_complete : forall atol p0 p1 q0 q1 s1 s2,
      leb N (nabs N (zero N)) atol = true ->
      ceqb N q1 q0 || ceqb N p1 p0 = false ->
      ceqb N p0 q0 && ceqb N p1 q1 = false ->
      leb N (nabs N (line_line_denom N p0 p1 q0 q1)) atol = false ->
      in01 N s1 = true -> in01 N s2 = true ->
      line_point N p0 p1 s1 = line_point N q0 q1 s2 ->
      line_line N atol p0 p1 q0 q1 = IOk [(s1, s2)].
  Proof. exact (line_line_complete N OK). Qed.

  (* Bezier–Line: every crossing parameter is an exact root of the y-polynomial
     and its x-value is s*len ... *)
  Theorem C12_crossing_is_root : forall len bez l0 l1 t s,
      deg123 bez -> len <> zero N -> cnorm2 N (csub N l1 l0) <> zero N ->
      bezier_point N bez t = line_point N l0 l1 s ->
      peval N (bl_coeffs_y N len bez l0 l1) t = zero N /\ bl_xval N len bez l0 l1 t = mul N s len.
  Proof. exact (crossing_is_root N OK). Qed.
  (* ... so completeness reduces to the root list: a crossing whose parameter is
     in the list handed to the selection loop is reported, as (t, s) *)
  Theorem C12_bezier_line_complete :
      (forall x y : K, eqb N x y = true <-> x = y) ->
      forall len bez l0 l1 roots t s,
      deg123 bez -> len <> zero N -> cnorm2 N (csub N l1 l0) <> zero N ->
      In t roots -> bezier_point N bez t = line_point N l0 l1 s ->
      leb N (zero N) (mul N s len) = true -> leb N (mul N s len) len = true ->
      In (t, s) (bl_select N len bez l0 l1 roots).
  Proof. exact (bezier_line_complete N OK). Qed.
  (* REPAIRED polyroots (flag true, /repo 48a8a6b): nothing has to be assumed about
     the de-duplication any more — a crossing parameter that is among the real roots
     in [0,1] returned by the oracle, and is not close to an EARLIER one of them,
     is reported *)
  Theorem C12_bezier_line_complete_fixed :
      (forall x y : K, eqb N x y = true <-> x = y) ->
      forall rtol atol raw len bez l0 l1 r1 t r2 s,
      deg123 bez -> len <> zero N -> cnorm2 N (csub N l1 l0) <> zero N ->
      filter (in01 N) (map fst (filter (fun z => isclose N rtol atol (snd z) (zero N)) raw)) = r1 ++ t :: r2 ->
      (forall y, In y r1 -> isclose N rtol atol y t = false) -> isclose N rtol atol t t = true ->
      bezier_point N bez t = line_point N l0 l1 s ->
      leb N (zero N) (mul N s len) = true -> leb N (mul N s len) len = true ->
      In (t, s) (bl_select N len bez l0 l1 (polyroots01_of N true rtol atol raw)).
  Proof. exact (bezier_line_complete_fixed N OK). Qed.
End C12_field.

Section C12_any.
  Context {K : Type} (N : Num K).

  (* each root is used once (set()) *)
  Theorem C12_bezier_line_once : (forall x y : K, eqb N x y = true <-> x = y) ->
      forall len bez l0 l1 roots, NoDup (map fst (bl_select N len bez l0 l1 roots)).
  Proof. exact (bl_select_once N). Qed.
  (* the de-duplication of polyroots is the identity when no two roots are
     "close" (|r1-r2| < atol + rtol |r2|): in general position nothing is lost *)
  Theorem C12_dedup_noclose : forall rtol atol roots,
      (forall r1 r2, In (r1, r2) (combinations2 roots) -> isclose N rtol atol r1 r2 = false) ->
      dedup_as_coded N rtol atol roots = roots.
  Proof. exact (dedup_noclose N). Qed.
  (* the repaired de-duplication keeps every root that is not close to an earlier
     one, exactly once (Proofs/Roots.v) *)
  Theorem C12_dedup_fixed_keeps_isolated : forall rtol atol l1 x l2,
      (forall y, In y l1 -> isclose N rtol atol y x = false) -> isclose N rtol atol x x = true ->
      exists o1 o2, dedup N true rtol atol (l1 ++ x :: l2) = o1 ++ x :: o2 /\ ~ In x o1 /\ ~ In x o2.
  Proof. exact (dedup_fixed_keeps_isolated N). Qed.

  (* subdivision, one level on which nothing is reported: no pair is skipped,
     every pair whose boxes intersect is replaced by its four children *)
  Theorem C12_subdiv_complete_partial : forall rm_fixed bx_fixed bbox tol tol_deC ext bez1 k l out seen,
      (forall p, In p l -> boxes_ok N bx_fixed bbox p = true -> small N bx_fixed bbox tol_deC ext p = false) ->
      level N rm_fixed bx_fixed bbox tol tol_deC ext bez1 k l out seen
      = mkLS (flat_map (children N (npow N (half N) (k + 2))) (filter (boxes_ok N bx_fixed bbox) l)) out seen.
  Proof. exact (level_quiet N). Qed.
  (* ... and the FIRST pair of a level, when small with intersecting boxes, puts
     its point into the approximate solution set (reported, or within tol of an
     earlier report).  Later pairs of the same level may be skipped by the
     remove-while-iterating loop: C12_subdiv_skip_refuted. *)
  Theorem C12_subdiv_head_reported_partial : forall rm_fixed bx_fixed bbox tol tol_deC ext bez1 k p r out seen,
      boxes_ok N bx_fixed bbox p = true -> small N bx_fixed bbox tol_deC ext p = true ->
      let st := level N rm_fixed bx_fixed bbox tol tol_deC ext bez1 k (p :: r) out seen in
      approx_mem N tol (bezier_point N bez1 (bt1 p)) seen = true
      \/ (In (bt1 p, bt2 p) (ls_out st) /\ In (bezier_point N bez1 (bt1 p)) (ls_seen st)).
  Proof. exact (level_head_reported N). Qed.

  (* REPAIRED redundancy loop (rm_fixed = true): on ANY level, a pair whose boxes
     intersect, that is not yet small and is not related to a reportable pair of
     the level, is subdivided — nothing is skipped (contrast: C12_subdiv_skip_refuted) *)
  Theorem C12_subdiv_no_skip_fixed : forall bx_fixed bbox tol tol_deC ext bez1 k l out seen t p,
      nth_error l t = Some p -> boxes_ok N bx_fixed bbox p = true -> small N bx_fixed bbox tol_deC ext p = false ->
      (forall j q, nth_error l j = Some q -> boxes_ok N bx_fixed bbox q = true ->
                   small N bx_fixed bbox tol_deC ext q = true -> related N q p = false) ->
      incl (children N (npow N (half N) (k + 2)) p)
           (ls_new (level N true bx_fixed bbox tol tol_deC ext bez1 k l out seen)).
  Proof. intros. eapply (level_fixed_no_skip N true); eauto. Qed.

  (* Path.intersect: nothing is lost before the joint de-duplication ... *)
  Theorem C12_path_collect_complete : forall seg_isect idx_fixed p1 lens1 p2 lens2 pairs res i j s1 s2 l t1 t2,
      collect N seg_isect idx_fixed p1 lens1 p2 lens2 pairs = IOk res ->
      In ((i, s1), (j, s2)) pairs -> seg_isect s1 s2 = IOk l -> In (t1, t2) l ->
      In ((t2T N lens1 (pos_of N idx_fixed p1 i s1) t1, s1, t1),
          (t2T N lens2 (pos_of N idx_fixed p2 j s2) t2, s2, t2)) res.
  Proof. exact (collect_complete N). Qed.
  (* ... and the de-duplication removes nothing when the reported points are
     pairwise at least tol apart (crossings strictly inside segments, distinct) *)
  Theorem C12_path_once : forall seg_isect seg_point tol idx_fixed jd_fixed plen1 plen2 eps9 p1 lens1 p2 lens2 raw,
      path_eqb N p1 p2 = false ->
      collect N seg_isect idx_fixed p1 lens1 p2 lens2 (list_prod (enum p1) (enum p2)) = IOk raw ->
      ForallOrdPairs (fun a b => far N tol (seg_point (snd (fst (fst b))) (snd (fst b)))
                                           (seg_point (snd (fst (fst a))) (snd (fst a)))) raw ->
      path_intersect N seg_isect seg_point tol idx_fixed jd_fixed plen1 plen2 eps9 p1 lens1 p2 lens2 = IOk raw.
  Proof. exact (path_intersect_keeps N). Qed.
End C12_any.

(* pruning: a pair is dropped when boxes_intersect is False.  If the two boxes
   contain the sub-curves (C08), a dropped pair has no common point EXCEPT when
   the overlap of the boxes is degenerate in x or in y: boxes that only touch,
   or a box of zero width/height (an axis-parallel straight sub-curve) *)
Theorem C12_prune_safe : forall b1 b2 p,
    boxes_intersect NumR b1 b2 = false -> inbox b1 p -> inbox b2 p ->
    let '(xmin1, xmax1, ymin1, ymax1) := b1 in
    let '(xmin2, xmax2, ymin2, ymax2) := b2 in
    (Rmin xmax1 xmax2 = Rmax xmin1 xmin2 /\ re p = Rmax xmin1 xmin2)
    \/ (Rmin ymax1 ymax2 = Rmax ymin1 ymin2 /\ im p = Rmax ymin1 ymin2).
Proof. exact prune_safe. Qed.
Theorem C12_prune_safe_strict : forall b1 b2 p,
    (let '(xmin1, xmax1, ymin1, ymax1) := b1 in
     let '(xmin2, xmax2, ymin2, ymax2) := b2 in
     (Rmin xmax1 xmax2 < Rmax xmin1 xmin2 \/ Rmin ymax1 ymax2 < Rmax ymin1 ymin2)%R) ->
    inbox b1 p -> inbox b2 p -> False.
Proof. exact prune_safe_strict. Qed.

(* exact counting.  The number of crossings of a Line/Bezier pair in general
   position is computed by Model/Isect.v crossing_count (Sturm / Tarski signed
   remainder sequences over Q).  Its general correctness (Sturm's theorem) is NOT
   proved here; each use in the C12 check is accompanied by a certificate
   checked in exact arithmetic: as many disjoint parameter brackets with a sign
   change of the crossing polynomial (and the range condition at both ends) as
   the count says.  What such a bracket proves: *)
Theorem C12_sign_change_root : forall p a b, (a < b)%R ->
    (peval NumR p a * peval NumR p b < 0)%R ->
    exists x, (a <= x <= b)%R /\ peval NumR p x = 0%R.
Proof. exact sign_change_root. Qed.

(* ---------------- witnesses computed in exact rationals ---------------- *)
Definition q (n : Z) (d : positive) : Qc := qc n d.
Definition zc (a b : Z) : Cplx Qc := (q a 1, q b 1).
Definition tol12 : Qc := q 1 1000000000000.
Definition ext6 : Qc := q 1 1000000.        (* sqrt(tol_deC): the stopping length of the repaired variant *)
Definition qlist_eqb (a b : list Qc) : bool :=
  Nat.eqb (length a) (length b) && forallb (fun xy => Qc_eq_bool (fst xy) (snd xy)) (combine a b).

(* polyroots' de-duplication as coded: the pair (0.5, 0.5+1e-9) has index 3 in
   combinations order, so the ROOT of index 3 — the simple, well separated root
   0.1 — is dropped, and both near-duplicates stay *)
Example C12_dedup_as_coded_refuted :
  qlist_eqb (dedup NumQ false (q 1 100000) (q 1 100000000)
               [q 9 10; q 1 2; (q 1 2 + q 1 1000000000)%Qc; q 1 10])
            [q 9 10; q 1 2; (q 1 2 + q 1 1000000000)%Qc] = true.
Proof. vm_compute. reflexivity. Qed.
(* the repaired variant on the same list: the later member of the close pair goes *)
Example C12_dedup_fixed_example :
  qlist_eqb (dedup NumQ true (q 1 100000) (q 1 100000000)
               [q 9 10; q 1 2; (q 1 2 + q 1 1000000000)%Qc; q 1 10])
            [q 9 10; q 1 2; q 1 10] = true.
Proof. vm_compute. reflexivity. Qed.
(* the probe the harnesses use to tell the variants apart *)
Example C12_dedup_probe :
  qlist_eqb (dedup NumQ false (q 1 100000) (q 1 100000000) [q 9 10; q 6 10; q 600001 1000000; q 4 10; q 2 10])
            [q 9 10; q 6 10; q 600001 1000000; q 4 10] = true
  /\ qlist_eqb (dedup NumQ true (q 1 100000) (q 1 100000000) [q 9 10; q 6 10; q 600001 1000000; q 4 10; q 2 10])
               [q 9 10; q 6 10; q 4 10; q 2 10] = true.
Proof. vm_compute. split; reflexivity. Qed.

(* zero-width rule: the horizontal segment y = 0 given as a quadratic and a
   parabola through (1/2, 0) (both at parameter 1/4): the first pair is pruned
   because the overlap height of the boxes is max(0, 0-0) = 0 *)
Definition flatq := [zc 0 0; zc 1 0; zc 2 0].
Definition archq := [zc 0 (-3); zc 1 5; zc 2 (-3)].
Example C12_prune_zero_width_refuted :
  ceqb NumQ (bezier_point NumQ flatq (q 1 4)) (bezier_point NumQ archq (q 1 4)) = true
  /\ bezier_intersections NumQ false false false (bbox_quad NumQ) tol12 tol12 ext6 flatq 60 archq = IOk []
  /\ bezier_intersections NumQ true false false (bbox_quad NumQ) tol12 tol12 ext6 flatq 60 archq = IOk [].
Proof. vm_compute. repeat split; reflexivity. Qed.

(* the same pair in the REPAIRED box variant (closed boxes, stop on extent; bx_fixed = true,
   fixes/C12-subdivision-closed-boxes-extent.diff): both crossings (t = 1/4 and t = 3/4) are found —
   each twice without the merging step, exactly once with it (mg_fixed = true,
   fixes/C12-subdivision-merge-duplicates.diff) *)
Definition near (a b : Qc) : bool := Qc_ltb (nabs NumQ (a - b)%Qc) (q 1 1000000).
Example C12_prune_zero_width_fixed :
  match bezier_intersections NumQ true true false (bbox_quad NumQ) tol12 tol12 ext6 flatq 60 archq with
  | IOk l => Nat.eqb (length l) 4
             && forallb (fun tt => (near (fst tt) (q 1 4) && near (snd tt) (q 1 4))
                                   || (near (fst tt) (q 3 4) && near (snd tt) (q 3 4))) l
  | _ => false end = true.
Proof. vm_compute. reflexivity. Qed.
Example C12_merge_duplicates_fixed :
  match bezier_intersections NumQ true true true (bbox_quad NumQ) tol12 tol12 ext6 flatq 60 archq with
  | IOk [(t1, t2); (u1, u2)] => near t1 (q 1 4) && near t2 (q 1 4) && near u1 (q 3 4) && near u2 (q 3 4)
  | _ => false end = true.
Proof. vm_compute. reflexivity. Qed.

(* remove-while-iterating: two parabolas that cross at t1 = t2 = 1/3 (point
   12+53i) and at t1 = t2 = 2/3 (point 24+50i), both transversally.  The machine
   (as the code) reports only the first: when the small pair of the first
   crossing is reported, removing it from the list being iterated makes the
   iterator skip the pair that holds the second crossing *)
Definition para1 := [zc 0 54; zc 18 54; zc 36 45].
Definition para2 := [zc 0 22; zc 18 94; zc 36 13].
Example C12_subdiv_skip_refuted :
  ceqb NumQ (bezier_point NumQ para1 (q 1 3)) (bezier_point NumQ para2 (q 1 3)) = true
  /\ ceqb NumQ (bezier_point NumQ para1 (q 2 3)) (bezier_point NumQ para2 (q 2 3)) = true
  /\ match bezier_intersections NumQ false false false (bbox_quad NumQ) tol12 tol12 ext6 para1 60 para2 with
     | IOk [(t1, t2)] => Qc_ltb t1 (q 1 2) && Qc_ltb t2 (q 1 2)
     | _ => false end = true.
Proof. vm_compute. repeat split; reflexivity. Qed.

(* the repaired loop (rm_fixed = true) on the same pair: both crossings *)
Example C12_subdiv_skip_fixed :
  match bezier_intersections NumQ true false false (bbox_quad NumQ) tol12 tol12 ext6 para1 60 para2 with
  | IOk [(t1, t2); (u1, u2)] => Qc_ltb t1 (q 1 2) && Qc_ltb (q 1 2) u1 && Qc_ltb t2 (q 1 2) && Qc_ltb (q 1 2) u2
  | _ => false end = true.
Proof. vm_compute. reflexivity. Qed.

(* Path.intersect, default tol: the triangle path that traverses its first edge
   twice crosses the probe twice (T = 1/15 and T = 13/15); one entry is returned *)
Definition no_bb (a b : list (Cplx Qc)) : ires (list (Qc * Qc)) := IException.
Definition no_arc (a : arc Qc) (s : seg Qc) : ires (list (Qc * Qc)) := IException.
Definition isect_lines := intersect NumQ (q 1 100000000) (fun _ _ => q 1 1) (fun _ => []) no_bb no_arc.
Definition lines_point (s : seg Qc) (t : Qc) : Cplx Qc :=
  match s with SLine a b => line_point NumQ a b t | _ => c0 NumQ end.
Definition tri_twice : list (seg Qc) :=
  [SLine (zc 0 0) (zc 3 0); SLine (zc 3 0) (zc 3 4); SLine (zc 3 4) (zc 0 0); SLine (zc 0 0) (zc 3 0)].
Definition tri_lens : list Qc := [q 1 5; q 4 15; q 1 3; q 1 5].
Definition probe : list (seg Qc) := [SLine (zc 1 (-1)) (zc 1 1)].
Example C12_path_duplicate_segment_refuted :
  imap (@length _) (path_intersect NumQ isect_lines lines_point tol12 false false (q 15 1) (q 2 1) (q 1 1000000000) tri_twice tri_lens probe [q 1 1])
  = IOk 1%nat
  (* enumerate instead of index() does not change this: the two entries have the same
     POINT, so the joint de-duplication still removes the second *)
  /\ imap (@length _) (path_intersect NumQ isect_lines lines_point tol12 true false (q 15 1) (q 2 1) (q 1 1000000000) tri_twice tri_lens probe [q 1 1])
     = IOk 1%nat
  /\ ceqb NumQ (lines_point (nth 3 tri_twice (SLine (zc 0 0) (zc 0 0))) (q 1 3))
               (lines_point (nth 0 probe (SLine (zc 0 0) (zc 0 0))) (q 1 2)) = true.
Proof. vm_compute. repeat split; reflexivity. Qed.

(* the REPAIRED joint de-duplication (jd_fixed = true, fixes/C12-path-joint-dedup-same-place.diff;
   with positions, idx_fixed = true): the two traversals are different places of path1
   (T1 = 1/15 and 13/15), both entries are kept *)
Example C12_path_repeated_traversal_fixed :
  match path_intersect NumQ isect_lines lines_point tol12 true true (q 15 1) (q 2 1) (q 1 1000000000)
                       tri_twice tri_lens probe [q 1 1] with
  | IOk [e1; e2] => Qc_eq_bool (fst (fst (fst e1))) (q 1 15) && Qc_eq_bool (fst (fst (fst e2))) (q 13 15)
  | _ => false end = true.
Proof. vm_compute. reflexivity. Qed.

(* exact crossing counts (Sturm / Tarski query in exact rationals), non-vacuity:
   the cubic (0,-1) (1,3) (2,-3) (3,1) meets the x-axis three times; restricted
   to the segment from (1,0) to (4,0) twice, to (1,0)-(2,0) once *)
Example C12_crossing_count_example :
  let cub := [zc 0 (-1); zc 1 3; zc 2 (-3); zc 3 1] in
  (crossing_count NumQ cub (zc (-1) 0) (zc 4 0), crossing_count NumQ cub (zc 1 0) (zc 4 0),
   crossing_count NumQ cub (zc 1 0) (zc 2 0)) = (Some 3%Z, Some 2%Z, Some 1%Z).
Proof. vm_compute. reflexivity. Qed.

Print Assumptions C12_line_line_complete.
Print Assumptions C12_crossing_is_root.
Print Assumptions C12_bezier_line_complete.
Print Assumptions C12_bezier_line_complete_fixed.
Print Assumptions C12_dedup_fixed_keeps_isolated.
Print Assumptions C12_subdiv_no_skip_fixed.
Print Assumptions C12_bezier_line_once.
Print Assumptions C12_dedup_noclose.
Print Assumptions C12_subdiv_complete_partial.
Print Assumptions C12_subdiv_head_reported_partial.
Print Assumptions C12_path_collect_complete.
Print Assumptions C12_path_once.
Print Assumptions C12_prune_safe.
Print Assumptions C12_prune_safe_strict.
Print Assumptions C12_sign_change_root.
Print Assumptions C12_dedup_as_coded_refuted.
Print Assumptions C12_prune_zero_width_refuted.
Print Assumptions C12_subdiv_skip_refuted.
Print Assumptions C12_subdiv_skip_fixed.
Print Assumptions C12_prune_zero_width_fixed.
Print Assumptions C12_merge_duplicates_fixed.
Print Assumptions C12_path_repeated_traversal_fixed.
Print Assumptions C12_dedup_fixed_example.
Print Assumptions C12_dedup_probe.
Print Assumptions C12_path_duplicate_segment_refuted.
