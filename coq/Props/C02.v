(* placeholder while the proofs are being written *)
From Coq Require Import ZArith QArith Qcanon List Bool.
From SVP Require Import Base.Num Base.Cplx Model.Parse Model.Lexer.
Import ListNotations.
