(* Props/C02.v — property C02: parse_path implements the SVG path-data
   semantics for every command sequence.  Only statements, `exact`, closed
   witnesses by vm_compute, and Print Assumptions live here.

   Models: Model/Parse.v (impl_parse = the while-loop of Path._parse_path, in
   four variants (none_ok, coinc_ok); (false,false) is the pinned code;
   spec_run = reference interpreter of SVG 1.1 §8.3), Model/Lexer.v
   (tokenize = Path._tokenize_path with Python's regex semantics).
   Proofs: Proofs/ParseRefine.v, ParseCorollaries.v, LexerScan.v, LexerRender.v.

   Which variant of impl_parse the code of /repo is, is established on every
   run by the correspondence check (tools/harness/c02.py, evidence field
   code_is_variant). *)
From Coq Require Import ZArith QArith Qcanon List Bool Ascii String.
From SVP Require Import Base.Num Base.Cplx Model.Parse Model.Lexer
     Proofs.ParseRefine Proofs.ParseCorollaries Proofs.LexerScan Proofs.LexerRender
     Proofs.LexerDot.
Import ListNotations.
Local Open Scope list_scope.

(* ================================================================== *)
(* Refinement: every grammatical program, of any length                *)
(* ================================================================== *)
Section C02.
  Context {K : Type} (N : Num K) (L : ParseLawsOK N).

  (* all four variants at once: each side condition is needed only while the
     corresponding behaviour of the code is the pinned one *)
  Theorem C02_refines_general : forall (none_ok coinc_ok : bool) pos0 prog,
      grammatical prog = true ->
      (none_ok = true \/ no_smooth_after_close prog = true) ->
      (coinc_ok = true \/ no_coincident_arc N pos0 prog = true) ->
      impl_parse N none_ok coinc_ok (flatten N prog) pos0 = Ok (spec_run N pos0 prog).
  Proof. exact (refines_general N L). Qed.

  (* the full statement: holds for the variant in which `None in 'CS'` does not
     raise and an arc ending on the current point is omitted *)
  Theorem C02_refines : forall pos0 prog,
      grammatical prog = true ->
      impl_parse N true true (flatten N prog) pos0 = Ok (spec_run N pos0 prog).
  Proof.
    intros pos0 prog G. apply (refines_general N L); [exact G|left; reflexivity|left; reflexivity].
  Qed.

  (* the pinned code: under the two side conditions that exclude exactly the
     two refuted situations below *)
  Theorem C02_refines_partial : forall pos0 prog,
      grammatical prog = true ->
      no_smooth_after_close prog = true ->
      no_coincident_arc N pos0 prog = true ->
      impl_parse N false false (flatten N prog) pos0 = Ok (spec_run N pos0 prog).
  Proof.
    intros pos0 prog G A B. apply (refines_general N L); [exact G|right; exact A|right; exact B].
  Qed.

  (* the two intermediate variants: after a repair of only one of the two behaviours *)
  Theorem C02_refines_none_fixed_partial : forall pos0 prog,
      grammatical prog = true ->
      no_coincident_arc N pos0 prog = true ->
      impl_parse N true false (flatten N prog) pos0 = Ok (spec_run N pos0 prog).
  Proof.
    intros pos0 prog G B. apply (refines_general N L); [exact G|left; reflexivity|right; exact B].
  Qed.
  Theorem C02_refines_arc_fixed_partial : forall pos0 prog,
      grammatical prog = true ->
      no_smooth_after_close prog = true ->
      impl_parse N false true (flatten N prog) pos0 = Ok (spec_run N pos0 prog).
  Proof.
    intros pos0 prog G A. apply (refines_general N L); [exact G|right; exact A|left; reflexivity].
  Qed.

  (* ---- what single commands contribute (on the model of the code, any variant) ---- *)
  Section Variant.
    Variables none_ok coinc_ok : bool.
    Notation side_ok := (side_ok N none_ok coinc_ok).
    Notation parse := (impl_parse N none_ok coinc_ok).

    Theorem C02_zero_radius_arc_is_line : forall pos0 prog abs a,
        side_ok pos0 (prog ++ [ArcTo abs [a]]) ->
        re (aa_r a) = zero N \/ im (aa_r a) = zero N ->
        let cur := s_cur (spec_state N pos0 prog) in
        let e := to_abs N abs cur (aa_end a) in
        cur <> e ->
        parse (flatten N (prog ++ [ArcTo abs [a]])) pos0 = Ok (spec_run N pos0 prog ++ [Line cur e]).
    Proof. exact (zero_radius_arc_is_line N L none_ok coinc_ok). Qed.

    Theorem C02_arc_is_arc : forall pos0 prog abs a,
        side_ok pos0 (prog ++ [ArcTo abs [a]]) ->
        re (aa_r a) <> zero N -> im (aa_r a) <> zero N ->
        let cur := s_cur (spec_state N pos0 prog) in
        let e := to_abs N abs cur (aa_end a) in
        cur <> e ->
        parse (flatten N (prog ++ [ArcTo abs [a]])) pos0
        = Ok (spec_run N pos0 prog ++
              [Arc cur (mkc (nabs N (re (aa_r a))) (nabs N (im (aa_r a)))) (aa_rot a)
                   (aa_large a) (aa_sweep a) e]).
    Proof. exact (arc_is_arc N L none_ok coinc_ok). Qed.

    Theorem C02_close_at_start_adds_nothing : forall pos0 prog up,
        side_ok pos0 (prog ++ [Close up]) ->
        s_cur (spec_state N pos0 prog) = s_start (spec_state N pos0 prog) ->
        parse (flatten N (prog ++ [Close up])) pos0 = Ok (spec_run N pos0 prog).
    Proof. exact (close_at_start_adds_nothing N L none_ok coinc_ok). Qed.

    Theorem C02_close_elsewhere_adds_line : forall pos0 prog up,
        side_ok pos0 (prog ++ [Close up]) ->
        s_cur (spec_state N pos0 prog) <> s_start (spec_state N pos0 prog) ->
        parse (flatten N (prog ++ [Close up])) pos0
        = Ok (spec_run N pos0 prog ++
              [Line (s_cur (spec_state N pos0 prog)) (s_start (spec_state N pos0 prog))]).
    Proof. exact (close_elsewhere_adds_line N L none_ok coinc_ok). Qed.

    Theorem C02_smooth_fallback : forall pos0 prog abs c2 e,
        side_ok pos0 (prog ++ [SmoothTo abs [(c2, e)]]) ->
        ends_with_cubic prog = false ->
        let cur := s_cur (spec_state N pos0 prog) in
        parse (flatten N (prog ++ [SmoothTo abs [(c2, e)]])) pos0
        = Ok (spec_run N pos0 prog ++ [Cubic cur cur (to_abs N abs cur c2) (to_abs N abs cur e)]).
    Proof. exact (smooth_fallback N L none_ok coinc_ok). Qed.

    Theorem C02_smooth_reflects : forall pos0 prog abs c2 e,
        side_ok pos0 (prog ++ [SmoothTo abs [(c2, e)]]) ->
        ends_with_cubic prog = true ->
        let cur := s_cur (spec_state N pos0 prog) in
        exists s c1 pc2 rest,
          rev (spec_run N pos0 prog) = Cubic s c1 pc2 cur :: rest /\
          parse (flatten N (prog ++ [SmoothTo abs [(c2, e)]])) pos0
          = Ok (spec_run N pos0 prog ++
                [Cubic cur (reflect N cur pc2) (to_abs N abs cur c2) (to_abs N abs cur e)]).
    Proof. exact (smooth_reflects N L none_ok coinc_ok). Qed.

    Theorem C02_t_fallback : forall pos0 prog abs e,
        side_ok pos0 (prog ++ [TTo abs [e]]) ->
        ends_with_quad prog = false ->
        let cur := s_cur (spec_state N pos0 prog) in
        parse (flatten N (prog ++ [TTo abs [e]])) pos0
        = Ok (spec_run N pos0 prog ++ [Quad cur cur (to_abs N abs cur e)]).
    Proof. exact (t_fallback N L none_ok coinc_ok). Qed.

    Theorem C02_lineto_rel_abs : forall pos0 prog abs p,
        side_ok pos0 (prog ++ [LineTo abs [p]]) ->
        let cur := s_cur (spec_state N pos0 prog) in
        parse (flatten N (prog ++ [LineTo abs [p]])) pos0
        = Ok (spec_run N pos0 prog ++ [Line cur (if abs then p else cadd N cur p)]).
    Proof. exact (lineto_rel_abs N L none_ok coinc_ok). Qed.

    (* moveto with further pairs = moveto + lineto of the same case *)
    Theorem C02_moveto_extra_pairs_are_lineto : forall pos0 abs p more post,
        more <> [] ->
        side_ok pos0 (MoveTo abs (p :: more) :: post) ->
        side_ok pos0 (MoveTo abs [p] :: LineTo abs more :: post) ->
        parse (flatten N (MoveTo abs (p :: more) :: post)) pos0
        = parse (flatten N (MoveTo abs [p] :: LineTo abs more :: post)) pos0
        /\ spec_run N pos0 (MoveTo abs (p :: more) :: post)
           = spec_run N pos0 (MoveTo abs [p] :: LineTo abs more :: post).
    Proof. exact (moveto_extra_pairs_are_lineto N L none_ok coinc_ok). Qed.

    (* a repeated command letter = implicit repetition, for all nine commands *)
    Theorem C02_repeated_letter_same_path : forall pos0 pre post c c1 c2,
        cmd_split c c1 c2 ->
        side_ok pos0 (pre ++ c :: post) -> side_ok pos0 (pre ++ c1 :: c2 :: post) ->
        parse (flatten N (pre ++ c :: post)) pos0 = parse (flatten N (pre ++ c1 :: c2 :: post)) pos0.
    Proof. exact (repeated_letter_same_path N L none_ok coinc_ok). Qed.
  End Variant.

  Theorem C02_spec_repeated_letter : forall pos0 pre post c c1 c2,
      cmd_split c c1 c2 ->
      spec_run N pos0 (pre ++ c :: post) = spec_run N pos0 (pre ++ c1 :: c2 :: post).
  Proof. exact (spec_run_split N). Qed.
End C02.

(* the carriers the check executes / the reals *)
Definition C02_refines_partial_Q := C02_refines_partial NumQ parse_laws_Q.
Definition C02_refines_partial_R := C02_refines_partial NumR parse_laws_R.
Definition C02_refines_Q := C02_refines NumQ parse_laws_Q.

(* ================================================================== *)
(* The pinned code violates the full statement: witnesses              *)
(* ================================================================== *)
Definition q (n : Z) : Qc := Q2Qc (inject_Z n).
Definition p (a b : Z) : Cplx Qc := (q a, q b).
Definition O : Cplx Qc := p 0 0.

(* M0,0 L1,1 Z S 2,2 3,3 *)
Definition w_S_after_Z : list (command Qc) :=
  [MoveTo true [p 0 0]; LineTo true [p 1 1]; Close true; SmoothTo true [(p 2 2, p 3 3)]].
Definition w_T_after_Z : list (command Qc) :=
  [MoveTo true [p 0 0]; LineTo true [p 1 1]; Close true; TTo true [p 2 2]].
(* M1,1 A2,2 0 0 1 1,1 *)
Definition w_arc_coincident : list (command Qc) :=
  [MoveTo true [p 1 1]; ArcTo true [mkArcArgs (p 2 2) (q 0) false true (p 1 1)]].
(* M1,1 A0,2 0 0 1 1,1 : the zero-radius case yields a zero-length Line *)
Definition w_arc_coincident_zero : list (command Qc) :=
  [MoveTo true [p 1 1]; ArcTo true [mkArcArgs (p 0 2) (q 0) false true (p 1 1)]].

Definition res_eqb (a b : result (list (seg Qc))) : bool :=
  match a, b with
  | Ok x, Ok y => segs_eqb NumQ x y
  | Err e, Err f => perr_eqb e f
  | _, _ => false
  end.

Theorem C02_S_after_Z_refuted :
  grammatical w_S_after_Z = true /\ no_coincident_arc NumQ O w_S_after_Z = true
  /\ impl_parse NumQ false false (flatten NumQ w_S_after_Z) O = Err TypeError
  /\ res_eqb (impl_parse NumQ true false (flatten NumQ w_S_after_Z) O)
             (Ok (spec_run NumQ O w_S_after_Z)) = true
  /\ List.length (spec_run NumQ O w_S_after_Z) = 3%nat.
Proof. vm_compute. repeat split. Qed.

Theorem C02_T_after_Z_refuted :
  grammatical w_T_after_Z = true
  /\ impl_parse NumQ false false (flatten NumQ w_T_after_Z) O = Err TypeError
  /\ List.length (spec_run NumQ O w_T_after_Z) = 3%nat.
Proof. vm_compute. repeat split. Qed.

Theorem C02_arc_coincident_refuted :
  grammatical w_arc_coincident = true /\ no_smooth_after_close w_arc_coincident = true
  /\ impl_parse NumQ false false (flatten NumQ w_arc_coincident) O = Err AssertionError
  /\ spec_run NumQ O w_arc_coincident = []
  /\ res_eqb (impl_parse NumQ false false (flatten NumQ w_arc_coincident_zero) O)
             (Ok [Line (p 1 1) (p 1 1)]) = true
  /\ spec_run NumQ O w_arc_coincident_zero = [].
Proof. vm_compute. repeat split. Qed.

(* the same on the raw strings, through the tokenizer model *)
Theorem C02_refuted_on_strings :
  parse_string false false "M0,0 L1,1 Z S 2,2 3,3" O = Err TypeError
  /\ parse_string false false "M0,0 L1,1 z t 2,2" O = Err TypeError
  /\ parse_string false false "M1,1 A2,2 0 0 1 1,1" O = Err AssertionError.
Proof. vm_compute. repeat split. Qed.

(* non-vacuity: a program with every command, relative and absolute forms,
   implicit repetition, S after C, T after Q, drawing after closepath, a
   zero-radius arc, satisfies the hypotheses of C02_refines_partial; and the
   model does produce its 16 segments *)
Definition w_all : list (command Qc) :=
  [MoveTo false [p 1 1; p 2 0; p 0 2];
   HTo true [q 7; q 8]; VTo false [q 3];
   CurveTo true [(p 1 2, p 3 4, p 5 6)]; SmoothTo false [(p 1 1, p 2 2); (p 1 0, p 3 1)];
   QuadTo false [(p 1 5, p 2 2)]; TTo true [p 9 9; p 12 7];
   ArcTo true [mkArcArgs (p 3 2) (q 30) true false (p 20 20); mkArcArgs (p 0 2) (q 0) false true (p 1 1)];
   Close false; LineTo false [p 4 4]; Close true; MoveTo true [p 5 5]; LineTo true [p 5 5]; Close true].
Example C02_nonvacuous :
  grammatical w_all = true /\ no_smooth_after_close w_all = true
  /\ no_coincident_arc NumQ O w_all = true
  /\ res_eqb (impl_parse NumQ false false (flatten NumQ w_all) O) (Ok (spec_run NumQ O w_all)) = true
  /\ List.length (spec_run NumQ O w_all) = 16%nat.
Proof. vm_compute. repeat split. Qed.

(* ================================================================== *)
(* The tokenizer                                                       *)
(* ================================================================== *)

(* FLOAT_RE matched with Python's backtracking priorities = a deterministic scanner *)
Theorem C02_float_re_is_scanner : forall s, match_float s = scan_float s.
Proof. exact match_float_scan. Qed.

(* every numeral of the language of FLOAT_RE is read back whole when what
   follows cannot extend it *)
Theorem C02_scan_numeral : forall n rest,
    numeral_wf n = true -> follow_ok n rest -> scan_float (ntext n ++ rest) = Some rest.
Proof. exact scan_numeral. Qed.

(* lexing a rendering gives back the token list: all separator policies *)
Theorem C02_lex_render : forall items trail,
    items_ok None items = true -> forallb is_sepchar trail = true ->
    lex (render items trail) = map tok_of_stok (map snd items).
Proof. exact lex_render. Qed.

Theorem C02_spellings : forall items1 trail1 items2 trail2,
    items_ok None items1 = true -> forallb is_sepchar trail1 = true ->
    items_ok None items2 = true -> forallb is_sepchar trail2 = true ->
    map tok_of_stok (map snd items1) = map tok_of_stok (map snd items2) ->
    lex (render items1 trail1) = lex (render items2 trail2).
Proof. exact spellings_same_tokens. Qed.

Theorem C02_spellings_same_path : forall none_ok coinc_ok pos0 items1 trail1 items2 trail2,
    items_ok None items1 = true -> forallb is_sepchar trail1 = true ->
    items_ok None items2 = true -> forallb is_sepchar trail2 = true ->
    map tok_of_stok (map snd items1) = map tok_of_stok (map snd items2) ->
    impl_parse NumQ none_ok coinc_ok (lex (render items1 trail1)) pos0
    = impl_parse NumQ none_ok coinc_ok (lex (render items2 trail2)) pos0.
Proof. exact spellings_same_path. Qed.

(* non-vacuity: "M1.5-2e1,.5.25 +3z" is a rendering covered by the theorem
   (no separator before a sign, '.5' glued to '1.5'-like '.5', comma, blank) *)
Local Open Scope char_scope.
Definition d1 : ascii := "1". Definition d2 : ascii := "2". Definition d3 : ascii := "3".
Definition d5 : ascii := "5". Definition d0 : ascii := "0".
Definition ex_items : list item :=
  [([], SCmd cM true);
   ([], SNum (mkNumeral None [d1] [d5] None));                                (* 1.5 *)
   ([], SNum (mkNumeral (Some true) [d2] [] (Some ("e", None, [d1]))));       (* -2e1 *)
   ([","], SNum (mkNumeral None [] [d5] None));                               (* .5 *)
   ([], SNum (mkNumeral None [] [d2; d5] None));                              (* .25 *)
   ([" "], SNum (mkNumeral (Some false) [d3] [] None));                       (* +3 *)
   ([], SCmd cZ false)].
Example C02_render_nonvacuous :
  items_ok None ex_items = true
  /\ string_of_list_ascii (render ex_items []) = "M1.5-2e1,.5.25 +3z"%string
  /\ toks_eqb NumQ (lex (render ex_items []))
       [TCmd cM true; TNum (qc 3 2); TNum (qc (-20) 1); TNum (qc 1 2); TNum (qc 1 4);
        TNum (qc 3 1); TCmd cZ false] = true.
Proof. vm_compute. repeat split. Qed.

(* spellings that are legal SVG but outside the theorem, and mis-read by the
   pinned tokenizer *)
Definition intended_arc : list (tok Qc) :=
  [TCmd cM true; TNum (q 0); TNum (q 0); TCmd cA true; TNum (q 1); TNum (q 1); TNum (q 0);
   TNum (q 1); TNum (q 1); TNum (q 2); TNum (q 0)].
Theorem C02_adjacent_arc_flags_refuted :
  (* with separators the arc is read as intended ... *)
  toks_eqb NumQ (lex_string "M0 0 A1,1 0 1 1 2,0") intended_arc = true
  (* ... "11" is read as the number eleven: 6 numbers instead of 7 *)
  /\ toks_eqb NumQ (lex_string "M0 0 A1,1 0 11 2,0")
       [TCmd cM true; TNum (q 0); TNum (q 0); TCmd cA true; TNum (q 1); TNum (q 1); TNum (q 0);
        TNum (q 11); TNum (q 2); TNum (q 0)] = true
  /\ parse_string false false "M0 0 A1,1 0 11 2,0" O = Err IndexError.
Proof. vm_compute. repeat split. Qed.

Theorem C02_trailing_dot_exponent_refuted :
  (* 1.e3 is the number 1000 in the SVG grammar; FLOAT_RE reads 1 and 3 *)
  toks_eqb NumQ (lex_string "1.e3") [TNum (q 1); TNum (q 3)] = true
  /\ toks_eqb NumQ (lex_string "1.0e3") [TNum (q 1000)] = true
  (* a bare trailing dot is harmless *)
  /\ toks_eqb NumQ (lex_string "1. 2.") [TNum (q 1); TNum (q 2)] = true.
Proof. vm_compute. repeat split. Qed.

(* ================================================================== *)
(* The repaired number pattern (Model/Lexer.v, float_re true)          *)
(*   [-+]?(?:[0-9]+\.?[0-9]*|\.[0-9]+)(?:[eE][-+]?[0-9]+)?             *)
(* ================================================================== *)

Theorem C02_float_re_dot_is_scanner : forall s, match_re FLOAT_RE_DOT s = scan_float_dot s.
Proof. exact match_re_dot_scan. Qed.

(* numerals of the full SVG number grammar, incl. "1." and "1.e3" *)
Theorem C02_scan_numeral_dot : forall n rest,
    numeral_d_wf n = true -> follow_d n rest -> scan_float_dot (ntext_d n ++ rest) = Some rest.
Proof. exact scan_numeral_d. Qed.

Theorem C02_lex_render_dot : forall items trail,
    ditems_ok None items = true -> forallb is_sepchar trail = true ->
    lex_re FLOAT_RE_DOT (drender items trail) = map dtok_value (map snd items).
Proof. exact lex_render_dot. Qed.

Theorem C02_spellings_dot : forall items1 trail1 items2 trail2,
    ditems_ok None items1 = true -> forallb is_sepchar trail1 = true ->
    ditems_ok None items2 = true -> forallb is_sepchar trail2 = true ->
    map dtok_value (map snd items1) = map dtok_value (map snd items2) ->
    lex_re FLOAT_RE_DOT (drender items1 trail1) = lex_re FLOAT_RE_DOT (drender items2 trail2).
Proof. exact spellings_same_tokens_dot. Qed.

(* nothing is lost: every rendering covered by C02_lex_render is read the
   same way, token texts included, by the repaired pattern *)
Theorem C02_lex_render_dot_keeps_old : forall items trail,
    items_ok None items = true -> forallb is_sepchar trail = true ->
    tokenize_re FLOAT_RE_DOT (render items trail) = tokenize (render items trail)
    /\ lex_re FLOAT_RE_DOT (render items trail) = map tok_of_stok (map snd items).
Proof.
  intros items trail Ok Tr. split.
  - exact (tokenize_re_dot_old_renderings items trail Ok Tr).
  - exact (lex_render_dot_old items trail Ok Tr).
Qed.

(* the generic tokenizer at the pinned pattern is the pinned tokenizer *)
Theorem C02_tokenize_re_pinned : forall s, tokenize_re FLOAT_RE s = tokenize s.
Proof. exact tokenize_re_old. Qed.

(* the refuted spelling is read as the SVG grammar says; adjacent arc flags are not *)
Theorem C02_trailing_dot_exponent_repaired :
  toks_eqb NumQ (lex_string_re FLOAT_RE_DOT "1.e3") [TNum (q 1000)] = true
  /\ toks_eqb NumQ (lex_string_re FLOAT_RE_DOT "1. 2.") [TNum (q 1); TNum (q 2)] = true
  /\ toks_eqb NumQ (lex_string_re FLOAT_RE_DOT "M0 0 L1.e1 4")
       [TCmd cM true; TNum (q 0); TNum (q 0); TCmd cL true; TNum (q 10); TNum (q 4)] = true
  /\ toks_eqb NumQ (lex_string_re FLOAT_RE_DOT "M0 0 A1,1 0 11 2,0")
       [TCmd cM true; TNum (q 0); TNum (q 0); TCmd cA true; TNum (q 1); TNum (q 1); TNum (q 0);
        TNum (q 11); TNum (q 2); TNum (q 0)] = true.
Proof. vm_compute. repeat split. Qed.

(* non-vacuity: "M1.-2.e1,.5 3.z" is a rendering covered by C02_lex_render_dot *)
Definition ex_items_dot : list (gitem numeral_d) :=
  [([], DCmd cM true);
   ([], DNum (mkNumeralD None [d1] true [] None));                                  (* 1. *)
   ([], DNum (mkNumeralD (Some true) [d2] true [] (Some ("e"%char, None, [d1]))));  (* -2.e1 *)
   ([","%char], DNum (mkNumeralD None [] true [d5] None));                          (* .5 *)
   ([" "%char], DNum (mkNumeralD None [d3] true [] None));                          (* 3. *)
   ([], DCmd cZ false)].
Example C02_render_dot_nonvacuous :
  ditems_ok None ex_items_dot = true
  /\ string_of_list_ascii (drender ex_items_dot []) = "M1.-2.e1,.5 3.z"%string
  /\ toks_eqb NumQ (lex_re FLOAT_RE_DOT (drender ex_items_dot []))
       [TCmd cM true; TNum (qc 1 1); TNum (qc (-20) 1); TNum (qc 1 2); TNum (qc 3 1); TCmd cZ false] = true.
Proof. vm_compute. repeat split. Qed.

(* ---- arc flags without separators: the arc pass of the repaired tokenizer
   (Model/Lexer.v, tokenize_v _ true) ---- *)

(* it changes nothing when no token at a flag position can be split ... *)
Theorem C02_arc_fix_idle : forall l st, arc_idle st l = true -> arc_fix st l = l.
Proof. exact arc_fix_idle. Qed.

(* ... hence every rendering with properly written flags is read alike by the
   four variants of the tokenizer (nothing is lost by either repair) *)
Theorem C02_tokenize_v_render : forall dot_ok arc_ok items trail,
    items_ok None items = true -> forallb is_sepchar trail = true ->
    arc_idle None (map ltok_of (map snd items)) = true ->
    tokenize_v dot_ok arc_ok (render items trail) = map ltok_of (map snd items).
Proof. exact tokenize_v_render_old. Qed.
Theorem C02_tokenize_v_render_dot : forall arc_ok items trail,
    ditems_ok None items = true -> forallb is_sepchar trail = true ->
    arc_idle None (map (gltok numeral_d ntext_d) (map snd items)) = true ->
    tokenize_v true arc_ok (drender items trail) = map (gltok numeral_d ntext_d) (map snd items).
Proof. exact tokenize_v_render_dot. Qed.

(* the refuted spellings are read as the SVG grammar says (witnesses; the
   general statement for compact flags is checked by the harness, not proved) *)
Theorem C02_adjacent_arc_flags_repaired :
  toks_eqb NumQ (lex_string_v true true "M0 0 A1,1 0 11 2,0") intended_arc = true
  /\ toks_eqb NumQ (lex_string_v false true "M0 0 A1,1 0 112,0") intended_arc = true
  /\ toks_eqb NumQ (lex_string_v true true "M0 0 A1,1 0 1 12,0") intended_arc = true
  /\ toks_eqb NumQ (lex_string_v true true "M0 0 A1,1 0 1 1 2,0") intended_arc = true
  /\ toks_eqb NumQ (lex_string_v true true "M0 0a2.5 2.5 0 00.5-.5")
       [TCmd cM true; TNum (q 0); TNum (q 0); TCmd cA false; TNum (qc 5 2); TNum (qc 5 2); TNum (q 0);
        TNum (q 0); TNum (q 0); TNum (qc 1 2); TNum (qc (-1) 2)] = true
  /\ res_eqb (parse_string_v true true true true "M0 0 A1,1 0 11 2,0" O)
             (Ok [Arc (p 0 0) (p 1 1) (q 0) true true (p 2 0)]) = true.
Proof. vm_compute. repeat split. Qed.

(* the two repaired parser behaviours on the former witnesses: variant (true,true) *)
Theorem C02_repaired_on_witnesses :
  res_eqb (impl_parse NumQ true true (flatten NumQ w_S_after_Z) O) (Ok (spec_run NumQ O w_S_after_Z)) = true
  /\ res_eqb (impl_parse NumQ true true (flatten NumQ w_T_after_Z) O) (Ok (spec_run NumQ O w_T_after_Z)) = true
  /\ impl_parse NumQ true true (flatten NumQ w_arc_coincident) O = Ok []
  /\ impl_parse NumQ true true (flatten NumQ w_arc_coincident_zero) O = Ok [].
Proof. vm_compute. repeat split. Qed.

Print Assumptions C02_refines_general.
Print Assumptions C02_refines.
Print Assumptions C02_refines_partial.
Print Assumptions C02_refines_none_fixed_partial.
Print Assumptions C02_refines_arc_fixed_partial.
Print Assumptions C02_refines_partial_Q.
Print Assumptions C02_refines_partial_R.
Print Assumptions C02_zero_radius_arc_is_line.
Print Assumptions C02_arc_is_arc.
Print Assumptions C02_close_at_start_adds_nothing.
Print Assumptions C02_close_elsewhere_adds_line.
Print Assumptions C02_smooth_fallback.
Print Assumptions C02_smooth_reflects.
Print Assumptions C02_t_fallback.
Print Assumptions C02_lineto_rel_abs.
Print Assumptions C02_moveto_extra_pairs_are_lineto.
Print Assumptions C02_repeated_letter_same_path.
Print Assumptions C02_spec_repeated_letter.
Print Assumptions C02_S_after_Z_refuted.
Print Assumptions C02_T_after_Z_refuted.
Print Assumptions C02_arc_coincident_refuted.
Print Assumptions C02_refuted_on_strings.
Print Assumptions C02_float_re_is_scanner.
Print Assumptions C02_scan_numeral.
Print Assumptions C02_lex_render.
Print Assumptions C02_spellings.
Print Assumptions C02_spellings_same_path.
Print Assumptions C02_adjacent_arc_flags_refuted.
Print Assumptions C02_trailing_dot_exponent_refuted.
Print Assumptions C02_float_re_dot_is_scanner.
Print Assumptions C02_scan_numeral_dot.
Print Assumptions C02_lex_render_dot.
Print Assumptions C02_spellings_dot.
Print Assumptions C02_lex_render_dot_keeps_old.
Print Assumptions C02_tokenize_re_pinned.
Print Assumptions C02_trailing_dot_exponent_repaired.
Print Assumptions C02_repaired_on_witnesses.
Print Assumptions C02_arc_fix_idle.
Print Assumptions C02_tokenize_v_render.
Print Assumptions C02_tokenize_v_render_dot.
Print Assumptions C02_adjacent_arc_flags_repaired.
