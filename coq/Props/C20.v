(* Props/C20.v — property C20: smoothed_path removes kinks without moving
   the path.  Only statements, `exact`, Print Assumptions and non-vacuity
   Examples live here.  Models: Model/Smooth.v (+ Model/Bezier.v).
   R-level theorems use NumR / NumTR; the loop theorem is generic (no numbers). *)
From Coq Require Import ZArith List Bool Reals Lra.
From SVP Require Import Base.Num Base.Cplx Base.Poly Model.Bezier Model.Smooth
     Proofs.BezierAlg Proofs.SmoothLoop Proofs.SmoothElbow Proofs.SmoothJointR Proofs.SmoothProps.
Import ListNotations.
Open Scope R_scope.

(* ---- the elbow cubics: c(0) = q - a v, c(1) = q + a w (resp. q), c'(0) = b v,
        c'(1) = b w with b > 0 : unit tangents match the trimmed lines / the curve ---- *)
Theorem C20_elbow_ll : forall q v w a tight,
  0 < a -> 0 < tight < 2 ->
  let b := b_ll NumR tight a in
  let E := elbow_ll NumR q v w a b in
  0 < b /\
  spoint NumR E 0 = csub NumR q (cscale NumR a v) /\
  spoint NumR E 1 = cadd NumR q (cscale NumR a w) /\
  sderiv1 NumR E 0 = cscale NumR b v /\
  sderiv1 NumR E 1 = cscale NumR b w.
Proof. exact elbow_ll_R. Qed.

Theorem C20_elbow_lc : forall q v w a tight,
  0 < a -> 0 < tight < 2 ->
  let b := b_lc NumR tight a in
  let E := elbow_lc NumR q v w a b in
  0 < b /\
  spoint NumR E 0 = csub NumR q (cscale NumR a v) /\
  spoint NumR E 1 = q /\
  sderiv1 NumR E 0 = cscale NumR b v /\
  sderiv1 NumR E 1 = cscale NumR b w.
Proof. exact elbow_lc_R. Qed.

(* spoint / sderiv1 are Model/Bezier.v's cubic_point / cubic_deriv (the C03 objects) *)
Theorem C20_seg_is_bezier : forall {K} (N : Num K) s c1 c2 e t,
  spoint N (SCubic s c1 c2 e) t = cubic_point N s c1 c2 e t /\
  cubic_deriv N s c1 c2 e t 1 = Some (sderiv1 N (SCubic s c1 c2 e) t) /\
  spoint N (SLine s e) t = line_point N s e t /\
  line_deriv N s e t 1 = Some (sderiv1 N (SLine s e) t).
Proof. exact @seg_is_bezier. Qed.

(* the same identities in any field of characteristic 0 (executed in Q / bigfloats) *)
Theorem C20_elbow_alg : forall {K} (N : Num K) (OK : NumFieldOK N) q v w a b,
  sderiv1 N (elbow_ll N q v w a b) (zero N) = cscale N b v /\
  sderiv1 N (elbow_ll N q v w a b) (one N) = cscale N b w /\
  sderiv1 N (elbow_lc N q v w a b) (zero N) = cscale N b v /\
  sderiv1 N (elbow_lc N q v w a b) (one N) = cscale N b w.
Proof.
  intros K N OK q v w a b.
  exact (conj (elbow_ll_d0 OK q v w a b) (conj (elbow_ll_d1 OK q v w a b)
        (conj (elbow_lc_d0 OK q v w a b) (elbow_lc_d1 OK q v w a b)))).
Qed.

(* ---- size of the joint: 0 < a <= maxjointsize/2, a <= len/20 ---- *)
Theorem C20_joint_a : forall mj l0 l1,
  0 < mj -> 0 < l0 -> 0 < l1 ->
  let a := joint_a NumR mj l0 l1 in
  0 < a /\ a <= mj / 2 /\ a <= l0 / 20 /\ a <= l1 / 20.
Proof. exact joint_a_props. Qed.

(* ---- convex hull: the elbow stays within a (line-line), 4a/3 (line-curve)
        of the corner q, hence within maxjointsize of the input path ---- *)
Theorem C20_hull : forall q v w a mj tight t,
  cabsR v = 1 -> cabsR w = 1 -> 0 < a <= mj / 2 -> 0 < tight < 2 -> 0 <= t <= 1 ->
  cabsR (csub NumR (spoint NumR (elbow_ll NumR q v w a (b_ll NumR tight a)) t) q) <= a /\
  cabsR (csub NumR (spoint NumR (elbow_lc NumR q v w a (b_lc NumR tight a)) t) q) <= 4 / 3 * a /\
  4 / 3 * a <= 2 / 3 * mj /\ 2 / 3 * mj <= mj.
Proof. exact hull_R. Qed.

(* ---- trimmed lines keep direction, are non-degenerate, are sub-segments ---- *)
Theorem C20_trim_ok : forall s q e a,
  s <> q -> q <> e ->
  let L0 := cabsR (csub NumR q s) in let v := cunitR (csub NumR q s) in
  let L1 := cabsR (csub NumR e q) in let w := cunitR (csub NumR e q) in
  0 <= a -> a <= L0 / 20 -> a <= L1 / 20 ->
  let P := csub NumR q (cscale NumR a v) in
  let P' := cadd NumR q (cscale NumR a w) in
  P <> s /\ cunitR (csub NumR P s) = v /\ cabsR (csub NumR P s) = L0 - a /\
  P' <> e /\ cunitR (csub NumR e P') = w /\ cabsR (csub NumR e P') = L1 - a /\
  (forall t, 0 <= t <= 1 ->
     0 <= t * (1 - a / L0) <= 1 /\ line_point NumR s P t = line_point NumR s q (t * (1 - a / L0))) /\
  (forall t, 0 <= t <= 1 ->
     0 <= a / L1 + t * (1 - a / L1) <= 1 /\
     line_point NumR P' e t = line_point NumR q e (a / L1 + t * (1 - a / L1))).
Proof. exact trim_ok_R. Qed.

(* ---- the modelled smoothed_joint on a pair that is not curve-curve
        (line-line, line-curve, curve-line by reversal), regular segments:
        returns (seg0', [elbow], seg1') meeting SJspec: continuous, unit
        tangents (as unit_tangent computes them) equal at both new joints,
        seg0'.start / seg1'.end and the tangents there preserved, seg0' / seg1'
        sub-pieces of seg0 / seg1, elbow within 2/3 maxjointsize of the corner ---- *)
Theorem C20_joint_simple : forall sing_ut curve_length mj tight,
  0 < mj -> 0 < tight < 2 ->
  forall seg0 seg1,
  LenPos curve_length seg0 -> LenPos curve_length seg1 ->
  is_line seg0 || is_line seg1 = true -> Regular seg0 -> Regular seg1 ->
  send seg0 = sstart seg1 ->
  exists s0' e s1',
    sj_simple NumR NumTR sing_ut curve_length seg0 seg1 mj tight = Some (s0', [e], s1') /\
    SJspec mj seg0 seg1 s0' e s1'.
Proof. exact sj_simple_spec. Qed.

(* ---- curve-curve: PARTIAL — relies on the contracts CCcontract of the
        length / ilength / cropped oracles ---- *)
Theorem C20_joint_cc_partial : forall sing_ut curve_length ilength cropped mj tight,
  0 < mj -> 0 < tight < 2 ->
  forall seg0 seg1,
  CCcontract curve_length ilength cropped ->
  is_line seg0 = false -> is_line seg1 = false -> Regular seg0 -> Regular seg1 ->
  send seg0 = sstart seg1 ->
  exists s0' el s1',
    JOINT sing_ut curve_length ilength cropped mj tight seg0 seg1 = Some (s0', el, s1') /\
    sstart s0' = sstart seg0 /\
    tan0 NumR NumTR sing_ut s0' = tan0 NumR NumTR sing_ut seg0 /\
    send s1' = send seg1 /\
    tan1 NumR NumTR sing_ut s1' = tan1 NumR NumTR sing_ut seg1 /\
    chain (Jexact (@sstart R) (@send R) (tan0 NumR NumTR sing_ut) (tan1 NumR NumTR sing_ut))
          (s0' :: el ++ [s1']) /\
    Forall Regular (s0' :: el ++ [s1']) /\
    is_line s0' = is_line seg0 /\ is_line s1' = is_line seg1 /\
    SubR s0' seg0 /\ SubR s1' seg1 /\ Forall (NearR mj (send seg0)) el.
Proof. exact joint_cc_ok. Qed.

(* ---- the joint loop, paths of ANY length, ANY joint procedure meeting JointOK ---- *)
Theorem C20_loop : forall (S P D : Type) (sst sen : S -> P) (t0 t1 : S -> D)
    (cls : D -> D -> jclass) (joint : S -> S -> option (S * list S * S))
    (Valid : S -> Prop) (Sub : S -> S -> Prop) (Near : P -> S -> Prop),
  (forall x, Sub x x) -> (forall x y z, Sub x y -> Sub y z -> Sub x z) ->
  JointOK sst sen t0 t1 cls joint Valid Sub Near ->
  forall p0 p1 rest closed ignore,
  let path := p0 :: p1 :: rest in
  let pl := last path p0 in
  Forall Valid path -> chain (incont sst sen) path -> chain (inclass t0 t1 cls) path ->
  (closed = true -> sst p0 = sen pl /\ inclass t0 t1 cls pl p0) ->
  exists out,
    sp_loop (classify t0 t1 cls) joint path true closed ignore = SPOk out /\
    chain (Jin sst sen t0 t1 cls (if closed then adjc path p0 else adj path)) out /\
    (closed = false ->
       sst (hd p0 out) = sst p0 /\ t0 (hd p0 out) = t0 p0 /\
       sen (last out p0) = sen pl /\ t1 (last out p0) = t1 pl) /\
    (closed = true -> Jin sst sen t0 t1 cls (adjc path p0) (last out p0) (hd p0 out)) /\
    (forall a b, adj path a b -> insmooth t0 t1 cls a b ->
                 exists x y, adj out x y /\ Keeps sst sen t0 t1 a b x y) /\
    (closed = true -> insmooth t0 t1 cls pl p0 ->
       Keeps sst sen t0 t1 pl p0 (last out p0) (hd p0 out)) /\
    Forall (Origin sen Sub Near path) out.
Proof. exact sp_loop_ok. Qed.

(* every output joint passes the code's own smoothness test (kinks(out) = []) *)
Theorem C20_Jin_no_kink : forall (S P D : Type) (sst sen : S -> P) (t0 t1 : S -> D)
    (cls : D -> D -> jclass) (I : S -> S -> Prop) x y,
  Jin sst sen t0 t1 cls I x y ->
  sen x = sst y /\ (t1 x = t0 y \/ cls (t1 x) (t0 y) = CSmooth).
Proof. exact Jin_Jok. Qed.

(* ---- a single-segment path is returned unchanged (any carrier, any oracles) ---- *)
Theorem C20_single : forall {K} (N : Num K) (T : NumT K) sing_ut curve_length ilength cropped
    (p : seg K) mj tight ignore,
  smoothed_path N T sing_ut curve_length ilength cropped [p] mj tight ignore = SPOk [p].
Proof. exact @smoothed_path_single. Qed.

(* ---- the modelled smoothed_path on polylines: unconditional ---- *)
Theorem C20_polyline : forall sing_ut curve_length ilength cropped mj tight,
  0 < mj -> 0 < tight < 2 ->
  forall p0 p1 rest ignore,
  let path := p0 :: p1 :: rest in
  let pl := last path p0 in
  Forall ValidLine path ->
  chain (incont (@sstart R) (@send R)) path ->
  chain (inclass (tan0 NumR NumTR sing_ut) (tan1 NumR NumTR sing_ut) clsR) path ->
  (path_closed NumR path = true ->
     inclass (tan0 NumR NumTR sing_ut) (tan1 NumR NumTR sing_ut) clsR pl p0) ->
  PathOK sing_ut mj path p0 (SPATH sing_ut curve_length ilength cropped mj tight path ignore).
Proof. exact polyline_ok. Qed.

(* ---- lines and regular cubics: PARTIAL (oracle contracts) ---- *)
Theorem C20_path_partial : forall sing_ut curve_length ilength cropped mj tight,
  0 < mj -> 0 < tight < 2 ->
  forall p0 p1 rest ignore,
  CCcontract curve_length ilength cropped ->
  let path := p0 :: p1 :: rest in
  let pl := last path p0 in
  Forall Regular path ->
  chain (incont (@sstart R) (@send R)) path ->
  chain (inclass (tan0 NumR NumTR sing_ut) (tan1 NumR NumTR sing_ut) clsR) path ->
  (path_closed NumR path = true ->
     inclass (tan0 NumR NumTR sing_ut) (tan1 NumR NumTR sing_ut) clsR pl p0) ->
  PathOK sing_ut mj path p0 (SPATH sing_ut curve_length ilength cropped mj tight path ignore).
Proof. exact path_ok_under_contracts. Qed.

(* ---- REFUTED for cubics with a coincident first control point when the
        singular branch of unit_tangent answers -tau (C15's finding: left half
        plane): the elbow arrives at q with derivative -b tau, b > 0, while the
        curve leaves q along +tau (first derivative 0, second 6|c2-q| tau):
        a 180-degree cusp that smoothed_path / kinks() do not see ---- *)
Theorem C20_singular_tangent_sign_refuted :
  forall sing_ut curve_length ilength cropped mj tight,
  0 < mj -> 0 < tight < 2 ->
  forall s0 q c2 e : Cplx R,
  s0 <> q -> c2 <> q ->
  let seg0 := SLine s0 q in
  let seg1 := SCubic q q c2 e in
  let tau := cunitR (csub NumR c2 q) in
  sing_ut seg1 0 = UTok (copp NumR tau) -> 0 < curve_length seg1 ->
  exists P0 el b,
    JOINT sing_ut curve_length ilength cropped mj tight seg0 seg1 = Some (SLine s0 P0, [el], seg1) /\
    send el = q /\ 0 < b /\
    d1 el = cscale NumR (- b) tau /\
    cubic_deriv NumR q q c2 e 0 1 = Some (0, 0) /\
    cubic_deriv NumR q q c2 e 0 2 = Some (cscale NumR (6 * cabsR (csub NumR c2 q)) tau).
Proof. exact singular_sign_elbow. Qed.

(* ---- non-vacuity ---- *)
(* the hypotheses of C20_polyline are satisfiable on a path with a genuine kink:
   the right-angle corner (0,0) -> (1,0) -> (1,1), maxjointsize 3, tightness 1.99 *)
Example C20_polyline_nonvacuous : forall sing_ut curve_length ilength cropped,
  PathOK sing_ut 3 [cornerA; cornerB] cornerA
         (SPATH sing_ut curve_length ilength cropped 3 (199 / 100) [cornerA; cornerB] false).
Proof. exact corner_path_ok. Qed.
Example C20_corner_is_kink : forall sing_ut,
  cls_ut NumR NumTR (tan1 NumR NumTR sing_ut cornerA) (tan0 NumR NumTR sing_ut cornerB) = CKink.
Proof. exact corner_cls_kink. Qed.
(* hull / elbow hypotheses are satisfiable *)
Example C20_hull_nonvacuous :
  cabsR (csub NumR (spoint NumR (elbow_ll NumR (10, 0) (1, 0) (0, 1) (1 / 2) (b_ll NumR (199 / 100) (1 / 2))) (1 / 2))
                   (10, 0)) <= 1 / 2.
Proof.
  assert (H1 : cabsR (1, 0) = 1) by (rewrite cabsR_eq; simpl; apply sqrt_1'; ring).
  assert (H2 : cabsR (0, 1) = 1) by (rewrite cabsR_eq; simpl; apply sqrt_1'; ring).
  apply (proj1 (@C20_hull (10, 0) (1, 0) (0, 1) (1 / 2) 3 (199 / 100) (1 / 2) H1 H2
                  ltac:(lra) ltac:(lra) ltac:(lra))).
Qed.

Print Assumptions C20_elbow_ll.
Print Assumptions C20_elbow_lc.
Print Assumptions C20_seg_is_bezier.
Print Assumptions C20_elbow_alg.
Print Assumptions C20_joint_a.
Print Assumptions C20_hull.
Print Assumptions C20_trim_ok.
Print Assumptions C20_joint_simple.
Print Assumptions C20_joint_cc_partial.
Print Assumptions C20_loop.
Print Assumptions C20_Jin_no_kink.
Print Assumptions C20_single.
Print Assumptions C20_polyline.
Print Assumptions C20_path_partial.
Print Assumptions C20_singular_tangent_sign_refuted.
Print Assumptions C20_polyline_nonvacuous.
