(* Props/C06.v — property C06: length() is the true arc length: bracketed,
   additive, finite, scipy-independent.  Only statements, `exact`, and
   Print Assumptions live here.  Specification: Model/Length.v
   (arclen = RInt of the speed; curve_len g = arclen of the C1 curve g). *)
From Coq Require Import ZArith List Bool Reals Lra.
From Coquelicot Require Import Coquelicot.
From SVP Require Import Base.Num Base.Cplx Model.Bezier Model.Length
     Proofs.LengthSpec Proofs.LengthBezier Proofs.LengthBracket Proofs.LengthQuad Proofs.LengthPath.
Import ListNotations.
Local Open Scope R_scope.

(* Line.length is the arc length of the line, every t0 t1 *)
Theorem C06_line : forall s e t0 t1,
  line_length NumR NumTR s e t0 t1 = curve_len (line_curve s e) t0 t1.
Proof. exact line_length_arclen. Qed.

(* the derivative functions of the C1 curves are the code's derivative(t, 1) *)
Theorem C06_curves_are_the_model : forall s c1 c2 e t,
  line_deriv NumR s e t 1 = Some (gdx (line_curve s e) t, gdy (line_curve s e) t)
  /\ quad_deriv NumR s c1 e t 1 = Some (gdx (quad_curve s c1 e) t, gdy (quad_curve s c1 e) t)
  /\ cubic_deriv NumR s c1 c2 e t 1 = Some (gdx (cubic_curve s c1 c2 e) t, gdy (cubic_curve s c1 c2 e) t)
  /\ (gx (cubic_curve s c1 c2 e) t, gy (cubic_curve s c1 c2 e) t) = cubic_point NumR s c1 c2 e t
  /\ (gx (quad_curve s c1 e) t, gy (quad_curve s c1 e) t) = quad_point NumR s c1 e t.
Proof.
  intros. rewrite line_d1_model, quad_d1_model, cubic_d1_model. cbn [gdx gdy gx gy line_curve quad_curve cubic_curve].
  repeat split; try (f_equal; symmetry; apply surjective_pairing); symmetry; apply surjective_pairing.
Qed.

(* arc length of any C1 curve (Bezier or arc): finite real, non-negative, additive *)
Theorem C06_nonneg : forall (g : C1curve) t0 t1, t0 <= t1 -> 0 <= curve_len g t0 t1.
Proof. intros g. exact (arclen_nonneg (gdx g) (gdy g) (gdx_c g) (gdy_c g)). Qed.
Theorem C06_additive : forall (g : C1curve) t0 t1 t2,
  curve_len g t0 t1 + curve_len g t1 t2 = curve_len g t0 t2.
Proof. intros g. exact (arclen_additive (gdx g) (gdy g) (gdx_c g) (gdy_c g)). Qed.
Theorem C06_degenerate_interval : forall (g : C1curve) t, curve_len g t t = 0.
Proof. intros g. exact (arclen_point (gdx g) (gdy g)). Qed.

(* lower side of the bracket: chords *)
Theorem C06_chord_le : forall (g : C1curve) t0 t1, t0 <= t1 -> chord g t0 t1 <= curve_len g t0 t1.
Proof. exact chord_le_arclen. Qed.
Theorem C06_chords_le : forall (g : C1curve) ps a, sorted_from a ps ->
  chord_sum g a ps <= curve_len g a (last ps a).
Proof. exact chord_sum_le_arclen. Qed.
(* the recursive chord rule (CubicBezier/Arc.length without scipy) lies between
   the chord and the arc length, for every fuel / depth / error / min_depth *)
Theorem C06_segment_length_le : forall (g : C1curve) error min_depth fuel a b depth s, a <= b ->
  segment_length NumR NumTR (fun t => (gx g t, gy g t)) error min_depth fuel a b
                 (gx g a, gy g a) (gx g b, gy g b) depth = Some s ->
  chord g a b <= s <= curve_len g a b.
Proof. exact segment_length_le_arclen. Qed.

(* upper side: control polygon, degree 2 and 3 (degree 1 is C06_line) *)
Theorem C06_ctrl_polygon_ge : forall s c1 c2 e,
  curve_len (quad_curve s c1 e) 0 1 <= ctrl_len NumR NumTR [s; c1; e]
  /\ curve_len (cubic_curve s c1 c2 e) 0 1 <= ctrl_len NumR NumTR [s; c1; c2; e].
Proof.
  intros. rewrite quad_ctrl_len, cubic_ctrl_len. split; [apply quad_ctrl_polygon|apply cubic_ctrl_polygon].
Qed.
(* the rigorous bracket that judges the implementation: every 2^k-fold de
   Casteljau subdivision of the piece [t0,t1] *)
Theorem C06_bracket_cubic : forall k s c1 c2 e t0 t1, 0 <= t0 <= t1 -> 0 < t1 ->
  fst (bez_bracket NumR NumTR k (bez_crop NumR [s; c1; c2; e] t0 t1))
  <= curve_len (cubic_curve s c1 c2 e) t0 t1
  <= snd (bez_bracket NumR NumTR k (bez_crop NumR [s; c1; c2; e] t0 t1)).
Proof. exact cubic_crop_bracket. Qed.
Theorem C06_bracket_quad : forall k s c e t0 t1, 0 <= t0 <= t1 -> 0 < t1 ->
  fst (bez_bracket NumR NumTR k (bez_crop NumR [s; c; e] t0 t1))
  <= curve_len (quad_curve s c e) t0 t1
  <= snd (bez_bracket NumR NumTR k (bez_crop NumR [s; c; e] t0 t1)).
Proof. exact quad_crop_bracket. Qed.
(* arcs: chord sum <= arc length <= sum sqrt(h * int speed^2), any partition *)
Theorem C06_bracket_arc : forall rx ry cph sph center theta delta a ps, sorted_from a ps ->
  let b := part_bracket NumR NumTR (arc_pt NumR NumTR rx ry cph sph center theta delta)
                        (arc_G NumR NumTR rx ry cph sph theta delta) a ps in
  fst b <= curve_len (arc_curve rx ry cph sph center theta delta) a (last ps a) <= snd b.
Proof. exact arc_part_bracket. Qed.
Theorem C06_bracket_arc_samples : forall rx ry cph sph center theta delta a ps, sorted_from a ps ->
  let ev := arc_sample NumR NumTR rx ry cph sph center theta delta in
  let b := part_bracket_v NumR NumTR (ev a) (map ev ps) in
  fst b <= curve_len (arc_curve rx ry cph sph center theta delta) a (last ps a) <= snd b.
Proof. exact arc_sample_bracket. Qed.
Theorem C06_arc_curve_is_the_model : forall rx ry cph sph center theta delta t,
  arc_pt NumR NumTR rx ry cph sph center theta delta t
  = (gx (arc_curve rx ry cph sph center theta delta) t, gy (arc_curve rx ry cph sph center theta delta) t)
  /\ arc_d1 NumR NumTR rx ry cph sph theta delta t
  = (gdx (arc_curve rx ry cph sph center theta delta) t, gdy (arc_curve rx ry cph sph center theta delta) t).
Proof. intros; split; [apply arc_pt_curve|apply arc_d1_curve]. Qed.

(* QuadraticBezier.length *)
Theorem C06_quad_speed : forall s c e t0 t1,
  curve_len (quad_curve s c e) t0 t1
  = arclen (qdx (quad_a NumR s c e) (quad_b NumR s c e)) (qdy (quad_a NumR s c e) (quad_b NumR s c e)) t0 t1.
Proof. exact quad_curve_len_ab. Qed.
(* closed form = arc length when the control points are not collinear *)
Theorem C06_quad_closed_form : forall a b t0 t1, fst a * snd b - snd a * fst b <> 0 ->
  quad_closed NumR NumTR a b t0 t1 = arclen (qdx a b) (qdy a b) t0 t1.
Proof. intros a b t0 t1 H. destruct (quad_gamma_pos a b H). now apply quad_closed_arclen. Qed.
(* the three fallback formulas = arc length when a = -k b, k > 0 (fold-back) *)
Theorem C06_quad_collinear : forall bx by_ k, 0 < k -> 0 < hyp bx by_ -> forall t0 t1, t0 <= t1 ->
  quad_collinear NumR NumTR (- k * bx, - k * by_) (bx, by_) t0 t1
  = arclen (qdx (- k * bx, - k * by_) (bx, by_)) (qdy (- k * bx, - k * by_) (bx, by_)) t0 t1.
Proof. exact quad_collinear_arclen. Qed.
(* the |a| < 1e-12 branch *)
Theorem C06_quad_small_a : forall a b t0 t1, 0 <= t0 <= t1 ->
  Rabs (cabs NumTR b * (t1 - t0) - arclen (qdx a b) (qdy a b) t0 t1) <= cabs NumTR a * (t1 * t1 - t0 * t0).
Proof. exact quad_small_a_bound. Qed.

(* the nearly straight branch of the repaired code (C06-quad-length-near-linear,
   guard abs(a) < 1e-6 abs(b)): below the arc length by at most
   (4/3) |a|^2/|b| (t1^3 - t0^3), i.e. relative error <= 4 (|a|/|b|)^2 *)
Theorem C06_quad_near_linear : forall a b t0 t1,
  0 <= t0 <= t1 -> t1 <= 1 -> 4 * cabs NumTR a <= cabs NumTR b -> 0 < cabs NumTR b ->
  0 <= arclen (qdx a b) (qdy a b) t0 t1 - quad_near_linear NumR NumTR a b t0 t1
    <= 4 / 3 * (cabs NumTR a * cabs NumTR a) / cabs NumTR b * (t1 * t1 * t1 - t0 * t0 * t0).
Proof. exact quad_near_linear_bound. Qed.

(* Path.length *)
Theorem C06_path_sum : forall (gs : list C1curve) lens, lens = map (fun g => curve_len g 0 1) gs ->
  path_length_full NumR lens = Rsum (map (fun g => curve_len g 0 1) gs).
Proof. exact path_length_full_sum. Qed.
Theorem C06_path_sub : forall seglen (g : nat -> C1curve) nseg T0 T1 i0 t0 i1 t1,
  (forall i a b, seglen i a b = curve_len (g i) a b) -> nseg <> 1%nat ->
  path_length_sub NumR seglen nseg T0 T1 i0 t0 i1 t1 =
  if Nat.eqb i0 i1 then curve_len (g i0) t0 t1
  else curve_len (g i0) t0 1 + Rsum (map (fun i => curve_len (g i) 0 1) (seq (S i0) (i1 - S i0)))
       + curve_len (g i1) 0 t1.
Proof. exact path_length_sub_sum. Qed.

(* non-vacuity: a concrete bracket (exact rationals would need NumQ + sqrt; over
   R we exhibit a curve with positive length) *)
Example C06_nonvacuous : 0 < curve_len (line_curve (0, 0) (3, 4)) 0 1.
Proof.
  rewrite <- C06_line. unfold line_length. rewrite cabs_R. unfold hyp.
  apply Rmult_lt_0_compat; [apply sqrt_lt_R0; cbn; lra|cbn; lra].
Qed.

Print Assumptions C06_line.
Print Assumptions C06_curves_are_the_model.
Print Assumptions C06_nonneg.
Print Assumptions C06_additive.
Print Assumptions C06_chord_le.
Print Assumptions C06_chords_le.
Print Assumptions C06_segment_length_le.
Print Assumptions C06_ctrl_polygon_ge.
Print Assumptions C06_bracket_cubic.
Print Assumptions C06_bracket_quad.
Print Assumptions C06_bracket_arc.
Print Assumptions C06_bracket_arc_samples.
Print Assumptions C06_quad_closed_form.
Print Assumptions C06_quad_collinear.
Print Assumptions C06_quad_small_a.
Print Assumptions C06_quad_near_linear.
Print Assumptions C06_path_sum.
Print Assumptions C06_path_sub.
