(* Props/C08.v — property C08: bbox() contains the curve and every side of it
   is touched by the curve.  Only statements, `exact`, Print Assumptions and
   non-vacuity examples live here.  Models: Model/Extrema.v (as coded; np.roots
   is an oracle whose output is an argument).  Variant flags: [stable] (closed
   form of bezier_real_minmax: false = pinned (tau -+ sqrt delta)/denom, true =
   repaired cancellation-free form) and [fixed] (polyroots de-duplication:
   false = pinned pair-index loop, true = repaired loop = C19's dedup_fixed).
   Every theorem below holds for both values of both flags. *)
From Coq Require Import ZArith List Bool Reals Lra.
From SVP Require Model.BezierN.
From SVP Require Import Base.Num Base.Cplx Base.Poly Model.Bezier Model.Extrema
     Proofs.ExtremaLemmas Proofs.ExtremaBbox Proofs.ExtremaArc.
Import ListNotations.
Local Open Scope R_scope.

(* ---- the reusable lemma: extremes of a differentiable function on [0,1] are
   taken at 0, 1 or at a zero of the derivative in (0,1) ---- *)
Theorem C08_extreme_at_candidates : forall (f f' : R -> R) (cs : list R),
  (forall t, derivable_pt_lim f t (f' t)) ->
  (forall t, 0 < t < 1 -> f' t = 0 -> In t cs) ->
  forall t, 0 <= t <= 1 ->
  lmin NumR (f 0 :: f 1 :: map f cs) <= f t <= lmax NumR (f 0 :: f 1 :: map f cs).
Proof. intros f f' cs Hd Hcs. exact (@extreme_at_candidates f f' Hd cs Hcs). Qed.

(* ---- cubic closed form: r1, r2 are exactly the roots of x'(t) ---- *)
Theorem C08_cubic_roots : forall a0 a1 a2 a3,
  brm_denom NumR a0 a1 a2 a3 <> 0 -> 0 <= brm_delta NumR a0 a1 a2 a3 ->
  forall t, dX a0 a1 a2 a3 t = 0 <->
            (t = brm_r1 NumR NumTR a0 a1 a2 a3 \/ t = brm_r2 NumR NumTR a0 a1 a2 a3).
Proof. exact cubic_roots_iff. Qed.
(* the repaired closed form computes the same two roots (possibly swapped), so
   the statement holds for either variant *)
Theorem C08_cubic_stable_same_roots : forall a0 a1 a2 a3,
  brm_denom NumR a0 a1 a2 a3 <> 0 -> 0 <= brm_delta NumR a0 a1 a2 a3 ->
  brm_roots NumR NumTR true a0 a1 a2 a3 = (brm_r1 NumR NumTR a0 a1 a2 a3, brm_r2 NumR NumTR a0 a1 a2 a3) \/
  brm_roots NumR NumTR true a0 a1 a2 a3 = (brm_r2 NumR NumTR a0 a1 a2 a3, brm_r1 NumR NumTR a0 a1 a2 a3).
Proof. exact stable_roots_perm. Qed.
Theorem C08_cubic_roots_any_variant : forall a0 a1 a2 a3 stable,
  brm_denom NumR a0 a1 a2 a3 <> 0 -> 0 <= brm_delta NumR a0 a1 a2 a3 ->
  forall t, dX a0 a1 a2 a3 t = 0 <->
            (t = fst (brm_roots NumR NumTR stable a0 a1 a2 a3) \/ t = snd (brm_roots NumR NumTR stable a0 a1 a2 a3)).
Proof. exact cubic_roots_gen. Qed.
Theorem C08_cubic_no_root : forall a0 a1 a2 a3,
  brm_delta NumR a0 a1 a2 a3 < 0 -> forall t, dX a0 a1 a2 a3 t <> 0.
Proof. exact cubic_no_root. Qed.
(* dX is the derivative of bezier_point for 4 real control values *)
Theorem C08_cubic_dX_is_derivative : forall a0 a1 a2 a3 t,
  derivable_pt_lim (bpoint4 NumR a0 a1 a2 a3) t (dX a0 a1 a2 a3 t).
Proof. exact bpoint4_derivable. Qed.
Theorem C08_cubic_delta_identity : forall a0 a1 a2 a3,
  brm_delta NumR a0 a1 a2 a3
  = brm_tau NumR a0 a1 a2 * brm_tau NumR a0 a1 a2 + brm_denom NumR a0 a1 a2 a3 * (a1 - a0).
Proof. exact delta_identity. Qed.

(* ---- Line ---- *)
Theorem C08_line_contains : forall s e t, 0 <= t <= 1 ->
  let '(xmin, xmax, ymin, ymax) := line_bbox NumR s e in
  xmin <= re (line_point NumR s e t) <= xmax /\ ymin <= im (line_point NumR s e t) <= ymax.
Proof. exact line_contains. Qed.
Theorem C08_line_tight : forall s e,
  let '(xmin, xmax, ymin, ymax) := line_bbox NumR s e in
  (exists t, (t = 0 \/ t = 1) /\ xmin = re (line_point NumR s e t)) /\
  (exists t, (t = 0 \/ t = 1) /\ xmax = re (line_point NumR s e t)) /\
  (exists t, (t = 0 \/ t = 1) /\ ymin = im (line_point NumR s e t)) /\
  (exists t, (t = 0 \/ t = 1) /\ ymax = im (line_point NumR s e t)).
Proof. exact line_tight. Qed.

(* ---- CubicBezier.  coord_ok = "denom <> 0 (closed form, no oracle), or the
   np.roots output lists every real root in [0,1] of the derivative polynomial
   and no two surviving roots are isclose" ---- *)
Theorem C08_bezier_contains_cubic_partial : forall stable fixed atol rtol, 0 < atol -> 0 <= rtol ->
  forall p0 p1 p2 p3 rx ry,
  coord_ok (re p0) (re p1) (re p2) (re p3) fixed atol rtol rx ->
  coord_ok (im p0) (im p1) (im p2) (im p3) fixed atol rtol ry ->
  forall t, 0 <= t <= 1 ->
  let '(xmin, xmax, ymin, ymax) := cubic_bbox NumR NumTR stable fixed atol rtol p0 p1 p2 p3 rx ry in
  xmin <= re (cubic_point NumR p0 p1 p2 p3 t) <= xmax /\
  ymin <= im (cubic_point NumR p0 p1 p2 p3 t) <= ymax.
Proof. exact cubic_bbox_contains. Qed.
(* the closed form needs no premise on the oracle at all *)
Theorem C08_bezier_contains_cubic_closed_form : forall stable fixed atol rtol, 0 < atol -> 0 <= rtol ->
  forall p0 p1 p2 p3 rx ry,
  brm_denom NumR (re p0) (re p1) (re p2) (re p3) <> 0 ->
  brm_denom NumR (im p0) (im p1) (im p2) (im p3) <> 0 ->
  forall t, 0 <= t <= 1 ->
  let '(xmin, xmax, ymin, ymax) := cubic_bbox NumR NumTR stable fixed atol rtol p0 p1 p2 p3 rx ry in
  xmin <= re (cubic_point NumR p0 p1 p2 p3 t) <= xmax /\
  ymin <= im (cubic_point NumR p0 p1 p2 p3 t) <= ymax.
Proof.
  intros stable fixed atol rtol Ha Hr p0 p1 p2 p3 rx ry Hx Hy.
  apply (cubic_bbox_contains stable fixed atol rtol Ha Hr); left; assumption.
Qed.
Theorem C08_bezier_tight_cubic : forall stable fixed atol rtol p0 p1 p2 p3 rx ry,
  let '(xmin, xmax, ymin, ymax) := cubic_bbox NumR NumTR stable fixed atol rtol p0 p1 p2 p3 rx ry in
  (exists t, 0 <= t <= 1 /\ xmin = re (cubic_point NumR p0 p1 p2 p3 t)) /\
  (exists t, 0 <= t <= 1 /\ xmax = re (cubic_point NumR p0 p1 p2 p3 t)) /\
  (exists t, 0 <= t <= 1 /\ ymin = im (cubic_point NumR p0 p1 p2 p3 t)) /\
  (exists t, 0 <= t <= 1 /\ ymax = im (cubic_point NumR p0 p1 p2 p3 t)).
Proof. exact cubic_bbox_tight. Qed.

(* ---- QuadraticBezier (always through polyroots of the linear derivative) ---- *)
Theorem C08_bezier_contains_quad_partial : forall fixed atol rtol, 0 < atol -> 0 <= rtol ->
  forall p0 p1 p2 rx ry,
  poly_ok fixed atol rtol (quad_coeffs NumR (re p0) (re p1) (re p2)) rx ->
  poly_ok fixed atol rtol (quad_coeffs NumR (im p0) (im p1) (im p2)) ry ->
  forall t, 0 <= t <= 1 ->
  let '(xmin, xmax, ymin, ymax) := quad_bbox NumR fixed atol rtol p0 p1 p2 rx ry in
  xmin <= re (quad_point NumR p0 p1 p2 t) <= xmax /\
  ymin <= im (quad_point NumR p0 p1 p2 t) <= ymax.
Proof. exact quad_bbox_contains. Qed.
Theorem C08_bezier_tight_quad : forall fixed atol rtol p0 p1 p2 rx ry,
  let '(xmin, xmax, ymin, ymax) := quad_bbox NumR fixed atol rtol p0 p1 p2 rx ry in
  (exists t, 0 <= t <= 1 /\ xmin = re (quad_point NumR p0 p1 p2 t)) /\
  (exists t, 0 <= t <= 1 /\ xmax = re (quad_point NumR p0 p1 p2 t)) /\
  (exists t, 0 <= t <= 1 /\ ymin = im (quad_point NumR p0 p1 p2 t)) /\
  (exists t, 0 <= t <= 1 /\ ymax = im (quad_point NumR p0 p1 p2 t)).
Proof. exact quad_bbox_tight. Qed.
(* the polyroots model: whatever it returns satisfies the condition and comes
   from the oracle (either variant); under the contract nothing is lost *)
Theorem C08_polyroots_sound : forall atol rtol fixed cond roots t,
  In t (polyroots_real NumR atol rtol fixed cond roots) ->
  cond t = true /\ exists r, In r roots /\ re r = t.
Proof. exact polyroots_sound. Qed.
(* sep_ok false = no_close_pairs : no two surviving list POSITIONS are isclose
   (needed by the pinned loop only because of the pair-index bug: it forbids
   listing a double root twice);
   sep_ok true = distinct_separated : surviving roots with DIFFERENT values are
   not isclose (the genuine separation premise; multiplicities are harmless) *)
Theorem C08_polyroots_complete_partial : forall atol rtol fixed cond roots t, 0 < atol -> 0 <= rtol ->
  In (t, 0) roots -> cond t = true ->
  sep_ok atol rtol fixed (filter cond (real_roots NumR atol rtol roots)) ->
  In t (polyroots_real NumR atol rtol fixed cond roots).
Proof. exact polyroots_complete. Qed.
Theorem C08_polyroots_complete_repaired_partial : forall atol rtol cond roots t, 0 < atol -> 0 <= rtol ->
  In (t, 0) roots -> cond t = true ->
  (forall a b, In (a, b) (pairs (filter cond (real_roots NumR atol rtol roots))) -> a <> b ->
               isclose NumR atol rtol a b = false) ->
  In t (polyroots_real NumR atol rtol true cond roots).
Proof. intros atol rtol cond roots t. exact (polyroots_complete atol rtol true cond roots t). Qed.
(* the premise of the pinned variant implies the one of the repaired variant *)
Theorem C08_repaired_premise_weaker : forall atol rtol fixed l,
  no_close_pairs atol rtol l -> sep_ok atol rtol fixed l.
Proof. exact no_close_pairs_sep_ok. Qed.
(* this file's polyroots model is property C19's (Model/BezierN.v), both variants, any carrier *)
Theorem C08_polyroots_model_is_C19 : forall (K : Type) (N : Num K) atol rtol fixed cond roots,
  polyroots_real N atol rtol fixed cond roots = BezierN.polyroots N rtol atol fixed roots true cond.
Proof. intros K N. exact (polyroots_real_same_as_C19 N). Qed.

(* ---- Arc ---- *)
(* x'(a) = -P sin a - Q cos a vanishes exactly at ang + k*pi, for the three
   branches of the code (P = rx cos phi, Q = ry sin phi for x;
   P = rx sin phi, Q = -ry cos phi for y) *)
Theorem C08_arc_critical : forall P Q ang, ang_spec P Q ang ->
  forall a, gd P Q a = 0 <-> exists k : Z, a = ang + IZR k * PI.
Proof. exact crit_iff. Qed.
Theorem C08_arc_atans_are_the_branches : forall A : @arcp R, 0 < a_rx A -> 0 < a_ry A ->
  ang_spec (Px A) (Qx A) (fst (arc_atans NumR NumTR A)) /\
  ang_spec (Py A) (Qy A) (snd (arc_atans NumR NumTR A)).
Proof. exact atans_spec. Qed.
Theorem C08_arc_k_range : forall theta delta ang t (k : Z),
  Rabs theta <= 180 -> Rabs delta <= 360 -> - PI / 2 <= ang <= PI / 2 -> 0 <= t <= 1 ->
  (theta + t * delta) * PI / 180 = ang + IZR k * PI -> (-4 <= k <= 4)%Z.
Proof. exact k_range. Qed.
(* extra hypotheses: the stored start / end are point(0) / point(1) (property
   C04), radii positive, delta <> 0, |theta| <= 180, |delta| <= 360 *)
Theorem C08_arc_contains_partial : forall A : @arcp R,
  0 < a_rx A -> 0 < a_ry A -> a_delta A <> 0 ->
  Rabs (a_theta A) <= 180 -> Rabs (a_delta A) <= 360 ->
  a_start A = arc_point NumR NumTR A 0 -> a_end A = arc_point NumR NumTR A 1 ->
  forall t, 0 <= t <= 1 ->
  let '(xmin, xmax, ymin, ymax) := arc_bbox NumR NumTR A in
  xmin <= re (arc_point NumR NumTR A t) <= xmax /\ ymin <= im (arc_point NumR NumTR A t) <= ymax.
Proof. exact arc_bbox_contains. Qed.
Theorem C08_arc_tight_partial : forall A : @arcp R,
  a_start A = arc_point NumR NumTR A 0 -> a_end A = arc_point NumR NumTR A 1 ->
  let '(xmin, xmax, ymin, ymax) := arc_bbox NumR NumTR A in
  (exists t, 0 <= t <= 1 /\ xmin = re (arc_point NumR NumTR A t)) /\
  (exists t, 0 <= t <= 1 /\ xmax = re (arc_point NumR NumTR A t)) /\
  (exists t, 0 <= t <= 1 /\ ymin = im (arc_point NumR NumTR A t)) /\
  (exists t, 0 <= t <= 1 /\ ymax = im (arc_point NumR NumTR A t)).
Proof. exact arc_bbox_tight. Qed.

(* ---- Path: component-wise min / max, any carrier with a sane order ---- *)
Theorem C08_path_union : forall (K : Type) (N : Num K), OrdOK N ->
  forall bbs b, In b bbs ->
  nle N (b_xmin (path_bbox N bbs)) (b_xmin b) /\ nle N (b_xmax b) (b_xmax (path_bbox N bbs)) /\
  nle N (b_ymin (path_bbox N bbs)) (b_ymin b) /\ nle N (b_ymax b) (b_ymax (path_bbox N bbs)).
Proof. intros K N OK. exact (path_bbox_union N OK). Qed.
Theorem C08_path_sides : forall (K : Type) (N : Num K), OrdOK N ->
  forall bbs, bbs <> [] ->
  (exists b, In b bbs /\ b_xmin (path_bbox N bbs) = b_xmin b) /\
  (exists b, In b bbs /\ b_xmax (path_bbox N bbs) = b_xmax b) /\
  (exists b, In b bbs /\ b_ymin (path_bbox N bbs) = b_ymin b) /\
  (exists b, In b bbs /\ b_ymax (path_bbox N bbs) = b_ymax b).
Proof. intros K N OK. exact (path_bbox_sides N OK). Qed.
Theorem C08_path_contains_tight : forall segs : list ((R -> Cplx R) * (R * R * R * R)),
  segs <> [] ->
  (forall c b, In (c, b) segs -> (forall t, 0 <= t <= 1 -> box_contains b (c t)) /\ box_tight b c) ->
  let pb := path_bbox NumR (map snd segs) in
  (forall c b t, In (c, b) segs -> 0 <= t <= 1 -> box_contains pb (c t)) /\
  (exists c b t, In (c, b) segs /\ 0 <= t <= 1 /\ b_xmin pb = re (c t)) /\
  (exists c b t, In (c, b) segs /\ 0 <= t <= 1 /\ b_xmax pb = re (c t)) /\
  (exists c b t, In (c, b) segs /\ 0 <= t <= 1 /\ b_ymin pb = im (c t)) /\
  (exists c b t, In (c, b) segs /\ 0 <= t <= 1 /\ b_ymax pb = im (c t)).
Proof. exact path_bbox_contains_tight. Qed.

(* ---- non-vacuity ---- *)
(* a cubic coordinate with denom <> 0 and two interior critical points *)
Example C08_closed_form_nonvacuous :
  brm_denom NumR 0 3 (-3) 0 <> 0 /\ 0 <= brm_delta NumR 0 3 (-3) 0.
Proof. unfold brm_denom, brm_delta. cbn. split; lra. Qed.
(* the oracle contract is satisfiable: x(t) = 2t - 2t^2, derivative root 1/2 *)
Example C08_contract_satisfiable : forall fixed atol rtol,
  poly_ok fixed atol rtol (quad_coeffs NumR 0 1 0) [(1 / 2, 0)].
Proof.
  intros fixed atol rtol. split.
  - intros _ t _ H. left. f_equal. unfold quad_coeffs, peval in H. cbn in H. lra.
  - unfold separated. apply no_close_pairs_sep_ok. unfold no_close_pairs, real_roots. cbn [filter map].
    destruct (isclose NumR atol rtol (im (1 / 2, 0)) (zero NumR)); cbn [filter map].
    + destruct (lt01 NumR (re (1 / 2, 0))); cbn; intros a b [].
    + cbn; intros a b [].
Qed.
(* the quarter of the unit circle satisfies the hypotheses of the Arc theorems *)
Example C08_arc_hypotheses_satisfiable :
  let A := mkArcp (1, 0) (0, 1) 1 1 0 0 90 (0, 0) in
  0 < a_rx A /\ 0 < a_ry A /\ a_delta A <> 0 /\ Rabs (a_theta A) <= 180 /\ Rabs (a_delta A) <= 360 /\
  a_start A = arc_point NumR NumTR A 0 /\ a_end A = arc_point NumR NumTR A 1.
Proof.
  cbn [a_rx a_ry a_delta a_theta a_start a_end]. repeat split; try lra.
  - rewrite Rabs_R0. lra.
  - rewrite Rabs_pos_eq; lra.
  - unfold arc_point, arc_xy, arc_angle. cbn [a_rx a_ry a_phi a_theta a_delta a_center re im fst snd].
    cbn [add sub mul div zero one NumR cos_ sin_ pi_ NumTR]. rewrite lit_R.
    replace ((0 + 0 * 90) * PI / 180) with 0 by field. rewrite cos_0, sin_0. f_equal; ring.
  - unfold arc_point, arc_xy, arc_angle. cbn [a_rx a_ry a_phi a_theta a_delta a_center re im fst snd].
    cbn [add sub mul div zero one NumR cos_ sin_ pi_ NumTR]. rewrite lit_R.
    replace ((0 + 1 * 90) * PI / 180) with (PI / 2) by field. rewrite cos_0, sin_0, cos_PI2, sin_PI2. f_equal; ring.
Qed.

Print Assumptions C08_extreme_at_candidates.
Print Assumptions C08_cubic_roots.
Print Assumptions C08_cubic_stable_same_roots.
Print Assumptions C08_cubic_roots_any_variant.
Print Assumptions C08_cubic_no_root.
Print Assumptions C08_cubic_dX_is_derivative.
Print Assumptions C08_cubic_delta_identity.
Print Assumptions C08_line_contains.
Print Assumptions C08_line_tight.
Print Assumptions C08_bezier_contains_cubic_partial.
Print Assumptions C08_bezier_contains_cubic_closed_form.
Print Assumptions C08_bezier_tight_cubic.
Print Assumptions C08_bezier_contains_quad_partial.
Print Assumptions C08_bezier_tight_quad.
Print Assumptions C08_polyroots_sound.
Print Assumptions C08_polyroots_complete_partial.
Print Assumptions C08_polyroots_complete_repaired_partial.
Print Assumptions C08_repaired_premise_weaker.
Print Assumptions C08_polyroots_model_is_C19.
Print Assumptions C08_arc_critical.
Print Assumptions C08_arc_atans_are_the_branches.
Print Assumptions C08_arc_k_range.
Print Assumptions C08_arc_contains_partial.
Print Assumptions C08_arc_tight_partial.
Print Assumptions C08_path_union.
Print Assumptions C08_path_sides.
Print Assumptions C08_path_contains_tight.
Print Assumptions C08_closed_form_nonvacuous.
Print Assumptions C08_contract_satisfiable.
Print Assumptions C08_arc_hypotheses_satisfiable.
