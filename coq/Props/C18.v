(* Props/C18.v — property C18: paths written to SVG (wsvg, Document) are read
   back unchanged, with attributes.  Only statements, `exact`, Print
   Assumptions and witnesses live here.  Models: Model/SvgIO.v.

   The d-string -> Path step is property C01's business: the path-level
   theorem is stated under the hypothesis [parse_d] (parse_path ∘ Path.d = id
   up to the equality C01 proves), named explicitly (`_partial`). *)
From Coq Require Import String List Bool.
From SVP Require Import Model.SvgIO Model.SvgIOCheck Proofs.SvgIO Proofs.SvgDocHist.
Import ListNotations.
Open Scope string_scope.
Open Scope list_scope.

(* [c] is the variant of the code (Model/SvgIO.v cfg): pinned = all flags
   false = commit 12ec128; repaired = all true. *)

(* ---- wsvg -> svg2paths / Document / SaxDocument: d-strings in order, the
   supplied per-path attributes among those returned with unchanged values.
   For SaxDocument under the hypothesis that no style attribute is involved
   (its values are computed values, a style declaration takes precedence over
   the attribute of the same name: C18_sax_style_precedence) ---- *)
Theorem C18_wsvg_roundtrip : forall c ds attrs svgattrs size,
    length attrs = length ds ->
    (* svg2paths: EVERY list under the repaired variant (f_nod_empty: a path
       element without d reads as the empty path); under the pinned variant
       when no path is the empty one (svgwrite leaves the d attribute of an empty
       path out, and svg2paths read el['d']: C18_wsvg_empty_path_refuted) *)
    ((f_nod_empty c = true \/ noempty ds) ->
     svg2paths_read c (wsvg_file ds attrs svgattrs size) = Some (ds, written ds attrs))
    (* Document(file).paths(): every list, the empty path included *)
    /\ doc_read (wsvg_file ds attrs svgattrs size) = (ds, written ds attrs)
    (* SaxDocument(file) *)
    /\ (noempty ds -> nostyle svgattrs -> nostyle size -> Forall nostyle attrs ->
        exists rv, sax_read c (wsvg_file ds attrs svgattrs size)
                   = Some (ds, map (fun w => sax_path_values (update rv w)) (written ds attrs))
                   /\ sax_root_values c (wsvg_file ds attrs svgattrs size) = rv
                   /\ forall k v, lookup k svgattrs = Some v -> lookup k rv = Some v)
    (* attributes are kept *)
    /\ length (written ds attrs) = length ds
    /\ (forall i a w k v, nth_error attrs i = Some a -> nth_error (written ds attrs) i = Some w ->
                          k <> "d" -> lookup k a = Some v ->
                          lookup k w = Some v
                          /\ forall rv, lookup k (sax_path_values (update rv w)) = Some v).
Proof.
  intros c ds attrs sa size H. split; [|split; [|split; [|split]]].
  - intros Hn. apply wsvg_svg2paths; assumption.
  - apply wsvg_document, H.
  - intros H0 H1 H2 H3. apply wsvg_sax; assumption.
  - apply written_length, H.
  - intros i a w k v Ha Hw Hk Hv.
    assert (E : lookup k w = Some v) by (exact (written_keeps ds attrs i a w k v Ha Hw Hk Hv)).
    split; [exact E|]. intros rv. rewrite sax_path_values_keeps by exact Hk.
    apply lookup_update_other. exact E.
Qed.

Theorem C18_wsvg_svg_attributes : forall ds attrs svgattrs size k v,
    lookup k svgattrs = Some v ->
    exists ra, svg2paths_svg_attributes (wsvg_file ds attrs svgattrs size) = Some ra
               /\ lookup k ra = Some v.
Proof. exact wsvg_svg2paths_svg_attributes. Qed.

(* at the level of paths, modulo C01 *)
Section PathLevel.
  Variable Path : Type.
  Variable dstr : Path -> string.          (* Path.d() *)
  Variable parse : string -> Path.         (* parse_path *)
  Hypothesis parse_d : forall p, parse (dstr p) = p.

  Theorem C18_wsvg_roundtrip_partial : forall c ps attrs svgattrs size,
      length attrs = length ps ->
      ((f_nod_empty c = true \/ noempty (map dstr ps)) ->
       option_map (fun r => map parse (fst r))
                  (svg2paths_read c (wsvg_file (map dstr ps) attrs svgattrs size)) = Some ps)
      /\ map parse (fst (doc_read (wsvg_file (map dstr ps) attrs svgattrs size))) = ps
      /\ (noempty (map dstr ps) -> nostyle svgattrs -> nostyle size -> Forall nostyle attrs ->
          option_map (fun r => map parse (fst r))
                     (sax_read c (wsvg_file (map dstr ps) attrs svgattrs size)) = Some ps).
  Proof.
    intros c ps attrs sa size H.
    assert (H' : length attrs = length (map dstr ps)) by (rewrite map_length; exact H).
    assert (E : map parse (map dstr ps) = ps).
    { rewrite map_map. erewrite map_ext; [apply map_id|]. exact parse_d. }
    split; [|split].
    - intros Hn. rewrite (wsvg_svg2paths c _ _ sa size H' Hn). cbn [option_map fst]. rewrite E. reflexivity.
    - rewrite (wsvg_document _ _ sa size H'). cbn [fst]. exact E.
    - intros Hn H1 H2 H3. destruct (wsvg_sax c _ _ sa size H' Hn H1 H2 H3) as (rv & Hr & _).
      rewrite Hr. cbn [option_map fst]. rewrite E. reflexivity.
  Qed.
End PathLevel.

(* the empty path: svgwrite writes <path id=.../> without d; the pinned svg2paths
   raises KeyError('d') on the whole file (finding
   svg2paths-path-without-d-keyerror), Document and SaxDocument return the three
   paths; the repaired svg2paths returns them too *)
Example C18_wsvg_empty_path_refuted :
  let f := wsvg_file ["M 0,0 L 1,1"; ""; "M 2,2 L 3,3"] [[("id", "a")]; [("id", "b")]; [("id", "c")]] [] [] in
  svg2paths_read pinned f = None
  /\ option_map fst (svg2paths_read repaired f) = Some ["M 0,0 L 1,1"; ""; "M 2,2 L 3,3"]
  /\ fst (doc_read f) = ["M 0,0 L 1,1"; ""; "M 2,2 L 3,3"]
  /\ option_map fst (sax_read pinned f) = Some ["M 0,0 L 1,1"; ""; "M 2,2 L 3,3"].
Proof. vm_compute. repeat split. Qed.
(* added to a Document, the empty path is written d="" and read back by all three *)
Example C18_doc_empty_path :
  let t := run repaired [OpAddPath "M 0,0 L 1,1" [("id", "a")] []; OpAddPath "" [("id", "b")] [];
                         OpAddPath "M 2,2 L 3,3" [("id", "c")] []] (empty_document repaired) in
  option_map fst (svg2paths_read repaired (et_write repaired t)) = Some ["M 0,0 L 1,1"; ""; "M 2,2 L 3,3"]
  /\ fst (doc_read (et_write repaired t)) = ["M 0,0 L 1,1"; ""; "M 2,2 L 3,3"]
  /\ option_map fst (sax_read repaired (et_write repaired t)) = Some ["M 0,0 L 1,1"; ""; "M 2,2 L 3,3"].
Proof. vm_compute. repeat split. Qed.

(* ---- the style attribute in SaxDocument ---- *)
(* pinned: a trailing semicolon makes the constructor raise (IndexError) *)
Example C18_sax_style_semicolon_refuted :
  style_entries pinned [("style", "fill:none;stroke:black;")] = None
  /\ sax_read pinned (FE "" SVGNS "svg" [] [FE "" SVGNS "path" [("d", "M0,0 L1,1"); ("style", "fill:none;")] []])
     = None.
Proof. vm_compute. split; reflexivity. Qed.
(* repaired (f_style_skip): splitting never raises *)
Theorem C18_sax_style_total : forall c a,
    f_style_skip c = true -> exists r, style_entries c a = Some r.
Proof. exact style_entries_total. Qed.
Example C18_sax_style_repaired :
  style_entries repaired [("style", "fill:none;stroke:black;")] = Some [("stroke", "black"); ("fill", "none")].
Proof. vm_compute. reflexivity. Qed.
(* the values SaxDocument returns are computed values: a declaration in the
   element's style attribute takes precedence over the presentation attribute
   of the same name (CSS cascade, SVG 1.1 6.4), which takes precedence over the
   inherited value.  (This was first classified as a finding
   "sax-style-overrides-attribute"; it is what the specification prescribes,
   the check now expects it.) *)
Theorem C18_sax_style_precedence : forall inh a st k,
    lookup k (update (update inh a) st)
    = match lookup k st with
      | Some v => Some v
      | None => match lookup k a with Some v => Some v | None => lookup k inh end
      end.
Proof. exact values_precedence. Qed.
Example C18_sax_style_precedence_example :
  option_map (fun r => map (lookup "fill") (snd r))
    (sax_read repaired (FE "" SVGNS "svg" []
       [FE "" SVGNS "path" [("d", "M0,0 L1,1"); ("fill", "red"); ("style", "fill:none")] []]))
  = Some [Some "none"].
Proof. vm_compute. reflexivity. Qed.

(* ---- Document: save / reload is the identity on the tree: pinned
   serialisation on every tree, default-namespace serialisation on trees that
   are entirely in the SVG namespace ---- *)
Theorem C18_save_reload : forall c e,
    (f_default_ns c = false \/ pure e = true) -> et_parse (et_write c e) = e.
Proof.
  intros c e [H|H]; [apply et_roundtrip, H|apply et_roundtrip_pure, H].
Qed.

(* ---- histories.  Pinned add_path (f_add_ns = false): "every added path is
   visible to paths()" is refuted, in the strongest form: NOTHING that
   add_path / add_group add is ever visible, for every document and every
   history; also after save and reload ---- *)
Theorem C18_doc_history_refuted : forall c ops root,
    f_add_ns c = false ->
    doc_visible (run c ops root) = doc_visible root
    /\ (f_default_ns c = false ->
        doc_visible (et_parse (et_write c (run c ops root))) = doc_visible root).
Proof.
  intros c ops root H. split; [apply history_invisible, H|].
  intros H2. apply history_invisible_reload; assumption.
Qed.

(* concrete: Document(None); add_path('M0,0 L1,1'); paths() == [] *)
Example C18_doc_add_path_refuted :
  doc_visible (run pinned [OpAddPath "M0,0 L1,1" [("id", "a")] []] (empty_document pinned)) = []
  /\ x_kids (run pinned [OpAddPath "M0,0 L1,1" [("id", "a")] []] (empty_document pinned))
     = [XE "" "path" [("d", "M0,0 L1,1"); ("id", "a")] []].
Proof. vm_compute. split; reflexivity. Qed.

(* Repaired add_path (f_add_ns = true): every path added to an element that
   paths() reaches (the root, or below it through groups), and every path
   added through nested group names, is returned by paths() after the step
   and after every continuation of the history; nothing is ever lost *)
Theorem C18_doc_history : forall c,
    f_add_ns c = true ->
    (forall ops1 ops2 root d a p,
        reach (run c ops1 root) p = true ->
        In (update a [("d", d)]) (doc_visible (run c (ops1 ++ OpAddPath d a p :: ops2) root)))
    /\ (forall ops1 ops2 root d a names,
        In (update a [("d", d)]) (doc_visible (run c (ops1 ++ OpAddPathNamed d a names :: ops2) root)))
    /\ (forall ops root, incl (doc_visible root) (doc_visible (run c ops root))).
Proof.
  intros c H. split; [|split].
  - apply history_visible_at, H.
  - apply history_visible_named, H.
  - apply history_monotone.
Qed.
Example C18_doc_add_path_repaired :
  doc_visible (run repaired [OpAddPath "M0,0 L1,1" [("id", "a")] []] (empty_document repaired))
  = [[("d", "M0,0 L1,1"); ("id", "a")]].
Proof. vm_compute. reflexivity. Qed.

(* the element add_path creates carries the path that is added — a 'd' entry of
   the supplied attribute dict (typical: dicts loaded with svg2paths, path
   edited, add_path(edited, loaded_attribs)) is superseded — and every other
   supplied attribute unchanged *)
Theorem C18_doc_add_path_attributes : forall c d a,
    lookup "d" (x_attrs (new_path_element c d a)) = Some d
    /\ forall k, k <> "d" -> lookup k (x_attrs (new_path_element c d a)) = lookup k a.
Proof. intros c d a. split; [apply new_path_d|intros k Hk; apply new_path_keeps, Hk]. Qed.
Example C18_doc_add_path_stale_d :
  dlist (doc_visible (run repaired [OpAddPath "M5,5 L6,6" [("d", "M0,0 L1,1"); ("id", "a")] []]
                          (empty_document repaired))) = ["M5,5 L6,6"].
Proof. vm_compute. reflexivity. Qed.

(* svg2paths on a file saved by Document, pinned serialisation: exactly the
   path elements that carry no namespace; those of the SVG namespace are
   written svg:path and are not found *)
Theorem C18_doc_save_svg2paths_pinned : forall c e,
    f_default_ns c = false ->
    elements_by_tag "path" (et_write c e)
    = map (et_write_in c false) (filter bare_path (x_preorder e)).
Proof. exact saved_svg2paths. Qed.

(* a document loaded from a file (path in the SVG namespace), one path added,
   saved: svg2paths returns only the added path, Document/SaxDocument only
   the original one *)
Definition loaded : xel := XE SVGNS "svg" [] [XE SVGNS "path" [("d", "M0,0 L1,1")] []].
Definition after (c : cfg) : xel := run c [OpAddPath "M5,5 L6,6" [] []] loaded.
Example C18_doc_save_svg2paths_refuted :
  option_map fst (svg2paths_read pinned (et_write pinned (after pinned))) = Some ["M5,5 L6,6"]
  /\ fst (doc_read (et_write pinned (after pinned))) = ["M0,0 L1,1"]
  /\ option_map fst (sax_read pinned (et_write pinned (after pinned))) = Some ["M0,0 L1,1"].
Proof. vm_compute. repeat split. Qed.

(* repaired serialisation (default namespace) of a document entirely in the
   SVG namespace: svg2paths finds every path element, in document order *)
Theorem C18_doc_save_svg2paths : forall c e,
    f_default_ns c = true -> pure e = true ->
    elements_by_tag "path" (et_write c e)
    = map (et_write_in c (has_svgns e))
          (filter (fun x => String.eqb (x_local x) "path") (x_preorder e)).
Proof. exact saved_svg2paths_default. Qed.
Example C18_doc_save_repaired :
  option_map fst (svg2paths_read repaired (et_write repaired (after repaired))) = Some ["M0,0 L1,1"; "M5,5 L6,6"]
  /\ fst (doc_read (et_write repaired (after repaired))) = ["M0,0 L1,1"; "M5,5 L6,6"]
  /\ option_map fst (sax_read repaired (et_write repaired (after repaired))) = Some ["M0,0 L1,1"; "M5,5 L6,6"].
Proof. vm_compute. repeat split. Qed.

(* ---- SaxDocument load -> save -> reload: generate_dom writes the recorded
   matrix as transform="matrix(m00 m10 m01 m11 m02 m12)", which by SVG 1.1 7.6
   means the recorded matrix again (in particular for non-symmetric ones:
   rotations, skews); matrices live in Model/SvgTree.v ---- *)
From SVP Require Base.Num Model.SvgTree Proofs.SvgTreeAlg.
Theorem C18_sax_generate_dom_matrix :
  forall (K : Type) (N : Num.Num K) (M : @SvgTree.mat K),
    SvgTreeAlg.affine N M ->
    match SvgTree.sax_dom_matrix M with
    | [a; b; c; d; e; f] => SvgTree.titem_spec N (SvgTree.TMatrix a b c d e f) = M
    | _ => False
    end.
Proof. exact (fun K N => SvgTreeAlg.sax_dom_matrix_spec N). Qed.

(* non-vacuity *)
Example C18_nonvacuous :
  svg2paths_read pinned (wsvg_file ["M 0,0 L 1,1"; "M 2,2 L 3,3"]
                            [[("id", "a"); ("stroke", "red")]; [("d", "bogus"); ("fill", "none")]]
                            [("viewBox", "0 0 4 4")] [("width", "600px"); ("height", "600px")])
  = Some (["M 0,0 L 1,1"; "M 2,2 L 3,3"],
          [[("id", "a"); ("stroke", "red"); ("d", "M 0,0 L 1,1")];
           [("fill", "none"); ("d", "M 2,2 L 3,3")]]).
Proof. vm_compute. reflexivity. Qed.

Print Assumptions C18_wsvg_roundtrip.
Print Assumptions C18_wsvg_svg_attributes.
Print Assumptions C18_wsvg_roundtrip_partial.
Print Assumptions C18_sax_style_total.
Print Assumptions C18_sax_style_precedence.
Print Assumptions C18_save_reload.
Print Assumptions C18_sax_generate_dom_matrix.
Print Assumptions C18_doc_history_refuted.
Print Assumptions C18_doc_history.
Print Assumptions C18_doc_add_path_refuted.
Print Assumptions C18_doc_add_path_attributes.
Print Assumptions C18_doc_save_svg2paths_pinned.
Print Assumptions C18_doc_save_svg2paths.
Print Assumptions C18_doc_save_svg2paths_refuted.
Print Assumptions C18_doc_save_repaired.
