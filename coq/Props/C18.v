(* Props/C18.v — property C18: paths written to SVG (wsvg, Document) are read
   back unchanged, with attributes.  Only statements, `exact`, Print
   Assumptions and witnesses live here.  Models: Model/SvgIO.v.

   The d-string -> Path step is property C01's business: the path-level
   theorem is stated under the hypothesis [parse_d] (parse_path ∘ Path.d = id
   up to the equality C01 proves), named explicitly (`_partial`). *)
From Coq Require Import String List Bool.
From SVP Require Import Model.SvgIO Proofs.SvgIO Proofs.SvgDocHist.
Import ListNotations.
Open Scope string_scope.
Open Scope list_scope.

(* ---- wsvg -> svg2paths / Document / SaxDocument: d-strings in order, the
   supplied per-path attributes among those returned with unchanged values ---- *)
Theorem C18_wsvg_roundtrip : forall ds attrs svgattrs size,
    length attrs = length ds ->
    (* svg2paths *)
    svg2paths_read (wsvg_file ds attrs svgattrs size) = Some (ds, written ds attrs)
    (* Document(file).paths() *)
    /\ doc_read (wsvg_file ds attrs svgattrs size) = (ds, written ds attrs)
    (* SaxDocument(file) *)
    /\ (exists rv, sax_read (wsvg_file ds attrs svgattrs size) = (ds, map (update rv) (written ds attrs))
                   /\ sax_root_values (wsvg_file ds attrs svgattrs size) = rv
                   /\ forall k v, lookup k svgattrs = Some v -> lookup k rv = Some v)
    (* attributes are kept *)
    /\ length (written ds attrs) = length ds
    /\ (forall i a w k v, nth_error attrs i = Some a -> nth_error (written ds attrs) i = Some w ->
                          k <> "d" -> lookup k a = Some v ->
                          lookup k w = Some v /\ forall rv, lookup k (update rv w) = Some v).
Proof.
  intros ds attrs sa size H. split; [|split; [|split; [|split]]].
  - apply wsvg_svg2paths, H.
  - apply wsvg_document, H.
  - apply wsvg_sax, H.
  - apply written_length, H.
  - intros i a w k v Ha Hw Hk Hv.
    assert (E : lookup k w = Some v) by (exact (written_keeps ds attrs i a w k v Ha Hw Hk Hv)).
    split; [exact E|]. intros rv. apply lookup_update_other. exact E.
Qed.

Theorem C18_wsvg_svg_attributes : forall ds attrs svgattrs size k v,
    lookup k svgattrs = Some v ->
    exists ra, svg2paths_svg_attributes (wsvg_file ds attrs svgattrs size) = Some ra
               /\ lookup k ra = Some v.
Proof. exact wsvg_svg2paths_svg_attributes. Qed.

(* at the level of paths, modulo C01 *)
Section PathLevel.
  Variable Path : Type.
  Variable dstr : Path -> string.          (* Path.d() *)
  Variable parse : string -> Path.         (* parse_path *)
  Hypothesis parse_d : forall p, parse (dstr p) = p.

  Theorem C18_wsvg_roundtrip_partial : forall ps attrs svgattrs size,
      length attrs = length ps ->
      option_map (fun r => map parse (fst r))
                 (svg2paths_read (wsvg_file (map dstr ps) attrs svgattrs size)) = Some ps
      /\ map parse (fst (doc_read (wsvg_file (map dstr ps) attrs svgattrs size))) = ps
      /\ map parse (fst (sax_read (wsvg_file (map dstr ps) attrs svgattrs size))) = ps.
  Proof.
    intros ps attrs sa size H.
    assert (H' : length attrs = length (map dstr ps)) by (rewrite map_length; exact H).
    assert (E : map parse (map dstr ps) = ps).
    { rewrite map_map. erewrite map_ext; [apply map_id|]. exact parse_d. }
    split; [|split].
    - rewrite (wsvg_svg2paths _ _ sa size H'). cbn [option_map fst]. rewrite E. reflexivity.
    - rewrite (wsvg_document _ _ sa size H'). cbn [fst]. exact E.
    - destruct (wsvg_sax _ _ sa size H') as (rv & Hr & _). rewrite Hr. cbn [fst]. exact E.
  Qed.
End PathLevel.

(* ---- Document: save / reload is the identity on the tree ---- *)
Theorem C18_save_reload : forall e, et_parse (et_write e) = e.
Proof. exact et_roundtrip. Qed.

(* ---- histories: "every added path is visible to paths()" is refuted, in
   the strongest form: NOTHING that add_path / add_group add is ever visible,
   for every document and every history; also after save and reload ---- *)
Theorem C18_doc_history_refuted : forall ops root,
    doc_visible (run ops root) = doc_visible root
    /\ doc_visible (et_parse (et_write (run ops root))) = doc_visible root.
Proof. intros. split; [apply history_invisible|apply history_invisible_reload]. Qed.

(* concrete: Document(None); add_path('M0,0 L1,1'); paths() == [] *)
Example C18_doc_add_path_refuted :
  doc_visible (run [OpAddPath "M0,0 L1,1" [("id", "a")] []] empty_document) = []
  /\ x_kids (run [OpAddPath "M0,0 L1,1" [("id", "a")] []] empty_document)
     = [XE "" "path" [("d", "M0,0 L1,1"); ("id", "a")] []].
Proof. vm_compute. split; reflexivity. Qed.

(* svg2paths on a file saved by Document: exactly the path elements that
   carry no namespace; those of the SVG namespace are written svg:path and
   are not found *)
Theorem C18_doc_save_svg2paths : forall e,
    elements_by_tag "path" (et_write e) = map et_write (filter bare_path (x_preorder e)).
Proof. exact saved_svg2paths. Qed.

(* a document loaded from a file (path in the SVG namespace), one path added,
   saved: svg2paths returns only the added path, Document/SaxDocument only
   the original one *)
Definition loaded : xel := XE SVGNS "svg" [] [XE SVGNS "path" [("d", "M0,0 L1,1")] []].
Definition after : xel := run [OpAddPath "M5,5 L6,6" [] []] loaded.
Example C18_doc_save_svg2paths_refuted :
  option_map fst (svg2paths_read (et_write after)) = Some ["M5,5 L6,6"]
  /\ fst (doc_read (et_write after)) = ["M0,0 L1,1"]
  /\ fst (sax_read (et_write after)) = ["M0,0 L1,1"].
Proof. vm_compute. repeat split. Qed.

(* repair: an element created in the SVG namespace is visible *)
Theorem C18_doc_add_path_repaired : forall d a root,
    In (update a [("d", d)]) (doc_visible (append_child (new_path_element_fixed d a) root)).
Proof. exact history_visible_fixed. Qed.

(* non-vacuity *)
Example C18_nonvacuous :
  svg2paths_read (wsvg_file ["M 0,0 L 1,1"; "M 2,2 L 3,3"]
                            [[("id", "a"); ("stroke", "red")]; [("d", "bogus"); ("fill", "none")]]
                            [("viewBox", "0 0 4 4")] [("width", "600px"); ("height", "600px")])
  = Some (["M 0,0 L 1,1"; "M 2,2 L 3,3"],
          [[("id", "a"); ("stroke", "red"); ("d", "M 0,0 L 1,1")];
           [("fill", "none"); ("d", "M 2,2 L 3,3")]]).
Proof. vm_compute. reflexivity. Qed.

Print Assumptions C18_wsvg_roundtrip.
Print Assumptions C18_wsvg_svg_attributes.
Print Assumptions C18_wsvg_roundtrip_partial.
Print Assumptions C18_save_reload.
Print Assumptions C18_doc_history_refuted.
Print Assumptions C18_doc_add_path_refuted.
Print Assumptions C18_doc_save_svg2paths.
Print Assumptions C18_doc_save_svg2paths_refuted.
Print Assumptions C18_doc_add_path_repaired.
