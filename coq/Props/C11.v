(* Props/C11.v — property C11: every reported intersection is a real one, in
   range, with coherent parameters.  Statements only; proofs are in
   Proofs/IsectAlg.v (generic field), Proofs/IsectMachine.v (any carrier),
   Proofs/IsectR.v (reals).  Models: Model/Isect.v. *)
From Coq Require Import ZArith QArith Qcanon List Bool Reals.
From SVP Require Import Base.Num Base.Cplx Base.Poly Model.Bezier Model.Isect
     Proofs.IsectAlg Proofs.IsectMachine Proofs.IsectR.
Import ListNotations.

(* ---------------- generic field of characteristic 0 ---------------- *)
Section C11_field.
  Context {K : Type} (N : Num K) (OK : NumFieldOK N).

  (* Line–Line: what is returned is in range and is a common point
     ([leb (nabs 0) atol]: a zero denominator is snapped; true in R and Q for atol >= 0) *)
  Theorem C11_line_line_sound : forall atol p0 p1 q0 q1 t1 t2,
      leb N (nabs N (zero N)) atol = true ->
      line_line N atol p0 p1 q0 q1 = IOk [(t1, t2)] ->
      in01 N t1 = true /\ in01 N t2 = true /\ line_point N p0 p1 t1 = line_point N q0 q1 t2.
  Proof. exact (line_line_sound N OK). Qed.
  Theorem C11_line_line_at_most_one : forall atol p0 p1 q0 q1 l,
      line_line N atol p0 p1 q0 q1 = IOk l -> (length l <= 1)%nat.
  Proof. exact (line_line_at_most_one N). Qed.

  (* Bezier–Line (degree 1, 2, 3): an exact root of the y-polynomial that passes
     the x-range test is a common point of the curve and the line.  No property
     of [len] beyond len <> 0 is needed for this. *)
  Theorem C11_bezier_line_sound : forall len bez l0 l1 roots t lt,
      deg123 bez -> len <> zero N -> cnorm2 N (csub N l1 l0) <> zero N ->
      In (t, lt) (bl_select N len bez l0 l1 roots) ->
      peval N (bl_coeffs_y N len bez l0 l1) t = zero N ->
      bezier_point N bez t = line_point N l0 l1 lt.
  Proof. exact (bezier_line_sound N OK). Qed.
  (* for ANY reported pair (exact root or not), with len^2 = |l1-l0|^2: the
     squared distance of the two reported points is the squared y-polynomial *)
  Theorem C11_bezier_line_residual : forall len bez l0 l1 roots t lt,
      deg123 bez -> len <> zero N -> mul N len len = cnorm2 N (csub N l1 l0) ->
      In (t, lt) (bl_select N len bez l0 l1 roots) ->
      cnorm2 N (csub N (bezier_point N bez t) (line_point N l0 l1 lt))
      = mul N (peval N (bl_coeffs_y N len bez l0 l1) t) (peval N (bl_coeffs_y N len bez l0 l1) t).
  Proof. exact (bezier_line_residual N OK). Qed.

  (* the sub-curve b of a worklist pair is bez restricted to the dyadic interval
     around t; bez(t) is the point of parameter 1/2 of b (degree 2, 3) *)
  Theorem C11_subdiv_subcurve : forall bez b t k, deg23 bez -> sub_of N bez b t k ->
      deg23 b /\ forall s, bezier_point N b s
        = bezier_point N bez (add N t (mul N (sub N (mul N (lit N 2) s) (one N)) (npow N (half N) (k + 1)))).
  Proof. exact (sub_of_param N OK). Qed.
End C11_field.

(* ---------------- any carrier (holds for binary64 verbatim) ---------------- *)
Section C11_any.
  Context {K : Type} (N : Num K).

  (* what the subdivision guarantees about a reported pair, for any fuel, any bbox
     function and ALL variants (rm_fixed: redundancy loop pinned/repaired; mg_fixed:
     with/without merging of neighbouring solutions; bx_fixed = false: open boxes, stop
     on box AREA < tol_deC; bx_fixed = true: closed boxes, stop on box EXTENT < ext):
     it is the centre pair of two sub-curves (k halvings each) whose boxes intersect and
     are both small in the sense of the variant.  NOTE: in the pinned variant a distance
     bound |B1(t1) - B2(t2)| <= c does NOT follow: a box of area < tol can be arbitrarily
     long (C11_small_area_long_box); in the repaired one it does (C11_subdiv_distance_fixed). *)
  Theorem C11_subdiv_witness : forall rm_fixed bx_fixed mg_fixed bbox tol tol_deC ext bez1 bez2 maxits res,
      bezier_intersections N rm_fixed bx_fixed mg_fixed bbox tol tol_deC ext bez1 maxits bez2 = IOk res ->
      forall tt, In tt res ->
      exists b1 b2 k,
        sub_of N bez1 b1 (fst tt) k /\ sub_of N bez2 b2 (snd tt) k
        /\ if bx_fixed
           then boxes_intersect_closed N (bbox b1) (bbox b2) = true
                /\ ltb N (box_extent N (bbox b1)) ext = true /\ ltb N (box_extent N (bbox b2)) ext = true
           else boxes_intersect N (bbox b1) (bbox b2) = true
                /\ ltb N (box_area N (bbox b1)) tol_deC = true /\ ltb N (box_area N (bbox b2)) tol_deC = true.
  Proof. exact (subdiv_witness N). Qed.

  (* operand exchange for the kind pairs routed to one core routine *)
  Theorem C11_swap_dispatch : forall atol seg_len roots01 bezbez arc_core s1 s2,
      swap_routed (kind_of s1) (kind_of s2) = true ->
      intersect N atol seg_len roots01 bezbez arc_core s1 s2
      = imap (map swap) (intersect N atol seg_len roots01 bezbez arc_core s2 s1).
  Proof. exact (swap_dispatch N). Qed.

  (* Path.intersect: every entry comes from positions i, j of the two paths and one
     reported (t1,t2) of that segment pair; T is t2T of pos_of: the index of the
     FIRST EQUAL segment in the pinned variant (idx_fixed = false), the position
     itself in the repaired one (idx_fixed = true) *)
  Theorem C11_path_coherent : forall seg_isect seg_point tol idx_fixed jd_fixed plen1 plen2 eps9 p1 lens1 p2 lens2 res,
      path_intersect N seg_isect seg_point tol idx_fixed jd_fixed plen1 plen2 eps9 p1 lens1 p2 lens2 = IOk res ->
      forall e, In e res ->
      exists i j s1 s2 t1 t2 l,
        nth_error p1 i = Some s1 /\ nth_error p2 j = Some s2 /\ seg_isect s1 s2 = IOk l /\ In (t1, t2) l
        /\ e = ((t2T N lens1 (pos_of N idx_fixed p1 i s1) t1, s1, t1),
                (t2T N lens2 (pos_of N idx_fixed p2 j s2) t2, s2, t2)).
  Proof. exact (path_intersect_sound N). Qed.
  (* ... which is the position the segment was taken from: always in the repaired
     variant; in the pinned one when the path has no two equal segments *)
  Theorem C11_path_index_nodup :
      (forall x y : seg K, seg_eqb N x y = true <-> x = y) ->
      forall p k s, NoDup p -> nth_error p k = Some s -> index_of N p s = k.
  Proof. exact (index_of_nodup N). Qed.
  Theorem C11_path_position : forall idx_fixed,
      (forall x y : seg K, seg_eqb N x y = true <-> x = y) ->
      forall p k s, idx_fixed = true \/ NoDup p -> nth_error p k = Some s -> pos_of N idx_fixed p k s = k.
  Proof. intros f H. exact (pos_of_position N f H). Qed.
End C11_any.

(* ---------------- reals ---------------- *)
Theorem C11_line_line_sound_R : forall atol p0 p1 q0 q1 t1 t2, (0 <= atol)%R ->
    line_line NumR atol p0 p1 q0 q1 = IOk [(t1, t2)] ->
    (0 <= t1 <= 1 /\ 0 <= t2 <= 1)%R /\ line_point NumR p0 p1 t1 = line_point NumR q0 q1 t2.
Proof. intros. pose proof (line_line_sound_R atol p0 p1 q0 q1 t1 t2) as L. tauto. Qed.
Theorem C11_line_line_swap : forall atol p0 p1 q0 q1, (0 <= atol)%R ->
    line_line NumR atol q0 q1 p0 p1 = imap (map swap) (line_line NumR atol p0 p1 q0 q1).
Proof. exact line_line_swap_R. Qed.
(* an eps-approximate root: the residual is at most lipM(ypoly) * eps *)
Theorem C11_bezier_line_residual_partial : forall len bez l0 l1 roots t lt r eps,
    deg123 bez -> len <> 0%R -> (len * len)%R = cnorm2 NumR (csub NumR l1 l0) ->
    In (t, lt) (bl_select NumR len bez l0 l1 roots) ->
    (0 <= t <= 1)%R -> (0 <= r <= 1)%R -> peval NumR (bl_coeffs_y NumR len bez l0 l1) r = 0%R ->
    (Rabs (t - r) <= eps)%R ->
    (sqrt (cnorm2 NumR (csub NumR (bezier_point NumR bez t) (line_point NumR l0 l1 lt)))
     <= lipM (bl_coeffs_y NumR len bez l0 l1) * eps)%R.
Proof. exact bezier_line_residual_lipschitz. Qed.
(* reported parameters of the subdivision: odd multiples of 2^-(k+1), inside (0,1) *)
Theorem C11_subdiv_range : forall rm_fixed bx_fixed mg_fixed bbox tol tol_deC ext bez1 bez2 maxits res,
    bezier_intersections NumR rm_fixed bx_fixed mg_fixed bbox tol tol_deC ext bez1 maxits bez2 = IOk res ->
    forall t1 t2, In (t1, t2) res ->
    exists k, dyadic_odd t1 k /\ dyadic_odd t2 k /\ (0 < t1 < 1)%R /\ (0 < t2 < 1)%R.
Proof. exact subdiv_range. Qed.

(* the distance the subdivision does guarantee (given that bezier_bounding_box
   contains the curve, C08): per coordinate, at most the sum of the EXTENTS of the
   two boxes — while the stopping rule only bounds their AREAS (< tol_deC); so
   |B1(t1) - B2(t2)| <= 1e-5 x size is not a consequence (and fails on the code
   for small curves: key subdivision-residual-small-scale in tools/harness/c11.py) *)
Theorem C11_subdiv_distance_partial : forall rm_fixed mg_fixed bbox tol tol_deC ext bez1 bez2 maxits res,
    deg23 bez1 -> deg23 bez2 ->
    (forall b s, deg23 b -> (0 <= s <= 1)%R -> inbox (bbox b) (bezier_point NumR b s)) ->
    bezier_intersections NumR rm_fixed false mg_fixed bbox tol tol_deC ext bez1 maxits bez2 = IOk res ->
    forall t1 t2, In (t1, t2) res ->
    exists b1 b2,
      let '(x1, X1, y1, Y1) := bbox b1 in
      let '(x2, X2, y2, Y2) := bbox b2 in
      (Rabs (re (bezier_point NumR bez1 t1) - re (bezier_point NumR bez2 t2)) <= (X1 - x1) + (X2 - x2)
       /\ Rabs (im (bezier_point NumR bez1 t1) - im (bezier_point NumR bez2 t2)) <= (Y1 - y1) + (Y2 - y2)
       /\ (X1 - x1) * (Y1 - y1) < tol_deC /\ (X2 - x2) * (Y2 - y2) < tol_deC)%R.
Proof. exact subdiv_distance_partial. Qed.
(* REPAIRED stopping rule (bx_fixed = true, fixes/C12-subdivision-closed-boxes-extent.diff):
   the two reported points differ by less than 2 ext in each coordinate *)
Theorem C11_subdiv_distance_fixed : forall rm_fixed mg_fixed bbox tol tol_deC ext bez1 bez2 maxits res,
    deg23 bez1 -> deg23 bez2 ->
    (forall b s, deg23 b -> (0 <= s <= 1)%R -> inbox (bbox b) (bezier_point NumR b s)) ->
    bezier_intersections NumR rm_fixed true mg_fixed bbox tol tol_deC ext bez1 maxits bez2 = IOk res ->
    forall t1 t2, In (t1, t2) res ->
      (Rabs (re (bezier_point NumR bez1 t1) - re (bezier_point NumR bez2 t2)) < 2 * ext
       /\ Rabs (im (bezier_point NumR bez1 t1) - im (bezier_point NumR bez2 t2)) < 2 * ext)%R.
Proof. exact subdiv_distance_fixed. Qed.

(* ---------------- witnesses computed in exact rationals ---------------- *)
Definition q (n : Z) (d : positive) : Qc := qc n d.
Definition zc (a b : Z) : Cplx Qc := (q a 1, q b 1).
Definition tol12 : Qc := q 1 1000000000000.

(* non-vacuity: the Line–Line model returns the crossing of the diagonals *)
Example C11_line_line_example :
  match line_line NumQ (q 1 100000000) (zc 0 0) (zc 2 2) (zc 0 2) (zc 2 0) with
  | IOk [(t1, t2)] => Qc_eq_bool t1 (q 1 2) && Qc_eq_bool t2 (q 1 2)
  | _ => false end = true.
Proof. vm_compute. reflexivity. Qed.
(* non-vacuity: the worklist machine reports two crossings of two parabolas *)
Example C11_subdiv_example :
  imap (@length _) (bezier_intersections NumQ false false false (bbox_quad NumQ) tol12 tol12 tol12
                      [zc 0 0; zc 18 36; zc 36 0] 60 [zc 0 32; zc 18 (-4); zc 36 32]) = IOk 2%nat.
Proof. vm_compute. reflexivity. Qed.

(* an area bound is not a distance bound *)
Example C11_small_area_long_box :
  let b : box (K:=Qc) := (q 0 1, q 1 1, q 0 1, q 1 10000000000000) in
  ltb NumQ (box_area NumQ b) tol12 = true
  /\ Qc_eq_bool (cnorm2 NumQ (csub NumQ (zc 0 0) (zc 1 0))) (q 1 1) = true.
Proof. vm_compute. split; reflexivity. Qed.

(* Path.intersect on a path that traverses an equal segment twice: the entry
   produced while the loop variable is the segment at position 3 carries the T
   of position 0, because index() returns the first equal segment
   (tol = 0 switches the joint de-duplication off; with tol = 1e-12 the second
   entry is removed instead, see Props/C12.v). *)
Definition no_bb (a b : list (Cplx Qc)) : ires (list (Qc * Qc)) := IException.
Definition no_arc (a : arc Qc) (s : seg Qc) : ires (list (Qc * Qc)) := IException.
Definition isect_lines := intersect NumQ (q 1 100000000) (fun _ _ => q 1 1) (fun _ => []) no_bb no_arc.
Definition lines_point (s : seg Qc) (t : Qc) : Cplx Qc :=
  match s with SLine a b => line_point NumQ a b t | _ => c0 NumQ end.
Definition tri_twice : list (seg Qc) :=
  [SLine (zc 0 0) (zc 3 0); SLine (zc 3 0) (zc 3 4); SLine (zc 3 4) (zc 0 0); SLine (zc 0 0) (zc 3 0)].
Definition tri_lens : list Qc := [q 1 5; q 4 15; q 1 3; q 1 5].     (* 3,4,5,3 over 15 *)
Definition probe : list (seg Qc) := [SLine (zc 1 (-1)) (zc 1 1)].

Example C11_path_index_duplicate_refuted :
  exists e1 e2,
    path_intersect NumQ isect_lines lines_point (q 0 1) false false (q 15 1) (q 2 1) (q 1 1000000000) tri_twice tri_lens probe [q 1 1] = IOk [e1; e2]
    /\ Qc_eq_bool (fst (fst (fst e2))) (q 1 15) = true               (* reported T1 of the 2nd traversal *)
    /\ Qc_eq_bool (t2T NumQ tri_lens 3 (snd (fst e2))) (q 13 15) = true  (* T1 of the position it came from *)
    /\ nth_error tri_twice 3 = Some (snd (fst (fst e2))).
Proof. eexists; eexists. vm_compute. repeat split; reflexivity. Qed.
(* the same call in the repaired variant (enumerate instead of index()): T1 = 13/15 *)
Example C11_path_index_duplicate_fixed :
  exists e1 e2,
    path_intersect NumQ isect_lines lines_point (q 0 1) true false (q 15 1) (q 2 1) (q 1 1000000000) tri_twice tri_lens probe [q 1 1] = IOk [e1; e2]
    /\ Qc_eq_bool (fst (fst (fst e1))) (q 1 15) = true
    /\ Qc_eq_bool (fst (fst (fst e2))) (q 13 15) = true.
Proof. eexists; eexists. vm_compute. repeat split; reflexivity. Qed.

Print Assumptions C11_line_line_sound.
Print Assumptions C11_line_line_at_most_one.
Print Assumptions C11_bezier_line_sound.
Print Assumptions C11_bezier_line_residual.
Print Assumptions C11_subdiv_subcurve.
Print Assumptions C11_subdiv_witness.
Print Assumptions C11_swap_dispatch.
Print Assumptions C11_path_coherent.
Print Assumptions C11_path_index_nodup.
Print Assumptions C11_path_position.
Print Assumptions C11_line_line_sound_R.
Print Assumptions C11_line_line_swap.
Print Assumptions C11_bezier_line_residual_partial.
Print Assumptions C11_subdiv_range.
Print Assumptions C11_subdiv_distance_partial.
Print Assumptions C11_subdiv_distance_fixed.
Print Assumptions C11_path_index_duplicate_refuted.
Print Assumptions C11_path_index_duplicate_fixed.
