(* Props/C15.v — property C15: unit_tangent, normal and curvature are the
   differential geometry of the curve.  Only statements, `exact`, Print
   Assumptions and non-vacuity examples live here.
   Models: Model/Tangent.v (NR = NumR, TR = NumTR: the reals).
   Names: _partial = proved under the stated extra hypothesis,
          _refuted = the faithful model of the UNREPAIRED code (flag false) violates the statement.
   The flag rp of cubic_unit_tangent / quad_unit_tangent selects the fallback at a zero of the
   derivative: false = rational_limit + principal square root (pinned tree), true = direction of the
   first non-vanishing higher derivative (fix); theorems about regular points hold for both. *)
From Coq Require Import ZArith List Reals Lra.
From Coquelicot Require Import Coquelicot.
From SVP Require Import Base.Num Base.Cplx Base.Poly Model.Bezier Model.Tangent
     Proofs.TangentAlg Proofs.TangentSing Proofs.TangentThm Proofs.TangentExec.
Import ListNotations.
Local Open Scope R_scope.

(* --- the derivative vectors the model uses are the true derivatives of the
       coordinate functions of point(t) (C03: point(t) is the Bernstein curve) --- *)
Theorem C15_model_derivatives_true : forall s c1 c2 e t,
  let x := fun u => fst (cubic_point NR s c1 c2 e u) in
  let y := fun u => snd (cubic_point NR s c1 c2 e u) in
  let xq := fun u => fst (quad_point NR s c1 e u) in
  let yq := fun u => snd (quad_point NR s c1 e u) in
  (cubic_d NR s c1 c2 e t 1 = (Derive x t, Derive y t) /\
   cubic_d NR s c1 c2 e t 2 = (Derive_n x 2 t, Derive_n y 2 t)) /\
  (quad_d NR s c1 e t 1 = (Derive xq t, Derive yq t) /\
   quad_d NR s c1 e t 2 = (Derive_n xq 2 t, Derive_n yq 2 t)).
Proof. intros; split; [exact (cubic_true_derivs s c1 c2 e t)|exact (quad_true_derivs s c1 e t)]. Qed.

(* --- unit tangent at regular points: modulus 1 and equal to d/|d| --- *)
Theorem C15_unit : forall rp s c1 c2 e rx ry rot th de t,
  (cubic_d NR s c1 c2 e t 1 <> (0, 0) ->
   exists u, cubic_unit_tangent NR TR rp s c1 c2 e t = Val u /\
             nrm u = 1 /\ u = (fst (cubic_d NR s c1 c2 e t 1) / nrm (cubic_d NR s c1 c2 e t 1),
                               snd (cubic_d NR s c1 c2 e t 1) / nrm (cubic_d NR s c1 c2 e t 1))) /\
  (quad_d NR s c1 e t 1 <> (0, 0) ->
   exists u, quad_unit_tangent NR TR rp s c1 e t = Val u /\
             nrm u = 1 /\ u = (fst (quad_d NR s c1 e t 1) / nrm (quad_d NR s c1 e t 1),
                               snd (quad_d NR s c1 e t 1) / nrm (quad_d NR s c1 e t 1))) /\
  (e <> s ->
   nrm (line_unit_tangent NR TR s e t) = 1 /\
   line_unit_tangent NR TR s e t = (fst (csub NR e s) / nrm (csub NR e s), snd (csub NR e s) / nrm (csub NR e s))) /\
  (arc_d1 NR TR rx ry rot th de t <> (0, 0) ->
   nrm (arc_unit_tangent NR TR rx ry rot th de t) = 1 /\
   arc_unit_tangent NR TR rx ry rot th de t =
     (fst (arc_d1 NR TR rx ry rot th de t) / nrm (arc_d1 NR TR rx ry rot th de t),
      snd (arc_d1 NR TR rx ry rot th de t) / nrm (arc_d1 NR TR rx ry rot th de t))).
Proof.
  intros. split; [exact (@unit_cubic rp s c1 c2 e t)|]. split; [exact (@unit_quad rp s c1 e t)|].
  split; [exact (@unit_line s e t)|exact (@unit_arc rx ry rot th de t)].
Qed.

(* --- normal(t) = -i * unit_tangent(t): the unit tangent rotated by -90 degrees;
       same modulus, perpendicular, to the right of the direction of travel --- *)
Theorem C15_normal_rot : forall rp s c1 c2 e rx ry rot th de t,
  is_normal_of (line_normal NR TR s e t) (line_unit_tangent NR TR s e t) /\
  res_rel is_normal_of (quad_normal NR TR rp s c1 e t) (quad_unit_tangent NR TR rp s c1 e t) /\
  res_rel is_normal_of (cubic_normal NR TR rp s c1 c2 e t) (cubic_unit_tangent NR TR rp s c1 c2 e t) /\
  is_normal_of (arc_normal NR TR rx ry rot th de t) (arc_unit_tangent NR TR rx ry rot th de t).
Proof. exact normal_all. Qed.

(* --- curvature = |x'y'' - y'x''| / |(x',y')|^3 at regular points, x', x'' the
       derivatives of the coordinate functions --- *)
Theorem C15_curvature_formula : forall s c1 c2 e t,
  let x := fun u => fst (cubic_point NR s c1 c2 e u) in
  let y := fun u => snd (cubic_point NR s c1 c2 e u) in
  (Derive x t, Derive y t) <> (0, 0) ->
  cubic_curvature NR TR s c1 c2 e t =
  Val (Rabs (Derive x t * Derive_n y 2 t - Derive y t * Derive_n x 2 t)
       / (sqrt (Derive x t * Derive x t + Derive y t * Derive y t)) ^ 3).
Proof. exact curvature_cubic_true. Qed.
Theorem C15_curvature_formula_quad : forall s c e t,
  let x := fun u => fst (quad_point NR s c e u) in
  let y := fun u => snd (quad_point NR s c e u) in
  (Derive x t, Derive y t) <> (0, 0) ->
  quad_curvature NR TR s c e t =
  Val (Rabs (Derive x t * Derive_n y 2 t - Derive y t * Derive_n x 2 t)
       / (sqrt (Derive x t * Derive x t + Derive y t * Derive y t)) ^ 3).
Proof. exact curvature_quad_true. Qed.
(* Arc.curvature is the same formula on Arc.derivative(t,1), Arc.derivative(t,2) *)
Theorem C15_curvature_formula_arc : forall rx ry rot th de t,
  arc_curvature NR TR rx ry rot th de t =
  kappa (arc_d1 NR TR rx ry rot th de t) (arc_d2 NR TR rx ry rot th de t).
Proof. intros. exact (curv_formula_kappa _ _). Qed.

Theorem C15_line_zero : forall (s e : Cplx R) t,
  line_curvature NR s e t = 0 /\
  (forall d, line_deriv NR s e t 2 = Some (0, 0) /\ kappa d (0, 0) = 0) /\
  (forall d c, kappa d (cscale NR c d) = 0).
Proof. exact line_zero. Qed.

Theorem C15_circle : forall r rotation theta delta t,
  0 < r -> delta <> 0 -> arc_curvature NR TR r r rotation theta delta t = 1 / r.
Proof. exact arc_circle_curvature. Qed.

(* --- similarity transforms p |-> w*p + z, w = lambda*e^{i theta} <> 0, applied to
       the control points (aff w z p) --- *)
Theorem C15_tangent_translate : forall rp s c1 c2 e t z, cubic_d NR s c1 c2 e t 1 <> (0, 0) ->
  cubic_unit_tangent NR TR rp (aff (1, 0) z s) (aff (1, 0) z c1) (aff (1, 0) z c2) (aff (1, 0) z e) t
  = cubic_unit_tangent NR TR rp s c1 c2 e t.
Proof. exact tangent_translate. Qed.
Theorem C15_tangent_rotate : forall rp s c1 c2 e t th z, cubic_d NR s c1 c2 e t 1 <> (0, 0) ->
  cubic_unit_tangent NR TR rp (aff (cos th, sin th) z s) (aff (cos th, sin th) z c1)
                           (aff (cos th, sin th) z c2) (aff (cos th, sin th) z e) t
  = res_map (cmul NR (cos th, sin th)) (cubic_unit_tangent NR TR rp s c1 c2 e t).
Proof. exact tangent_rotate. Qed.
Theorem C15_tangent_scale : forall rp s c1 c2 e t (l : R) z, 0 < l -> cubic_d NR s c1 c2 e t 1 <> (0, 0) ->
  cubic_unit_tangent NR TR rp (aff (l, 0) z s) (aff (l, 0) z c1) (aff (l, 0) z c2) (aff (l, 0) z e) t
  = cubic_unit_tangent NR TR rp s c1 c2 e t.
Proof. exact tangent_scale. Qed.
(* general form, all three segment classes *)
Theorem C15_tangent_similarity : forall rp w z s c1 c2 e t, w <> (0, 0) ->
  (cubic_d NR s c1 c2 e t 1 <> (0, 0) ->
   cubic_unit_tangent NR TR rp (aff w z s) (aff w z c1) (aff w z c2) (aff w z e) t
   = res_map (cmul NR (unit_of NR TR w)) (cubic_unit_tangent NR TR rp s c1 c2 e t)) /\
  (quad_d NR s c1 e t 1 <> (0, 0) ->
   quad_unit_tangent NR TR rp (aff w z s) (aff w z c1) (aff w z e) t
   = res_map (cmul NR (unit_of NR TR w)) (quad_unit_tangent NR TR rp s c1 e t)) /\
  (e <> s ->
   line_unit_tangent NR TR (aff w z s) (aff w z e) t
   = cmul NR (unit_of NR TR w) (line_unit_tangent NR TR s e t)).
Proof.
  intros rp w z s c1 c2 e t Hw. split; [exact (@tangent_similarity_cubic rp w z s c1 c2 e t Hw)|].
  split; [exact (@tangent_similarity_quad rp w z s c1 e t Hw)|exact (@tangent_similarity_line w z s e t Hw)].
Qed.
Theorem C15_tangent_reversed : forall rp s c1 c2 e t,
  (cubic_d NR s c1 c2 e t 1 <> (0, 0) ->
   cubic_unit_tangent NR TR rp e c2 c1 s (1 - t) = res_map (copp NR) (cubic_unit_tangent NR TR rp s c1 c2 e t)) /\
  (quad_d NR s c1 e t 1 <> (0, 0) ->
   quad_unit_tangent NR TR rp e c1 s (1 - t) = res_map (copp NR) (quad_unit_tangent NR TR rp s c1 e t)) /\
  line_unit_tangent NR TR e s (1 - t) = copp NR (line_unit_tangent NR TR s e t).
Proof.
  intros. split; [exact (@tangent_reversed_cubic rp s c1 c2 e t)|].
  split; [exact (@tangent_reversed_quad rp s c1 e t)|exact (tangent_reversed_line s e t)].
Qed.

Theorem C15_curvature_similarity : forall w z s c1 c2 e t, w <> (0, 0) ->
  (cubic_d NR s c1 c2 e t 1 <> (0, 0) ->
   cubic_curvature NR TR (aff w z s) (aff w z c1) (aff w z c2) (aff w z e) t
   = res_map (fun k => k / nrm w) (cubic_curvature NR TR s c1 c2 e t)) /\
  (quad_d NR s c1 e t 1 <> (0, 0) ->
   quad_curvature NR TR (aff w z s) (aff w z c1) (aff w z e) t
   = res_map (fun k => k / nrm w) (quad_curvature NR TR s c1 e t)).
Proof.
  intros w z s c1 c2 e t Hw.
  split; [exact (@curvature_similarity_cubic w z s c1 c2 e t Hw)|exact (@curvature_similarity_quad w z s c1 e t Hw)].
Qed.
(* at the level of derivative vectors (covers arcs): d |-> w d, dd |-> w dd;
   reversal d |-> -d; mirror image *)
Theorem C15_curvature_similarity_vec : forall w d dd, w <> (0, 0) -> d <> (0, 0) ->
  kappa (cmul NR w d) (cmul NR w dd) = kappa d dd / nrm w /\
  kappa (copp NR d) dd = kappa d dd /\
  kappa (cconj NR d) (cconj NR dd) = kappa d dd.
Proof. exact curvature_similarity_vec. Qed.
Theorem C15_curvature_reversed : forall s c1 c2 e t,
  (cubic_d NR s c1 c2 e t 1 <> (0, 0) ->
   cubic_curvature NR TR e c2 c1 s (1 - t) = cubic_curvature NR TR s c1 c2 e t) /\
  (quad_d NR s c1 e t 1 <> (0, 0) ->
   quad_curvature NR TR e c1 s (1 - t) = quad_curvature NR TR s c1 e t).
Proof.
  intros. split; [exact (@curvature_reversed_cubic s c1 c2 e t)|exact (@curvature_reversed_quad s c1 e t)].
Qed.
(* Path.curvature away from joints: derivative(t,n)/length**n and **1.5 give the same number *)
Theorem C15_path_curvature : forall d dd (len : R), 0 < len -> d <> (0, 0) ->
  path_curvature_core NR TR d dd len = kappa d dd.
Proof. exact path_curvature. Qed.

(* --- singular points --- *)
(* rational_limit needs at most length g + 1 recursive calls (any field) *)
Theorem C15_rational_limit_fuel : forall {K} (N : Num K) fuel f g t0 extra, (length g < fuel)%nat ->
  rational_limit N (fuel + extra) f g t0 = rational_limit N fuel f g t0 /\
  forall fc, crational_limit N (fuel + extra) fc g t0 = crational_limit N fuel fc g t0.
Proof.
  intros. split; [apply rational_limit_fuel; assumption|intros; apply crational_limit_fuel; assumption].
Qed.

(* specification: the limit of derivative/|derivative| from inside exists at a zero
   of order k = 1, 2 of the derivative and is the direction of the first
   non-vanishing derivative, with sign (-1)^k from the left *)
Theorem C15_limit_direction : forall s c1 c2 e t0, cubic_d NR s c1 c2 e t0 1 = (0, 0) ->
  (cubic_d NR s c1 c2 e t0 2 <> (0, 0) ->
     lim_right (quot_cubic s c1 c2 e) t0 (unit_of NR TR (cubic_d NR s c1 c2 e t0 2)) /\
     lim_left (quot_cubic s c1 c2 e) t0 (copp NR (unit_of NR TR (cubic_d NR s c1 c2 e t0 2)))) /\
  (cubic_d NR s c1 c2 e t0 2 = (0, 0) ->
     lim_right (quot_cubic s c1 c2 e) t0 (unit_of NR TR (cubic_d NR s c1 c2 e t0 3)) /\
     lim_left (quot_cubic s c1 c2 e) t0 (unit_of NR TR (cubic_d NR s c1 c2 e t0 3))).
Proof. exact limit_direction_cubic. Qed.
Theorem C15_limit_direction_quad : forall s c e t0,
  quad_d NR s c e t0 1 = (0, 0) -> quad_d NR s c e t0 2 <> (0, 0) ->
  lim_right (quot_quad s c e) t0 (unit_of NR TR (quad_d NR s c e t0 2)) /\
  lim_left (quot_quad s c e) t0 (copp NR (unit_of NR TR (quad_d NR s c e t0 2))).
Proof. exact limit_direction_quad. Qed.

(* what the code returns: rational_limit gives (f1/|f1|)^2 exactly, f1 the first
   non-vanishing derivative; then the PRINCIPAL root: +f1/|f1| in the closed right
   half plane, -f1/|f1| in the open left half plane *)
Theorem C15_singular_value : forall s c1 c2 e t0,
  (cubic_d NR s c1 c2 e t0 1 = (0, 0) -> cubic_d NR s c1 c2 e t0 2 <> (0, 0) ->
   cubic_unit_tangent NR TR false s c1 c2 e t0 = Val (principal_dir (cubic_d NR s c1 c2 e t0 2))) /\
  (cubic_d NR s c1 c2 e t0 1 = (0, 0) -> cubic_d NR s c1 c2 e t0 2 = (0, 0) ->
   cubic_d NR s c1 c2 e t0 3 <> (0, 0) ->
   cubic_unit_tangent NR TR false s c1 c2 e t0 = Val (principal_dir (cubic_d NR s c1 c2 e t0 3))) /\
  (quad_d NR s c1 e t0 1 = (0, 0) -> quad_d NR s c1 e t0 2 <> (0, 0) ->
   quad_unit_tangent NR TR false s c1 e t0 = Val (principal_dir (quad_d NR s c1 e t0 2))) /\
  (forall w, w <> (0, 0) ->
     (right_half w -> principal_dir w = unit_of NR TR w) /\
     (left_half w -> principal_dir w = copp NR (unit_of NR TR w)) /\
     0 <= fst (principal_dir w)).
Proof. exact singular_value. Qed.

(* positive part: with the heading in the closed right half plane (from the right;
   from the left: second derivative in the open left half plane) unit_tangent is the limit *)
Theorem C15_singular_limit_partial : forall s c1 c2 e t0,
  cubic_d NR s c1 c2 e t0 1 = (0, 0) -> cubic_d NR s c1 c2 e t0 2 <> (0, 0) ->
  (right_half (cubic_d NR s c1 c2 e t0 2) ->
     exists u, lim_right (quot_cubic s c1 c2 e) t0 u /\ cubic_unit_tangent NR TR false s c1 c2 e t0 = Val u) /\
  (left_half (cubic_d NR s c1 c2 e t0 2) ->
     exists u, lim_left (quot_cubic s c1 c2 e) t0 u /\ cubic_unit_tangent NR TR false s c1 c2 e t0 = Val u).
Proof. exact singular_limit_partial. Qed.

(* refutation: CubicBezier(0, 0, -1+1j, -2).unit_tangent(0) is the NEGATIVE of the
   limit of derivative/|derivative| from inside [0,1] *)
Theorem C15_singular_sign_refuted :
  exists u, cubic_d NR w_s w_c1 w_c2 w_e 0 1 = (0, 0) /\
            lim_right (quot_cubic w_s w_c1 w_c2 w_e) 0 u /\ fst u < 0 /\
            cubic_unit_tangent NR TR false w_s w_c1 w_c2 w_e 0 = Val (copp NR u) /\ copp NR u <> u.
Proof. exact singular_sign_witness. Qed.
(* ... and so is every simple zero whose heading lies in the open left half plane *)
Theorem C15_singular_sign_left_half_refuted : forall s c1 c2 e t0,
  cubic_d NR s c1 c2 e t0 1 = (0, 0) -> cubic_d NR s c1 c2 e t0 2 <> (0, 0) ->
  (left_half (cubic_d NR s c1 c2 e t0 2) ->
   exists u, lim_right (quot_cubic s c1 c2 e) t0 u /\
             cubic_unit_tangent NR TR false s c1 c2 e t0 = Val (copp NR u) /\ copp NR u <> u) /\
  (right_half (cubic_d NR s c1 c2 e t0 2) ->
   exists u, lim_left (quot_cubic s c1 c2 e) t0 u /\
             cubic_unit_tangent NR TR false s c1 c2 e t0 = Val (copp NR u) /\ copp NR u <> u).
Proof.
  intros s c1 c2 e t0 H1 H2.
  split; [exact (singular_sign_general H1 H2)|exact (singular_sign_general_left H1 H2)].
Qed.
(* the same defect by execution: exact rationals (rational_limit = -i) and 120-bit floats *)
Theorem C15_singular_sign_refuted_exec :
  wq_limit_is_minus_i = true /\ wb_check = true /\ wb_inside_check = true /\ wb_check_repaired = true.
Proof. exact (conj witness_Q (conj witness_B (conj witness_B_inside witness_B_repaired))). Qed.

(* REPAIRED variant (flag true: fix "unit_tangent at a zero of the derivative follows the
   direction of travel"): at a zero of order k = 1, 2 of the derivative unit_tangent IS the
   limit of derivative/|derivative| from inside the parameter interval, for every heading *)
Theorem C15_singular_limit : forall s c1 c2 e t0, cubic_d NR s c1 c2 e t0 1 = (0, 0) ->
  (cubic_d NR s c1 c2 e t0 2 <> (0, 0) -> t0 <> 1 ->
     exists u, lim_right (quot_cubic s c1 c2 e) t0 u /\ cubic_unit_tangent NR TR true s c1 c2 e t0 = Val u) /\
  (cubic_d NR s c1 c2 e t0 2 <> (0, 0) -> t0 = 1 ->
     exists u, lim_left (quot_cubic s c1 c2 e) t0 u /\ cubic_unit_tangent NR TR true s c1 c2 e t0 = Val u) /\
  (cubic_d NR s c1 c2 e t0 2 = (0, 0) -> cubic_d NR s c1 c2 e t0 3 <> (0, 0) ->
     exists u, lim_right (quot_cubic s c1 c2 e) t0 u /\ lim_left (quot_cubic s c1 c2 e) t0 u /\
               cubic_unit_tangent NR TR true s c1 c2 e t0 = Val u).
Proof. exact singular_limit_repaired_cubic. Qed.
Theorem C15_singular_limit_quad : forall s c e t0,
  quad_d NR s c e t0 1 = (0, 0) -> quad_d NR s c e t0 2 <> (0, 0) ->
  (t0 <> 1 -> exists u, lim_right (quot_quad s c e) t0 u /\ quad_unit_tangent NR TR true s c e t0 = Val u) /\
  (t0 = 1 -> exists u, lim_left (quot_quad s c e) t0 u /\ quad_unit_tangent NR TR true s c e t0 = Val u).
Proof. exact singular_limit_repaired_quad. Qed.
(* all higher derivatives zero (all control points equal): ValueError, no direction exists *)
Theorem C15_singular_degenerate : forall s c1 c2 e t0,
  cubic_d NR s c1 c2 e t0 1 = (0, 0) -> cubic_d NR s c1 c2 e t0 2 = (0, 0) ->
  cubic_d NR s c1 c2 e t0 3 = (0, 0) -> cubic_unit_tangent NR TR true s c1 c2 e t0 = ErrValue.
Proof. exact cubic_repaired_degenerate. Qed.
(* the witness of the defect, repaired: CubicBezier(0, 0, -1+1j, -2).unit_tangent(0) is the limit *)
Theorem C15_singular_witness_repaired :
  exists u, lim_right (quot_cubic w_s w_c1 w_c2 w_e) 0 u /\ fst u < 0 /\
            cubic_unit_tangent NR TR true w_s w_c1 w_c2 w_e 0 = Val u.
Proof. exact singular_witness_repaired. Qed.

(* --- covariance of the (repaired) unit tangent at EVERY point, zeros of the derivative included:
       mapping the control points by p |-> w p + z (translation, rotation, uniform scaling by
       lambda > 0 or < 0: w = lambda e^{i theta} <> 0) maps the unit tangent by w/|w|; when no
       direction exists both sides are the same error.  At a zero of the derivative the value is the
       direction of the next non-vanishing derivative, which maps the same way. --- *)
Theorem C15_tangent_similarity_all : forall w z s c1 c2 e t, w <> (0, 0) ->
  cubic_unit_tangent NR TR true (aff w z s) (aff w z c1) (aff w z c2) (aff w z e) t
  = res_map (cmul NR (unit_of NR TR w)) (cubic_unit_tangent NR TR true s c1 c2 e t) /\
  quad_unit_tangent NR TR true (aff w z s) (aff w z c1) (aff w z e) t
  = res_map (cmul NR (unit_of NR TR w)) (quad_unit_tangent NR TR true s c1 e t).
Proof.
  intros w z s c1 c2 e t Hw.
  split; [exact (@tangent_similarity_all_cubic w z s c1 c2 e t Hw)|exact (@tangent_similarity_all_quad w z s c1 e t Hw)].
Qed.
(* reversal at the end points, singular or not: tangent of the reversed curve at 1 - t is negated *)
Theorem C15_tangent_reversed_ends : forall s c1 c2 e t, t = 0 \/ t = 1 ->
  cubic_unit_tangent NR TR true e c2 c1 s (1 - t) = res_map (copp NR) (cubic_unit_tangent NR TR true s c1 c2 e t) /\
  quad_unit_tangent NR TR true e c1 s (1 - t) = res_map (copp NR) (quad_unit_tangent NR TR true s c1 e t).
Proof.
  intros s c1 c2 e t Ht.
  split; [exact (@tangent_reversed_ends_cubic s c1 c2 e t Ht)|exact (@tangent_reversed_ends_quad s c1 e t Ht)].
Qed.

(* --- non-vacuity --- *)
Example C15_nonvacuous_regular :
  cubic_d NR (0, 0) (1, 0) (2, 1) (3, 3) (1 / 2) 1 <> (0, 0).
Proof.
  unfold cubic_d, cubic_deriv, oget; cbn [Z.eqb Pos.eqb]. cunfold. cbn [lit of_pos].
  cbn [NumR add sub mul opp one zero]. intros E. apply (f_equal fst) in E. cbn [fst] in E. lra.
Qed.
Example C15_nonvacuous_singular :
  cubic_d NR w_s w_c1 w_c2 w_e 0 1 = (0, 0) /\ cubic_d NR w_s w_c1 w_c2 w_e 0 2 = (-6, 6) /\
  left_half (-6, 6) /\ right_half (6, 6).
Proof.
  split; [exact witness_d1|]. split; [exact witness_d2|]. split; [left; cbn; lra|left; cbn; lra].
Qed.

Print Assumptions C15_model_derivatives_true.
Print Assumptions C15_unit.
Print Assumptions C15_normal_rot.
Print Assumptions C15_curvature_formula.
Print Assumptions C15_curvature_formula_quad.
Print Assumptions C15_curvature_formula_arc.
Print Assumptions C15_line_zero.
Print Assumptions C15_circle.
Print Assumptions C15_tangent_translate.
Print Assumptions C15_tangent_rotate.
Print Assumptions C15_tangent_scale.
Print Assumptions C15_tangent_similarity.
Print Assumptions C15_tangent_reversed.
Print Assumptions C15_curvature_similarity.
Print Assumptions C15_curvature_similarity_vec.
Print Assumptions C15_curvature_reversed.
Print Assumptions C15_path_curvature.
Print Assumptions C15_rational_limit_fuel.
Print Assumptions C15_limit_direction.
Print Assumptions C15_limit_direction_quad.
Print Assumptions C15_singular_value.
Print Assumptions C15_singular_limit_partial.
Print Assumptions C15_singular_limit.
Print Assumptions C15_singular_limit_quad.
Print Assumptions C15_singular_degenerate.
Print Assumptions C15_singular_witness_repaired.
Print Assumptions C15_tangent_similarity_all.
Print Assumptions C15_tangent_reversed_ends.
Print Assumptions C15_singular_sign_refuted.
Print Assumptions C15_singular_sign_left_half_refuted.
Print Assumptions C15_singular_sign_refuted_exec.
