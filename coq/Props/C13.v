(* Props/C13.v — property C13: radialrange / closest / farthest point return
   the global extremes of the distance.  Only statements, `exact`, Print
   Assumptions and non-vacuity / refutation examples live here.
   Models: Model/Extrema.v (as coded; np.roots is an oracle whose output is an
   argument of the model).  Variant flag [fixed]: polyroots de-duplication,
   false = pinned pair-index loop, true = repaired loop (= C19's dedup_fixed). *)
From Coq Require Import ZArith QArith Qcanon List Bool Reals Lra.
From SVP Require Import Base.Num Base.Cplx Base.Poly Model.Bezier Model.Extrema
     Proofs.BezierAlg Proofs.ExtremaLemmas Proofs.ExtremaBbox Proofs.ExtremaRadial Proofs.ExtremaDedup.
Import ListNotations.
Local Open Scope R_scope.

Notation dist w z := (cabs NumTR (csub NumR w z)).    (* abs(w - z) as coded *)

(* ---- Line.radialrange: full ---- *)
Theorem C13_line_global : forall s e z, s <> e ->
  let '((dmin, tmin), (dmax, tmax)) := line_radialrange NumR NumTR s e z in
  0 <= tmin <= 1 /\ 0 <= tmax <= 1 /\
  dmin = dist (line_point NumR s e tmin) z /\ dmax = dist (line_point NumR s e tmax) z /\
  forall t, 0 <= t <= 1 -> dmin <= dist (line_point NumR s e t) z <= dmax.
Proof. exact line_radial_global. Qed.

(* ---- bezier_radialrange (Quadratic / Cubic): p = seg.poly() coefficients,
   point = seg.point, roots = np.roots(r_squared.deriv()) ---- *)
(* unconditional part: parameters in [0,1], distances are the distances there *)
Theorem C13_bezier_attained : forall fixed atol rtol point z roots,
  let '((dmin, tmin), (dmax, tmax)) := bezier_radialrange NumR NumTR fixed atol rtol point z roots in
  0 <= tmin <= 1 /\ 0 <= tmax <= 1 /\ dmin = dist (point tmin) z /\ dmax = dist (point tmax) z.
Proof. exact bezier_radial_attained. Qed.
(* global under the explicit oracle contract: np.roots lists every real root
   in [0,1] of d/dt |B - z|^2 (unless that polynomial is identically zero) and
   the separation premise of the variant holds:
     fixed = false: no two surviving list positions are isclose (the pinned
                    pair-index loop must be the identity; forbids a double root
                    listed twice -- a premise that exists only because of the bug);
     fixed = true : surviving roots with DIFFERENT values are not isclose
                    (multiplicities are harmless) *)
Theorem C13_bezier_global_partial : forall fixed atol rtol p point z roots, 0 < atol -> 0 <= rtol -> p <> [] ->
  (forall t, point t = cpeval NumR p t) ->
  oracle_ok (r_squared_deriv NumR p z) roots -> separated fixed atol rtol (le01 NumR) roots ->
  let '((dmin, tmin), (dmax, tmax)) := bezier_radialrange NumR NumTR fixed atol rtol point z roots in
  forall t, 0 <= t <= 1 -> dmin <= dist (point t) z <= dmax.
Proof. exact bezier_radial_global. Qed.
(* the polynomial the oracle is asked about is d/dt |poly(t) - z|^2 *)
Theorem C13_r_squared_is_sqdist : forall p z t, p <> [] ->
  peval NumR (r_squared NumR p z) t = sqd (cpeval NumR p t) z.
Proof. exact r_squared_eval. Qed.
(* the two segment classes (C03: point(t) = poly()(t)) *)
Theorem C13_quad_global_partial : forall fixed atol rtol s c e z roots, 0 < atol -> 0 <= rtol ->
  oracle_ok (r_squared_deriv NumR (quad_poly NumR s c e) z) roots ->
  separated fixed atol rtol (le01 NumR) roots ->
  let '((dmin, tmin), (dmax, tmax)) :=
      bezier_radialrange NumR NumTR fixed atol rtol (quad_point NumR s c e) z roots in
  forall t, 0 <= t <= 1 -> dmin <= dist (quad_point NumR s c e t) z <= dmax.
Proof.
  intros fixed atol rtol s c e z roots Ha Hr. apply (bezier_radial_global fixed atol rtol (quad_poly NumR s c e)); auto.
  - unfold quad_poly; congruence.
  - intros t. symmetry. apply (quad_poly_eval NumR NumR_ok).
Qed.
Theorem C13_cubic_global_partial : forall fixed atol rtol s c1 c2 e z roots, 0 < atol -> 0 <= rtol ->
  oracle_ok (r_squared_deriv NumR (cubic_poly NumR s c1 c2 e) z) roots ->
  separated fixed atol rtol (le01 NumR) roots ->
  let '((dmin, tmin), (dmax, tmax)) :=
      bezier_radialrange NumR NumTR fixed atol rtol (cubic_point NumR s c1 c2 e) z roots in
  forall t, 0 <= t <= 1 -> dmin <= dist (cubic_point NumR s c1 c2 e t) z <= dmax.
Proof.
  intros fixed atol rtol s c1 c2 e z roots Ha Hr. apply (bezier_radial_global fixed atol rtol (cubic_poly NumR s c1 c2 e)); auto.
  - unfold cubic_poly; congruence.
  - intros t. symmetry. apply (cubic_poly_eval NumR NumR_ok).
Qed.

(* ---- Path.radialrange / closest_point_in_path / farthest_point_in_path:
   the strict </> fold, any carrier with a sane order ---- *)
Theorem C13_path_min : forall (K : Type) (N : Num K), OrdOK N ->
  forall segs : list ((K * K) * (K * K)), segs <> [] ->
  exists d t i mx, closest_point_in_path N segs = Some (d, t, i) /\
    nth_error segs i = Some ((d, t), mx) /\
    forall sg, In sg segs -> nle N d (fst (fst sg)).
Proof. intros K N OK. exact (path_radial_min N OK). Qed.
Theorem C13_path_max : forall (K : Type) (N : Num K), OrdOK N ->
  forall segs : list ((K * K) * (K * K)),
  let '(d, o) := farthest_point_in_path N segs in
  (forall sg, In sg segs -> nle N (fst (snd sg)) d) /\
  ((exists sg, In sg segs /\ ltb N (zero N) (fst (snd sg)) = true) ->
   exists t i mn, o = Some (t, i) /\ nth_error segs i = Some (mn, (d, t))).
Proof. intros K N OK. exact (path_radial_max N OK). Qed.
(* over R, composed with per-segment globality: the path result is the extreme
   over all segments together with the index of a segment attaining it *)
Theorem C13_path_global : forall (segs : list ((R -> Cplx R) * ((R * R) * (R * R)))) z,
  segs <> [] -> (forall c r, In (c, r) segs -> seg_global c z r) ->
  (exists d t i c r, closest_point_in_path NumR (map snd segs) = Some (d, t, i) /\
      nth_error segs i = Some (c, r) /\ 0 <= t <= 1 /\ d = dist (c t) z /\
      forall c' r' u, In (c', r') segs -> 0 <= u <= 1 -> d <= dist (c' u) z) /\
  ((exists c r, In (c, r) segs /\ 0 < fst (snd r)) ->
   exists d t i c r, farthest_point_in_path NumR (map snd segs) = (d, Some (t, i)) /\
      nth_error segs i = Some (c, r) /\ 0 <= t <= 1 /\ d = dist (c t) z /\
      forall c' r' u, In (c', r') segs -> 0 <= u <= 1 -> dist (c' u) z <= d).
Proof.
  intros segs z Hne Hseg. split.
  - exact (path_closest_global segs z Hne Hseg).
  - exact (path_farthest_global segs z Hseg).
Qed.

(* ---- refutations: the faithful model violates the statement ---- *)
(* PINNED variant (fixed = false) only.
   the de-duplication loop of polyroots uses a pair index as a root index:
   every listed root passes the filters, but the simple root 1/10 is dropped
   and both copies of the double root 7/10 are kept *)
Theorem C13_dedup_loses_root_refuted :
  dedup_drops_simple_root = true /\ dedup_drops_last_root = true /\
  (* ... on the exact oracle output for QuadraticBezier(-1/2+i/4, -i/4, 1/2+i/4), z = -4/125+31i/50 ... *)
  w_oracle_exact = true /\
  (* ... bezier_radialrange returns t_min = 0 although t = 1/10 is strictly closer *)
  w_nonglobal = true.
Proof.
  exact (conj dedup_drops_simple_root_true (conj dedup_drops_last_root_true
         (conj w_oracle_exact_true w_nonglobal_true))).
Qed.
(* REPAIRED variant (fixed = true) on the same oracle outputs: every distinct
   root survives exactly once and bezier_radialrange returns the global
   minimiser t = 1/10 -- the premise `separated true` holds there (the double
   root listed twice is harmless), `separated false` does not *)
Theorem C13_dedup_repaired_keeps_root :
  dedup_fixed_keeps_roots = true /\ w_fixed_global = true.
Proof. exact (conj dedup_fixed_keeps_roots_true w_fixed_global_true). Qed.
(* farthest_point_in_path on a path whose every point is the query point:
   the seed (0, None, None) survives, no segment index is returned *)
Example C13_path_farthest_degenerate_refuted :
  farthest_point_in_path NumQ [((Q2Qc 0, Q2Qc 0), (Q2Qc 0, Q2Qc 0))] = (Q2Qc 0, None).
Proof. vm_compute. reflexivity. Qed.

(* ---- non-vacuity ---- *)
(* the dedup loop is harmless in the cases its author had in mind *)
Example C13_dedup_intended_cases : dedup_ok_cases = true.
Proof. exact dedup_ok_cases_true. Qed.
(* the oracle contract is satisfiable: P(t) = (t, t^2), z = 0:
   d/dt |P|^2 = 4t^3 + 2t has the single real root 0 *)
Example C13_contract_satisfiable : forall fixed atol rtol,
  let p := quad_poly NumR (0, 0) (1 / 2, 0) (1, 1) in
  oracle_ok (r_squared_deriv NumR p (0, 0)) [(0, 0)] /\ separated fixed atol rtol (le01 NumR) [(0, 0)].
Proof.
  intros fixed atol rtol p. split.
  - intros _ t _ H. left. f_equal.
    unfold p, r_squared_deriv, r_squared, quad_poly, peval in H. cbn in H.
    assert (E : 2 * t * (2 * (t * t) + 1) = 0) by lra.
    apply Rmult_integral in E. destruct E as [E|E]; [lra|].
    pose proof (Rle_0_sqr t) as S. unfold Rsqr in S. lra.
  - unfold separated. apply no_close_pairs_sep_ok. unfold no_close_pairs, real_roots. cbn [filter map].
    destruct (isclose NumR atol rtol (im (0, 0)) (zero NumR)); cbn [filter map].
    + destruct (le01 NumR (re (0, 0))); cbn; intros a b [].
    + cbn; intros a b [].
Qed.
Example C13_line_nonvacuous : ((0, 0) : Cplx R) <> (1, 0).
Proof. intros H. inversion H. lra. Qed.

Print Assumptions C13_line_global.
Print Assumptions C13_bezier_attained.
Print Assumptions C13_bezier_global_partial.
Print Assumptions C13_r_squared_is_sqdist.
Print Assumptions C13_quad_global_partial.
Print Assumptions C13_cubic_global_partial.
Print Assumptions C13_path_min.
Print Assumptions C13_path_max.
Print Assumptions C13_path_global.
Print Assumptions C13_dedup_loses_root_refuted.
Print Assumptions C13_dedup_repaired_keeps_root.
Print Assumptions C13_path_farthest_degenerate_refuted.
Print Assumptions C13_dedup_intended_cases.
Print Assumptions C13_contract_satisfiable.
Print Assumptions C13_line_nonvacuous.
