(* Props/C05.v — property C05: path parameter T, segment parameter t and arc
   length fractions are coherent; iscontinuous / isclosed / continuous_subpaths
   report exactly the coincidences of consecutive end points.
   Only statements, `exact`, Print Assumptions and non-vacuity Examples.

   Model: Model/PathIdx.v.  [comp] = which builtin sum() the interpreter has
   (true: CPython >= 3.12, Neumaier-compensated on exact floats).  Two flags
   select the variant of the code: [fb] = true: T2t / point fall back to the end
   of the last nonzero-length segment when the float sum of the fractions ends
   below T (false: the unrepaired code raises BugException / RuntimeError);
   [cl] = true: T2t clamps its quotient to 1 (false: the unrepaired raw
   quotient).  The theorems over R hold for all combinations; tags of the
   lengths (float / numpy scalar) are irrelevant over R.  The harness determines
   the flags from the implementation; for the repaired code (cl = fb = true) the
   binary64 theorems C05_T2t_total_float and C05_T2t_le_1_float hold for ALL
   inputs; the *_refuted Examples are the historical witnesses against the
   unrepaired variants (flags false). *)
From Coq Require Import ZArith List Bool Reals Lra PrimFloat.
From SVP Require Import Base.Num Base.FloatK Model.PathIdx
     Proofs.PathIdxR Proofs.PathIdxGen Proofs.PathIdxList Proofs.PathIdxFloatLaws Proofs.PathIdxFloat.
Import ListNotations.
Open Scope R_scope.

(* ---------- T <-> (k, t), over the reals, any number of segments ---------- *)
(* all lengths >= 0, total > 0, 0 < T < 1: T2t returns (k,t) with k a valid
   index, segment k of positive length (zero-length segments are never
   selected, no division by zero), 0 < t <= 1, T inside (cum_k, cum_(k+1)] *)
Theorem C05_T2t_spec : forall comp cl (tl : list (bool * R)),
  nonneg (vals tl) -> 0 < total NumR comp tl -> forall fb T, 0 < T < 1 ->
  exists k t, T2t NumR comp cl fb tl T = Ok (Z.of_nat k, t) /\ (k < length tl)%nat
    /\ 0 < nth k (vals tl) 0 /\ 0 < t <= 1
    /\ cum NumR comp (fractions NumR comp tl) k < T <= cum NumR comp (fractions NumR comp tl) (S k)
    /\ t = (T - cum NumR comp (fractions NumR comp tl) k) / nth k (vals (fractions NumR comp tl)) 0.
Proof. exact T2t_spec. Qed.

Theorem C05_t2T_T2t : forall comp cl (tl : list (bool * R)),
  nonneg (vals tl) -> 0 < total NumR comp tl ->
  forall fb T k t, 0 < T < 1 -> T2t NumR comp cl fb tl T = Ok (Z.of_nat k, t) ->
  t2T NumR comp tl k t = Ok T.
Proof. exact t2T_T2t. Qed.

(* T2t inverts t2T on (0,1] of a positive-length segment; when t2T gives 1 the
   answer is (len-1, 1): all later segments then have length zero *)
Theorem C05_T2t_t2T : forall comp cl (tl : list (bool * R)),
  nonneg (vals tl) -> 0 < total NumR comp tl ->
  forall fb k t, (k < length tl)%nat -> 0 < nth k (vals tl) 0 -> 0 < t <= 1 ->
  exists T, t2T NumR comp tl k t = Ok T /\ 0 < T <= 1
    /\ (T < 1 -> T2t NumR comp cl fb tl T = Ok (Z.of_nat k, t))
    /\ (T = 1 -> t = 1 /\ cum NumR comp (fractions NumR comp tl) (S k) = 1
                 /\ T2t NumR comp cl fb tl T = Ok (last_idx (length tl), 1)).
Proof. exact T2t_t2T. Qed.

(* segment k occupies exactly [cum_k, cum_(k+1)], the cumulative arc-length
   fractions (sum of the first k lengths) / (total length) *)
Theorem C05_interval : forall comp (tl : list (bool * R)),
  nonneg (vals tl) -> 0 < total NumR comp tl ->
  forall k t, (k < length tl)%nat -> 0 <= t <= 1 ->
  exists T, t2T NumR comp tl k t = Ok T
    /\ cum NumR comp (fractions NumR comp tl) k <= T <= cum NumR comp (fractions NumR comp tl) (S k)
    /\ cum NumR comp (fractions NumR comp tl) k
       = pysum NumR comp (firstn k tl) / total NumR comp tl
    /\ cum NumR comp (fractions NumR comp tl) (S k)
       = pysum NumR comp (firstn (S k) tl) / total NumR comp tl.
Proof. exact t2T_interval. Qed.

(* builtin sum(), compensated or not, is the sum *)
Theorem C05_sum_is_sum : forall comp (tl : list (bool * R)),
  pysum NumR comp tl = fold_right Rplus 0 (map snd tl).
Proof. exact pysum_R. Qed.

(* point(T) searches the same (k,t) as T2t(T), for every T >= 0 and every list
   of non-negative lengths, total 0 included (whenever T2t returns) *)
Theorem C05_point_coherent : forall comp cl (tl : list (bool * R)) fb T kt,
  tl <> [] -> nonneg (vals tl) -> 0 <= T -> T2t NumR comp cl fb tl T = Ok kt ->
  point_search NumR comp fb tl T = Ok kt.
Proof. exact point_search_T2t. Qed.

Theorem C05_T2t_ends : forall comp cl (tl : list (bool * R)) fb,
  T2t NumR comp cl fb tl 0 = Ok (0%Z, 0)
  /\ T2t NumR comp cl fb tl 1 = Ok (last_idx (length tl), 1).
Proof. exact T2t_ends. Qed.

(* the repaired code over R: total on [0,1] for ANY non-negative lengths *)
Theorem C05_T2t_total_R : forall comp cl (tl : list (bool * R)) T,
  nonneg (vals tl) -> 0 <= T <= 1 -> exists kt, T2t NumR comp cl true tl T = Ok kt.
Proof. exact T2t_total_R. Qed.
Theorem C05_point_total_R : forall comp (tl : list (bool * R)) T,
  tl <> [] -> nonneg (vals tl) -> 0 <= T <= 1 -> exists kt, point_search NumR comp true tl T = Ok kt.
Proof. exact point_search_total_R. Qed.

(* Path.point(T) = segment k evaluated at t, (k,t) = T2t(T) *)
Theorem C05_point_is_segment_point : forall comp cl (tl : list (bool * R)),
  nonneg (vals tl) -> 0 < total NumR comp tl ->
  forall (S P : Type) (spoint : S -> R -> P) (segs : list S) fb T,
  length segs = length tl -> 0 < T < 1 ->
  exists k t s, T2t NumR comp cl fb tl T = Ok (Z.of_nat k, t) /\ nth_error segs k = Some s
    /\ path_point NumR spoint comp fb segs tl T = Ok (spoint s t).
Proof. exact path_point_coherent. Qed.

(* point(0) / point(1) are the first segment at 0 / the last segment at 1 *)
Theorem C05_point_ends : forall comp (cl : bool) (tl : list (bool * R)),
  nonneg (vals tl) -> 0 < total NumR comp tl ->
  forall (S P : Type) (spoint : S -> R -> P) (s0 : S) (segs : list S) fb,
  length (s0 :: segs) = length tl ->
  path_point NumR spoint comp fb (s0 :: segs) tl 0 = Ok (spoint s0 0)
  /\ path_point NumR spoint comp fb (s0 :: segs) tl 1 = Ok (spoint (last (s0 :: segs) s0) 1).
Proof. exact path_point_ends. Qed.

(* ---------- any carrier (binary64 included): structure of the search ---------- *)
Section AnyCarrier.
  Context {K : Type} (N : Num K).

  Theorem C05_T2t_index : forall cl fb (fs : list (bool * K)) T k t,
    fs <> [] -> T2t_fr N cl fb fs T = Ok (k, t) -> (0 <= k < Z.of_nat (length fs))%Z.
  Proof. exact (T2t_fr_index N). Qed.
  Theorem C05_point_index : forall fb (fs : list (bool * K)) T k t,
    point_fr N fb fs T = Ok (k, t) -> (0 <= k < Z.of_nat (length fs))%Z.
  Proof. exact (point_fr_index N). Qed.

  (* the fall-back repair: no BugException, identical to the unrepaired code
     wherever that does not fall through, and where it did fall through the
     answer is the end of the last segment of nonzero length *)
  Theorem C05_T2t_fixed_no_bug : forall cl (fs : list (bool * K)) T, T2t_fr N cl true fs T <> Err EBug.
  Proof. exact (T2t_fb_no_bug N). Qed.
  Theorem C05_T2t_fixed_total : forall cl (fs : list (bool * K)) T, in01 N T = true ->
    (exists kt, T2t_fr N cl true fs T = Ok kt) \/ T2t_fr N cl true fs T = Err EZeroDiv.
  Proof. exact (T2t_fb_total N). Qed.
  Theorem C05_T2t_fixed_agrees : forall cl (fs : list (bool * K)) T,
    T2t_fr N cl false fs T <> Err EBug -> T2t_fr N cl true fs T = T2t_fr N cl false fs T.
  Proof. exact (T2t_fb_agrees N). Qed.
  Theorem C05_T2t_fixed_value : forall cl (fs : list (bool * K)) T,
    T2t_fr N cl false fs T = Err EBug -> T2t_fr N cl true fs T = Ok (fallback_idx N fs, one N).
  Proof. exact (T2t_fb_value N). Qed.
  Theorem C05_fallback_nonzero_length : forall (fs : list (bool * K)),
    (exists j x, nth_error fs j = Some x /\ ltb N (zero N) (snd x) = true) ->
    exists j x, fallback_idx N fs = Z.of_nat j /\ nth_error fs j = Some x
                /\ ltb N (zero N) (snd x) = true.
  Proof. exact (fallback_idx_positive N). Qed.
  Theorem C05_point_fixed_total : forall (fs : list (bool * K)) T, fs <> [] -> in01 N T = true ->
    (exists kt, point_fr N true fs T = Ok kt) \/ point_fr N true fs T = Err EZeroDiv.
  Proof. exact (point_fb_total N). Qed.
  Theorem C05_point_fixed_agrees : forall (fs : list (bool * K)) T,
    point_fr N false fs T <> Err ERuntime -> point_fr N true fs T = point_fr N false fs T.
  Proof. exact (point_fb_agrees N). Qed.

  (* the clamp repair: structurally never above 1 (only 1 < 1 = false and
     1 < 0 = false are needed of the carrier), and it changes nothing where the
     raw quotient was not above 1 *)
  Theorem C05_T2t_clamped_le_1 :
    ltb N (one N) (one N) = false -> ltb N (one N) (zero N) = false ->
    forall fb (fs : list (bool * K)) T k t,
    T2t_fr N true fb fs T = Ok (k, t) -> ltb N (one N) t = false.
  Proof. exact (T2t_clamped_le_1 N). Qed.
  Theorem C05_T2t_clamp_agrees : forall fb (fs : list (bool * K)) T k t,
    T2t_fr N false fb fs T = Ok (k, t) -> ltb N (one N) t = false ->
    T2t_fr N true fb fs T = Ok (k, t).
  Proof. exact (T2t_clamp_agrees N). Qed.

  (* full totality of the repaired T2t for any carrier satisfying the two
     comparison laws (IEEE binary64 does: Proofs/PathIdxFloatLaws.v) *)
  Theorem C05_T2t_repaired_total :
    (forall T x l, eqb N l (zero N) = true -> leb N T (add N x l) = leb N T x) ->
    (forall T, leb N (zero N) T = true -> eqb N T (zero N) = false -> leb N T (zero N) = false) ->
    forall cl (fs : list (bool * K)) T, in01 N T = true -> exists kt, T2t_fr N cl true fs T = Ok kt.
  Proof. exact (T2t_repaired_total N). Qed.
End AnyCarrier.

(* ---------- binary64, the repaired code (cl = fb = true): ALL inputs ---------- *)
(* T2t is total on [0,1]: neither BugException nor ZeroDivisionError *)
Theorem C05_T2t_total_float : forall cl (fs : list (bool * float)) T, in01 NumF T = true ->
  exists kt, T2t_fr NumF cl true fs T = Ok kt.
Proof. exact T2t_repaired_total_float. Qed.
(* the returned segment parameter is never above 1 *)
Theorem C05_T2t_le_1_float : forall fb (fs : list (bool * float)) T k t,
  T2t_fr NumF true fb fs T = Ok (k, t) -> PrimFloat.ltb 1%float t = false.
Proof. exact T2t_clamped_le_1_float. Qed.
(* on the former counter-examples *)
Example C05_falloff_fixed : forall comp cl,
  T2t NumF comp cl true falloff_tl falloff_T = Ok (3%Z, 1%float)
  /\ point_search NumF comp true falloff_tl falloff_T = Ok (3%Z, 1%float).
Proof. exact falloff_fixed. Qed.
Example C05_falloff_fixed_trailing_zeros : forall comp cl,
  T2t NumF comp cl true (falloff_tl ++ [(true, 0%float); (false, 0%float)]) falloff_T
  = Ok (3%Z, 1%float).
Proof. exact falloff_fixed_trailing_zeros. Qed.
Example C05_above1_fixed : forall comp fb,
  T2t NumF comp true fb above1_tl above1_T = Ok (1%Z, 1%float).
Proof. exact above1_fixed. Qed.

(* ---------- binary64, historical witnesses against the UNREPAIRED code ---------- *)
(* fb = false: falls off just below 1 *)
Example C05_falloff_refuted : forall comp cl,
  T2t NumF comp cl false falloff_tl falloff_T = Err EBug
  /\ point_search NumF comp false falloff_tl falloff_T = Err ERuntime
  /\ cum NumF false (fractions NumF comp falloff_tl) 4 = 0x1.ffffffffffffep-1%float.
Proof. exact falloff_witness. Qed.
Example C05_falloff_in_domain : forall comp,
  forallb (fun bx => ltb NumF (zero NumF) (snd bx)) falloff_tl = true
  /\ ltb NumF (zero NumF) falloff_T = true /\ ltb NumF falloff_T (one NumF) = true
  /\ in01 NumF falloff_T = true /\ total NumF comp falloff_tl = 0x1.bp+4%float.
Proof. exact falloff_domain. Qed.
Theorem C05_T2t_total_float_refuted :
  ~ (forall comp cl tl T,
        forallb (fun bx => ltb NumF (zero NumF) (snd bx)) tl = true ->
        ltb NumF (zero NumF) T = true -> ltb NumF T (one NumF) = true ->
        exists kt, T2t NumF comp cl false tl T = Ok kt).
Proof. exact T2t_total_float_refuted. Qed.
(* cl = false: t above 1 at a rounded cumulative boundary (lengths 1, 2, 2) *)
Example C05_t_above_1_refuted : forall comp fb,
  T2t NumF comp false fb above1_tl above1_T = Ok (1%Z, 0x1.0000000000001p+0%float)
  /\ ltb NumF (one NumF) 0x1.0000000000001p+0%float = true
  /\ in01 NumF above1_T = true
  /\ point_search NumF comp fb above1_tl above1_T = Ok (1%Z, 1%float).
Proof. exact above1_witness. Qed.
Theorem C05_T2t_le_1_float_refuted :
  ~ (forall comp fb tl T k t, in01 NumF T = true ->
        T2t NumF comp false fb tl T = Ok (k, t) -> ltb NumF (one NumF) t = false).
Proof. exact T2t_le_1_float_refuted. Qed.

(* ---------- continuity predicates: any segment type, any == ---------- *)
Section Lists.
  Context {S P : Type} (start_ end_ : S -> P) (peq : P -> P -> bool).

  (* the code's index loops (with the `% len(self)`) compute the structural recursions *)
  Theorem C05_iscontinuous_pairs : forall p,
    iscontinuous start_ end_ peq p = iscont_rec start_ end_ peq p.
  Proof. exact (iscontinuous_rec start_ end_ peq). Qed.
  Theorem C05_subpaths_rec : forall p,
    continuous_subpaths start_ end_ peq p = cs_rec start_ end_ peq p.
  Proof. exact (continuous_subpaths_rec start_ end_ peq). Qed.

  Theorem C05_subpaths_concat : forall p, concat (continuous_subpaths start_ end_ peq p) = p.
  Proof. exact (subpaths_concat start_ end_ peq). Qed.
  Theorem C05_subpaths_continuous : forall p,
    Forall (fun g => iscontinuous start_ end_ peq g = true) (continuous_subpaths start_ end_ peq p).
  Proof. exact (subpaths_continuous start_ end_ peq). Qed.
  Theorem C05_subpaths_nonempty : forall p, p <> [] ->
    Forall (fun g => g <> []) (continuous_subpaths start_ end_ peq p).
  Proof. exact (subpaths_nonempty start_ end_ peq). Qed.
  (* maximality: every cut is at a real discontinuity *)
  Theorem C05_subpaths_maximal : forall p pre g1 g2 post,
    continuous_subpaths start_ end_ peq p = pre ++ g1 :: g2 :: post ->
    exists a b g2', g2 = b :: g2' /\ g1 <> []
                    /\ peq (end_ (last g1 a)) (start_ b) = false.
  Proof.
    intros p pre g1 g2 post E.
    exact (separated_spec start_ end_ peq _ pre g1 g2 post (subpaths_maximal start_ end_ peq p) E).
  Qed.
  Theorem C05_iscontinuous_iff_one_piece : forall p,
    iscontinuous start_ end_ peq p = true <-> (length (continuous_subpaths start_ end_ peq p) <= 1)%nat.
  Proof. exact (iscontinuous_iff_one_piece start_ end_ peq). Qed.
  Theorem C05_isclosed : forall a r, iscontinuous start_ end_ peq (a :: r) = true ->
    isclosed start_ end_ peq (a :: r) = Ok (peq (start_ a) (end_ (last (a :: r) a))).
  Proof. exact (isclosed_spec start_ end_ peq). Qed.
  Theorem C05_isclosed_asserts : forall p, (p = [] \/ iscontinuous start_ end_ peq p = false) ->
    isclosed start_ end_ peq p = Err EAssert.
  Proof. exact (isclosed_asserts start_ end_ peq). Qed.
End Lists.

(* ---------- non-vacuity ---------- *)
(* the hypotheses of the R theorems are satisfiable, with a zero-length segment inside *)
Example C05_hyps_satisfiable :
  nonneg (vals [(true, 1); (false, 0); (true, 3)])
  /\ 0 < total NumR true [(true, 1); (false, 0); (true, 3)].
Proof.
  split; [unfold nonneg, vals; simpl; repeat (apply Forall_cons; [lra|]); apply Forall_nil
         |rewrite total_R; simpl; lra].
Qed.
(* a path that is cut in two *)
Example C05_subpaths_example :
  continuous_subpaths (fun s : nat * nat => fst s) (fun s => snd s) Nat.eqb
    [(0, 1); (1, 2); (5, 6); (6, 0)]%nat = [[(0, 1); (1, 2)]; [(5, 6); (6, 0)]]%nat
  /\ iscontinuous (fun s : nat * nat => fst s) (fun s => snd s) Nat.eqb [(0, 1); (1, 2); (2, 0)]%nat = true
  /\ isclosed (fun s : nat * nat => fst s) (fun s => snd s) Nat.eqb [(0, 1); (1, 2); (2, 0)]%nat = Ok true.
Proof. vm_compute. repeat split. Qed.

Print Assumptions C05_T2t_spec.
Print Assumptions C05_t2T_T2t.
Print Assumptions C05_T2t_t2T.
Print Assumptions C05_interval.
Print Assumptions C05_sum_is_sum.
Print Assumptions C05_point_coherent.
Print Assumptions C05_T2t_ends.
Print Assumptions C05_T2t_total_R.
Print Assumptions C05_point_total_R.
Print Assumptions C05_point_is_segment_point.
Print Assumptions C05_point_ends.
Print Assumptions C05_T2t_index.
Print Assumptions C05_point_index.
Print Assumptions C05_T2t_fixed_no_bug.
Print Assumptions C05_T2t_fixed_total.
Print Assumptions C05_T2t_fixed_agrees.
Print Assumptions C05_T2t_fixed_value.
Print Assumptions C05_fallback_nonzero_length.
Print Assumptions C05_point_fixed_total.
Print Assumptions C05_point_fixed_agrees.
Print Assumptions C05_T2t_clamped_le_1.
Print Assumptions C05_T2t_clamp_agrees.
Print Assumptions C05_T2t_repaired_total.
Print Assumptions C05_T2t_total_float.
Print Assumptions C05_T2t_le_1_float.
Print Assumptions C05_falloff_fixed.
Print Assumptions C05_falloff_fixed_trailing_zeros.
Print Assumptions C05_above1_fixed.
Print Assumptions C05_falloff_refuted.
Print Assumptions C05_falloff_in_domain.
Print Assumptions C05_T2t_total_float_refuted.
Print Assumptions C05_t_above_1_refuted.
Print Assumptions C05_T2t_le_1_float_refuted.
Print Assumptions C05_iscontinuous_pairs.
Print Assumptions C05_subpaths_rec.
Print Assumptions C05_subpaths_concat.
Print Assumptions C05_subpaths_continuous.
Print Assumptions C05_subpaths_nonempty.
Print Assumptions C05_subpaths_maximal.
Print Assumptions C05_iscontinuous_iff_one_piece.
Print Assumptions C05_isclosed.
Print Assumptions C05_isclosed_asserts.
