(* Props/C14.v — property C14: area() is the signed enclosed area (Green's
   theorem); sign, reversal, translation, determinant; arcs by chords;
   path_encloses_pt is the even-odd rule on polygons in general position;
   decision structure of is_contained_by.  Only statements, `exact`, and
   Print Assumptions live here. *)
From Coq Require Import ZArith QArith Qcanon List Bool Reals.
Set Warnings "-ambiguous-paths".
From Coquelicot Require Import Coquelicot.
From SVP Require Import Base.Num Base.Cplx Base.Poly Model.Bezier Model.Area
     Proofs.AreaAlg Proofs.AreaR.
Import ListNotations.

Section C14.
  Context {K : Type} (N : Num K) (OK : NumFieldOK N).
  Local Notation two := (add N (one N) (one N)).

  (* Green, formal part: the value added for a segment is I(1) - I(0) where I is the
     antiderivative (I' = integrand, coefficient by coefficient) of x(t) * y'(t), x and y'
     being the real part of point(t) and the imaginary part of derivative(t) of C03's models *)
  Theorem C14_green_poly : forall s : bseg K,
      seg_area N s = sub N (peval N (area_integral N (seg_poly N s)) (one N))
                           (peval N (area_integral N (seg_poly N s)) (zero N))
      /\ pderiv N (area_integral N (seg_poly N s)) = area_integrand N (seg_poly N s)
      /\ forall t, peval N (area_integrand N (seg_poly N s)) t =
                   mul N (re (seg_point N s t)) (im (seg_deriv1 N s t)).
  Proof. exact (green_formal N OK). Qed.

  (* shoelace formula: polygons with any number of vertices *)
  Theorem C14_shoelace : forall v0 vs,
      area_without_arcs N (polygon v0 vs) = div N (cross_sum N (v0 :: vs ++ [v0])) two.
  Proof. exact (shoelace N OK). Qed.
  Theorem C14_line_area : forall s e,
      seg_area N (BLine s e) = div N (mul N (sub N (im e) (im s)) (add N (re s) (re e))) two.
  Proof. exact (seg_area_line N OK). Qed.
  Theorem C14_triangle_area : forall a b c,
      area_without_arcs N (polygon a [b; c]) = div N (orient N a b c) two.
  Proof. exact (triangle_area N OK). Qed.
  Theorem C14_polygon_fan : forall v0 vs,
      area_without_arcs N (polygon v0 vs) = div N (fan_sum N v0 vs) two.
  Proof. exact (polygon_area_fan N OK). Qed.
  Theorem C14_polygon_closed : forall v0 vs, closed N (polygon v0 vs).
  Proof. exact (polygon_closed N). Qed.

  (* reversed(): exact sign change, segment by segment, hence for every path *)
  Theorem C14_reversed : forall p, area_without_arcs N (path_rev p) = opp N (area_without_arcs N p).
  Proof. exact (area_rev N OK). Qed.

  Theorem C14_reversed_closed : forall p, closed N p ->
      closed N (path_rev p) /\ area_without_arcs N (path_rev p) = opp N (area_without_arcs N p).
  Proof. intros p H. split; [exact (closed_rev N p H)|exact (area_rev N OK p)]. Qed.

  (* translation invariance and determinant scaling for closed continuous paths *)
  Theorem C14_translate : forall w p, closed N p ->
      area_without_arcs N (path_map (fun z => cadd N z w) p) = area_without_arcs N p.
  Proof. exact (area_translate N OK). Qed.
  Theorem C14_affine : forall m11 m12 m21 m22 w p, closed N p ->
      area_without_arcs N (path_map (affine N m11 m12 m21 m22 w) p) =
      mul N (det2 N m11 m12 m21 m22) (area_without_arcs N p).
  Proof. exact (area_affine N OK). Qed.
  Theorem C14_scale : forall sx sy w p, closed N p ->
      area_without_arcs N (path_map (affine N sx (zero N) (zero N) sy w) p) =
      mul N (mul N sx sy) (area_without_arcs N p).
  Proof. exact (area_scale N OK). Qed.
  Theorem C14_rotate : forall c s w p, closed N p -> add N (mul N c c) (mul N s s) = one N ->
      area_without_arcs N (path_map (affine N c (opp N s) s c w) p) = area_without_arcs N p.
  Proof. exact (area_rotate N OK). Qed.
  Theorem C14_reflect : forall p, closed N p ->
      area_without_arcs N (path_map (affine N (one N) (zero N) (zero N) (opp N (one N)) (c0 N)) p) =
      opp N (area_without_arcs N p).
  Proof. exact (area_reflect N OK). Qed.
  Theorem C14_closed_map : forall f p, closed N p -> closed N (path_map f p).
  Proof. exact (closed_map N). Qed.

  (* arcs: by definition of the code the contribution of an Arc is the open polygon through
     point(i/n), i = 0..n (n = num_lines); its value by the shoelace formula.  The distance to
     the true elliptical sector is NOT claimed ("within the chord-length approximation"). *)
  Theorem C14_arc_chords : forall pt n,
      seg2lines N pt n = chords (map pt (linspace01 N n))
      /\ length (seg2lines N pt n) = n
      /\ (forall i d, (i <= n)%nat ->
            nth i (linspace01 N n) d = div N (lit N (Z.of_nat i)) (lit N (Z.of_nat n)))
      /\ mul N two (area_without_arcs N (seg2lines N pt n)) =
         let pts := map pt (linspace01 N n) in
         let a := hd (c0 N) pts in let b := last pts a in
         add N (cross_sum N pts) (sub N (mul N (re b) (im b)) (mul N (re a) (im a))).
  Proof. exact (arc_chords N OK). Qed.
  Theorem C14_arc_split : forall pt n r,
      area N (SA pt n :: r) = add N (area_without_arcs N (seg2lines N pt n)) (area N r).
  Proof. exact (area_arc_split N OK). Qed.
  Theorem C14_bez_split : forall b r, area N (SB b :: r) = add N (seg_area N b) (area N r).
  Proof. exact (area_bez_split N OK). Qed.
End C14.

(* decision structure of is_contained_by (any carrier, no algebra) *)
Theorem C14_contained_def : forall {K} (N : Num K) (intersects : bool) bb pt encl,
    is_contained_by N intersects bb pt encl = true <->
    intersects = false /\ in_bbox N bb pt = true /\ encl pt (probe_target N bb) = true.
Proof. exact (@contained_true_iff). Qed.
Theorem C14_probe_outside_bbox : forall bb, in_bbox NumR bb (probe_target NumR bb) = false.
Proof. exact probe_target_outside. Qed.

(* Green over the reals: seg_area is the integral of x dy *)
Theorem C14_green_RInt : forall s : bseg R,
    seg_area NumR s = RInt (fun t => seg_x s t * seg_dy s t)%R 0 1
    /\ forall t, is_derive (seg_y s) t (seg_dy s t).
Proof. intros s. split; [exact (green_RInt s)|exact (seg_dy_is_derive s)]. Qed.
Theorem C14_green_path : forall p : list (bseg R),
    area_without_arcs NumR p =
    fold_left (fun a s => a + RInt (fun t => seg_x s t * seg_dy s t) 0 1)%R p 0%R.
Proof. exact area_RInt. Qed.

(* counter-clockwise => positive *)
Theorem C14_ccw_positive : forall a b c : Cplx R,
    (0 < orient NumR a b c)%R -> (0 < area_without_arcs NumR (polygon a [b; c]))%R.
Proof. exact ccw_triangle_positive. Qed.
Theorem C14_ccw_fan_positive : forall v0 vs,
    (2 <= length vs)%nat -> fan_positive NumR v0 vs ->
    (0 < area_without_arcs NumR (polygon v0 vs))%R.
Proof. exact ccw_fan_positive. Qed.

(* path_encloses_pt on a polygon = even-odd rule, in general position *)
Theorem C14_encloses_parity : forall atol tol2 pt opt edges, (0 <= atol)%R ->
    List.Forall (gp_edge atol pt opt) edges ->
    pairwise_far tol2 (map (fun h => line_point NumR pt opt (fst h))
                           (probe_hits NumR atol pt opt edges)) ->
    encloses_polygon NumR atol tol2 pt opt edges = even_odd NumR pt opt edges.
Proof. intros atol tol2 pt opt edges H. exact (encloses_parity atol H tol2 pt opt edges). Qed.
Theorem C14_hits_are_crossings : forall atol pt opt edges, (0 <= atol)%R ->
    List.Forall (gp_edge atol pt opt) edges ->
    length (probe_hits NumR atol pt opt edges) = crossing_count NumR pt opt edges.
Proof. intros atol pt opt edges H. exact (hits_count atol H pt opt edges). Qed.

(* instances at the rationals the correspondence check computes in *)
Definition C14_affine_Q := C14_affine NumQ NumQ_ok.
Definition C14_shoelace_R := C14_shoelace NumR NumR_ok.

(* ---- non-vacuity: the definitions compute, on the exact rationals ---- *)
Definition q (n : Z) : Qc := Q2Qc (inject_Z n).
Definition zq (x y : Z) : Cplx Qc := (q x, q y).
Definition sq_ccw : list (bseg Qc) := polygon (zq 0 0) [zq 2 0; zq 2 2; zq 0 2].
Definition sq_edges : list (Cplx Qc * Cplx Qc) :=
  [(zq 0 0, zq 2 0); (zq 2 0, zq 2 2); (zq 2 2, zq 0 2); (zq 0 2, zq 0 0)].
Definition atolq : Qc := Q2Qc (1 # 100000000).
Definition tol2q : Qc := Q2Qc (1 # 1000000000000000000000000).

Example C14_ex_square_area : eqb NumQ (area_without_arcs NumQ sq_ccw) (q 4) = true.
Proof. vm_compute. reflexivity. Qed.
Example C14_ex_square_reversed : eqb NumQ (area_without_arcs NumQ (path_rev sq_ccw)) (q (-4)) = true.
Proof. vm_compute. reflexivity. Qed.
Example C14_ex_square_closed : isclosedb NumQ sq_ccw = true.
Proof. vm_compute. reflexivity. Qed.
Example C14_ex_cubic_area :   (* a genuinely curved segment: int x dy of one cubic *)
  eqb NumQ (seg_area NumQ (BCubic (zq 0 0) (zq 1 0) (zq 1 1) (zq 0 1))) (Q2Qc (3 # 5)) = true.
Proof. vm_compute. reflexivity. Qed.
Example C14_ex_scaled :
  eqb NumQ (area_without_arcs NumQ (path_map (affine NumQ (q 3) (q 1) (q 0) (q 2) (zq 5 7)) sq_ccw)) (q 24) = true.
Proof. vm_compute. reflexivity. Qed.
Example C14_ex_inside : encloses_polygon NumQ atolq tol2q (Q2Qc (1 # 2), Q2Qc (2 # 3)) (zq (-1) (-1)) sq_edges = true.
Proof. vm_compute. reflexivity. Qed.
Example C14_ex_outside : encloses_polygon NumQ atolq tol2q (Q2Qc (5 # 2), Q2Qc (2 # 3)) (zq (-1) (-1)) sq_edges = false.
Proof. vm_compute. reflexivity. Qed.
Example C14_ex_even_odd : even_odd NumQ (Q2Qc (1 # 2), Q2Qc (2 # 3)) (zq (-1) (-1)) sq_edges = true.
Proof. vm_compute. reflexivity. Qed.
(* the absolute tolerance of np.isclose(denom, 0) makes small configurations transparent:
   a square of side 2^-14, query point at its centre, outside point at distance ~2^-13 —
   every |denom| is below 1e-8 and the model of the current code answers "not enclosed" *)
Definition tiny (x y : Z) : Cplx Qc := (Q2Qc (x # 32768), Q2Qc (y # 32768)).
Example C14_ex_tiny_square_not_enclosed :
  encloses_polygon NumQ atolq tol2q (tiny 1 1) (tiny (-1) (-2))
     [(tiny 0 0, tiny 2 0); (tiny 2 0, tiny 2 2); (tiny 2 2, tiny 0 2); (tiny 0 2, tiny 0 0)] = false
  /\ even_odd NumQ (tiny 1 1) (tiny (-1) (-2))
     [(tiny 0 0, tiny 2 0); (tiny 2 0, tiny 2 2); (tiny 2 2, tiny 0 2); (tiny 0 2, tiny 0 0)] = true.
Proof. vm_compute. split; reflexivity. Qed.
Example C14_ex_contained :
  is_contained_by NumQ false (edges_bbox NumQ sq_edges) (Q2Qc (1 # 2), Q2Qc (2 # 3))
    (fun pt opt => encloses_polygon NumQ atolq tol2q pt opt sq_edges) = true.
Proof. vm_compute. reflexivity. Qed.

Print Assumptions C14_green_poly.
Print Assumptions C14_shoelace.
Print Assumptions C14_line_area.
Print Assumptions C14_triangle_area.
Print Assumptions C14_polygon_fan.
Print Assumptions C14_polygon_closed.
Print Assumptions C14_reversed.
Print Assumptions C14_reversed_closed.
Print Assumptions C14_translate.
Print Assumptions C14_affine.
Print Assumptions C14_scale.
Print Assumptions C14_rotate.
Print Assumptions C14_reflect.
Print Assumptions C14_closed_map.
Print Assumptions C14_arc_chords.
Print Assumptions C14_arc_split.
Print Assumptions C14_bez_split.
Print Assumptions C14_contained_def.
Print Assumptions C14_probe_outside_bbox.
Print Assumptions C14_green_RInt.
Print Assumptions C14_green_path.
Print Assumptions C14_ccw_positive.
Print Assumptions C14_ccw_fan_positive.
Print Assumptions C14_encloses_parity.
Print Assumptions C14_hits_are_crossings.
Print Assumptions C14_affine_Q.
Print Assumptions C14_ex_tiny_square_not_enclosed.
