(* Props/C10.v — property C10: translated / rotated / scaled / transform commute
   with point evaluation; applied to a path they act segment-wise and keep exact
   joints exact.  Only statements, `exact`, Print Assumptions and non-vacuity
   examples live here.  Model: Model/Xform.v (+ Model/Arc.v, Model/Bezier.v).

   _refuted = the faithful model of the current code violates the statement. *)
From Coq Require Import ZArith QArith Qcanon List Bool Reals PrimFloat.
From SVP Require Import Base.Num Base.Cplx Base.Poly Base.FloatK Base.BigF
     Model.Bezier Model.BezierN Model.Arc Model.Xform
     Proofs.ArcR Proofs.ArcDeriv Proofs.Xform Proofs.XformJoints Proofs.XformArcAlg Proofs.XformArcR
     Proofs.XformRefute.
Import ListNotations.

(* ================================================================== *)
(* Bezier segments: any field of characteristic 0                      *)
(* ================================================================== *)
Section C10_generic.
  Context {K : Type} (N : Num K) (OK : NumFieldOK N).
  Local Notation C := (Cplx K).

  (* an affine-combination preserving map of the plane commutes with the
     Bernstein curve of EVERY degree *)
  Theorem C10_bern_affine_all : forall (A : C -> C), affine_comb N A ->
      forall p t, p <> [] -> bern N (map A p) t = A (bern N p t).
  Proof. exact (@bern_affine_all K N OK). Qed.

  (* translate: point(t) of the translated Line / Quadratic / Cubic *)
  Theorem C10_translate : forall z0 p t, wf_bez p ->
      bez_point N (bez_translate N z0 p) t = cadd N (bez_point N p t) z0.
  Proof. exact (translate_point N OK). Qed.
  Theorem C10_translate_all_degrees : forall z0 p t, p <> [] ->
      bern N (bez_translate N z0 p) t = cadd N (bern N p t) z0.
  Proof. exact (translate_bern_all N OK). Qed.

  (* rotate: for ANY (c, s); the map is the rotation about origin when c^2+s^2 = 1 *)
  Theorem C10_rotate : forall cs origin p t, wf_bez p ->
      bez_point N (bez_rotate N cs origin p) t = rotate_point N cs origin (bez_point N p t).
  Proof. exact (rotate_point_commutes N OK). Qed.
  Theorem C10_rotate_all_degrees : forall cs origin p t, p <> [] ->
      bern N (bez_rotate N cs origin p) t = rotate_point N cs origin (bern N p t).
  Proof. exact (rotate_bern_all N OK). Qed.
  Theorem C10_rotate_is_rotation : forall cs origin,
      rotate_point N cs origin origin = origin /\
      (cnorm2 N cs = one N -> forall z w,
         cnorm2 N (csub N (rotate_point N cs origin z) (rotate_point N cs origin w))
         = cnorm2 N (csub N z w)).
  Proof.
    intros cs origin. split.
    - exact (rotate_point_fixes N OK cs origin).
    - intros H z w. exact (rotate_point_isometry N OK cs origin z w H).
  Qed.

  (* scale: the bez2poly -> _scale -> constant-term correction -> poly2bez route IS
     scaling every control point about origin; then point commutes *)
  Theorem C10_scale_control_points : forall sx sy origin p, wf_bez p ->
      scale_bezier N sx sy origin p = XOk (map (scale_point N sx sy origin) p).
  Proof. exact (scale_bezier_eq N OK). Qed.
  Theorem C10_scale : forall sx sy origin p t, wf_bez p ->
      exists q, scale_bezier N sx sy origin p = XOk q /\ wf_bez q /\
                bez_point N q t = scale_point N sx sy origin (bez_point N p t).
  Proof. exact (scale_point_commutes N OK). Qed.

  (* transform: every 3x3 matrix (rows 1, 2 used; invertible or not) *)
  Theorem C10_transform_affine : forall (M : Mat3 K) p t, wf_bez p ->
      bez_point N (map (tf_point N M) p) t = tf_point N M (bez_point N p t).
  Proof. exact (transform_point_commutes N OK). Qed.
  Theorem C10_transform_affine_all_degrees : forall (M : Mat3 K) p t, p <> [] ->
      bern N (map (tf_point N M) p) t = tf_point N M (bern N p t).
  Proof. exact (transform_bern_all N OK). Qed.
  (* the identity short-cut returns what the general branch computes *)
  Theorem C10_identity_shortcut : forall (M : Mat3 K) p,
      (mat_is_identity N M = true -> bez_transform N M p = p) /\
      (mat_is_identity N M = false -> bez_transform N M p = map (tf_point N M) p) /\
      map (tf_point N (mat_id N)) p = p.
  Proof.
    intros M p. split; [|split].
    - exact (identity_shortcut_taken N M p).
    - exact (general_branch N M p).
    - exact (identity_shortcut_sound N OK p).
  Qed.

  (* the same, through the class dispatch of the four functions *)
  Theorem C10_seg_translate : forall (T : NumT K) z0 p t, wf_bez p ->
      exists s', seg_translate N T z0 (SBez p) = XOk s' /\
                 seg_point N T s' t = cadd N (seg_point N T (SBez p) t) z0.
  Proof. exact (seg_translate_bez N OK). Qed.
  Theorem C10_seg_rotate : forall (T : NumT K) degs cs origin p t, wf_bez p ->
      let o := match origin with Some o => o | None => bez_point N p (half N) end in
      exists s', seg_rotate N T degs cs origin (SBez p) = XOk s' /\
                 seg_point N T s' t = rotate_point N cs o (seg_point N T (SBez p) t).
  Proof. exact (seg_rotate_bez N OK). Qed.
  Theorem C10_seg_scale : forall (T : NumT K) sx sy origin p t, wf_bez p ->
      exists s', seg_scale N T sx sy origin (SBez p) = XOk s' /\
                 seg_point N T s' t = scale_point N sx sy origin (seg_point N T (SBez p) t).
  Proof. exact (seg_scale_bez N OK). Qed.
  Theorem C10_seg_transform : forall (T : NumT K) tfx eig (M : Mat3 K) p t, wf_bez p ->
      mat_is_identity N M = false ->
      exists s', seg_transform N T tfx eig M (SBez p) = XOk s' /\
                 seg_point N T s' t = tf_point N M (seg_point N T (SBez p) t).
  Proof. exact (seg_transform_bez N OK). Qed.

  (* arcs, any field and any transcendental record: the constructor is equivariant
     under translation, and under rotation when rot_matrix' = rot_matrix * cs *)
  Theorem C10_arc_translate_any_field : forall (T : NumT K) fx s radius rot large sweep e z t,
      arc_point N T (arc_init_v N T fx (cadd N s z) radius rot large sweep (cadd N e z)) t
      = cadd N (arc_point N T (arc_init_v N T fx s radius rot large sweep e) t) z.
  Proof. exact (arc_init_v_translate N OK). Qed.
  Theorem C10_arc_rotate_any_field : forall (T : NumT K) rot degs cs,
      arc_rotm_of T (add N rot degs) = cmul N (arc_rotm_of T rot) cs ->
      cnorm2 N cs <> zero N -> cnorm2 N (arc_rotm_of T rot) <> zero N ->
      forall fx s radius large sweep e o t,
      arc_point N T (arc_init_v N T fx (rotate_point N cs o s) radius (add N rot degs) large sweep
                                (rotate_point N cs o e)) t
      = rotate_point N cs o (arc_point N T (arc_init_v N T fx s radius rot large sweep e) t).
  Proof. exact (arc_init_v_rotate N OK). Qed.
End C10_generic.

(* ================================================================== *)
(* arcs over the reals                                                  *)
(* ================================================================== *)
Local Open Scope R_scope.
Theorem C10_arc_translate : forall start radius end_ rotation large sweep,
    start <> end_ -> fst radius <> 0 -> snd radius <> 0 ->
    forall z0 t,
    let P := arc_init NumR NumTR start radius rotation large sweep end_ in
    arc_point NumR NumTR (arc_translate NumR NumTR z0 P) t = cadd NumR (arc_point NumR NumTR P t) z0.
Proof. exact arc_translate_point. Qed.

Theorem C10_arc_rotate : forall start radius end_ rotation large sweep,
    start <> end_ -> fst radius <> 0 -> snd radius <> 0 ->
    forall degs origin t,
    let P := arc_init NumR NumTR start radius rotation large sweep end_ in
    arc_point NumR NumTR (arc_rotate NumR NumTR degs (cs_of_degs NumTR degs) origin P) t
    = rotate_point NumR (cs_of_degs NumTR degs) origin (arc_point NumR NumTR P t).
Proof. exact arc_rotate_point. Qed.

(* sx <> 0 of either sign, sy omitted or equal to sx *)
Theorem C10_arc_uniform_scale : forall start radius end_ rotation large sweep,
    start <> end_ -> fst radius <> 0 -> snd radius <> 0 ->
    forall sx sy origin t, sx <> 0 -> (sy = None \/ sy = Some sx) ->
    let P := arc_init NumR NumTR start radius rotation large sweep end_ in
    exists P', arc_scale NumR NumTR sx sy origin P = XOk P' /\
      arc_point NumR NumTR P' t
      = cadd NumR (cscale NumR sx (csub NumR (arc_point NumR NumTR P t) origin)) origin.
Proof. exact arc_scale_uniform_point. Qed.

(* non-uniform scaling of an arc is refused, never silently wrong *)
Theorem C10_arc_nonuniform_refused : forall sx sy origin (Q : ArcP R), sy <> sx ->
    arc_scale NumR NumTR sx (Some sy) origin Q = XRefused.
Proof. exact arc_scale_nonuniform_refused. Qed.

(* ---- transform() of an Arc, REPAIRED branch (arc_transform_fixed; variant flag tfx = true) ---- *)
(* the image of the ellipse parameterisation: for M = A.R(phi).diag(rx,ry) with det M <> 0,
   with rx' = sqrt(larger eigenvalue of M.M^T), ry' = |det M|/rx', phi' = atan2(q,(p-r)/2)/2
   (what the code computes), s = sign det M and alpha = img_alpha:
       M.u(theta) = R(phi').diag(rx', ry').u(s*theta + alpha)      for every theta *)
Theorem C10_ellipse_image : forall m00 m01 m10 m11, m00 * m11 - m01 * m10 <> 0 -> forall theta,
    m00 * cos theta + m01 * sin theta
      = ie_nrx m00 m01 m10 m11 * cos (ie_psi m00 m01 m10 m11)
          * cos (ie_sgn m00 m01 m10 m11 * theta + img_alpha m00 m01 m10 m11)
        - ie_nry m00 m01 m10 m11 * sin (ie_psi m00 m01 m10 m11)
          * sin (ie_sgn m00 m01 m10 m11 * theta + img_alpha m00 m01 m10 m11)
    /\ m10 * cos theta + m11 * sin theta
      = ie_nrx m00 m01 m10 m11 * sin (ie_psi m00 m01 m10 m11)
          * cos (ie_sgn m00 m01 m10 m11 * theta + img_alpha m00 m01 m10 m11)
        + ie_nry m00 m01 m10 m11 * cos (ie_psi m00 m01 m10 m11)
          * sin (ie_sgn m00 m01 m10 m11 * theta + img_alpha m00 m01 m10 m11).
Proof. exact ie_image_param. Qed.
Theorem C10_ellipse_image_sign : forall m00 m01 m10 m11, m00 * m11 - m01 * m10 <> 0 ->
    0 < ie_nrx m00 m01 m10 m11 /\ 0 < ie_nry m00 m01 m10 m11 /\
    ((ie_sgn m00 m01 m10 m11 = 1 /\ 0 < ie_dM m00 m01 m10 m11) \/
     (ie_sgn m00 m01 m10 m11 = -1 /\ ie_dM m00 m01 m10 m11 < 0)).
Proof.
  intros m00 m01 m10 m11 H.
  exact (conj (ie_nrx_pos m00 m01 m10 m11 H) (conj (ie_nry_pos m00 m01 m10 m11 H) (ie_sgn_cases m00 m01 m10 m11 H))).
Qed.

(* the constructor turns the end-point form of the arc c + R(phi).diag(rx,ry).u(a + t*delta)
   back into that parameterisation (flags from delta; outside the np.isclose snap) *)
Theorem C10_arc_init_roundtrip_partial : forall (c : Cplx R) rot rx ry a delta large sweep,
    0 < rx -> 0 < ry -> delta <> 0 -> -360 < delta < 360 ->
    (sweep = true <-> 0 < delta) ->
    (180 < Rabs delta -> large = true) -> (Rabs delta < 180 -> large = false) ->
    let cphi := cos (arc_phi NumTR rot) in let sphi := sin (arc_phi NumTR rot) in
    let st := ell c rx ry cphi sphi a in
    let en := ell c rx ry cphi sphi (a + delta * PI / 180) in
    snap_inactive st (rx, ry) en rot false ->
    forall t, arc_point NumR NumTR (arc_init NumR NumTR st (rx, ry) rot large sweep en) t
              = ell c rx ry cphi sphi (a + t * (delta * PI / 180)).
Proof. exact arc_init_roundtrip'. Qed.

(* transform(arc, tf) for every invertible tf (rotations, scales, reflections, shears, products):
   an Arc with the same large_arc flag, sweep flipped iff det < 0, and
       transform(arc, tf).point(t) = tf.(arc.point(t))   for every t.
   _partial: under snap_inactive of the ORIGINAL arc (the hypothesis of C04_point0_partial:
   inside the np.isclose snap the arc does not even start at its own start point) *)
Theorem C10_arc_transform_partial : forall start radius end_ rotation large sweep,
    start <> end_ -> fst radius <> 0 -> snd radius <> 0 ->
    snap_inactive start radius end_ rotation false ->
    forall a00 a01 a02 a10 a11 a12 r20 r21 r22,
    a00 * a11 - a01 * a10 <> 0 ->
    let M : Mat3 R := ((a00, a01, a02), (a10, a11, a12), (r20, r21, r22)) in
    let P := arc_init NumR NumTR start radius rotation large sweep end_ in
    mat_is_identity NumR M = false ->
    exists Q, arc_transform_fixed NumR NumTR M P = SArc Q /\
      a_large Q = large /\
      a_sweep Q = (if Rlt_b 0 (a00 * a11 - a01 * a10) then sweep else negb sweep) /\
      forall t, arc_point NumR NumTR Q t = tf_point NumR M (arc_point NumR NumTR P t).
Proof. exact arc_transform_fixed_commutes. Qed.
(* the identity short-cut and the singular case of the repaired branch *)
Theorem C10_arc_transform_identity : forall (M : Mat3 R) (P : ArcP R),
    mat_is_identity NumR M = true ->
    arc_transform_fixed NumR NumTR M P = SArc P /\ forall z, tf_point NumR M z = z.
Proof. exact arc_transform_fixed_identity. Qed.
Theorem C10_arc_transform_singular : forall a00 a01 a02 a10 a11 a12 r20 r21 r22 (P : ArcP R),
    let M : Mat3 R := ((a00, a01, a02), (a10, a11, a12), (r20, r21, r22)) in
    a00 * a11 - a01 * a10 = 0 ->
    arc_transform_fixed NumR NumTR M P = SBez [tf_point NumR M (a_start P); tf_point NumR M (a_end P)].
Proof. exact arc_transform_fixed_singular. Qed.
Local Close Scope R_scope.
Local Open Scope nat_scope.

(* transform() of an Arc, PINNED branch (variant flag tfx = false): the model as coded is wrong in exact arithmetic
   (120-bit evaluation, valid eigen-decomposition in every sign/order convention):
   sweep rule, rotation sign, arc's own rotation ignored *)
Theorem C10_arc_transform_refuted :
  forallb (fun fs => let '(flip, swap) := fs in
             match arc_tf_check (eig_sym flip swap) M_w1 P_quarter with
             | (true, true, true) => true | _ => false end)
          [(false, false); (false, true); (true, false); (true, true)] = true
  /\ (arc_tf_check (eig_sym false false) M_w2 P_quarter = (true, true, true)
      /\ arc_tf_agrees (eig_sym true false) M_w2 P_quarter = true)
  /\ forallb (fun fs => let '(flip, swap) := fs in
             match arc_tf_check (eig_sym flip swap) M_w3 P_rot45 with
             | (true, true, true) => true | _ => false end)
          [(false, false); (false, true); (true, false); (true, true)] = true.
Proof.
  exact (conj arc_transform_sweep_wrong
              (conj arc_transform_rotation_sign_lost arc_transform_ignores_rotation)).
Qed.

(* the repaired branch on the refutation witnesses (and on degenerate ones: a circle under a
   rotation, a reflection), 120-bit evaluation: agrees to 2^-50 *)
Theorem C10_arc_transform_fixed_on_witnesses :
  (arc_tf_fixed_agrees M_w1 P_quarter = true /\ arc_tf_fixed_agrees M_w2 P_quarter = true
   /\ arc_tf_fixed_agrees M_w3 P_rot45 = true)
  /\ (arc_tf_fixed_agrees (bmat (bq 3 5) (bq (-4) 5) (bq 4 5) (bq 3 5)) P_quarter = true
      /\ arc_tf_fixed_agrees (bmat (bz 1) (bz 0) (bz 0) (bz (-1))) P_rot45 = true).
Proof. exact (conj arc_transform_fixed_on_witnesses arc_transform_fixed_degenerate). Qed.

(* ================================================================== *)
(* exact joints: arbitrary segment and point types, no algebraic laws   *)
(* ================================================================== *)
Section C10_joints.
  Context {S P : Type}.
  Variables (s_start s_end : S -> P) (set_end : S -> P -> S) (peq : P -> P -> bool).
  Variable okS : S -> Prop.
  Hypothesis start_set_end : forall s p, okS s -> s_start (set_end s p) = s_start s.
  Hypothesis end_set_end : forall s p, s_end (set_end s p) = p.
  Variable closing_joint : bool.      (* false = Path.joints() as coded: n-1 pairs *)
  Variable d : S.
  Variables path new0 : list S.       (* the path, and [transformation(seg) for seg in path] *)
  Hypothesis Hlen : length new0 = length path.
  Hypothesis Hok : forall j, j < length path -> okS (nth j new0 d).
  Local Notation n := (length path).
  Local Notation res := (sync s_start s_end set_end peq closing_joint path new0).
  Local Notation joined j :=
    (peq (s_end (nth j path d)) (s_start (nth (Datatypes.S j mod n) path d))).

  (* every enumerated joint that coincided before coincides (identically) after *)
  Theorem C10_joints_synced : forall i, i < njoints closing_joint n -> joined i = true ->
      s_end (nth i res d) = s_start (nth (Datatypes.S i mod n) res d).
  Proof.
    exact (joints_synced s_start s_end set_end peq okS start_set_end end_set_end
                         closing_joint d path new0 Hlen Hok).
  Qed.
  (* as coded: all joints i < n-1, between segment i and segment i+1 *)
  Corollary C10_joints_synced_as_coded : forall i, closing_joint = false -> Datatypes.S i < n ->
      peq (s_end (nth i path d)) (s_start (nth (Datatypes.S i) path d)) = true ->
      s_end (nth i res d) = s_start (nth (Datatypes.S i) res d).
  Proof.
    exact (joints_synced_as_coded s_start s_end set_end peq okS start_set_end end_set_end
                                  closing_joint d path new0 Hlen Hok).
  Qed.

  (* the operation acts segment-wise: the result is exactly the list of transformed
     segments, except that the end of a segment left of a coinciding enumerated
     joint is overwritten by the next transformed start *)
  Theorem C10_segmentwise : length res = n /\ forall j,
      nth j res d =
      if (j <? njoints closing_joint n) && joined j
      then set_end (nth j new0 d) (s_start (nth (Datatypes.S j mod n) new0 d))
      else nth j new0 d.
  Proof.
    split.
    - exact (sync_length s_start s_end set_end peq okS start_set_end closing_joint d path new0 Hlen Hok).
    - exact (sync_nth s_start s_end set_end peq okS start_set_end closing_joint d path new0 Hlen Hok).
  Qed.

  (* closed paths.  As coded the closing joint is NOT synced; the path stays closed
     when new start and new end are ONE function g of the old start / end *)
  Theorem C10_closed_preserved_local : forall g, path <> [] -> closing_joint = false ->
      (forall j, j < n -> s_start (nth j new0 d) = g (s_start (nth j path d))
                       /\ s_end (nth j new0 d) = g (s_end (nth j path d))) ->
      s_end (nth (n - 1) path d) = s_start (nth 0 path d) ->
      s_end (nth (n - 1) res d) = s_start (nth 0 res d).
  Proof.
    intros g Hne Hcj Hg Hc.
    exact (closed_preserved_local s_start s_end set_end peq okS start_set_end closing_joint d
                                  path new0 Hlen Hne Hok g Hcj Hg Hc).
  Qed.
  (* with the closing pair in joints(): closed stays closed for EVERY kernel *)
  Theorem C10_closed_with_closing_joint : path <> [] -> closing_joint = true ->
      peq (s_end (nth (n - 1) path d)) (s_start (nth 0 path d)) = true ->
      s_end (nth (n - 1) res d) = s_start (nth 0 res d).
  Proof.
    intros Hne Hcj Hc.
    exact (closed_with_closing_joint s_start s_end set_end peq okS start_set_end end_set_end
                                     closing_joint d path new0 Hlen Hne Hok Hcj Hc).
  Qed.
End C10_joints.

(* at the segments of the model, for ANY carrier (no laws): translate, rotate and
   transform are endpoint-local, so Path.translated / rotated / transform keep a
   closed path closed although joints() omits the closing joint *)
Section C10_paths.
  Context {K : Type} (N : Num K) (T : NumT K).
  Variables path res : list (Seg K).
  Hypothesis Hpath : forall j, j < length path -> okSeg (nth j path (SBez [])).
  Hypothesis Hne : path <> [].
  Local Notation n := (length path).
  Local Notation dS := (SBez (K:=K) []).
  Local Notation closed p := (seg_end N (nth (n - 1) p dS) = seg_start N (nth 0 p dS)).

  Theorem C10_translated_closed : forall z0,
      path_translate N T false z0 path = XOk res -> closed path -> closed res.
  Proof.
    intros z0 H.
    exact (path_closed_preserved N false (seg_translate N T z0) path res Hpath Hne H _
                                 (translate_local N T z0) eq_refl).
  Qed.
  Theorem C10_rotated_closed : forall degs cs origin,
      path_rotate N T false degs cs origin path = XOk res -> closed path -> closed res.
  Proof.
    intros degs cs origin H.
    exact (path_closed_preserved N false (seg_rotate N T degs cs (Some origin)) path res Hpath Hne H _
                                 (rotate_local N T degs cs origin) eq_refl).
  Qed.
  Theorem C10_transform_closed : forall tfx eig (M : Mat3 K),
      path_transform N T false tfx eig M path = XOk res -> closed path -> closed res.
  Proof.
    intros tfx eig M H. unfold path_transform in H.
    destruct (mat_is_identity N M) eqn:Hid.
    - injection H as <-. exact (fun c => c).
    - exact (path_closed_preserved N false (seg_transform N T tfx eig M) path res Hpath Hne H _
                                   (transform_local N T tfx eig M Hid) eq_refl).
  Qed.
End C10_paths.

(* scaled(): refuted in binary64 — the triangle
   Path(Line(0.1,1.3), Line(1.3,0.7+1j), Line(0.7+1j,0.1)).scaled(1.7)
   is closed before and not after (end 0.16999999999999993, start 0.17);
   with the closing pair in joints() it stays closed *)
Theorem C10_scaled_closed_refuted : forall T : NumT float,
    path_closed NumF tri = true
    /\ closed_after NumF (path_scale NumF T false f1_7 None fzero tri) = Some false
    /\ last_end_first_start NumF (path_scale NumF T false f1_7 None fzero tri)
       = Some ((0x1.5c28f5c28f5c0p-3%float, 0%float), (0x1.5c28f5c28f5c3p-3%float, 0%float))
    /\ closed_after NumF (path_scale NumF T true f1_7 None fzero tri) = Some true.
Proof.
  intros T.
  exact (conj tri_closed (conj (tri_scaled_unclosed T)
          (conj (tri_scaled_values T) (tri_scaled_closed_with_closing_joint T)))).
Qed.

(* ================================================================== *)
(* instances and non-vacuity                                            *)
(* ================================================================== *)
Definition C10_translate_at_R := C10_translate NumR NumR_ok.
Definition C10_scale_at_Q := C10_scale NumQ NumQ_ok.

(* a cubic, translated by 5-3i, evaluated at 1/4 in exact rationals: both sides computed *)
Example C10_nonvacuous_translate :
  let p := [(qc 0 1, qc 0 1); (qc 1 1, qc 2 1); (qc 3 1, qc 3 1); (qc 4 1, qc 0 1)] in
  let z0 := (qc 5 1, qc (-3) 1) in
  bez_point NumQ (bez_translate NumQ z0 p) (qc 1 4) = cadd NumQ (bez_point NumQ p (qc 1 4)) z0
  /\ bez_point NumQ p (qc 1 4) <> bez_point NumQ (bez_translate NumQ z0 p) (qc 1 4).
Proof. split; [vm_compute; reflexivity|vm_compute; discriminate]. Qed.
(* non-uniform scale (2, -1/2) about 1+i of a quadratic goes through poly2bez and succeeds *)
Example C10_nonvacuous_scale :
  match scale_bezier NumQ (qc 2 1) (Some (qc (-1) 2)) (qc 1 1, qc 1 1)
                     [(qc 0 1, qc 0 1); (qc 1 1, qc 2 1); (qc 3 1, qc 3 1)] with
  | XOk q => map (fun z => (this (fst z), this (snd z))) q
  | _ => []
  end = [(-1 # 1, 3 # 2); (1 # 1, 1 # 2); (5 # 1, 0 # 1)]%Q.
Proof. vm_compute. reflexivity. Qed.
(* the joints hypotheses are satisfiable: the model's segments *)
Example C10_nonvacuous_joints :
  path_closed NumF tri = true /\ length (joints false tri) = 2%nat /\ length (joints true tri) = 3%nat.
Proof. repeat split; vm_compute; reflexivity. Qed.

(* the hypotheses of C10_arc_transform_partial are satisfiable: the upper unit half circle
   Arc(1, 1+1j, 0, 0, 1, -1) under tf = [[1,2,3],[1,1,-1],[0,0,1]] (det = -1 < 0, tf00*tf11 > 0:
   the matrix of the refutation witness W1) — the image is an Arc, large_arc kept, sweep FLIPPED *)
Example C10_nonvacuous_arc_transform :
  exists Q, arc_transform_fixed NumR NumTR ((1, 2, 3), (1, 1, -1), (0, 0, 1))%R
                                (arc_init NumR NumTR Wstart Wrad 0%R false true Wend) = SArc Q
            /\ a_large Q = false /\ a_sweep Q = false.
Proof. exact arc_transform_fixed_nonvacuous. Qed.

Print Assumptions C10_bern_affine_all.
Print Assumptions C10_translate.
Print Assumptions C10_translate_all_degrees.
Print Assumptions C10_rotate.
Print Assumptions C10_rotate_all_degrees.
Print Assumptions C10_rotate_is_rotation.
Print Assumptions C10_scale_control_points.
Print Assumptions C10_scale.
Print Assumptions C10_transform_affine.
Print Assumptions C10_transform_affine_all_degrees.
Print Assumptions C10_identity_shortcut.
Print Assumptions C10_seg_translate.
Print Assumptions C10_seg_rotate.
Print Assumptions C10_seg_scale.
Print Assumptions C10_seg_transform.
Print Assumptions C10_arc_translate_any_field.
Print Assumptions C10_arc_rotate_any_field.
Print Assumptions C10_arc_translate.
Print Assumptions C10_arc_rotate.
Print Assumptions C10_arc_uniform_scale.
Print Assumptions C10_arc_nonuniform_refused.
Print Assumptions C10_arc_transform_refuted.
Print Assumptions C10_ellipse_image.
Print Assumptions C10_ellipse_image_sign.
Print Assumptions C10_arc_init_roundtrip_partial.
Print Assumptions C10_arc_transform_partial.
Print Assumptions C10_arc_transform_identity.
Print Assumptions C10_arc_transform_singular.
Print Assumptions C10_arc_transform_fixed_on_witnesses.
Print Assumptions C10_joints_synced.
Print Assumptions C10_joints_synced_as_coded.
Print Assumptions C10_segmentwise.
Print Assumptions C10_closed_preserved_local.
Print Assumptions C10_closed_with_closing_joint.
Print Assumptions C10_translated_closed.
Print Assumptions C10_rotated_closed.
Print Assumptions C10_transform_closed.
Print Assumptions C10_scaled_closed_refuted.
Print Assumptions C10_translate_at_R.
Print Assumptions C10_scale_at_Q.
