(* Props/C16.v — property C16: observations after any mutation history equal
   those of a freshly built object.  Only statements, `exact`/`eapply`, Print
   Assumptions and non-vacuity Examples.

   The model (Model/PathCache.v) mirrors svgpathtools/path.py, with one boolean
   of [fx : fixes] per repaired behaviour (fx_pinned = the pinned code; the
   harness probes the implementation and instantiates the flags).
   * For fx_pinned the model VIOLATES the property in the ways listed under
     "_refuted" (closed witnesses).
   * The "_partial" theorems hold for EVERY setting of the flags and every
     history, of any length, that avoids exactly the operations whose defect is
     not repaired ([safe_op]/[safe_hist], boolean, evaluated along the history
     and depending on the flags; [avoids] is a syntactic sufficient condition),
     under ONE tolerance t0.
   * The "_repaired" theorems are the FULL statements for the repaired
     variants: no exclusion of the setters, of slice assignment, of mixed
     tolerances.  What they still assume is exactly what was left unrepaired:
     inserted segments are fresh objects, a setter is not applied to an empty
     path, and (for mixed tolerances through a CubicBezier) that reusing a cached
     length is value-preserving — which the repaired `<=` test is not bit for
     bit (finding cubic-cache-deeper-min-depth-reused). *)
From Coq Require Import ZArith QArith Qcanon List Bool.
From SVP Require Import Base.Num Model.PathCache Model.PathCacheExec
     Proofs.PathCache Proofs.PathCacheSeg Proofs.PathCacheRefute.
Import ListNotations.

Section C16.
  Context {pt pay tol V : Type}.
  Variable fx : fixes.
  Variable pt_eqb : pt -> pt -> bool.
  Variable pt_falsy : pt -> bool.
  Variable pay_eqb : pay -> pay -> bool.
  Variable tol_reuse : tol -> tol -> bool.
  Variable tol_eqb : tol -> tol -> bool.
  Variable t_def : tol.
  Variable len_of : @sdata pt pay -> tol -> V.         (* uninterpreted segment length *)
  Variables vzero vone : V.
  Variables vadd vsub vdiv : V -> V -> V.
  Variables v_eqb v_geb : V -> V -> bool.
  Hypothesis pt_eqb_eq : forall a b, pt_eqb a b = true -> a = b.
  Hypothesis pay_eqb_eq : forall a b, pay_eqb a b = true -> a = b.
  Hypothesis tol_eqb_eq : forall a b, tol_eqb a b = true -> a = b.

  Notation seg := (@seg pt pay tol V).
  Notation state := (@state pt pay tol V).
  Notation step := (step fx pt_eqb pay_eqb).
  Notation obs := (obs fx pt_eqb pt_falsy pay_eqb tol_reuse tol_eqb t_def len_of vzero vone vadd vsub vdiv v_eqb v_geb).
  Notation run := (run fx pt_eqb pt_falsy pay_eqb tol_reuse tol_eqb t_def len_of vzero vone vadd vsub vdiv v_eqb v_geb).
  Notation seg_length := (seg_length fx pt_eqb pay_eqb tol_reuse tol_eqb len_of).

  (* ================= one tolerance t0, any flags ================= *)
  Section OneTolerance.
    Variable t0 : tol.
    Notation Tb := (Tb_one tol_eqb t0).
    Notation Inv := (Inv fx len_of vzero vadd vdiv v_eqb Tb).
    Notation safe_op := (safe_op fx).
    Notation safe_q := (safe_q t_def Tb).
    Notation safe_hist := (safe_hist fx pt_eqb pt_falsy pay_eqb tol_reuse tol_eqb t_def len_of vzero vone vadd vsub vdiv v_eqb v_geb Tb).
    Notation avoids := (avoids fx t_def Tb).
    Let HR := reuse_ok_one tol_eqb tol_eqb_eq t0 tol_reuse len_of.
    Let HS := single_one tol_eqb tol_eqb_eq t0.

    (* Path of segments that carry no cache satisfies the invariant *)
    Theorem C16_inv_init : forall (l : list seg), forallb no_cache l = true -> Inv (fresh l).
    Proof. intros l H. apply inv_fresh. eapply forallb_no_cache; eassumption. Qed.

    (* every operation that does not trigger an UNREPAIRED defect keeps it *)
    Theorem C16_inv_step_partial : forall (s : state) o,
        Inv s -> safe_op s o = true -> Inv (fst (step s o)).
    Proof. intros; eapply inv_step; eauto. Qed.

    (* queries (they fill caches) keep it too *)
    Theorem C16_inv_obs_partial : forall (s : state) q,
        Inv s -> safe_q q = true -> Inv (fst (obs s q)) /\ sds (fst (obs s q)) = sds s.
    Proof. intros; eapply inv_obs; eauto. Qed.

    (* under the invariant every query is answered as by a new Path of fresh
       segments with the current control data, and as by a new Path of the same
       segment objects *)
    Theorem C16_fresh_equiv_partial : forall (s : state) q,
        Inv s -> safe_q q = true ->
        snd (obs s q) = snd (obs (fresh_of s) q) /\ snd (obs s q) = snd (obs (fresh_same s) q).
    Proof. intros s q H S. split; [eapply fresh_equiv|eapply fresh_same_equiv]; eauto. Qed.

    (* histories of any length *)
    Theorem C16_reachable_partial : forall evs (s : state),
        Inv s -> safe_hist s evs = true -> Inv (run s evs).
    Proof. intros; eapply reachable; eauto. Qed.
    Theorem C16_history_partial : forall (l : list seg) evs q,
        forallb no_cache l = true -> safe_hist (fresh l) evs = true -> safe_q q = true ->
        snd (obs (run (fresh l) evs) q) = snd (obs (fresh_of (run (fresh l) evs)) q).
    Proof. intros; eapply history_fresh_equiv; eauto. Qed.
    (* the same under the syntactic condition: no start/end setter, no
       `path[a:b] = []` (unless repaired), inserted segments fresh *)
    Theorem C16_history_syntactic_partial : forall (l : list seg) evs q,
        forallb no_cache l = true -> forallb avoids evs = true -> safe_q q = true ->
        snd (obs (run (fresh l) evs) q) = snd (obs (fresh_of (run (fresh l) evs)) q).
    Proof. intros; eapply history_fresh_equiv_syntactic; eauto. Qed.

    (* FULL for the repaired setters: allowed whatever is cached *)
    Theorem C16_setter_step_repaired : fx_setter fx = true ->
        forall (s : state) z, Inv s -> segs s <> [] ->
        Inv (fst (step s (SetStart z))) /\ Inv (fst (step s (SetEnd z))).
    Proof. intros; eapply inv_setter_repaired; eauto. Qed.
    (* FULL for the repaired slice assignment: any slice, any list, also emptying the path *)
    Theorem C16_setslice_step_repaired : fx_slice fx = true ->
        forall (s : state) a b gs, Inv s -> forallb no_cache gs = true -> Inv (fst (step s (SetSlice a b gs))).
    Proof. intros; eapply inv_setslice_repaired; eauto. Qed.
    (* segments: control points reassigned in any way, then length at the tolerance *)
    Theorem C16_segment_fresh_partial : forall (g : seg) f t,
        SegOK len_of Tb g -> Tb t = true ->
        snd (seg_length (reassign f g) t) = snd (seg_length (fresh_seg (f (sd g))) t).
    Proof.
      intros g f t H Tt.
      exact (segment_fresh fx pt_eqb pay_eqb tol_reuse tol_eqb len_of pt_eqb_eq pay_eqb_eq tol_eqb_eq Tb HR
                           (or_intror HS) t (reassign f g) H Tt).
    Qed.
  End OneTolerance.

  (* ===== repaired setters, slice assignment, _calc_lengths, arc cache: FULL ===== *)
  Section Repaired.
    Hypothesis F_setter : fx_setter fx = true.
    Hypothesis F_slice : fx_slice fx = true.
    Hypothesis F_calc : fx_calc fx = true.
    Hypothesis F_arc : fx_arc fx = true.
    (* reusing a cached cubic length does not change the value: true of an exact
       test; the repaired `<=` test returns a more accurate value instead *)
    Hypothesis reuse_sound : forall c t d, tol_reuse c t = true -> len_of d c = len_of d t.
    Notation Tb := (@Tb_any tol).
    Notation Inv := (Inv fx len_of vzero vadd vdiv v_eqb Tb).
    Notation safe_hist_repaired := (safe_hist_repaired fx pt_eqb pt_falsy pay_eqb tol_reuse tol_eqb t_def len_of vzero vone vadd vsub vdiv v_eqb v_geb Tb).
    Let HR : forall c t d, Tb c = true -> Tb t = true -> tol_reuse c t = true -> len_of d c = len_of d t :=
      fun c t d _ _ => reuse_sound c t d.

    Theorem C16_inv_step_repaired : forall (s : state) o,
        Inv s -> safe_op_repaired s o = true -> Inv (fst (step s o)).
    Proof. intros; eapply inv_step; eauto. eapply safe_op_repaired_safe; eauto. Qed.
    (* every query, with any tolerance *)
    Theorem C16_inv_obs_repaired : forall (s : state) q,
        Inv s -> Inv (fst (obs s q)) /\ sds (fst (obs s q)) = sds s.
    Proof. intros s q H; eapply inv_obs; eauto. destruct q; reflexivity. Qed.
    Theorem C16_fresh_equiv_repaired : forall (s : state) q,
        Inv s -> snd (obs s q) = snd (obs (fresh_of s) q) /\ snd (obs s q) = snd (obs (fresh_same s) q).
    Proof.
      intros s q H. assert (S : safe_q t_def Tb q = true) by (destruct q; reflexivity).
      split; [eapply fresh_equiv|eapply fresh_same_equiv]; eauto.
    Qed.
    (* histories of any length with setters, slice assignments and any mix of
       tolerances; only restrictions: inserted segments are fresh objects and a
       setter is not applied to an empty path (not repaired) *)
    Theorem C16_history_repaired : forall (l : list seg) evs q,
        forallb no_cache l = true -> safe_hist_repaired (fresh l) evs = true ->
        snd (obs (run (fresh l) evs) q) = snd (obs (fresh_of (run (fresh l) evs)) q).
    Proof.
      intros l evs q A B. assert (S : safe_q t_def Tb q = true) by (destruct q; reflexivity).
      eapply history_fresh_equiv_repaired; eauto.
    Qed.
  End Repaired.

  (* start / end / len / == / hash / d / bbox need less: they stay
     fresh-equivalent through the setters (repaired or not), through mixed
     tolerances and through cached segments; only (unrepaired) `path[a:b] = []`
     emptying the path and a setter on an empty path are excluded *)
  Notation InvEnds := (InvEnds fx).
  Notation safe_hist_ends := (safe_hist_ends fx pt_eqb pt_falsy pay_eqb tol_reuse tol_eqb t_def len_of vzero vone vadd vsub vdiv v_eqb v_geb).
  Theorem C16_ends_reachable_partial : forall evs (s : state),
      InvEnds s -> safe_hist_ends s evs = true -> InvEnds (run s evs).
  Proof. intros; eapply ends_reachable; eassumption. Qed.
  Theorem C16_ends_fresh_equiv_partial : forall (s : state) q,
      InvEnds s -> ends_q q = true -> snd (obs s q) = snd (obs (fresh_of s) q).
  Proof. intros; eapply ends_fresh_equiv; eassumption. Qed.
  (* repaired __hash__: a parsed (closed) path hashes like the constructed one *)
  Theorem C16_hash_repaired : fx_hash fx = true ->
      forall (l : list seg) c, snd (obs (fresh_closed l c) QHash) = snd (obs (fresh l) QHash).
  Proof. intros; eapply hash_repaired; eassumption. Qed.

  (* segments *)
  Theorem C16_line_quad_fresh : forall (g : seg) t, skind (sd g) = KLine \/ skind (sd g) = KQuad ->
      seg_length g t = (g, len_of (sd g) t).
  Proof. intros; eapply line_quad_fresh; eassumption. Qed.
  Theorem C16_cubic_fresh_partial :
      (forall c t d, tol_reuse c t = true -> len_of d c = len_of d t) ->
      forall f (g : seg) t, SegOwn len_of g -> skind (f (sd g)) = KCubic ->
      snd (seg_length (reassign f g) t) = snd (seg_length (fresh_seg (f (sd g))) t).
  Proof. intros; eapply cubic_fresh_if_reuse_sound; eassumption. Qed.
  (* FULL for the repaired arc cache: any tolerances, any reassignment *)
  Theorem C16_arc_fresh_repaired : fx_arc fx = true ->
      forall f (g : seg) t, SegOwn len_of g -> skind (f (sd g)) = KArc ->
      snd (seg_length (reassign f g) t) = snd (seg_length (fresh_seg (f (sd g))) t).
  Proof. intros; eapply arc_fresh_repaired; eassumption. Qed.
  Theorem C16_reversed_coherent_partial : forall rev_data v_truthy,
      (forall d t, len_of (rev_data d) t = len_of d t) ->
      forall g : seg, SegOwn len_of g -> (forall c, scache g = Some c -> ckey c = sd g) ->
      SegOwn len_of (fst (seg_reversed fx pt_eqb pay_eqb rev_data v_truthy g))
      /\ SegOwn len_of (snd (seg_reversed fx pt_eqb pay_eqb rev_data v_truthy g)).
  Proof. intros; eapply reversed_coherent_partial; eassumption. Qed.
  (* repaired reversed(): no condition on the cache; the original is untouched *)
  Theorem C16_reversed_coherent_repaired : fx_rev fx = true -> forall rev_data v_truthy,
      (forall d t, len_of (rev_data d) t = len_of d t) ->
      forall g : seg, SegOwn len_of g ->
      fst (seg_reversed fx pt_eqb pay_eqb rev_data v_truthy g) = g
      /\ SegOwn len_of (snd (seg_reversed fx pt_eqb pay_eqb rev_data v_truthy g)).
  Proof. intros; eapply reversed_coherent_repaired; eassumption. Qed.
End C16.

(* equal => equal hash, for the four segment classes (every hashed field is
   compared); for Path only when _closed agrees *)
Theorem C16_eq_hash_line : forall {F H} feq (fhash : F -> H) thash,
    (forall a b, feq a b = true -> fhash a = fhash b) ->
    forall a b, line_eq feq a b = true -> line_hash fhash thash a = line_hash fhash thash b.
Proof. intros; eapply line_eq_hash; eassumption. Qed.
Theorem C16_eq_hash_quad : forall {F H} feq (fhash : F -> H) thash,
    (forall a b, feq a b = true -> fhash a = fhash b) ->
    forall a b, quad_eq feq a b = true -> quad_hash fhash thash a = quad_hash fhash thash b.
Proof. intros; eapply quad_eq_hash; eassumption. Qed.
Theorem C16_eq_hash_cubic : forall {F H} feq (fhash : F -> H) thash,
    (forall a b, feq a b = true -> fhash a = fhash b) ->
    forall a b, cubic_eq feq a b = true -> cubic_hash fhash thash a = cubic_hash fhash thash b.
Proof. intros; eapply cubic_eq_hash; eassumption. Qed.
Theorem C16_eq_hash_arc : forall {F H} feq (fhash : F -> H) thash,
    (forall a b, feq a b = true -> fhash a = fhash b) ->
    forall a b, arc_eq feq a b = true -> arc_hash fhash thash a = arc_hash fhash thash b.
Proof. intros; eapply arc_eq_hash; eassumption. Qed.
Theorem C16_eq_hash_path_partial : forall {H S} (thash : list H -> H) seg_eq (seg_hash : S -> H) bhash,
    (forall a b, seg_eq a b = true -> seg_hash a = seg_hash b) ->
    forall a b, path_eq seg_eq a b = true -> p_closed a = p_closed b ->
                path_hash thash seg_hash bhash a = path_hash thash seg_hash bhash b.
Proof. intros; eapply path_eq_hash_partial; eassumption. Qed.
Theorem C16_eq_hash_path_refuted :
  exists a b : @pathr (@line Z), path_eq (line_eq Z.eqb) a b = true
                   /\ path_hash zt (line_hash (fun z => z) zt) zb a <> path_hash zt (line_hash (fun z => z) zt) zb b.
Proof. exact path_eq_hash_refuted. Qed.

Theorem C16_eq_hash_path_repaired : forall {H S} (thash : list H -> H) seg_eq (seg_hash : S -> H) bhash,
    (forall a b, seg_eq a b = true -> seg_hash a = seg_hash b) ->
    forall a b, path_eq seg_eq a b = true ->
                path_hash_repaired thash seg_hash bhash a = path_hash_repaired thash seg_hash bhash b.
Proof. intros; eapply path_eq_hash_repaired; eassumption. Qed.

(* ---- refutations: the faithful model of the PINNED code (fx_pinned), closed
   witnesses; and, for each repaired defect, the same history under the repair flag *)
Import Sym.
Theorem C16_start_setter_refuted :
  differs_same fx_pinned [L1; C1] [EQ (QLength t_default); EOp (SetStart z9)] (QLength t_default).
Proof. exact start_setter_stale_length. Qed.
Theorem C16_end_setter_refuted :
  differs_same fx_pinned [L1; C1] [EQ (QLength t_default); EOp (SetEnd z9)] (QLength t_default).
Proof. exact end_setter_stale_length. Qed.
Example C16_setters_repaired_witness :
  agrees fx_s [L1; C1] [EQ (QLength t_default); EOp (SetStart z9)] (QLength t_default)
  /\ agrees fx_s [L1; C1] [EQ (QLength t_default); EOp (SetEnd z9)] (QLength t_default).
Proof. exact setters_repaired. Qed.
Theorem C16_calc_lengths_tolerance_refuted :
  differs fx_pinned [L1; C1] [EQ (QLength loose)] (QLength t_default)
  /\ differs_same fx_pinned [L1; C1] [EQ (QLength t_default)] (QLength loose).
Proof. exact (conj calc_lengths_ignores_tolerance calc_lengths_ignores_tolerance_tight_first). Qed.
Example C16_calc_lengths_repaired_witness :
  agrees_same fx_c [L1; C1] [EQ (QLength t_default)] (QLength loose)
  /\ agrees fx_c [L1; Q1] [EQ (QLength loose)] (QLength t_default).
Proof. exact calc_lengths_repaired. Qed.
Theorem C16_cubic_error_test_refuted :
  snd (seg_length fx_pinned (fst (seg_length fx_pinned C1 loose)) t_default) = SLen (sd C1) loose
  /\ differs fx_pinned [C1] [EQ (QLength loose); EOp (Append L1)] (QLength t_default).
Proof. exact (conj cubic_cache_error_test_inverted_seg cubic_cache_error_test_inverted). Qed.
Example C16_cubic_repaired_witness :
  snd (seg_length fx_q (fst (seg_length fx_q C1 loose)) t_default) = SLen (sd C1) t_default
  /\ agrees fx_q [C1] [EQ (QLength loose); EOp (Append L1)] (QLength t_default).
Proof. exact cubic_repaired. Qed.
(* not repaired: a value computed with stricter arguments is reused (pinned: deeper
   min_depth; repaired test: also a tighter error) *)
Theorem C16_cubic_min_depth_refuted :
  snd (seg_length fx_pinned (fst (seg_length fx_pinned C1 deep)) t_default) = SLen (sd C1) deep
  /\ snd (seg_length fx_q (fst (seg_length fx_q C1 deep)) t_default) = SLen (sd C1) deep
  /\ snd (seg_length fx_q (fst (seg_length fx_q C1 t_default)) loose) = SLen (sd C1) t_default.
Proof. exact (conj cubic_cache_deeper_min_depth_reused cubic_repaired_reuses_stricter). Qed.
Theorem C16_arc_tolerance_refuted :
  (snd (seg_length fx_pinned (fst (seg_length fx_pinned A1 loose)) t_default) = SLen (sd A1) loose
   /\ snd (seg_length fx_pinned (fst (seg_length fx_pinned A1 t_default)) loose) = SLen (sd A1) t_default)
  /\ differs fx_pinned [A1] [EQ (QLength loose); EOp (Append L1)] (QLength t_default).
Proof. exact (conj arc_cache_ignores_tolerance_seg arc_cache_ignores_tolerance). Qed.
Example C16_arc_repaired_witness :
  (snd (seg_length fx_a (fst (seg_length fx_a A1 loose)) t_default) = SLen (sd A1) t_default
   /\ snd (seg_length fx_a (fst (seg_length fx_a A1 t_default)) loose) = SLen (sd A1) loose)
  /\ agrees fx_a [A1] [EQ (QLength loose); EOp (Append L1)] (QLength t_default).
Proof. exact arc_repaired. Qed.
Theorem C16_slice_assign_empty_refuted :
  snd (step fx_pinned (fresh [L1; C1]) (SetSlice None None [])) = RErr IndexError
  /\ segs (fst (step fx_pinned (fresh [L1; C1]) (SetSlice None None []))) = []
  /\ differs fx_pinned [L1; C1] [EOp (SetSlice None None [])] QEnd.
Proof. exact slice_assign_empty_raises. Qed.
Example C16_slice_assign_repaired_witness :
  snd (step fx_l (fresh [L1; C1]) (SetSlice None None [])) = ROk
  /\ agrees fx_l [L1; C1] [EOp (SetSlice None None [])] QEnd.
Proof. exact slice_assign_repaired. Qed.
(* not repaired: holds for every variant *)
Theorem C16_setter_on_empty_refuted :
  differs fx_pinned [] [EOp (SetStart z9)] QStart /\ differs fx_all [] [EOp (SetStart z9)] QStart.
Proof. exact setter_on_empty_path. Qed.
Theorem C16_path_eq_hash_refuted :
  let a := fresh [L1; L2] in
  let b := fresh_closed [L1; L2] true in
  ask fx_pinned a (QEq (sds b)) = VBool true /\ ask fx_pinned a QHash <> ask fx_pinned b QHash.
Proof. exact path_eq_hash_closed. Qed.
Example C16_path_eq_hash_repaired_witness :
  ask fx_h (fresh [L1; L2]) QHash = ask fx_h (fresh_closed [L1; L2] true) QHash.
Proof. exact path_eq_hash_repaired_witness. Qed.
(* not repaired (ulp-level): the reversed copy answers with the original's value *)
Theorem C16_reversed_copy_refuted :
  let g := fst (seg_length fx_pinned C1 t_default) in
  snd (seg_length fx_pinned (snd (reversed fx_pinned g)) t_default) = SLen (sd C1) t_default
  /\ snd (seg_length fx_pinned (clear_cache (snd (reversed fx_pinned g))) t_default) = SLen (rev_data (sd C1)) t_default.
Proof. exact reversed_copy_inherits_cache. Qed.
Theorem C16_reversed_stale_refuted :
  let g := with_start (fst (seg_length fx_pinned C1 t_default)) z9 in
  snd (seg_length fx_pinned (snd (reversed fx_pinned g)) t_default) = SLen (sd C1) t_default
  /\ snd (seg_length fx_pinned (clear_cache (snd (reversed fx_pinned g))) t_default) = SLen (rev_data (sd g)) t_default
  /\ sd g <> sd C1.
Proof. exact reversed_rekeys_stale_length. Qed.
Example C16_reversed_repaired_witness :
  let g := with_start (fst (seg_length fx_r C1 t_default)) z9 in
  snd (seg_length fx_r (snd (reversed fx_r g)) t_default) = SLen (rev_data (sd g)) t_default
  /\ fst (reversed fx_r g) = g.
Proof. exact reversed_repaired. Qed.

(* ---- non-vacuity: the positive theorems apply to histories that use every
   kind of operation *)
Example C16_demo_applies :
  forall q, safe_q t_default (Tb_one tol_eqb t_default) q = true ->
  ask fx_pinned (run fx_pinned (fresh [L1; C1]) demo) q
  = ask fx_pinned (fresh_of (run fx_pinned (fresh [L1; C1]) demo)) q.
Proof.
  intros q Hq. unfold ask, run, obs. eapply C16_history_partial;
    [exact P_eqb_eq|exact Pay_eqb_eq|exact tol_eqb_eq|reflexivity|exact demo_safe|exact Hq].
Qed.
Example C16_demo_nontrivial :
  length (segs (run fx_pinned (fresh [L1; C1]) demo)) = 1%nat
  /\ ask fx_pinned (run fx_pinned (fresh [L1; C1]) demo) (QLength t_default)
     = ask fx_pinned (fresh_of (run fx_pinned (fresh [L1; C1]) demo)) (QLength t_default).
Proof. exact demo_trace_nontrivial. Qed.
(* all repairs on, exact cubic reuse test: setters while the length is cached,
   `path[:] = []`, three tolerances, a cubic and an arc in the path — every query agrees *)
Example C16_demo_repaired_applies :
  forall q,
  snd (PathCache.obs fx_all P_eqb P_falsy Pay_eqb tol_eqb tol_eqb t_default SLen SZero SOne SAdd SSub SDiv sym_eqb sym_geb
         (PathCache.run fx_all P_eqb P_falsy Pay_eqb tol_eqb tol_eqb t_default SLen SZero SOne SAdd SSub SDiv sym_eqb sym_geb
            (fresh [L1; C1]) demo_all_c) q)
  = snd (PathCache.obs fx_all P_eqb P_falsy Pay_eqb tol_eqb tol_eqb t_default SLen SZero SOne SAdd SSub SDiv sym_eqb sym_geb
         (fresh_of (PathCache.run fx_all P_eqb P_falsy Pay_eqb tol_eqb tol_eqb t_default SLen SZero SOne SAdd SSub SDiv sym_eqb sym_geb
            (fresh [L1; C1]) demo_all_c)) q).
Proof.
  intros q. eapply C16_history_repaired;
    [exact P_eqb_eq|exact Pay_eqb_eq|exact tol_eqb_eq|reflexivity|reflexivity|reflexivity|reflexivity
    |intros c t d E; apply tol_eqb_eq in E; rewrite E; reflexivity|reflexivity|exact demo_all_c_safe].
Qed.
Example C16_reverse_is_rev :
  map sd (segs (fst (step fx_pinned (fresh [L1; C1; A1; Q1; L2]) Reverse))) = rev (map sd [L1; C1; A1; Q1; L2])
  /\ map sd (segs (fst (step fx_pinned (fresh [L1; C1; A1; Q1]) Reverse))) = rev (map sd [L1; C1; A1; Q1]).
Proof. exact reverse_is_rev. Qed.

Print Assumptions C16_inv_init.
Print Assumptions C16_inv_step_partial.
Print Assumptions C16_inv_obs_partial.
Print Assumptions C16_fresh_equiv_partial.
Print Assumptions C16_reachable_partial.
Print Assumptions C16_history_partial.
Print Assumptions C16_history_syntactic_partial.
Print Assumptions C16_setter_step_repaired.
Print Assumptions C16_setslice_step_repaired.
Print Assumptions C16_segment_fresh_partial.
Print Assumptions C16_inv_step_repaired.
Print Assumptions C16_inv_obs_repaired.
Print Assumptions C16_fresh_equiv_repaired.
Print Assumptions C16_history_repaired.
Print Assumptions C16_ends_reachable_partial.
Print Assumptions C16_ends_fresh_equiv_partial.
Print Assumptions C16_hash_repaired.
Print Assumptions C16_line_quad_fresh.
Print Assumptions C16_cubic_fresh_partial.
Print Assumptions C16_arc_fresh_repaired.
Print Assumptions C16_reversed_coherent_partial.
Print Assumptions C16_reversed_coherent_repaired.
Print Assumptions C16_eq_hash_line.
Print Assumptions C16_eq_hash_quad.
Print Assumptions C16_eq_hash_cubic.
Print Assumptions C16_eq_hash_arc.
Print Assumptions C16_eq_hash_path_partial.
Print Assumptions C16_eq_hash_path_refuted.
Print Assumptions C16_eq_hash_path_repaired.
Print Assumptions C16_start_setter_refuted.
Print Assumptions C16_end_setter_refuted.
Print Assumptions C16_setters_repaired_witness.
Print Assumptions C16_calc_lengths_tolerance_refuted.
Print Assumptions C16_calc_lengths_repaired_witness.
Print Assumptions C16_cubic_error_test_refuted.
Print Assumptions C16_cubic_repaired_witness.
Print Assumptions C16_cubic_min_depth_refuted.
Print Assumptions C16_arc_tolerance_refuted.
Print Assumptions C16_arc_repaired_witness.
Print Assumptions C16_slice_assign_empty_refuted.
Print Assumptions C16_slice_assign_repaired_witness.
Print Assumptions C16_setter_on_empty_refuted.
Print Assumptions C16_path_eq_hash_refuted.
Print Assumptions C16_path_eq_hash_repaired_witness.
Print Assumptions C16_reversed_copy_refuted.
Print Assumptions C16_reversed_stale_refuted.
Print Assumptions C16_reversed_repaired_witness.
Print Assumptions C16_demo_applies.
Print Assumptions C16_demo_nontrivial.
Print Assumptions C16_demo_repaired_applies.
Print Assumptions C16_reverse_is_rev.
