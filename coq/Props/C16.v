(* Props/C16.v — property C16: observations after any mutation history equal
   those of a freshly built object.  Only statements, `exact`, Print
   Assumptions and non-vacuity Examples.

   The model (Model/PathCache.v) mirrors the pinned svgpathtools/path.py.  It
   VIOLATES the property in the ways listed under "_refuted"; the positive
   theorems hold for every history, of any length, that avoids exactly those
   operations ([safe_hist], a boolean predicate evaluated along the history;
   [avoids] is a purely syntactic sufficient condition), hence "_partial". *)
From Coq Require Import ZArith QArith Qcanon List Bool.
From SVP Require Import Base.Num Model.PathCache Model.PathCacheExec
     Proofs.PathCache Proofs.PathCacheSeg Proofs.PathCacheRefute.
Import ListNotations.

Section C16.
  Context {pt pay tol V : Type}.
  Variable pt_eqb : pt -> pt -> bool.
  Variable pt_falsy : pt -> bool.
  Variable pay_eqb : pay -> pay -> bool.
  Variable tol_reuse : tol -> tol -> bool.
  Variable t_def : tol.
  Variable len_of : @sdata pt pay -> tol -> V.         (* uninterpreted segment length *)
  Variables vzero vone : V.
  Variables vadd vsub vdiv : V -> V -> V.
  Variables v_eqb v_geb : V -> V -> bool.
  Variable tol_eqb : tol -> tol -> bool.
  Hypothesis pt_eqb_eq : forall a b, pt_eqb a b = true -> a = b.
  Hypothesis pay_eqb_eq : forall a b, pay_eqb a b = true -> a = b.
  Hypothesis tol_eqb_eq : forall a b, tol_eqb a b = true -> a = b.

  Notation seg := (@seg pt pay tol V).
  Notation state := (@state pt pay tol V).
  Notation Inv := (Inv len_of vzero vadd vdiv v_eqb).
  Notation step := (step pt_eqb pay_eqb).
  Notation obs := (obs pt_eqb pt_falsy pay_eqb tol_reuse t_def len_of vzero vone vadd vsub vdiv v_eqb v_geb).
  Notation run := (run pt_eqb pt_falsy pay_eqb tol_reuse t_def len_of vzero vone vadd vsub vdiv v_eqb v_geb).
  Notation safe_q := (safe_q t_def tol_eqb).
  Notation safe_hist := (safe_hist pt_eqb pt_falsy pay_eqb tol_reuse t_def len_of vzero vone vadd vsub vdiv v_eqb v_geb tol_eqb).
  Notation safe_hist_ends := (safe_hist_ends pt_eqb pt_falsy pay_eqb tol_reuse t_def len_of vzero vone vadd vsub vdiv v_eqb v_geb).
  Notation avoids := (avoids t_def tol_eqb).

  (* Path( *l ) of segments that carry no cache satisfies the invariant *)
  Theorem C16_inv_init : forall t (l : list seg), forallb no_cache l = true -> Inv t (fresh l).
  Proof. intros t l H. apply inv_fresh. apply (forallb_no_cache tol_reuse t_def len_of vzero vadd vsub vdiv v_eqb v_geb t l H). Qed.

  (* every operation that does not trigger one of the defects keeps it *)
  Theorem C16_inv_step_partial : forall t (s : state) o,
      Inv t s -> safe_op s o = true -> Inv t (fst (step s o)).
  Proof. intros; eapply inv_step; eassumption. Qed.

  (* queries (they fill caches) keep it too, as long as one tolerance is used *)
  Theorem C16_inv_obs_partial : forall t (s : state) q,
      Inv t s -> safe_q t q = true -> Inv t (fst (obs s q)) /\ sds (fst (obs s q)) = sds s.
  Proof. intros; eapply inv_obs; eassumption. Qed.

  (* under the invariant every query is answered as by a new Path of fresh
     segments with the current control data, and as by a new Path of the same
     segment objects *)
  Theorem C16_fresh_equiv_partial : forall t (s : state) q,
      Inv t s -> safe_q t q = true ->
      snd (obs s q) = snd (obs (fresh_of s) q) /\ snd (obs s q) = snd (obs (fresh_same s) q).
  Proof.
    intros t s q H S. split; [eapply fresh_equiv|eapply fresh_same_equiv]; eassumption.
  Qed.

  (* histories of any length *)
  Theorem C16_reachable_partial : forall t evs (s : state),
      Inv t s -> safe_hist t s evs = true -> Inv t (run s evs).
  Proof. intros; eapply reachable; eassumption. Qed.
  Theorem C16_history_partial : forall t (l : list seg) evs q,
      forallb no_cache l = true -> safe_hist t (fresh l) evs = true -> safe_q t q = true ->
      snd (obs (run (fresh l) evs) q) = snd (obs (fresh_of (run (fresh l) evs)) q).
  Proof. intros; eapply history_fresh_equiv; eassumption. Qed.
  (* the same under the syntactic condition: no start/end setter, no
     `path[a:b] = []`, inserted segments fresh, a single tolerance *)
  Theorem C16_history_syntactic_partial : forall t (l : list seg) evs q,
      forallb no_cache l = true -> forallb (avoids t) evs = true -> safe_q t q = true ->
      snd (obs (run (fresh l) evs) q) = snd (obs (fresh_of (run (fresh l) evs)) q).
  Proof. intros; eapply history_fresh_equiv_syntactic; eassumption. Qed.

  (* start / end / len / == / hash / d / bbox need less: they stay
     fresh-equivalent through the setters, through mixed tolerances and through
     cached segments; only `path[a:b] = []` emptying the path and a setter on an
     empty path are excluded *)
  Theorem C16_ends_reachable_partial : forall evs (s : state),
      InvEnds s -> safe_hist_ends s evs = true -> InvEnds (run s evs).
  Proof. intros; eapply ends_reachable; eassumption. Qed.
  Theorem C16_ends_fresh_equiv_partial : forall (s : state) q,
      InvEnds s -> ends_q q = true -> snd (obs s q) = snd (obs (fresh_of s) q).
  Proof. intros; eapply ends_fresh_equiv; eassumption. Qed.

  (* segments: control points reassigned in any way, then length at the
     tolerance the cache is coherent for = what a fresh segment answers *)
  Theorem C16_segment_fresh_partial : forall t (g : seg) f,
      SegOK len_of t g ->
      snd (seg_length pt_eqb pay_eqb tol_reuse len_of (reassign f g) t)
      = snd (seg_length pt_eqb pay_eqb tol_reuse len_of (fresh_seg (f (sd g))) t).
  Proof.
    intros t g f H. apply (segment_fresh pt_eqb pay_eqb tol_reuse len_of pt_eqb_eq pay_eqb_eq t (reassign f g) H).
  Qed.
  Theorem C16_line_quad_fresh : forall (g : seg) t, skind (sd g) = KLine \/ skind (sd g) = KQuad ->
      seg_length pt_eqb pay_eqb tol_reuse len_of g t = (g, len_of (sd g) t).
  Proof. intros; eapply line_quad_fresh; eassumption. Qed.
  Theorem C16_cubic_fresh_partial :
      (forall c t d, tol_reuse c t = true -> len_of d c = len_of d t) ->
      forall f (g : seg) t, SegOwn len_of g -> skind (f (sd g)) = KCubic ->
      snd (seg_length pt_eqb pay_eqb tol_reuse len_of (reassign f g) t)
      = snd (seg_length pt_eqb pay_eqb tol_reuse len_of (fresh_seg (f (sd g))) t).
  Proof. intros; eapply cubic_fresh_if_reuse_sound; eassumption. Qed.
  Theorem C16_reversed_coherent_partial : forall rev_data v_truthy,
      (forall d t, len_of (rev_data d) t = len_of d t) ->
      forall g : seg, SegOwn len_of g -> (forall c, scache g = Some c -> ckey c = sd g) ->
      SegOwn len_of (fst (seg_reversed rev_data v_truthy g))
      /\ SegOwn len_of (snd (seg_reversed rev_data v_truthy g)).
  Proof. intros; eapply reversed_coherent_partial; eassumption. Qed.
End C16.

(* equal => equal hash, for the four segment classes (every hashed field is
   compared); for Path only when _closed agrees *)
Theorem C16_eq_hash_line : forall {F H} feq (fhash : F -> H) thash,
    (forall a b, feq a b = true -> fhash a = fhash b) ->
    forall a b, line_eq feq a b = true -> line_hash fhash thash a = line_hash fhash thash b.
Proof. intros; eapply line_eq_hash; eassumption. Qed.
Theorem C16_eq_hash_quad : forall {F H} feq (fhash : F -> H) thash,
    (forall a b, feq a b = true -> fhash a = fhash b) ->
    forall a b, quad_eq feq a b = true -> quad_hash fhash thash a = quad_hash fhash thash b.
Proof. intros; eapply quad_eq_hash; eassumption. Qed.
Theorem C16_eq_hash_cubic : forall {F H} feq (fhash : F -> H) thash,
    (forall a b, feq a b = true -> fhash a = fhash b) ->
    forall a b, cubic_eq feq a b = true -> cubic_hash fhash thash a = cubic_hash fhash thash b.
Proof. intros; eapply cubic_eq_hash; eassumption. Qed.
Theorem C16_eq_hash_arc : forall {F H} feq (fhash : F -> H) thash,
    (forall a b, feq a b = true -> fhash a = fhash b) ->
    forall a b, arc_eq feq a b = true -> arc_hash fhash thash a = arc_hash fhash thash b.
Proof. intros; eapply arc_eq_hash; eassumption. Qed.
Theorem C16_eq_hash_path_partial : forall {H S} (thash : list H -> H) seg_eq (seg_hash : S -> H) bhash,
    (forall a b, seg_eq a b = true -> seg_hash a = seg_hash b) ->
    forall a b, path_eq seg_eq a b = true -> p_closed a = p_closed b ->
                path_hash thash seg_hash bhash a = path_hash thash seg_hash bhash b.
Proof. intros; eapply path_eq_hash_partial; eassumption. Qed.
Theorem C16_eq_hash_path_refuted :
  exists a b : @pathr (@line Z), path_eq (line_eq Z.eqb) a b = true
                   /\ path_hash zt (line_hash (fun z => z) zt) zb a <> path_hash zt (line_hash (fun z => z) zt) zb b.
Proof. exact path_eq_hash_refuted. Qed.

(* ---- refutations: the faithful model of the pinned code, closed witnesses *)
Import Sym.
Theorem C16_start_setter_refuted :
  differs_same [L1; C1] [EQ (QLength t_default); EOp (SetStart z9)] (QLength t_default).
Proof. exact start_setter_stale_length. Qed.
Theorem C16_end_setter_refuted :
  differs_same [L1; C1] [EQ (QLength t_default); EOp (SetEnd z9)] (QLength t_default).
Proof. exact end_setter_stale_length. Qed.
Theorem C16_calc_lengths_tolerance_refuted :
  differs [L1; C1] [EQ (QLength loose)] (QLength t_default)
  /\ differs_same [L1; C1] [EQ (QLength t_default)] (QLength loose).
Proof. exact (conj calc_lengths_ignores_tolerance calc_lengths_ignores_tolerance_tight_first). Qed.
Theorem C16_cubic_error_test_refuted :
  snd (seg_length (fst (seg_length C1 loose)) t_default) = SLen (sd C1) loose
  /\ differs [C1] [EQ (QLength loose); EOp (Append L1)] (QLength t_default).
Proof. exact (conj cubic_cache_error_test_inverted_seg cubic_cache_error_test_inverted). Qed.
Theorem C16_cubic_min_depth_refuted :
  snd (seg_length (fst (seg_length C1 deep)) t_default) = SLen (sd C1) deep.
Proof. exact cubic_cache_deeper_min_depth_reused. Qed.
Theorem C16_arc_tolerance_refuted :
  (snd (seg_length (fst (seg_length A1 loose)) t_default) = SLen (sd A1) loose
   /\ snd (seg_length (fst (seg_length A1 t_default)) loose) = SLen (sd A1) t_default)
  /\ differs [A1] [EQ (QLength loose); EOp (Append L1)] (QLength t_default).
Proof. exact (conj arc_cache_ignores_tolerance_seg arc_cache_ignores_tolerance). Qed.
Theorem C16_slice_assign_empty_refuted :
  snd (step (fresh [L1; C1]) (SetSlice None None [])) = RErr IndexError
  /\ segs (fst (step (fresh [L1; C1]) (SetSlice None None []))) = []
  /\ differs [L1; C1] [EOp (SetSlice None None [])] QEnd.
Proof. exact slice_assign_empty_raises. Qed.
Theorem C16_setter_on_empty_refuted : differs [] [EOp (SetStart z9)] QStart.
Proof. exact setter_on_empty_path. Qed.
Theorem C16_path_eq_hash_refuted :
  let a := fresh [L1; L2] in
  let b := fresh_closed [L1; L2] true in
  ask a (QEq (sds b)) = VBool true /\ ask a QHash <> ask b QHash.
Proof. exact path_eq_hash_closed. Qed.
Theorem C16_reversed_copy_refuted :
  let g := fst (seg_length C1 t_default) in
  snd (seg_length (snd (reversed g)) t_default) = SLen (sd C1) t_default
  /\ snd (seg_length (clear_cache (snd (reversed g))) t_default) = SLen (rev_data (sd C1)) t_default.
Proof. exact reversed_copy_inherits_cache. Qed.
Theorem C16_reversed_stale_refuted :
  let g := with_start (fst (seg_length C1 t_default)) z9 in
  snd (seg_length (snd (reversed g)) t_default) = SLen (sd C1) t_default
  /\ snd (seg_length (clear_cache (snd (reversed g))) t_default) = SLen (rev_data (sd g)) t_default
  /\ sd g <> sd C1.
Proof. exact reversed_rekeys_stale_length. Qed.

(* ---- non-vacuity: the positive theorem applies to a history that uses every
   kind of operation (setters included, while nothing is cached) *)
Example C16_demo_applies :
  forall q, safe_q t_default tol_eqb t_default q = true ->
  ask (run (fresh [L1; C1]) demo) q = ask (fresh_of (run (fresh [L1; C1]) demo)) q.
Proof.
  intros q Hq.
  unfold ask, run, obs. eapply C16_history_partial;
    [exact P_eqb_eq|exact Pay_eqb_eq|exact tol_eqb_eq|reflexivity|exact demo_safe|exact Hq].
Qed.
Example C16_demo_nontrivial :
  length (segs (run (fresh [L1; C1]) demo)) = 1%nat
  /\ ask (run (fresh [L1; C1]) demo) (QLength t_default)
     = ask (fresh_of (run (fresh [L1; C1]) demo)) (QLength t_default).
Proof. exact demo_trace_nontrivial. Qed.
Example C16_reverse_is_rev :
  map sd (segs (fst (step (fresh [L1; C1; A1; Q1; L2]) Reverse))) = rev (map sd [L1; C1; A1; Q1; L2])
  /\ map sd (segs (fst (step (fresh [L1; C1; A1; Q1]) Reverse))) = rev (map sd [L1; C1; A1; Q1]).
Proof. exact reverse_is_rev. Qed.

Print Assumptions C16_inv_init.
Print Assumptions C16_inv_step_partial.
Print Assumptions C16_inv_obs_partial.
Print Assumptions C16_fresh_equiv_partial.
Print Assumptions C16_reachable_partial.
Print Assumptions C16_history_partial.
Print Assumptions C16_history_syntactic_partial.
Print Assumptions C16_ends_reachable_partial.
Print Assumptions C16_ends_fresh_equiv_partial.
Print Assumptions C16_segment_fresh_partial.
Print Assumptions C16_line_quad_fresh.
Print Assumptions C16_cubic_fresh_partial.
Print Assumptions C16_reversed_coherent_partial.
Print Assumptions C16_eq_hash_line.
Print Assumptions C16_eq_hash_quad.
Print Assumptions C16_eq_hash_cubic.
Print Assumptions C16_eq_hash_arc.
Print Assumptions C16_eq_hash_path_partial.
Print Assumptions C16_eq_hash_path_refuted.
Print Assumptions C16_start_setter_refuted.
Print Assumptions C16_end_setter_refuted.
Print Assumptions C16_calc_lengths_tolerance_refuted.
Print Assumptions C16_cubic_error_test_refuted.
Print Assumptions C16_cubic_min_depth_refuted.
Print Assumptions C16_arc_tolerance_refuted.
Print Assumptions C16_slice_assign_empty_refuted.
Print Assumptions C16_setter_on_empty_refuted.
Print Assumptions C16_path_eq_hash_refuted.
Print Assumptions C16_reversed_copy_refuted.
Print Assumptions C16_reversed_stale_refuted.
Print Assumptions C16_demo_applies.
